"""C15 -- HTTP dates are canonical, round-trip and do not depend on the local time zone.

The implementation is run in one persistent subprocess per (TZ, locale) configuration; the UTC
observation is what the Coq model is compared with (T2), all other configurations must give the very
same observation (the property's "whatever time zone, daylight-saving rules or locale")."""
import atexit
import json
import os
import subprocess
import sys

from harness.coqfmt import B, X

ID = 'C15'
COVERAGE_NOTE = 'the implementation runs in one worker subprocess per (TZ, locale) configuration; those are not measured, so the numbers below only reflect what the harness process itself imported and ran'
PROPS = 'Props/C15.v'
TABLES = ['DateT']
COQ_HEADER = 'From Httoop Require Import Lib.Bytes Lib.Variant Model.DateCal Gen.DateT Model.Date Corr.C15.'
COQ_CHECK = 'check'
CORR_VO = 'Corr/C15.vo'
RULE = ('T2: bytes(Date(t)), Date(t).gmtime, Date(tuple), Date(datetime), Date.parse / Date(text) of the IMF, RFC 850 and asctime renderings '
	'(reference writers typed from RFC 7231, independent of httoop) and of a mutated/malformed text stream, the six comparison operators and the '
	'conditional header elements, evaluated by the Gallina model (vm_compute, variant chosen by the T1 probe) and by the implementation under TZ=UTC; '
	'the implementation is additionally run under 5 further (TZ, locale) configurations and must give identical observations (oracle). '
	'Instants: range ends, year/month/leap-day boundaries, 2^31/2^32, every daylight-saving transition 1970-2037 of the five zones +-1 h, uniform. '
	'non-trivial = distinct (kind, UTC observation). Fourth wave (oracle on every case, model on the parts it covers): seq = Date objects built through every constructor path '
	'(int, float, bool, the three texts as bytes/str/Date.parse, tuple and struct_time with foreign wday/yday/isdst, gmtime, naive and zone-aware datetimes, copies) used several times '
	'(bytes, compose, str, gmtime, datetime, int, copy, re-parse, the six operators against objects, texts and integers) with neighbouring instants alive at once, each step = what a fresh object gives; '
	'var = every name of the month/day/zone tables of the parser (read at run time) in four letter cases in each form, the re-writings other senders use (one at a time and combined), '
	'runs of blanks of 11..65536 octets before, inside and after each form; hdr2 = every header field / parameter of the header registry that carries a Date, names in three cases, read twice, '
	'value replaced through five public ways; degenerate texts and operands; timestamps at decimal length limits. '
	'Fifth wave: seq also with objects built from subclasses of every argument type and of Date, zoneinfo-aware and fold datetimes, several objects from the very same argument object '
	'(argument unchanged), second objects built from the parts of the first, refused operations (20 non-dates) and run-time changes of TZ (tzset) and locale between the uses, '
	'process configuration observed read-only; typ = one instant handed to Date(), Date.parse(), headers[k] = and Headers() as bytes/str/bytearray/memoryview/subclass/__str__ object/'
	'dict/OrderedDict/list/tuple/generator/iterator/map/chain (the instant, or a refusal of the type); sort = sorted / reverse / min / max / index / count / bisect of lists of Dates '
	'(unsorted, duplicates, reverse-sorted, all equal) = those of the instants; hdrs = several date-valued fields among others through eight input paths, read in every order, a refused '
	'value first and replaced; now = Date() / prepare() stamp the present instant under zones switched at run time; rt also for every (month, day), every hour / minute / second value, '
	'every two-digit year, every century year, 2^k and 2^k+-1 seconds / minutes / hours / days; cmp of instants one binary digit apart; blank runs of 2^k, 2^k+-1 for k = 9..16')
EXHAUSTIVE = {'quick': False, 'thorough': False}
TRUSTED = ['harness/tables/date.py (T1: weekday/month tables, separators and widths of Date.__compose recovered from probe instants; email._parseaddr tables; '
	'str.isspace/isdigit/lower/int classes for U+0000-U+00FF; conversion-variant probe under TZ=Europe/Berlin)',
	'harness/props/C15.py + coq/Corr/C15.v (T2; observations are integers, octet strings and a 4-value error enum)',
	'coq/Model/DateCal.v models time.gmtime / calendar.timegm, coq/Model/Date.v models email.utils.parsedate_tz, str.split/lower/isdigit and int() '
	'(validated against CPython by the correspondence run, not verified); the strptime fallbacks of Date.parse are unreachable for every text '
	'parsedate_tz rejects (validated by the malformed stream, not proved)',
	'the C library zone database (zoneinfo) for the six zones; available locales in this image: C, C.UTF-8, POSIX only']
ASSUMPTIONS = ['timestamps are integers with |t| < 2^53 (Date stores a float)',
	'RFC 850 carries a two-digit year: its round trip is claimed for 1970-2068 only (POSIX pivot applied by CPython); C15_rfc850_ambiguous shows no reader can do better',
	'process zone and locale are runtime configuration outside the model: independence is a theorem of the model (the repaired conversion does not mention the zone) '
	'and is observed, not proved, for the implementation under the six zones']

MAX_T = 253402300799
MAX_T_850 = 3124223999
CONFIGS = [('UTC', 'C.UTF-8'), ('Europe/Berlin', 'C.UTF-8'), ('America/New_York', 'C'), ('Asia/Kolkata', 'POSIX'),
	('Australia/Lord_Howe', 'C.UTF-8'), ('Pacific/Apia', 'C')]
# tm_gmtoff at 2000-07-01 and 2012-01-11: makes sure the zone really is in effect in the subprocess
EXPECT_GMTOFF = {'UTC': [0, 0], 'Europe/Berlin': [7200, 3600], 'America/New_York': [-14400, -18000], 'Asia/Kolkata': [19800, 19800],
	'Australia/Lord_Howe': [37800, 39600], 'Pacific/Apia': [-39600, 50400]}

D3 = {'k': 'rt', 't': 962409600}
WITNESSES = [('D3-mktime-local-time', D3)]

# ------------------------------------------------------------------ reference (RFC 7231 section 7.1.1.1), integer arithmetic only
DAY_NAME = ['Mon', 'Tue', 'Wed', 'Thu', 'Fri', 'Sat', 'Sun']
DAY_NAME_L = ['Monday', 'Tuesday', 'Wednesday', 'Thursday', 'Friday', 'Saturday', 'Sunday']
MONTH = ['Jan', 'Feb', 'Mar', 'Apr', 'May', 'Jun', 'Jul', 'Aug', 'Sep', 'Oct', 'Nov', 'Dec']


def is_leap(y):
	return y % 4 == 0 and (y % 100 != 0 or y % 400 == 0)


def days_before_year(y):
	"""days from 0001-01-01 to y-01-01 (the textbook count of leap years, not Hinnant's algorithm)"""
	p = y - 1
	return p * 365 + p // 4 - p // 100 + p // 400


MDAYS = [31, 28, 31, 30, 31, 30, 31, 31, 30, 31, 30, 31]
EPOCH_ORD = days_before_year(1970)


def ref_days(y, m, d):
	n = days_before_year(y) - EPOCH_ORD
	for i in range(m - 1):
		n += MDAYS[i] + (1 if i == 1 and is_leap(y) else 0)
	return n + d - 1


def ref_timegm(y, m, d, hh, mi, ss):
	return ((ref_days(y, m, d) * 24 + hh) * 60 + mi) * 60 + ss


def ref_civil(t):
	"""(y, m, d, hh, mi, ss, wday) by walking years and months: deliberately naive"""
	days, r = divmod(t, 86400)
	wd = (days + 3) % 7
	y = 1970 + days // 366
	while ref_days(y + 1, 1, 1) <= days:
		y += 1
	while ref_days(y, 1, 1) > days:
		y -= 1
	rem = days - ref_days(y, 1, 1)
	m = 1
	while True:
		n = MDAYS[m - 1] + (1 if m == 2 and is_leap(y) else 0)
		if rem < n:
			break
		rem -= n
		m += 1
	return (y, m, rem + 1, r // 3600, r % 3600 // 60, r % 60, wd)


def ref_imf(t):
	y, m, d, hh, mi, ss, wd = ref_civil(t)
	return ('%s, %02d %s %04d %02d:%02d:%02d GMT' % (DAY_NAME[wd], d, MONTH[m - 1], y, hh, mi, ss)).encode('ascii')


def ref_850(t):
	y, m, d, hh, mi, ss, wd = ref_civil(t)
	return ('%s, %02d-%s-%02d %02d:%02d:%02d GMT' % (DAY_NAME_L[wd], d, MONTH[m - 1], y % 100, hh, mi, ss)).encode('ascii')


def ref_asc(t):
	y, m, d, hh, mi, ss, wd = ref_civil(t)
	return ('%s %s %2d %02d:%02d:%02d %d' % (DAY_NAME[wd], MONTH[m - 1], d, hh, mi, ss, y)).encode('ascii')


# ------------------------------------------------------------------ the implementation, run inside a worker process
def _R(fn):
	from httoop.exceptions import InvalidDate
	try:
		return int(fn())
	except InvalidDate:
		return 'Invalid'
	except OverflowError:
		return 'OverflowError'
	except ValueError:
		return 'ValueError'
	except Exception as exc:
		return 'escape:%s' % type(exc).__name__


def _mk(spec):
	"""operand of a comparison: ['int', t] -> Date(t); ['float', t, frac] -> Date(t + frac); ['dtext', hex] -> Date(bytes); ['text', hex] -> raw bytes; ['none'] -> None; ['rawint', t] -> t"""
	from httoop.date import Date
	if spec[0] == 'int':
		return Date(spec[1])
	if spec[0] == 'dtext':
		return Date(bytes.fromhex(spec[1]))
	if spec[0] == 'text':
		return bytes.fromhex(spec[1])
	if spec[0] == 'rawint':
		return spec[1]
	if spec[0] == 'float':
		return Date(spec[1] + spec[2])  # a timestamp with a fractional part: HTTP dates have one-second resolution
	return None


def _RB(f):
	try:
		return f().hex()
	except Exception as exc:
		return 'exc:' + type(exc).__name__


def impl(c):
	import datetime
	from httoop.date import Date
	from httoop.exceptions import InvalidDate
	k = c['k']
	if k == 'rt':
		t = c['t']
		comp = bytes(Date(t))
		return {'c': comp.hex(), 'p': [_R(lambda: Date.parse(comp)), _R(lambda: Date.parse(ref_850(t))), _R(lambda: Date.parse(ref_asc(t))),
			_R(lambda: Date(comp.decode('ascii'))), _R(lambda: Date(Date(comp)))],
			# serialising a Date built from each textual form must give the canonical IMF-fixdate again
			'cc': [_RB(lambda: bytes(Date(comp))), _RB(lambda: bytes(Date(ref_850(t)))), _RB(lambda: bytes(Date(ref_asc(t))))]}
	if k == 'compose':
		try:
			return {'c': bytes(Date(c['t'])).hex()}
		except (OverflowError, OSError, ValueError) as exc:
			return {'c': None, 'err': type(exc).__name__}
	if k == 'gmtime':
		d = Date(c['t'])
		g = d.gmtime
		try:
			dt = d.datetime
			dt = [dt.year, dt.month, dt.day, dt.hour, dt.minute, dt.second, dt.weekday()]
		except (ValueError, OverflowError, OSError):
			dt = None  # datetime covers years 1..9999 only
		return {'g': [g.tm_year, g.tm_mon, g.tm_mday, g.tm_hour, g.tm_min, g.tm_sec, g.tm_wday], 'dt': dt}
	if k == 'tuple':
		return {'r': _R(lambda: Date(tuple(c['f']) + (0, 1, 0)))}
	if k == 'datetime':
		dt = datetime.datetime(1970, 1, 1) + datetime.timedelta(seconds=c['t'])
		return {'r': _R(lambda: Date(dt))}
	if k == 'parse':
		text = bytes.fromhex(c['d'])
		return {'r': _R(lambda: Date.parse(text)), 'r2': _R(lambda: Date(text))}
	if k == 'cmp':
		try:
			a, b = _mk(c['a']), _mk(c['b'])
			return {'r': [bool(a < b), bool(a > b), bool(a == b), bool(a != b), bool(a <= b), bool(a >= b)]}
		except (InvalidDate, ValueError, OverflowError) as exc:
			return {'r': None, 'err': type(exc).__name__}
	if k == 'hdr':
		from httoop import Headers
		h = Headers()
		h.parse(c['name'].encode('ascii') + b': ' + bytes.fromhex(c['d']))
		out = {'r': _R(lambda: h.element(c['name']))}
		if isinstance(out['r'], int) and 't' in c:
			e = h.element(c['name'])
			out['eq'] = [bool(e == Date(c['t'])), bool(e == c['t']), bool(e == ref_imf(c['t'])), bool(e == Date(c['t'] + 1))]
		return out
	if k in ('seq', 'var', 'hdr2'):
		return _impl4(c)
	if k in ('typ', 'sort', 'hdrs', 'now'):
		return _impl5(c)
	raise ValueError(k)


# ---- fourth-wave kinds (classes of DESIGN.md section 8): every observation is stated against the reference writers above
WRITERS = {'imf': ref_imf, '850': ref_850, 'asc': ref_asc}


def _tmf(g):
	return [g.tm_year, g.tm_mon, g.tm_mday, g.tm_hour, g.tm_min, g.tm_sec, g.tm_wday]


_SUB = {}


def _sub():
	"""subclasses of the public argument types and of Date itself (fifth wave, class 11 / 13): defined once per worker"""
	if _SUB:
		return _SUB
	import collections
	import datetime
	from httoop.date import Date

	class SubDate(Date):
		pass

	class SlotDate(Date):
		__slots__ = ()

	class I(int):
		pass

	class F(float):
		pass

	class Bs(bytes):
		pass

	class S(str):
		pass

	class DT(datetime.datetime):
		pass
	_SUB.update(SubDate=SubDate, SlotDate=SlotDate, I=I, F=F, Bs=Bs, S=S, DT=DT, NT=collections.namedtuple('NT', 'year mon mday hour min sec wday yday isdst'))
	return _SUB


def _mkarg(spec):
	"""the argument object from which the Date of instant spec[1] is built (every constructor path of Date.__init__ and every accepted argument type)"""
	import datetime
	import time
	from httoop.date import Date
	kind, t = spec[0], spec[1]
	if kind in ('int', 'sub'):
		return t
	if kind == 'float':
		return t + spec[2]
	if kind == 'bool':
		return bool(t)
	if kind in WRITERS:
		return WRITERS[kind](t)
	if kind == 'str':
		return WRITERS[spec[2]](t).decode('ascii')
	if kind in ('parse', 'subparse'):
		return WRITERS[spec[2]](t)
	if kind == 'tuple':
		return tuple(ref_civil(t)[:6]) + tuple(spec[2])
	if kind == 'struct':
		return time.struct_time(tuple(ref_civil(t)[:6]) + tuple(spec[2]))
	if kind == 'gm':
		return time.gmtime(t)
	if kind == 'dt':
		return datetime.datetime(1970, 1, 1) + datetime.timedelta(seconds=t, microseconds=spec[2])
	if kind == 'dtaware':
		dt = datetime.datetime(1970, 1, 1, tzinfo=datetime.timezone.utc) + datetime.timedelta(seconds=t, microseconds=spec[3])
		return dt.astimezone(datetime.timezone(datetime.timedelta(minutes=spec[2])))
	if kind == 'copy':
		return Date(t)
	# fifth wave: argument TYPE variants
	S = _sub()
	if kind == 'isub':
		return S['I'](t)
	if kind == 'fsub':
		return S['F'](t + spec[2])
	if kind == 'bsub':
		return S['Bs'](WRITERS[spec[2]](t))
	if kind == 'ssub':
		return S['S'](WRITERS[spec[2]](t).decode('ascii'))
	if kind == 'nt':
		return S['NT'](*(tuple(ref_civil(t)[:6]) + tuple(spec[2])))
	if kind == 'tupn':  # a time tuple of 6, 7 or 8 members (calendar.timegm reads six)
		return (tuple(ref_civil(t)[:6]) + (0, 1))[:spec[2]]
	if kind == 'dtsub':
		y, m, d, hh, mi, ss, _ = ref_civil(t)
		return S['DT'](y, m, d, hh, mi, ss, spec[2])
	if kind == 'dtzi':  # aware datetime of a zone with daylight-saving rules (fold is set by fromtimestamp in the repeated hour)
		import zoneinfo
		return datetime.datetime.fromtimestamp(t, zoneinfo.ZoneInfo(spec[2]))
	if kind == 'dtfold':  # naive datetime (UTC by the documented convention of Date) whose fold attribute is set
		return (datetime.datetime(1970, 1, 1) + datetime.timedelta(seconds=t)).replace(fold=1)
	if kind == 'subcopy':
		return S[spec[2]](t)
	raise ValueError(kind)


def _mkobj(spec, arg=None):
	"""a Date of instant spec[1] built the way spec[0] says"""
	from httoop.date import Date
	if arg is None:
		arg = _mkarg(spec)
	kind = spec[0]
	if kind == 'parse':
		return Date.parse(arg)
	if kind == 'sub':
		return _sub()[spec[2]](arg)
	if kind == 'subparse':
		return _sub()[spec[3]].parse(arg)
	return Date(arg)


def _same(a, b):
	"""is the argument object a still what a newly built one (b) is"""
	import datetime
	import time
	from httoop.date import Date
	if type(a) is not type(b):
		return False
	if isinstance(a, Date):
		return float(a) == float(b)
	if isinstance(a, datetime.datetime):
		return a == b and a.utcoffset() == b.utcoffset() and a.fold == b.fold and a.microsecond == b.microsecond and a.tzinfo == b.tzinfo
	if isinstance(a, time.struct_time):
		return tuple(a) == tuple(b) and a.tm_zone == b.tm_zone and a.tm_gmtoff == b.tm_gmtoff
	if isinstance(a, float):
		return repr(a) == repr(b)
	return a == b


def _six(a, b):
	return [bool(a < b), bool(a > b), bool(a == b), bool(a != b), bool(a <= b), bool(a >= b)]


# operations every correct reader of HTTP dates refuses (class 12): none of the arguments is a date in any of the three forms or a supported argument type
REFUSED = [('parse', b'junk'), ('parse', b''), ('parse', b'Sun, 32 Foo 1994 08:49:37 GMT'), ('parse', b'Sun, 06 Nov 1994'), ('parse', b'08:49:37 GMT'), ('parse', None),
	('ctor', b'junk'), ('ctor', 'not a date'), ('ctor', b'Sat, 01 Jan 10000 00:00:00 GMT'), ('ctor', 'Sunday, 06-Nov-94'), ('ctor', (1, 2)), ('ctor', ('a', 'b', 'c', 'd', 'e', 'f', 0, 1, 0)),
	('ctor', [1994, 11, 6, 8, 49, 37, 6, 310, 0]), ('ctor', 10 ** 400), ('ctor', object), ('ctor', {}), ('ctor', 1j), ('parse', 784111777), ('parse', b'\xff\xfe'), ('ctor', '\u2468 Nov 1994 08:49:37 GMT')]


def _cfg():
	"""the process configuration a Date operation has no business changing (read-only observer)"""
	import locale
	import time
	return [locale.setlocale(locale.LC_TIME), locale.setlocale(locale.LC_ALL), os.environ.get('TZ'), list(time.tzname), time.timezone, time.altzone, time.daylight]


_BASE = {}


def _basecfg():
	"""the configuration the process was started with (taken once, before the first case: a change made by an earlier case must not go unnoticed)"""
	if 'cfg' not in _BASE:
		_BASE['cfg'] = _cfg()
	return _BASE['cfg']


def _gmtoff():
	import time
	return [time.localtime(962409600).tm_gmtoff, time.localtime(1326240000).tm_gmtoff]


def _step5(objs, specs, st, env):
	"""fifth-wave uses of the object objs[st[0]]"""
	import locale
	import time
	from httoop.date import Date
	d = objs[st[0]]
	op = st[1]
	if op == 'A':  # aliasing: a second Date built from a part of this one, used; both must be what fresh objects are
		part = st[2]
		x = d if part == 'self' else d.datetime if part == 'dt' else d.gmtime if part == 'gm' else d.compose() if part == 'comp' else str(d) if part == 'str' else int(d) if part == 'int' else float(d)
		e = Date(x)
		return [bytes(e).hex(), int(e), _tmf(e.gmtime), bytes(d).hex(), int(d), _tmf(d.gmtime)]
	if op == 'R':  # a refused operation, called through the live object; the following steps go on using the objects
		how, arg = REFUSED[st[2]]
		if arg is object:
			arg = object()
		try:
			r = d.parse(arg) if how == 'parse' else type(d)(arg)
		except Exception:
			return 'refused'
		return 'accepted:%r' % (_guard(lambda: int(r)),)
	if op == 'L':
		return _cfg() == env['cfg']
	if op == 'Z':  # the zone of the process changes during the life of the objects
		os.environ['TZ'] = st[2]
		time.tzset()
		env['cfg'] = _cfg()
		return _gmtoff()
	if op == 'LC':
		locale.setlocale(locale.LC_ALL, st[2])
		env['cfg'] = _cfg()
		return 'ok'
	if op == 'arg':  # the argument object the Date was built from is unchanged
		return _same(env['args'][st[0]], _mkarg(specs[st[0]]))
	if op == 'F':
		return ['{}'.format(d), '%s' % (d,), format(d, '>31'), (b'%b' % (d,)).hex()]
	if op == 'T':
		return type(d).__name__
	if op == 'J':  # operands that are no dates: whatever the answers are (observation (e) of the report), the object must not change by being asked
		for x in (b'junk', None, object(), b'', 'Sun, 32 Foo 1994 08:49:37 GMT', 10 ** 400, [], b'Sat, 01 Jan 10000 00:00:00 GMT'):
			for f in (lambda: d == x, lambda: d != x, lambda: d < x, lambda: d > x, lambda: d <= x, lambda: d >= x):
				try:
					f()
				except Exception:
					pass
		return 'asked'
	raise ValueError(op)


def _step(objs, specs, st, env=None):
	from httoop.date import Date
	d = objs[st[0]]
	op = st[1]
	if op in ('A', 'R', 'L', 'Z', 'LC', 'arg', 'F', 'T', 'J'):
		return _step5(objs, specs, st, env)
	if op == 'b':
		return bytes(d).hex()
	if op == 'c':
		return d.compose().hex()
	if op == 'u':
		return str(d)
	if op == 'g':
		return _tmf(d.gmtime)
	if op == 'd':
		dt = d.datetime
		return [dt.year, dt.month, dt.day, dt.hour, dt.minute, dt.second, dt.weekday()]
	if op == 'i':
		return int(d)
	if op == 'y':
		e = Date(d)
		return [bytes(e).hex(), int(e), bytes(d).hex()]
	if op == 'p':
		return int(Date.parse(bytes(d)))
	if op == 'P':  # a fresh parse of another rendering of the same instant (class-level state)
		return int(Date.parse(WRITERS[st[2]](specs[st[0]][1])))
	if op == 'N':  # a fresh Date of the same instant, composed (class-level state)
		return bytes(Date(specs[st[0]][1])).hex()
	if op == 'cmp':
		return _six(d, objs[st[2]])
	if op == 'cmpt':
		return _six(d, WRITERS[st[3]](specs[st[2]][1]))
	if op == 'cmpi':
		return _six(d, specs[st[2]][1])
	raise ValueError(op)


def _guard(f):
	try:
		return f()
	except Exception as exc:
		return 'exc:%s' % type(exc).__name__


def _impl4(c):
	from httoop.date import Date
	k = c['k']
	if k == 'seq':
		import locale
		import time
		tz0, lc0 = os.environ.get('TZ'), locale.setlocale(locale.LC_ALL)
		env = {'cfg': _basecfg(), 'args': []}
		try:
			try:
				memo = {}
				for s in c['objs']:
					key = json.dumps(s)
					# class 10: objects of one case whose specification is identical are built from the very same argument object
					arg = memo[key] if c.get('share') and key in memo else _mkarg(s)
					memo[key] = arg
					env['args'].append(arg)
				objs = [_mkobj(s, a) for s, a in zip(c['objs'], env['args'])]
			except Exception as exc:
				return {'s': None, 'err': 'constructor: %s' % type(exc).__name__}
			return {'s': [_guard(lambda: _step(objs, c['objs'], st, env)) for st in c['steps']]}
		finally:
			if os.environ.get('TZ') != tz0:
				os.environ['TZ'] = tz0
				time.tzset()
			if locale.setlocale(locale.LC_ALL) != lc0:
				locale.setlocale(locale.LC_ALL, lc0)
	if k == 'var':
		text = bytes.fromhex(c['d']) if 'd' in c else _pad_text(c)
		out = {'r': _R(lambda: Date.parse(text)), 'r2': _R(lambda: Date(text)), 'cc': _RB(lambda: bytes(Date(text)))}
		if all(x < 0x80 for x in text):
			out['r3'] = _R(lambda: Date(text.decode('ascii')))
		return out
	if k == 'hdr2':
		return {'s': _guard(lambda: _hdr2(c))}
	raise ValueError(k)


def _pad_text(c):
	"""long texts are not shipped through the pipe: tokens + the position and length of the run of blanks"""
	toks = c['toks']
	gaps = [' '] * (len(toks) - 1)
	lead = trail = ''
	run = c['ch'] * c['n']
	if c['pos'] == 'lead':
		lead = run
	elif c['pos'] == 'trail':
		trail = run
	else:
		gaps[c['pos']] = run
	return (lead + ''.join(a + b for a, b in zip(toks, gaps + [''])) + trail).encode('ascii')


def _hdr2(c):
	"""date-valued header elements and parameters: read twice, replace the value through the public ways, read again; the first element must keep its instant"""
	from httoop import Headers
	name = c['name'].encode('ascii')
	v1, v2 = bytes.fromhex(c['v1']), bytes.fromhex(c['v2'])
	mode = c['mode']
	out = []
	h = Headers()
	if mode == 'plain':
		h.parse(name + b': ' + v1)
		e = h.element(c['name'])
		out.append(int(e))
		out.append(int(h.element(c['name'])))
		out.append(bool(e == c['t']))
		out.append(bool(e == c['t2']) if c['t2'] != c['t'] else False)
		how = c['how']
		if how == 'setitem':
			h[c['name']] = v2
		elif how == 'set':
			h.set({c['name']: v2.decode('ascii')})
		elif how == 'delparse':
			del h[c['name']]
			h.parse(name + b': ' + v2)
		elif how == 'popsetdefault':
			h.pop(c['name'])
			h.setdefault(c['name'], v2)
		else:
			h.clear()
			h.update({c['name']: v2})
		e2 = h.element(c['name'])
		out.append(int(e2))
		out.append(int(e))
		out.append(int(Headers({c['name']: v1}).element(c['name'])))
		if c.get('alias'):  # class 10: a second Headers built from the first / from the caller's mapping, changed: the first and the mapping stay
			v3 = bytes.fromhex(c['v3'])
			h2 = Headers(h)
			h2[c['name']] = v3
			out.append([int(h2.element(c['name'])), int(h.element(c['name'])), int(e2)])
			src = {c['name']: v1}
			h3, h4 = Headers(src), Headers(src)
			h3[c['name']] = v3
			e4 = h4.element(c['name'])
			del h3[c['name']]
			out.append([int(h4.element(c['name'])), int(e4), src == {c['name']: v1}])
		return out
	pnames = ['creation-date', 'modification-date'] if mode == 'cd' else ['expires']
	attrs = ['creation_date', 'modification_date'] if mode == 'cd' else ['expires']
	q = (lambda v: b'"' + v + b'"') if c.get('quoted', True) else (lambda v: v)
	pn = [p.upper() if c.get('pupper') else p for p in pnames]
	if mode == 'cd':
		h.parse(name + b': attachment; filename=x; ' + pn[0].encode() + b'=' + q(v1) + b'; ' + pn[1].encode() + b'=' + q(v2))
	else:
		h.parse(name + b': a=b; ' + pn[0].encode() + b'=' + q(v1) + b'; path=/')
	e = h.element(c['name'])
	for a in attrs:
		out.append(int(getattr(e, a)))
	for a in attrs:
		out.append(int(getattr(e, a)))
	e.params[pnames[0]] = v2.decode('ascii')  # the value replaced on the live element: the property must follow
	out.append(int(getattr(e, attrs[0])))
	out.append(int(getattr(h.element(c['name']), attrs[0])))
	if c.get('alias'):  # class 10: a second element built from the parts of the first (and two from one caller's mapping), changed: the first stays
		v3 = bytes.fromhex(c['v3']).decode('ascii')
		mk = (lambda p: type(e)(e.value, p)) if mode == 'cd' else (lambda p: type(e)(e.cookie_name, e.cookie_value, p))
		e2 = mk(e.params)
		e2.params[pnames[0]] = v3
		out.append([int(getattr(e2, attrs[0])), int(getattr(e, attrs[0]))])
		src = {pnames[0]: v1.decode('ascii')}
		e3, e4 = mk(src), mk(src)
		e3.params[pnames[0]] = v3
		out.append([int(getattr(e3, attrs[0])), int(getattr(e4, attrs[0])), src == {pnames[0]: v1.decode('ascii')}])
		e3.params.clear()
		out.append(int(getattr(e4, attrs[0])))
	return out


# ---- fifth-wave kinds (classes 10-17 of DESIGN.md section 8)
def _T(f):
	"""an instant, or the refusal of the argument TYPE (TypeError / AttributeError), or any other outcome by name"""
	try:
		return int(f())
	except (TypeError, AttributeError):
		return 'type-refusal'
	except Exception as exc:
		return 'exc:%s' % type(exc).__name__


def _typ(c):
	"""one instant in one form handed to every public entry point as every argument type"""
	import collections
	import datetime
	import decimal
	import fractions
	import itertools
	from httoop import Headers
	from httoop.date import Date
	S = _sub()
	t, t2 = c['t'], c['t2']
	text = WRITERS[c['f']](t)
	u = text.decode('ascii')
	civ = tuple(ref_civil(t)[:6]) + (0, 1, 0)
	name = c['name']
	pairs = [('Host', b'example.org'), (name, text), ('ETag', b'"x"')]

	class WStr(object):
		def __str__(self):
			return u

		def __bytes__(self):
			return text
	el = lambda h: h.element(name)  # noqa: E731

	def hset(v):
		h = Headers()
		h[name] = v
		return el(h)
	V = {
		'D:bytes': lambda: Date(text), 'D:str': lambda: Date(u), 'D:bsub': lambda: Date(S['Bs'](text)), 'D:ssub': lambda: Date(S['S'](u)),
		'D:bytearray': lambda: Date(bytearray(text)), 'D:memoryview': lambda: Date(memoryview(text)), 'D:wstr': lambda: Date(WStr()),
		'P:bytes': lambda: Date.parse(text), 'P:bsub': lambda: Date.parse(S['Bs'](text)), 'P:bytearray': lambda: Date.parse(bytearray(text)),
		'P:memoryview': lambda: Date.parse(memoryview(text)), 'P:str': lambda: Date.parse(u), 'P:ssub': lambda: Date.parse(S['S'](u)), 'P:wstr': lambda: Date.parse(WStr()),
		'D:int': lambda: Date(t), 'D:float': lambda: Date(float(t)), 'D:isub': lambda: Date(S['I'](t)), 'D:fsub': lambda: Date(S['F'](t)),
		'D:Fraction': lambda: Date(fractions.Fraction(t)), 'D:Decimal': lambda: Date(decimal.Decimal(t)),
		'D:tuple': lambda: Date(civ), 'D:nt': lambda: Date(S['NT'](*civ)), 'D:list': lambda: Date(list(civ)), 'D:gen': lambda: Date(x for x in civ), 'D:iter': lambda: Date(iter(civ)),
		'D:map': lambda: Date(map(int, civ)), 'D:chain': lambda: Date(itertools.chain(civ[:3], civ[3:])),
		'H:bytes': lambda: hset(text), 'H:str': lambda: hset(u), 'H:bsub': lambda: hset(S['Bs'](text)), 'H:ssub': lambda: hset(S['S'](u)),
		'H:bytearray': lambda: hset(bytearray(text)), 'H:memoryview': lambda: hset(memoryview(text)), 'H:Date': lambda: hset(Date(t)), 'H:wstr': lambda: hset(WStr()),
		'HD:dict': lambda: el(Headers(dict(pairs))), 'HD:odict': lambda: el(Headers(collections.OrderedDict(pairs))), 'HD:list': lambda: el(Headers(list(pairs))),
		'HD:tuple': lambda: el(Headers(tuple(pairs))), 'HD:hdrs': lambda: el(Headers(Headers(pairs))), 'HD:gen': lambda: el(Headers(p for p in pairs)),
		'HD:iter': lambda: el(Headers(iter(pairs))), 'HD:items': lambda: el(Headers(dict(pairs).items())), 'HD:map': lambda: el(Headers(map(tuple, pairs))),
		'HD:chain': lambda: el(Headers(itertools.chain(pairs[:1], pairs[1:]))), 'HD:strvals': lambda: el(Headers([(k, v.decode('ascii')) for k, v in pairs])),
		'HD:update': lambda: el(_upd(Headers(), (p for p in pairs))), 'HD:updatedict': lambda: el(_upd(Headers(), dict(pairs))),
	}
	out = {}
	for key in c['v']:
		if key.startswith('eq:') or key.startswith('req:'):
			op = {'bytes': text, 'str': u, 'bsub': S['Bs'](text), 'ssub': S['S'](u)}[key.split(':')[1]]
			out[key] = _guard(lambda: _six(Date(t2), op) if key.startswith('eq:') else _six(op, Date(t2)))
		else:
			out[key] = _T(V[key])
	return out


def _upd(h, x):
	h.update(x)
	return h


def _sortcase(c):
	"""ORDER (class 14): sorting, extremes, searching of lists of Date objects must be those of the instants"""
	import bisect
	objs = [_mkobj(s) for s in c['objs']]
	idx = dict((id(o), i) for i, o in enumerate(objs))
	ix = lambda lst: [idx[id(o)] for o in lst]  # noqa: E731
	pk = c['probe']
	probe = _mkobj(pk[1]) if pk[0] == 'obj' else WRITERS[pk[2]](pk[1][1]) if pk[0] == 'bytes' else WRITERS[pk[2]](pk[1][1]).decode('ascii') if pk[0] == 'str' else pk[1][1]
	out = {}
	out['sorted'] = _guard(lambda: ix(sorted(objs)))
	out['rsorted'] = _guard(lambda: ix(sorted(objs, reverse=True)))
	lst = list(objs)
	out['sort'] = _guard(lambda: (lst.sort(), ix(lst))[1])
	out['min'] = _guard(lambda: idx[id(min(objs))])
	out['max'] = _guard(lambda: idx[id(max(objs))])
	out['index'] = _guard(lambda: objs.index(probe) if probe in objs else -1)
	out['count'] = _guard(lambda: objs.count(probe))
	so = sorted(objs, key=lambda o: c['objs'][idx[id(o)]][1])  # sorted by the instants known to the harness
	out['bisect'] = _guard(lambda: [bisect.bisect_left(so, probe), bisect.bisect_right(so, probe)])
	out['after'] = _guard(lambda: [int(o) for o in objs])
	return out


RAWDATE = ('Date', 'Expires', 'If-Range', 'Retry-After')


def _hdrs(c):
	"""feature interaction (class 15): several date-valued fields among other fields, fed through every input path, read in every order; a refused field first (class 12)"""
	import collections
	from httoop import Headers
	from httoop.date import Date
	fields = [(n, bytes.fromhex(v)) for n, v in c['fields']]
	mode = c['in']
	h = Headers()
	if mode == 'block':
		h.parse(b'\r\n'.join(n.encode('ascii') + b': ' + v for n, v in fields))
	elif mode == 'lines':
		for n, v in fields:
			h.parse(n.encode('ascii') + b': ' + v)
	elif mode == 'dict':
		h = Headers(dict(fields))
	elif mode == 'odict':
		h = Headers(collections.OrderedDict(fields))
	elif mode == 'pairs':
		h = Headers(fields)
	elif mode == 'gen':
		h = Headers((n, v) for n, v in fields)
	elif mode == 'setitem':
		for n, v in fields:
			h[n] = v
	elif mode == 'update':
		h.update(collections.OrderedDict((n, v.decode('ascii')) for n, v in fields))
	else:
		raise ValueError(mode)
	out = []
	for st in c['reads']:
		op, n = st[0], st[1]
		if op == 'el':
			out.append(_guard(lambda: int(h.element(n))))
		elif op == 'bad':  # must be refused; nothing else may change
			try:
				out.append('accepted:%r' % (int(h.element(n)),))
			except Exception:
				out.append('refused')
		elif op == 'raw':
			out.append(_guard(lambda: [int(Date(h[n])), int(Date(h.element(n).value)), int(Date.parse(h[n].encode('ascii')))]))
		elif op == 'eq':
			out.append(_guard(lambda: [bool(h.element(n) == h.element(st[2])), bool(h.element(n) != h.element(st[2])), bool(h.element(n) == bytes.fromhex(st[3])), bool(h.element(n) == st[4]), bool(h.element(n) == Date(st[4]))]))
		elif op == 'set':
			out.append(_guard(lambda: (h.__setitem__(n, bytes.fromhex(st[2])), 'ok')[1]))
		elif op == 'other':  # a field that is not a date stays what it was
			out.append(_guard(lambda: h[n]))
		else:
			raise ValueError(op)
	return {'s': out}


def _now(c):
	"""Date() without argument is the present instant, serialised in GMT: text = IMF-fixdate of int(), both within a few seconds of the clock of the standard library"""
	import time
	from httoop.date import Date
	tz0 = os.environ.get('TZ')
	try:
		if c.get('zone'):
			os.environ['TZ'] = c['zone']
			time.tzset()
		before = int(time.time())
		via = c['via']
		if via == 'ctor':
			d = Date()
			text, ti = bytes(d), int(d)
		elif via == 'none':
			d = Date(None)
			text, ti = d.compose(), int(d)
		else:
			from httoop import Request, Response
			if via == 'response':
				from httoop.semantic.response import ComposedResponse
				res, req = Response(), Request()
				ComposedResponse(res, req).prepare()
				text = res.headers['Date'].encode('ascii')
			else:
				from httoop.semantic.request import ComposedRequest
				req = Request()
				req.method = 'POST'
				req.body = b'x'
				ComposedRequest(req).prepare()
				text = req.headers['Date'].encode('ascii')
			ti = None
		after = int(time.time())
		near = [n for n in range(before - 1, after + 2) if ref_imf(n) == text]
		return {'len': len(text), 'text-is-a-near-instant': bool(near), 'int-is-that-instant': ti is None or ti in near, 'gmtoff': _gmtoff() if c.get('zone') else None}
	finally:
		if os.environ.get('TZ') != tz0:
			os.environ['TZ'] = tz0
			time.tzset()


def _impl5(c):
	k = c['k']
	if k == 'typ':
		return _typ(c)
	if k == 'sort':
		return _guard2(lambda: _sortcase(c))
	if k == 'hdrs':
		return _guard2(lambda: _hdrs(c))
	if k == 'now':
		return _guard2(lambda: _now(c))
	raise ValueError(k)


def _guard2(f):
	try:
		return f()
	except Exception as exc:
		return {'failed': '%s: %s' % (type(exc).__name__, str(exc)[:200])}


def worker_main():
	import locale
	import time
	try:
		locale.setlocale(locale.LC_ALL, '')
	except locale.Error:
		pass
	_basecfg()
	sys.stdout.write(json.dumps({'ready': [time.localtime(962409600).tm_gmtoff, time.localtime(1326240000).tm_gmtoff], 'lc_time': locale.setlocale(locale.LC_TIME)}) + '\n')
	sys.stdout.flush()
	for line in sys.stdin:
		c = json.loads(line)
		try:
			o = impl(c)
		except Exception as exc:
			o = {'escape': '%s: %s' % (type(exc).__name__, str(exc)[:200])}
		sys.stdout.write(json.dumps(o, sort_keys=True) + '\n')
		sys.stdout.flush()


_WORKERS = []


def _workers():
	if _WORKERS:
		return _WORKERS
	for tz, lc in CONFIGS:
		env = dict(os.environ)
		env.update(TZ=tz, LC_ALL=lc, LANG=lc, LC_TIME=lc, PYTHONWARNINGS='ignore')
		p = subprocess.Popen([sys.executable, '-m', 'harness.props.C15', '--worker'], stdin=subprocess.PIPE, stdout=subprocess.PIPE, env=env, universal_newlines=True, bufsize=1)
		hello = json.loads(p.stdout.readline())
		if hello.get('ready') != EXPECT_GMTOFF[tz]:
			raise RuntimeError('zone %s is not in effect in the subprocess (tm_gmtoff probes %r, expected %r)' % (tz, hello.get('ready'), EXPECT_GMTOFF[tz]))
		_WORKERS.append((tz, lc, p))
	atexit.register(_shutdown)
	return _WORKERS


def _shutdown():
	for _, _, p in _WORKERS:
		try:
			p.stdin.close()
			p.wait(timeout=5)
		except Exception:
			p.kill()
	del _WORKERS[:]


def observe(c):
	c = {k: v for k, v in c.items() if not k.startswith('_')}
	ws = _workers()
	line = json.dumps(c) + '\n'
	for _, _, p in ws:
		p.stdin.write(line)
		p.stdin.flush()
	res = [json.loads(p.stdout.readline()) for _, _, p in ws]
	out = {'r': res[0], 'tz': {}}
	for (tz, lc, _), r in zip(ws[1:], res[1:]):
		if r != res[0]:
			out['tz']['%s/%s' % (tz, lc)] = r
	return out


# ------------------------------------------------------------------ generation
def _transitions(zone, y0, y1):
	"""instants in [y0, y1) at which the UTC offset of the zone changes (zoneinfo: the same database the C library reads)"""
	import datetime
	import zoneinfo
	z = zoneinfo.ZoneInfo(zone)
	utc = datetime.timezone.utc

	def off(t):
		return datetime.datetime.fromtimestamp(t, utc).astimezone(z).utcoffset().total_seconds()
	out = []
	t = ref_timegm(y0, 1, 1, 0, 0, 0)
	end = ref_timegm(y1, 1, 1, 0, 0, 0)
	step = 7 * 86400
	o = off(t)
	while t < end:
		o2 = off(t + step)
		if o2 != o:
			lo, hi = t, t + step
			while hi - lo > 1:
				mid = (lo + hi) // 2
				if off(mid) == o:
					lo = mid
				else:
					hi = mid
			out.append(hi)
		o = o2
		t += step
	return out


def _instants(rng, tier):
	big = tier == 'thorough'
	ts = set()
	ts.update([0, 1, 59, 60, 3599, 3600, 86399, 86400, 86401, MAX_T, MAX_T - 1, MAX_T - 86399, MAX_T - 86400, MAX_T_850, MAX_T_850 + 1, MAX_T_850 - 1,
		2 ** 31 - 1, 2 ** 31, 2 ** 31 + 1, 2 ** 32 - 1, 2 ** 32, 784111777, 962409600, 946684800])
	years = set([1970, 1971, 1972, 1973, 1999, 2000, 2001, 2037, 2038, 2039, 2067, 2068, 2069, 2070, 2099, 2100, 2101, 2199, 2200, 2399, 2400, 2401, 2800, 4000, 8000, 9600, 9900, 9996, 9998, 9999])
	years.update(rng.randint(1970, 9999) for _ in range(200 if big else 25))
	years.update(rng.randint(1970, 2100) for _ in range(100 if big else 15))
	for y in sorted(years):
		ts.add(ref_timegm(y, 1, 1, 0, 0, 0))
		ts.add(ref_timegm(y, 12, 31, 23, 59, 59))
		# leap-day neighbourhood (also in years without one)
		for m, d, hh, mi, ss in [(2, 28, 23, 59, 59), (3, 1, 0, 0, 0), (2, 28, 0, 0, 0), (3, 1, 23, 59, 59)]:
			ts.add(ref_timegm(y, m, d, hh, mi, ss))
		ts.add(ref_timegm(y, 3, 1, 0, 0, 0) - 1)
		ts.add(ref_timegm(y, 3, 1, 0, 0, 0) - 86400)
		ms = range(1, 13) if (big or y in (1970, 2000, 2024, 2100, 9999)) else [rng.randint(1, 12) for _ in range(2)]
		for m in ms:
			t0 = ref_timegm(y, m, 1, 0, 0, 0)
			ts.update([t0 - 1, t0, t0 + rng.randrange(86400)])
	# daylight-saving transitions of the five zones: the hour around each
	for zone, _ in CONFIGS[1:]:
		tr = _transitions(zone, 1970, 2038)
		if not big and len(tr) > 24:
			tr = rng.sample(tr, 24)
		for t0 in tr:
			offs = [-3601, -3600, -1801, -1800, -1, 0, 1, 1799, 1800, 3599, 3600, 3601] if big else [-3600, -1, 0, 1800, 3600, rng.randrange(-7200, 7200)]
			ts.update(t0 + d for d in offs)
	# summer / winter days far in the future (the C library extrapolates the last rule)
	for _ in range(400 if big else 60):
		y = rng.randint(1970, 9999)
		ts.add(ref_timegm(y, rng.choice([1, 4, 7, 10]), rng.randint(1, 28), rng.randrange(24), rng.randrange(60), rng.randrange(60)))
	for _ in range(6000 if big else 500):
		ts.add(rng.randint(0, MAX_T))
	for _ in range(3000 if big else 300):
		ts.add(rng.randint(0, 2 ** 32))
	for _ in range(2000 if big else 200):
		ts.add(rng.randint(0, MAX_T // 86400) * 86400 + rng.choice([0, 1, 43200, 86399, 86340, 82800]))
	return sorted(t for t in ts if 0 <= t <= MAX_T)


WS = [' ', ' ', ' ', '  ', '\t', '\n', '\x0b', '\x0c', '\r', '\x1c', '\x1f', '\x85', '\xa0']
JUNK = list('0123456789') + list('0123456789') + [' ', ' ', ',', ':', ':', '-', '+', '.', '_', 'a', 'J', 'n', 'y', 'G', 'M', 'T', 'Z', '\xa0', '\x85', '\x1c', '\xe9', '\xb2', '\xb9', '\x00', '\xff', '/', ';']
NUMS = ['0', '00', '1', '01', '9', '10', '24', '25', '31', '32', '59', '60', '61', '68', '69', '70', '99', '100', '999', '0000', '0001', '0068', '0069', '0099', '0100', '1969', '1970', '2000', '2038', '9999', '10000',
	'99999', '12345678', '2147483648', '999999999999', '-1', '+5', '-0', '1_0', '1__0', '_1', '1_', '+', '-', '', '\xb2', '1\xb2', '0x10', '1e3', '1.5', ' 7']
FULLMON = ['January', 'February', 'March', 'April', 'May', 'June', 'July', 'August', 'September', 'October', 'November', 'December']


def _pick(rng, good, odd, p=0.93):
	return rng.choice(good) if rng.random() < p else rng.choice(odd)


def _variant_text(rng, t):
	"""a date text in one of the many shapes parsedate_tz accepts (and near misses), built from the fields of t"""
	y, m, d, hh, mi, ss, wd = ref_civil(t)
	mon = _pick(rng, [MONTH[m - 1], MONTH[m - 1].lower(), MONTH[m - 1].upper(), FULLMON[m - 1], FULLMON[m - 1].lower()], [MONTH[m - 1] + ',', MONTH[m - 1] + '.', MONTH[m - 1][:2], 'Sept', '%d' % m])
	day = _pick(rng, ['%02d' % d, '%d' % d, '%2d' % d, '%d,' % d], ['+%d' % d, '-%d' % d, '0', '32', '%d_' % d, '%d.' % d])
	year = _pick(rng, ['%04d' % y, '%d' % y, '%02d' % (y % 100), '%04d,' % y], ['%d' % (y % 1000), '%d' % (y + 8030), '-%d' % y, '0', '%d,,' % y])
	clock = _pick(rng, ['%02d:%02d:%02d' % (hh, mi, ss), '%02d:%02d' % (hh, mi), '%d:%d:%d' % (hh, mi, ss), '%02d.%02d.%02d' % (hh, mi, ss), '%02d.%02d' % (hh, mi), '%02d:%02d:%02d,' % (hh, mi, ss)],
		['%02d:%02d:%02d.5' % (hh, mi, ss), '%02d:%02d:%02d:00' % (hh, mi, ss), '%02d%02d' % (hh, mi), '%02d:%02d:' % (hh, mi), ':%02d:%02d' % (mi, ss), '24:00:00', '%02d:%02d:60' % (hh, mi), '%02d:-1:%02d' % (hh, ss)])
	zone = _pick(rng, ['GMT', 'GMT', 'UTC', 'UT', 'Z', '+0000', '-0000', '+0100', '-0500', 'EST', 'gmt', ''], ['PDT', 'CEST', '+01:00', '0100', '1994', ','])
	wday = _pick(rng, [DAY_NAME[wd] + ',', DAY_NAME[wd], DAY_NAME_L[wd] + ',', DAY_NAME[wd].lower() + ',', DAY_NAME[wd].upper(), DAY_NAME[(wd + 3) % 7] + ',', '', ''],
		[DAY_NAME_L[wd], 'Xyz,', DAY_NAME[wd] + ',' + day, 'x,y', ',', 'Xyz'])
	shape = _pick(rng, [0, 0, 0, 1, 1, 2, 2, 3, 4, 5, 6], [7, 8, 9, 10, 11, 12, 13])
	if shape == 0:
		toks = [wday, day, mon, year, clock, zone]
	elif shape == 1:
		toks = [wday if wday.endswith(',') or wday.lower() in [x.lower() for x in DAY_NAME] else '', '%s-%s-%s' % (day.strip(), mon, year), clock, zone or 'GMT']
	elif shape == 2:
		toks = [wday, mon, day, clock, year]
	elif shape == 3:
		toks = [wday, mon, day, year, clock, zone]
	elif shape == 4:
		toks = [wday, day, mon, clock, year, zone]
	elif shape == 5:
		toks = [day, mon, year, clock + rng.choice(['+0100', '-0500', '+0000', '-0000'])]
	elif shape == 6:
		toks = [wday, day, mon, year, clock]
	elif shape == 7:
		toks = [wday, '%s-%s' % (day, mon), year, clock, zone]
	elif shape == 8:
		toks = [wday, day, mon, year, zone, clock]
	elif shape == 9:
		toks = [wday, day, mon, year, clock + rng.choice(['+', '-', 'Z'])]
	elif shape == 10:
		toks = [wday, day, mon, year, clock, zone, 'extra']
	elif shape == 11:  # date without a time: parsedate_tz refuses, the strptime fallbacks must too
		toks = [rng.choice([wday, '']), day, mon, year]
	elif shape == 12:
		toks = [rng.choice([wday, '']), mon, day, year]
	else:
		toks = [rng.choice([wday, '']), clock, zone]
	if wday and wday.endswith(',') and rng.random() < 0.15 and len(toks) > 1:
		toks[0:2] = [toks[0] + toks[1]]
	toks = [x for x in toks if x]
	if rng.random() < 0.35:
		s = ''.join(a + rng.choice(WS) for a in toks)
	else:
		s = ' '.join(toks)
	if rng.random() < 0.2:
		s = rng.choice(WS) + s
	return s


def _mutate(rng, s):
	s = list(s)
	for _ in range(rng.choice([1, 1, 1, 1, 2, 3])):
		r = rng.random()
		if not s:
			s = list(rng.choice(NUMS))
			continue
		i = rng.randrange(len(s))
		if r < 0.3:
			s[i] = rng.choice(JUNK)
		elif r < 0.5:
			del s[i]
		elif r < 0.7:
			s.insert(i, rng.choice(JUNK))
		elif r < 0.85:
			# replace a whole number by a boundary value
			j = i
			while j < len(s) and not s[j].isdigit():
				j += 1
			e = j
			while e < len(s) and s[e].isdigit():
				e += 1
			if j < len(s):
				s[j:e] = list(rng.choice(NUMS))
		else:
			toks = ''.join(s).split(' ')
			op = rng.randrange(3)
			a = rng.randrange(len(toks))
			if op == 0:
				del toks[a]
			elif op == 1:
				toks.insert(a, toks[a])
			else:
				b = rng.randrange(len(toks))
				toks[a], toks[b] = toks[b], toks[a]
			s = list(' '.join(toks))
	return ''.join(s)


def _in_model(text):
	"""float precision: Date stores float(timestamp); keep |timestamp| well below 2^53 and the number of digits small.
	Uses CPython's parsedate_tz only to look at the magnitude of the fields."""
	from email.utils import parsedate_tz
	if len(text) > 200:
		return False
	try:
		r = parsedate_tz(text)
	except Exception:
		return True  # the implementation will show the same escape; the model is forced to disagree
	if r is None:
		return True
	y, _, d, hh, mi, ss = r[:6]
	if any(abs(v) > 10 ** 10 for v in (d, hh, mi, ss)):
		return False
	if 10 ** 8 < abs(y) < 2 ** 31 + 2000:
		return False
	return True


def gen_cases(rng, tier):
	big = tier == 'thorough'
	cases = []
	inst = _instants(rng, tier)
	for t in inst:
		cases.append({'k': 'rt', 't': t})
	sub = inst if big else rng.sample(inst, min(len(inst), 600))
	for t in sub:
		r = rng.random()
		if r < 0.35:
			cases.append({'k': 'datetime', 't': t})
		elif r < 0.7:
			cases.append({'k': 'tuple', 'f': list(ref_civil(t)[:6]), 't': t})
		else:
			cases.append({'k': 'gmtime', 't': t})
	# composer and gmtime outside the property's range (negative, five-digit years)
	for t in [-1, -86400, -86401, -2 ** 31, -62135596800, -62135596801, -62167219200, -62167219201, -62198755200, MAX_T + 1, MAX_T + 86400, 10 ** 12, 32503680000 * 10, -10 ** 11]:
		cases.append({'k': 'compose', 't': t})
		cases.append({'k': 'gmtime', 't': t})
	for _ in range(2000 if big else 150):
		t = rng.randint(-10 ** 12, 10 ** 13)
		cases.append({'k': rng.choice(['compose', 'gmtime']), 't': t})
	# broken-down times with out-of-range fields (both conversions normalise them)
	edge = [-2147483649, -2147483648, -2147481749, -2147481748, -1, 0, 1, 9999, 10000, 99999999, 2147483648]
	for _ in range(3000 if big else 300):
		y = rng.choice([rng.randint(1, 9999), rng.randint(1970, 2100), rng.choice(edge), rng.randint(-3000, 12000)])
		f = [y, rng.randint(1, 12), rng.choice([rng.randint(1, 28), rng.randint(-40, 400), rng.choice(edge)]),
			rng.choice([rng.randrange(24), rng.randint(-100, 100), rng.choice(edge)]), rng.choice([rng.randrange(60), rng.randint(-100, 100), rng.choice(edge)]),
			rng.choice([rng.randrange(60), rng.randint(-100, 100), rng.choice(edge)])]
		if 10 ** 8 < abs(f[0]) < 2 ** 31 + 2000 and -2147481749 <= f[0]:
			f[0] = 2000
		cases.append({'k': 'tuple', 'f': f})
	# accepted variants, near misses and malformed text
	n = 0
	want = 30000 if big else 2500
	while n < want:
		t = rng.choice(inst) if rng.random() < 0.5 else rng.randint(0, MAX_T)
		r = rng.random()
		if r < 0.15:
			s = rng.choice([ref_imf, ref_850, ref_asc])(t).decode('ascii')
			s = _mutate(rng, s)
		elif r < 0.65:
			s = _variant_text(rng, t)
		elif r < 0.92:
			s = _mutate(rng, _variant_text(rng, t))
		elif r < 0.95:
			s = ''.join(rng.choice(JUNK + WS) for _ in range(rng.randint(0, 30)))
		else:
			s = ''.join(chr(rng.randrange(256)) for _ in range(rng.randint(0, 12)))
		if not _in_model(s):
			continue
		cases.append({'k': 'parse', 'd': s.encode('latin-1').hex()})
		n += 1
	for s in ['', ' ', '\xa0', ',', 'Sun,', 'Sun', 'Sun, 06 Nov 1994 08:49:37 GMT', 'Sunday, 06-Nov-94 08:49:37 GMT', 'Sun Nov  6 08:49:37 1994', 'Sun, 06 Nov 1994 08:49:37 GMT;',
			'Sat, 01 Jan 0000 00:00:00 GMT', 'Sat, 01 Jan 10000 00:00:00 GMT', 'Sat, 01 Jan -001 00:00:00 GMT', 'Sat, 01 Jan 2147483648 00:00:00 GMT', 'Sat, 01 Jan -2147483649 00:00:00 GMT',
			'1 jan 70 0:0', '06 Nov 1994 08.49.37', 'Nov 6 08:49:37 1994', '06-Nov-1994 08:49:37 GMT', '06-Nov 08:49:37 GMT', 'Sun, 06 Nov 1994 08:49:37+0100', 'Sun, 06 Nov 08:49:37 1994 GMT',
			'Sun, 06 may 1994 08:49:37', 'Sun, 06 MAY 1994 08:49:37', 'Sun, 06 sept 1994 08:49:37', 'Sun, 06 september 1994 08:49:37', 'mon 06 Nov 1994 08:49:37', 'monday 06 Nov 1994 08:49:37',
			'x,06 Nov 1994 08:49:37', 'x,y,06 Nov 1994 08:49:37', '06, Nov 1994, 08:49:37, GMT', '06 Nov 1994, 08:49:37', '06 Nov , 08:49:37 1994', '06 Nov 1994 08:49:37 ,', 'Nov 06 , 08:49:37',
			'06 Nov 08:49:37 GMT 1994', '06 Nov GMT 08:49:37 1994', '06 Nov \xb21994 08:49:37 12', '06 Nov 1994 :08:49', '06 Nov 1994 08:49:', '06 Nov 1994 08', '06 Nov 1994 08.', '06 Nov 1994 08.49.37.1']:
		cases.append({'k': 'parse', 'd': s.encode('latin-1').hex()})
	# comparisons
	forms = [('int', None), ('dtext', ref_imf), ('dtext', ref_850), ('dtext', ref_asc), ('text', ref_imf), ('text', ref_850), ('text', ref_asc)]
	for _ in range(6000 if big else 700):
		ta = rng.choice(inst)
		r = rng.random()
		if r < 0.25:
			tb = ta
		elif r < 0.6:
			tb = ta + rng.choice([-3600, -1800, -1, 1, 1800, 3600, 86400, -86400, rng.randint(-7200, 7200)])
		else:
			tb = rng.choice(inst)
		tb = min(max(tb, 0), MAX_T)
		fa = rng.choice(forms[:4])
		fb = rng.choice(forms)
		if (fa[1] is ref_850 and ta > MAX_T_850) or (fb[1] is ref_850 and tb > MAX_T_850):
			continue
		a = ['int', ta] if fa[1] is None else [fa[0], fa[1](ta).hex()]
		b = ['int', tb] if fb[1] is None else [fb[0], fb[1](tb).hex()]
		if a[0] == 'int' and ta < 2 ** 40 and rng.random() < 0.3:
			a = ['float', ta, rng.choice([0.25, 0.5, 0.75])]
		if b[0] == 'int' and tb < 2 ** 40 and rng.random() < 0.3:
			b = ['float', tb, rng.choice([0.25, 0.5, 0.75])]
		cases.append({'k': 'cmp', 'a': a, 'b': b, 'ta': ta, 'tb': tb})
	for _ in range(600 if big else 80):
		ta = rng.choice(inst + [0, 0, 0])
		b = rng.choice([['none'], ['text', 'junk'.encode().hex()], ['text', ''], ['text', _mutate(rng, ref_imf(rng.choice(inst)).decode()).encode('latin-1').hex()],
			['text', 'Sat, 01 Jan 10000 00:00:00 GMT'.encode().hex()], ['dtext', 'junk'.encode().hex()]])
		if b[0] in ('text', 'dtext') and not _in_model(bytes.fromhex(b[1]).decode('latin-1')):
			continue
		cases.append({'k': 'cmp', 'a': rng.choice([['int', ta], ['dtext', ref_imf(ta).hex()]]), 'b': b})
	# the epoch stands in for None and for unparsable text (Date.__other): pin it at the instants around 0
	for ta in (0, 1, 2, 86400):
		for b in (['none'], ['text', 'junk'.encode().hex()], ['text', ''], ['int', 0], ['float', 0, 0.5], ['text', ref_imf(0).hex()]):
			for a in (['int', ta], ['dtext', ref_imf(ta).hex()], ['float', ta, 0.75]):
				cases.append({'k': 'cmp', 'a': a, 'b': b})
	# conditional header fields (httoop/header/conditional.py)
	for _ in range(2000 if big else 250):
		t = rng.choice(inst)
		w = rng.choice([ref_imf, ref_850, ref_asc])
		if w is ref_850 and t > MAX_T_850:
			w = ref_imf
		cases.append({'k': 'hdr', 'name': rng.choice(['If-Modified-Since', 'If-Unmodified-Since', 'Last-Modified']), 'd': w(t).hex(), 't': t})
	for _ in range(1000 if big else 120):
		t = rng.choice(inst)
		s = _mutate(rng, _variant_text(rng, t))
		if all(0x20 <= ord(ch) < 0x7f and ch not in ';"\\=' for ch in s) and _in_model(s) and s.strip(' ') == s and s:
			cases.append({'k': 'hdr', 'name': rng.choice(['If-Modified-Since', 'If-Unmodified-Since', 'Last-Modified']), 'd': s.encode('ascii').hex()})
	# appended last so that the cases above stay what they were for a given seed
	cases.extend(_wave4(rng, tier, inst))
	cases.extend(_wave5(rng, tier, inst))
	return cases


# ------------------------------------------------------------------ fourth wave: the six classes of DESIGN.md section 8
def _registries():
	"""the tables the parse side consults (httoop.util.parsedate is email.utils.parsedate_tz: its module globals), read from
	the working tree at run time, and the header fields whose element classes carry a Date"""
	import httoop.header  # noqa: F401  (fills the registry)
	from httoop.header.element import HEADER
	from httoop.util import parsedate
	g = getattr(parsedate, '__globals__', {})
	import email._parseaddr as pa
	months = list(g.get('_monthnames', pa._monthnames))
	days = list(g.get('_daynames', pa._daynames))
	zones = dict(g.get('_timezones', pa._timezones))
	hdrs = []
	for name, cls in sorted(HEADER.items()):
		if getattr(cls, 'Date', None) is not None:
			hdrs.append((name, 'plain' if hasattr(cls, '__int__') else 'cd' if hasattr(cls, 'creation_date') else 'cookie' if hasattr(cls, 'expires') else None))
	return months, days, zones, [h for h in hdrs if h[1]]


# re-writings that are NOT the same instant by the property's text (a text without zone has no instant; RFC 850 without zone is refused by parsedate_tz;
# a day name that contradicts the date): model correspondence only, no expectation of the oracle
NOEXP = ('no-zone', 'wrong-day-name')


def _lc(s, mode):
	return [s, s.lower(), s.upper(), s.swapcase()][mode]


def _tokens(t, form, day='', mon=None, dd=None, year=None, clock=None, zone='GMT', comma=True):
	"""tokens of a rendering of instant t; day='' default name of the form, None: no day name"""
	y, m, d, hh, mi, ss, wd = ref_civil(t)
	mon = MONTH[m - 1] if mon is None else mon
	clock = '%02d:%02d:%02d' % (hh, mi, ss) if clock is None else clock
	if form == 'imf':
		day = DAY_NAME[wd] if day == '' else day
		toks = [day + (',' if comma else '') if day else None, '%02d' % d if dd is None else dd, mon, '%04d' % y if year is None else year, clock, zone]
	elif form == '850':
		day = DAY_NAME_L[wd] if day == '' else day
		toks = [day + (',' if comma else '') if day else None, '%s-%s-%s' % ('%02d' % d if dd is None else dd, mon, '%02d' % (y % 100) if year is None else year), clock, zone]
	else:
		day = DAY_NAME[wd] if day == '' else day
		toks = [day if day else None, mon, '%d' % d if dd is None else dd, clock, '%d' % y if year is None else year, None if zone == 'GMT' else zone]
	return [x for x in toks if x]


def _var(t, toks, why, sep=' ', lead='', trail='', expect=True):
	text = lead + sep.join(toks) + trail
	return {'k': 'var', 't': t, 'd': text.encode('ascii').hex(), 'why': why, 'exp': bool(expect)}


def _wave4(rng, tier, inst):
	big = tier == 'thorough'
	out = []
	months, days, zones, hdrs = _registries()
	in850 = [t for t in inst if t <= MAX_T_850]

	def instant(form, month=None, wday=None):
		for _ in range(2000):
			t = rng.choice(in850) if form == '850' or rng.random() < 0.4 else rng.choice(inst)
			if month is not None:
				y = ref_civil(t)[0]
				t = ref_timegm(y, month, rng.randint(1, 28), rng.randrange(24), rng.randrange(60), rng.randrange(60))
			if wday is not None:
				t += ((wday - ref_civil(t)[6]) % 7) * 86400
			if 0 <= t <= (MAX_T_850 if form == '850' else MAX_T):
				return t
		return 784111777

	forms = ['imf', '850', 'asc']
	# (3) instants whose decimal timestamp sits at a length limit
	for kk in range(1, 12):
		for t in (10 ** kk - 1, 10 ** kk):
			out.append({'k': 'rt', 't': t})
	# (4) every name of every table the parser consults, in four letter cases, in each of the three forms
	for i, name in enumerate(months):
		for mode in range(4):
			for form in forms:
				if not big and len(name) > 3 and (mode + i + forms.index(form)) % 3:
					continue
				t = instant(form, month=i % 12 + 1)
				out.append(_var(t, _tokens(t, form, mon=_lc(name.title(), mode)), 'registry:month:%s' % name))
	for i, name in enumerate(days):
		for mode in range(4):
			for form in forms:
				t = instant(form, wday=i)
				full = DAY_NAME_L[i] if DAY_NAME_L[i].lower().startswith(name) else name
				nm = name.title() if (mode + i) % 2 else full
				if form == 'asc':
					nm = name.title()  # asctime has no comma: parsedate_tz knows the day by the three-letter table only
				out.append(_var(t, _tokens(t, form, day=_lc(nm, mode)), 'registry:day:%s' % name))
	for name, off in sorted(zones.items()):
		for mode in range(3):
			for form in ['imf', '850'] if big or mode == 0 else [rng.choice(['imf', '850'])]:
				t = instant(form)
				# a named zone with an offset is a different instant for a reader that honours zones and the same wall clock for one that does not:
				# the property says nothing, model correspondence only (exp False)
				out.append(_var(t, _tokens(t, form, zone=_lc(name, mode)), 'registry:zone:%s' % name, expect=(off == 0)))
	# date-valued header fields and parameters of the header registry (read from the tree), names in three letter cases (also class 1: values replaced)
	hows = ['setitem', 'set', 'delparse', 'popsetdefault', 'update']
	for name, mode in hdrs:
		for nm in (name, name.lower(), name.upper()):
			for f1 in forms:
				for rep in range(3 if big else 1):
					f2 = rng.choice(forms)
					t = instant(f1)
					t2 = instant(f2) if rng.random() < 0.5 else min(max(t + rng.choice([-1, 1, 60, 3600, -86400, 146097 * 86400]), 0), MAX_T_850 if f2 == '850' else MAX_T)
					c = {'k': 'hdr2', 'name': nm, 'mode': mode, 't': t, 't2': t2, 'v1': WRITERS[f1](t).hex(), 'v2': WRITERS[f2](t2).hex()}
					if mode == 'plain':
						c['how'] = hows[(len(out) + rep) % len(hows)]
					else:
						c['quoted'] = not (mode == 'cookie' and rng.random() < 0.5)
						c['pupper'] = rng.random() < 0.3
					out.append(c)
	# (6) the same instant the way another sender writes it: one deviation at a time, then combinations
	zero_zones = sorted(z for z, off in zones.items() if off == 0) + ['+0000', '-0000']

	def deviations(t, form):
		y, m, d, hh, mi, ss, wd = ref_civil(t)
		devs = []
		for mode in (1, 2, 3):
			devs.append(('day-case', dict(day=_lc(DAY_NAME_L[wd] if form == '850' else DAY_NAME[wd], mode))))
			devs.append(('month-case', dict(mon=_lc(MONTH[m - 1], mode))))
			devs.append(('zone-case', dict(zone=_lc('GMT', mode))))
		devs.append(('month-full', dict(mon=FULLMON[m - 1])))
		devs.append(('day-other-length', dict(day=DAY_NAME[wd] if form == '850' else DAY_NAME_L[wd])) if form != 'asc' else ('day-comma', dict(day=DAY_NAME[wd] + ',')))
		if form != 'asc':
			devs.append(('no-day-name', dict(day=None)))
			devs.append(('no-comma', dict(comma=False, day=DAY_NAME[wd])))
			devs.append(('no-zone', dict(zone=None)))
		devs.append(('day-of-month-width', dict(dd='%02d' % d if form == 'asc' else '%d' % d)))
		if form == '850':
			devs.append(('four-digit-year', dict(year='%04d' % y)))
		elif 1970 <= y <= 2068:
			devs.append(('two-digit-year', dict(year='%02d' % (y % 100))))
		for z in zero_zones:
			devs.append(('zone-%s' % z, dict(zone=z)))
		devs.append(('wrong-day-name', dict(day=(DAY_NAME_L if form == '850' else DAY_NAME)[(wd + 3) % 7])))  # recipients ignore the day name
		return devs

	for form in forms:
		for rep in range(6 if big else 2):
			t = instant(form)
			for why, kw in deviations(t, form):
				out.append(_var(t, _tokens(t, form, **kw), 'rewrite:%s:%s' % (form, why), expect=why not in NOEXP))
			for sep, lead, trail, why in [('  ', '', '', 'two-blanks'), ('\t', '', '', 'tabs'), (' ', ' ', '', 'leading-blank'), (' ', '', ' ', 'trailing-blank'), (' ', '', '\r\n', 'trailing-crlf'), (' \t ', '\t', '\t', 'mixed-blanks')]:
				out.append(_var(t, _tokens(t, form), 'rewrite:%s:%s' % (form, why), sep=sep, lead=lead, trail=trail))
	for _ in range(2500 if big else 260):
		form = rng.choice(forms)
		t = instant(form)
		kw = {}
		devs = deviations(t, form)
		exp = True
		for why, k2 in rng.sample(devs, rng.randint(2, 4)):
			kw.update(k2)
			exp = exp and why not in NOEXP
		if kw.get('comma') is False:  # without the comma only the three-letter name marks a day name (nobody writes the other spellings)
			kw['day'] = DAY_NAME[ref_civil(t)[6]]
		out.append(_var(t, _tokens(t, form, **kw), 'rewrite:%s:combination' % form, sep=rng.choice([' ', ' ', '  ', '\t']), lead=rng.choice(['', '', ' ']), trail=rng.choice(['', '', ' ']), expect=exp))
	# comparisons between re-written operands (through the model and the oracle of the existing kind)
	for _ in range(1500 if big else 150):
		fa, fb = rng.choice(forms), rng.choice(forms)
		ta = instant(fa)
		tb = min(max(ta + rng.choice([0, 0, -1, 1, 60, -3600, 86400, 146097 * 86400, -36524 * 86400]), 0), MAX_T_850 if fb == '850' else MAX_T)
		ka = dict(rng.choice([d for d in deviations(ta, fa) if d[0] not in NOEXP])[1])
		kb = dict(rng.choice([d for d in deviations(tb, fb) if d[0] not in NOEXP])[1])
		out.append({'k': 'cmp', 'a': ['dtext', ' '.join(_tokens(ta, fa, **ka)).encode('ascii').hex()], 'b': [rng.choice(['dtext', 'text']), ' '.join(_tokens(tb, fb, **kb)).encode('ascii').hex()], 'ta': ta, 'tb': tb})
	# (3) runs of blanks of every limit length before, inside and after each form (short ones also through the model)
	lens = [11, 12, 75, 76, 255, 256, 1023, 1024, 4095, 4096, 8190, 8191, 8192]
	lens += [16383, 16384, 65535, 65536] if big else [65535, 65536]
	for n in lens:
		for form in forms:
			t = instant(form)
			toks = _tokens(t, form)
			poss = ['lead', 'trail'] + (list(range(len(toks) - 1)) if big else [rng.randrange(len(toks) - 1)])
			if n >= 65535 and not big:
				poss = [rng.choice(poss)]
			for pos in poss:
				ch = '\t' if rng.random() < 0.2 else ' '
				c = {'k': 'var', 't': t, 'toks': toks, 'pos': pos, 'n': n, 'ch': ch, 'why': 'length:%s:%s:%d' % (form, pos, n), 'exp': True}
				if n <= 1100:
					c['d'] = _pad_text(c).hex()
				out.append(c)
	# zero-padded numbers of limit lengths (int() of the parser): what a reader makes of them is the model's business only
	for n in [11, 12, 75, 76, 150]:
		t = instant('imf')
		y, m, d, hh, mi, ss, wd = ref_civil(t)
		for why, kw in [('dd', dict(dd='%0*d' % (n, d))), ('year', dict(year='%0*d' % (n, y)))]:
			out.append({'k': 'parse', 'd': ' '.join(_tokens(t, 'imf', **kw)).encode('ascii').hex()})
	# (5) degenerate texts, through the model; the oracle only requires that nothing but the four modelled outcomes escapes
	deg = ['', ' ', '  ', '\t', '\r\n', ',', ',,', ', ,', ':', '::', '-', '--', '- -', '"', '""', '"""', "'", ';', ';;', ' , ', ', : -', '0', '00', ' 0 ', '+', '+0000', 'GMT', ' GMT', 'GMT GMT', ',GMT',
		'"Sun, 06 Nov 1994 08:49:37 GMT"', '"Sun, 06 Nov 1994 08:49:37 GMT', 'Sun, 06 Nov 1994 08:49:37 GMT"', "'Sun, 06 Nov 1994 08:49:37 GMT'", '<Sun, 06 Nov 1994 08:49:37 GMT>',
		'Sun,, 06 Nov 1994 08:49:37 GMT', 'Sun, 06  Nov  1994 08:49:37 GMT', 'Sun, 06 Nov 1994 08::49:37 GMT', 'Sun, 06 Nov 1994 08:49::37 GMT', 'Sun, 06 Nov 1994 :: GMT', 'Sun, 06 Nov 1994 : GMT',
		'Sun, 06 Nov 1994 08:49:37 GMT GMT', 'Sun, 06 Nov 1994 08:49:37 GMT,', 'Sun, 06 Nov 1994 08:49:37, GMT', 'Sun, 06 Nov 1994 08:49:37 ,', 'Sun, 06 Nov 1994  GMT', 'Sun, 06 Nov  08:49:37 GMT',
		'Sun, 06  1994 08:49:37 GMT', 'Sun,  Nov 1994 08:49:37 GMT', ', 06 Nov 1994 08:49:37 GMT', ',06 Nov 1994 08:49:37 GMT', 'Sun, , 06 Nov 1994 08:49:37 GMT', 'Sun, 06, Nov, 1994, 08:49:37, GMT',
		'Sunday, 06--Nov-94 08:49:37 GMT', 'Sunday, 06-Nov--94 08:49:37 GMT', 'Sunday, --94 08:49:37 GMT', 'Sunday, -- 08:49:37 GMT', 'Sunday, 06-Nov- 08:49:37 GMT', 'Sunday, -Nov-94 08:49:37 GMT',
		'Sunday, 06-Nov-94- 08:49:37 GMT', 'Sunday, -06-Nov-94 08:49:37 GMT', 'Sunday,, 06-Nov-94 08:49:37 GMT', 'Sunday 06-Nov-94 08:49:37', '06-Nov-94', '-Nov-', '--', '- - -', '06-Nov-94 GMT',
		'Sun Nov  6 08:49:37', 'Sun Nov  6  1994', 'Sun Nov 08:49:37 1994', 'Sun  6 08:49:37 1994', 'Nov  6 08:49:37 1994', 'Sun Nov  6 08:49:37 1994 1994', 'Sun Sun Nov  6 08:49:37 1994',
		'Sun Nov  6 08:49:37 1994,', 'Sun, Nov  6 08:49:37 1994', 'Sun Nov, 6 08:49:37 1994', 'Sun Nov  6, 08:49:37 1994', 'Sun Nov  6 :: 1994', 'Sun Nov  6 08:49:37 ""', 'Sun Nov  6 "08:49:37" 1994',
		'Sun, 06 Nov 1994 08:49:37 GMT; foo', 'Sun, 06 Nov 1994 08:49:37 GMT;q=1', 'Sun, 06 Nov 1994 08:49:37 "GMT"', 'Sun, 06 Nov "1994" 08:49:37 GMT', 'Sun, "06" Nov 1994 08:49:37 GMT', '"Sun", 06 Nov 1994 08:49:37 GMT']
	for s in deg:
		out.append({'k': 'parse', 'd': s.encode('latin-1').hex(), 'deg': 1})
	for s in ['', ' ', ',', '"', '""', ':', '--', ';', '0', 'GMT', '\t']:
		for ta in (0, 1, 784111777):
			out.append({'k': 'cmp', 'a': rng.choice([['int', ta], ['dtext', ref_imf(ta).hex()]]), 'b': ['text', s.encode().hex()]})
	# (1) one Date object put through several uses, several objects of neighbouring instants alive at once, class-level state
	shifts = [0, 0, 1, -1, 1, 2, 59, 60, -60, 600, 3600, -3600, 86400, -86400, 7 * 86400, 365 * 86400, 366 * 86400, 36524 * 86400, 36525 * 86400, 146097 * 86400, -146097 * 86400]
	tails = [[0, 1, 0], [6, 366, 1], [0, 0, -1], [3, 1, 1], [0, 1, -1], [2, 59, 1]]
	ends = [0, 1, MAX_T, MAX_T - 1, MAX_T_850, MAX_T_850 + 1, 2 ** 31 - 1, 2 ** 31, 2 ** 32, 951782400, 4107542400] * 3
	for n in range(9000 if big else 800):
		base = ends[n] if n < len(ends) else rng.choice(inst)
		specs = []
		for j in range(rng.choice([1, 2, 2, 3, 4])):
			t = base if j == 0 else base + rng.choice(shifts)
			if not 0 <= t <= MAX_T:
				t = base
			kinds = ['int', 'int', 'imf', 'asc', 'str', 'parse', 'tuple', 'struct', 'gm', 'dt', 'copy']
			if t <= MAX_T_850:
				kinds += ['850', '850']
			if t < 2 ** 40:
				kinds += ['float']
			if 2 * 86400 <= t <= MAX_T - 2 * 86400:
				kinds += ['dtaware', 'dtaware']
			if t in (0, 1):
				kinds += ['bool'] * 4
			kd = rng.choice(kinds)
			sp = [kd, t]
			if kd == 'float':
				sp.append(rng.choice([0.25, 0.5, 0.75]))
			elif kd in ('str', 'parse'):
				sp.append(rng.choice(forms if t <= MAX_T_850 else ['imf', 'asc']))
			elif kd in ('tuple', 'struct'):
				wd = ref_civil(t)[6]
				sp.append(rng.choice(tails + [[wd, 1, 0], [wd, 200, 1]]))
			elif kd == 'dt':
				sp.append(rng.choice([0, 0, 1, 500000, 999999]))
			elif kd == 'dtaware':
				sp.append(rng.choice([0, 60, 120, -300, 330, 630, -660, 840, 765, -1]))
				sp.append(rng.choice([0, 0, 999999]))
			specs.append(sp)
		steps = []
		for _ in range(rng.randint(5, 11)):
			i = rng.randrange(len(specs))
			op = rng.choice(['b', 'b', 'b', 'c', 'u', 'g', 'd', 'i', 'y', 'p', 'P', 'N', 'cmp', 'cmpt', 'cmpi'])
			if op == 'd' and specs[i][0] == 'dtaware':
				op = 'g'  # .datetime hands the caller's own (zone-aware) object back: not a statement of the property
			st = [i, op]
			if op == 'P':
				st.append(rng.choice(forms if specs[i][1] <= MAX_T_850 else ['imf', 'asc']))
			elif op in ('cmp', 'cmpt', 'cmpi'):
				j = rng.randrange(len(specs))
				st.append(j)
				if op == 'cmpt':
					st.append(rng.choice(forms if specs[j][1] <= MAX_T_850 else ['imf', 'asc']))
			steps.append(st)
		for i in range(len(specs)):
			steps.append([i, 'b'])
		if len(specs) > 1:  # the neighbouring instants once more, as text operands and fresh parses in one form (state kept per class, keyed too coarsely)
			fm = rng.choice(forms if max(sp[1] for sp in specs) <= MAX_T_850 else ['imf', 'asc'])
			for i in range(len(specs)):
				steps.append([0, 'cmpt', i, fm])
				steps.append([i, 'P', fm])
		out.append({'k': 'seq', 'objs': specs, 'steps': steps})
	return out


# ------------------------------------------------------------------ fifth wave: classes 10-17 of DESIGN.md section 8
TYP_MUST = ('D:bytes', 'D:str', 'D:bsub', 'D:ssub', 'P:bytes', 'P:bsub', 'D:int', 'D:float', 'D:isub', 'D:fsub', 'D:tuple', 'D:nt', 'H:bytes', 'H:str', 'H:bsub', 'H:ssub',
	'HD:dict', 'HD:odict', 'HD:list', 'HD:tuple', 'HD:hdrs', 'HD:strvals', 'HD:updatedict')
# accepted or refused as a TYPE (TypeError / AttributeError) - never another instant, never another error.
# (Not in the list on purpose: comparison operators against bytearray / memoryview / objects with __str__: Date.__other turns every operand it cannot
# convert into the epoch - observation (e) of the report, not a date by the property's text - so there is no expectation to state.)
TYP_MAY = ('D:bytearray', 'D:memoryview', 'D:wstr', 'P:bytearray', 'P:memoryview', 'P:str', 'P:ssub', 'P:wstr', 'D:Fraction', 'D:Decimal', 'D:list', 'D:gen', 'D:iter', 'D:map', 'D:chain',
	'H:bytearray', 'H:memoryview', 'H:Date', 'H:wstr', 'HD:gen', 'HD:iter', 'HD:items', 'HD:map', 'HD:chain', 'HD:update')
TYP_EQ = ('eq:bytes', 'eq:str', 'eq:bsub', 'eq:ssub', 'req:bytes', 'req:str', 'req:bsub', 'req:ssub')
CMP_HEADERS = ('If-Modified-Since', 'If-Unmodified-Since', 'Last-Modified')
FILLERS = [('Host', 'example.org'), ('ETag', '"x"'), ('Range', 'bytes=0-9'), ('If-None-Match', '"x"'), ('Accept', '*/*'), ('X-Date', None), ('Content-Length', '29'), ('Cache-Control', 'max-age=29')]
BADDATES = [b'junk', b'Sun, 32 Foo 1994 08:49:37 GMT', b'Sun, 06 Nov 1994', b'08:49:37 GMT', b'Sat, 01 Jan 10000 00:00:00 GMT', b'0', b'Sun,']
ZONES = [z for z, _ in CONFIGS]


def _wave5(rng, tier, inst):
	big = tier == 'thorough'
	out = []
	in850 = [t for t in inst if t <= MAX_T_850]
	forms = ['imf', '850', 'asc']

	def fm(t):
		return rng.choice(forms if t <= MAX_T_850 else ['imf', 'asc'])

	# (16) value-dependent branches: every (month, day) with the clock stepping through every hour, minute and second value (7 and 11 are prime to 60),
	# every two-digit year of the RFC 850 range, every century year at the end of February
	sweep = set()
	k = rng.randrange(60)
	ly = rng.choice([y for y in range(1972, 2068, 4)])
	fy = rng.choice([y for y in range(2069, 10000) if not is_leap(y)])
	for y, days in ((ly, None), (fy, None if big else (1, 2, 9, 10, 11, 19, 20, 21, 28, 29, 30, 31))):
		for m in range(1, 13):
			n = MDAYS[m - 1] + (1 if m == 2 and is_leap(y) else 0)
			for d in range(1, n + 1):
				k += 1
				if days is None or d in days:
					sweep.add(ref_timegm(y, m, d, k % 24, k * 7 % 60, k * 11 % 60))
	for y in range(1970, 2069):
		sweep.add(ref_timegm(y, rng.randint(1, 12), rng.randint(1, 28), rng.randrange(24), rng.randrange(60), rng.randrange(60)))
	# fields of one text that carry the same number (day = hour, day = two-digit year, minute = second, all of them, ...): a reader that finds a field by its value is misled
	for v in range(1, 24):
		sweep.add(ref_timegm(2000 + v, rng.randint(1, 12), v, v, v, v))
		sweep.add(ref_timegm(rng.choice([1900, 2100, 5500]) + v, v % 12 + 1, v, v, v, v))
	for v in (1, 9, 10, 12, 19, 20, 23, 28):
		y0 = rng.choice([1970, 2000, 2040, 7300])
		for fld in ([v, v, None, None], [v, None, v, None], [v, None, None, v], [None, v, v, None], [None, v, None, v], [None, None, v, v], [v, v, v, None], [None, v, v, v]):
			if fld[1] is not None and fld[1] > 23:
				continue
			d, hh, mi, ss = [x if x is not None else rng.choice([0, 31 if i == 0 else 47, 5, 13]) or 1 for i, x in enumerate(fld)]
			sweep.add(ref_timegm(y0 + rng.randrange(29), rng.choice([1, 3, 5, 7, 8, 10, 12]), d, hh % 24, mi, ss))
		sweep.add(ref_timegm(2000 + v, v % 12 + 1, rng.randint(1, 28), rng.randrange(24), rng.randrange(60), rng.randrange(60)))  # two-digit year = month number
		sweep.add(ref_timegm(2000 + v, rng.randint(1, 12), v, rng.randrange(24), rng.randrange(60), rng.randrange(60)))  # two-digit year = day
	for y in range(2100, 10000, 100):
		t0 = ref_timegm(y, 3, 1, 0, 0, 0)
		sweep.update([t0 - 1, t0, t0 - 86400, t0 - 86401] if big else [rng.choice([t0 - 1, t0, t0 - 86400])])
	# (17) boundary arithmetic: instants, days, hours and minutes since the epoch at 2^k and 2^k +- 1 (k up to the end of the range), multiples of 2^9 .. 2^16
	for unit in (1, 60, 3600, 86400):
		for kk in range(0, 39):
			for dlt in (-1, 0, 1):
				sweep.add((2 ** kk + dlt) * unit)
				if unit > 1 and dlt == 0:
					sweep.add(2 ** kk * unit - 1)
	for kk in range(9, 17):
		m = rng.randint(1, MAX_T // 2 ** kk)
		sweep.update([m * 2 ** kk - 1, m * 2 ** kk, m * 2 ** kk + 1])
	have = set(inst)
	for n, t in enumerate(sorted(sweep)):
		if 0 <= t <= MAX_T and t not in have:
			c = {'k': 'rt', 't': t}
			if n % 3 and not big:  # cost: the oracle states every one of them, the model is asked about a third
				c['nocoq'] = 1
			out.append(c)
	cmpforms = [('int', None), ('dtext', ref_imf), ('dtext', ref_asc), ('text', ref_imf), ('text', ref_asc)]
	for kk in range(0, 38):  # two instants that differ in one binary digit only (a truncated or wrapped timestamp makes them equal)
		for rep in range(4 if big else 2):
			ta = rng.choice(inst) if rep else rng.randrange(2 ** kk)
			tb = ta ^ (2 ** kk)
			if not (0 <= ta <= MAX_T and 0 <= tb <= MAX_T):
				continue
			if rng.random() < 0.5:
				ta, tb = tb, ta
			fa, fb = rng.choice(cmpforms[:3]), rng.choice(cmpforms)
			out.append({'k': 'cmp', 'a': ['int', ta] if fa[1] is None else [fa[0], fa[1](ta).hex()], 'b': ['int', tb] if fb[1] is None else [fb[0], fb[1](tb).hex()], 'ta': ta, 'tb': tb})
	# (17) runs of blanks whose length is 2^k, 2^k +- 1 for k = 9 .. 16 (those not yet in the fourth-wave list)
	for n in [511, 512, 513, 1025, 2047, 2048, 2049, 4097, 8193, 16383, 16384, 16385, 32767, 32768, 32769, 65537]:
		for form in forms:
			t = rng.choice(in850)
			toks = _tokens(t, form)
			poss = ['lead', 'trail'] + list(range(len(toks) - 1))
			for pos in (poss if big else [rng.choice(poss)]):
				c = {'k': 'var', 't': t, 'toks': toks, 'pos': pos, 'n': n, 'ch': '\t' if rng.random() < 0.2 else ' ', 'why': 'length:%s:%s:%d' % (form, pos, n), 'exp': True}
				if n <= 1100:
					c['d'] = _pad_text(c).hex()
				out.append(c)
	# (10) (11) (12) (13) (15): objects built from every argument type, several from the very same argument object, second objects built from their parts,
	# refused operations in between, the zone and the locale of the process changed during their life; every step = what a fresh object gives
	shifts = [0, 0, 1, -1, 2, 60, -60, 3600, -3600, 86400, -86400, 7 * 86400, 365 * 86400, 36524 * 86400, 146097 * 86400]
	tails = [[0, 1, 0], [6, 366, 1], [0, 0, -1], [3, 1, 1], [2, 59, 1]]
	# instants inside the repeated local hour (half hour) of each zone: fromtimestamp() gives them fold = 1
	folds = []
	for zone in ZONES[1:]:
		import datetime
		import zoneinfo
		z = zoneinfo.ZoneInfo(zone)
		for t0 in _transitions(zone, 1972, 2038):
			for dlt in (0, 1, 599, 1799):
				if datetime.datetime.fromtimestamp(t0 + dlt, z).fold:
					folds.append((zone, t0 + dlt))
	for n in range(4500 if big else 500):
		base = rng.choice(inst)
		fold = rng.choice(folds) if folds and n % 8 == 0 else None
		if fold:
			base = fold[1]
		specs = []
		for j in range(rng.choice([1, 2, 2, 3, 4])):
			t = base if j == 0 else base + rng.choice(shifts)
			if not 0 <= t <= MAX_T:
				t = base
			if fold and j == 0:
				specs.append(['dtzi', t, fold[0]])
				continue
			kinds = ['int', 'imf', 'asc', 'str', 'parse', 'tuple', 'struct', 'gm', 'dt', 'copy', 'isub', 'bsub', 'ssub', 'nt', 'tupn', 'dtsub', 'dtfold', 'sub', 'subparse', 'subcopy']
			if t <= MAX_T_850:
				kinds += ['850']
			if t < 2 ** 40:
				kinds += ['float', 'fsub']
			if 2 * 86400 <= t <= MAX_T - 2 * 86400:
				kinds += ['dtaware', 'dtzi', 'dtzi']
			kd = rng.choice(kinds)
			sp = [kd, t]
			if kd in ('float', 'fsub'):
				sp.append(rng.choice([0.0, 0.25, 0.5, 0.75]))
			elif kd in ('str', 'parse', 'bsub', 'ssub'):
				sp.append(fm(t))
			elif kd in ('tuple', 'struct', 'nt'):
				wd = ref_civil(t)[6]
				sp.append(rng.choice(tails + [[wd, 1, 0], [wd, 200, 1]]))
			elif kd == 'tupn':
				sp.append(rng.choice([6, 7, 8]))
			elif kd in ('dt', 'dtsub'):
				sp.append(rng.choice([0, 0, 1, 500000, 999999]))
			elif kd == 'dtaware':
				sp.append(rng.choice([0, 60, 120, -300, 330, 630, -660, 840, 765, -1]))
				sp.append(rng.choice([0, 0, 999999]))
			elif kd == 'dtzi':
				sp.append(rng.choice(ZONES[1:]))
			elif kd in ('sub', 'subcopy'):
				sp.append(rng.choice(['SubDate', 'SlotDate']))
			elif kd == 'subparse':
				sp.append(fm(t))
				sp.append(rng.choice(['SubDate', 'SlotDate']))
			specs.append(sp)
		share = rng.random() < 0.5
		if share:  # two (or three) objects from the very same argument object
			for _ in range(rng.choice([1, 1, 2])):
				specs.insert(rng.randrange(len(specs) + 1), list(rng.choice(specs)))
		aware = ('dtaware', 'dtzi')
		steps = []
		for _ in range(rng.randint(6, 12)):
			i = rng.randrange(len(specs))
			op = rng.choice(['b', 'b', 'c', 'u', 'g', 'd', 'i', 'y', 'p', 'P', 'N', 'cmp', 'cmpt', 'cmpi', 'A', 'A', 'A', 'R', 'R', 'J', 'Z', 'LC', 'L', 'F', 'T', 'arg'])
			if op == 'd' and specs[i][0] in aware:
				op = 'g'
			st = [i, op]
			if op == 'P':
				st.append(fm(specs[i][1]))
			elif op in ('cmp', 'cmpt', 'cmpi'):
				j = rng.randrange(len(specs))
				st.append(j)
				if op == 'cmpt':
					st.append(fm(specs[j][1]))
			elif op == 'A':
				st.append(rng.choice(['self', 'dt', 'gm', 'comp', 'str', 'int', 'float']))
			elif op == 'R':
				st.append(rng.randrange(len(REFUSED)))
			elif op == 'Z':
				st.append(rng.choice(ZONES))
			elif op == 'LC':
				st.append(rng.choice(['C', 'POSIX', 'C.UTF-8']))
			steps.append(st)
			if op in ('R', 'J', 'Z', 'LC'):  # right after: the configuration of the process, the object concerned and a fresh parse / compose
				steps.append([i, 'L'])
				steps.append([i, rng.choice(['b', 'g', 'p', 'P', 'N', 'i'])] if rng.random() < 0.8 else [i, 'cmpt', rng.randrange(len(specs)), 'imf'])
				if steps[-1][1] == 'P':
					steps[-1].append(fm(specs[i][1]))
		for i in range(len(specs)):
			steps.append([i, 'b'])
			steps.append([i, 'arg'])
		steps.append([0, 'L'])
		out.append({'k': 'seq', 'objs': specs, 'steps': steps, 'share': share, 'w5': 1})
	# (11) one instant handed to every public entry point as every argument type
	for n in range(1800 if big else 200):
		f = rng.choice(forms)
		t = rng.choice(in850 if f == '850' else inst)
		t2 = rng.choice([t, t, t - 1, t + 1, rng.choice(inst)])
		t2 = min(max(t2, 0), MAX_T)
		nm = rng.choice(CMP_HEADERS)
		nm = rng.choice([nm, nm, nm.lower(), nm.upper()])
		out.append({'k': 'typ', 't': t, 't2': t2, 'f': f, 'name': nm, 'v': list(TYP_MUST + TYP_MAY + TYP_EQ) if big or n < 12 else sorted(rng.sample(TYP_MUST, 8) + rng.sample(TYP_MAY, 9) + rng.sample(TYP_EQ, 3))})
	# (14) order: lists of Date objects (unsorted, duplicates, reverse-sorted, all equal) sorted, searched, their extremes
	ctor = [['int'], ['imf'], ['asc'], ['str', 'imf'], ['parse', 'asc'], ['tuple', [0, 1, 0]], ['gm'], ['dt', 0], ['copy'], ['sub', 'SubDate'], ['float', 0.5], ['isub']]
	for n in range(2000 if big else 220):
		base = rng.choice(inst)
		m = rng.choice([2, 3, 5, 8, 12])
		pat = n % 6
		if pat == 0:
			ts = [rng.choice(inst) for _ in range(m)]
		elif pat == 1:
			ts = [base + rng.choice([-2, -1, 0, 0, 1, 2]) for _ in range(m)]
		elif pat == 2:
			ts = sorted((base + rng.choice(shifts) for _ in range(m)), reverse=True)
		elif pat == 3:
			ts = [base] * m
		elif pat == 4:
			ts = sorted(base + rng.choice(shifts) for _ in range(m))
		else:
			ts = [base + rng.choice([0, 3600, -3600, 86400, 2 ** 31, -2 ** 31, 2 ** 32, -2 ** 32]) for _ in range(m)]
		ts = [t if 0 <= t <= MAX_T else base for t in ts]
		objs = []
		for t in ts:
			kd = rng.choice(ctor)
			objs.append([kd[0], t] + kd[1:])
		tp = rng.choice(ts) if rng.random() < 0.7 else min(max(base + rng.choice([-1, 1, 7]), 0), MAX_T)
		pk = rng.choice(['obj', 'obj', 'bytes', 'str', 'int'])
		out.append({'k': 'sort', 'objs': objs, 'probe': [pk, ['int', tp], rng.choice(['imf', 'asc'])]})
	# (15) (12) (14) several date-valued fields among other fields, every input path, every reading order; a refused value first, then replaced
	for n in range(2200 if big else 240):
		names = list(CMP_HEADERS) + list(RAWDATE)
		rng.shuffle(names)
		names = names[:rng.randint(2, len(names))]
		if not any(x in CMP_HEADERS for x in names):
			names.append(rng.choice(CMP_HEADERS))
		base = rng.choice(inst)
		fields, inst_of, others = [], {}, {}
		bad = rng.choice([x for x in names if x in CMP_HEADERS]) if rng.random() < 0.4 else None
		mode = rng.choice(['block', 'lines', 'dict', 'odict', 'pairs', 'gen', 'setitem', 'update'])
		for x in names:
			t = rng.choice([base, base, min(max(base + rng.choice(shifts), 0), MAX_T), rng.choice(inst)])
			inst_of[x] = t
			spelt = rng.choice([x, x, x.lower(), x.upper()]) if mode in ('block', 'lines') else x
			fields.append([spelt, (rng.choice(BADDATES) if x == bad else WRITERS[fm(t)](t)).hex()])
		for x, v in rng.sample(FILLERS, rng.randint(1, 4)):
			v = ref_imf(rng.choice(inst)).decode() if v is None else v
			others[x] = v
			fields.insert(rng.randrange(len(fields) + 1), [x, v.encode('ascii').hex()])
		reads, want = [], []
		order = [x for x in names for _ in range(2)] + list(others)
		rng.shuffle(order)
		good = lambda x: x != bad  # noqa: E731
		for x in order:
			if x in others:
				reads.append(['other', x])
				want.append(others[x])
			elif x == bad and x in CMP_HEADERS:
				reads.append(['bad', x])
				want.append('refused')
			elif x in CMP_HEADERS:
				if rng.random() < 0.5:
					reads.append(['el', rng.choice([x, x.lower()])])
					want.append(inst_of[x])
				else:
					y = rng.choice([z for z in names if z in CMP_HEADERS and good(z)])
					tt = rng.choice([inst_of[x], inst_of[y], inst_of[x] + 1])
					tt = min(tt, MAX_T)
					reads.append(['eq', x, y, WRITERS[fm(tt)](tt).hex(), tt])
					want.append([inst_of[x] == inst_of[y], inst_of[x] != inst_of[y], inst_of[x] == tt, inst_of[x] == tt, inst_of[x] == tt])
			else:
				reads.append(['raw', x])
				want.append([inst_of[x]] * 3)
		if bad:
			t = min(max(base + rng.choice(shifts), 0), MAX_T)
			reads.append(['set', bad, WRITERS[fm(t)](t).hex()])
			want.append('ok')
			inst_of[bad] = t
			for x in names:
				if x in CMP_HEADERS:
					reads.append(['el', x])
					want.append(inst_of[x])
			for x in others:
				reads.append(['other', x])
				want.append(others[x])
		out.append({'k': 'hdrs', 'in': mode, 'fields': fields, 'reads': reads, 'want': want})
	# (10) date-valued fields and parameters: a second Headers / element built from the first or from the caller's mapping, changed; the first and the mapping stay
	hows = ['setitem', 'set', 'delparse', 'popsetdefault', 'update']
	for name, mode in _registries()[3]:
		for rep in range(12 if big else 4):
			f1, f2, f3 = rng.choice(forms), rng.choice(forms), rng.choice(forms)
			t = rng.choice(in850)
			t2, t3 = [min(max(t + rng.choice([-1, 1, 60, 3600, -86400, 86400 * 365]), 0), MAX_T_850) for _ in range(2)]
			if t2 == t3:
				t3 = t2 + 1 if t2 < MAX_T_850 else t2 - 1
			c = {'k': 'hdr2', 'name': rng.choice([name, name.lower()]), 'mode': mode, 't': t, 't2': t2, 't3': t3, 'v1': WRITERS[f1](t).hex(), 'v2': WRITERS[f2](t2).hex(), 'v3': WRITERS[f3](t3).hex(), 'alias': 1}
			if mode == 'plain':
				c['how'] = hows[rep % len(hows)]
			else:
				c['quoted'] = True
				c['pupper'] = False
			out.append(c)
	# the present instant: Date(), Date(None), the Date field prepare() adds to a response and to a request with a body, under every zone switched to at run time
	for zone in [None] + ZONES:
		for via in ('ctor', 'none', 'response', 'request'):
			c = {'k': 'now', 'via': via}
			if zone:
				c['zone'] = zone
			out.append(c)
	return out


# ------------------------------------------------------------------ Coq literals
def Z(n):
	return '(%d)%%Z' % n


def pres(r):
	if isinstance(r, bool) or r is None:
		return None
	if isinstance(r, int):
		return '(POk %s)' % Z(r)
	return {'Invalid': 'PInvalid', 'ValueError': 'PValueError', 'OverflowError': 'POverflow'}.get(r)


DISAGREE = 'CParse [] (POk (0)%Z)'  # an observation outside the model's vocabulary: force a disagreement


def _dval(spec):
	if spec[0] in ('int', 'rawint', 'float'):
		return '(DInt %s)' % Z(spec[1])
	if spec[0] in ('text', 'dtext'):
		return '(DText %s)' % X(bytes.fromhex(spec[1]))
	return 'DNone'


def coq_case(c, o):
	if 'harness_exception' in o:
		return DISAGREE
	r = o['r']
	k = c['k']
	if 'escape' in r:
		return DISAGREE
	if k == 'rt':
		ps = [pres(x) for x in r['p']]
		if None in ps or r['p'][3] != r['p'][0] or r['p'][4] != r['p'][0]:
			return DISAGREE
		t = c['t']
		if c.get('nocoq'):
			return None
		return 'CRt %s %s %s %s %s %s %s' % (Z(t), X(bytes.fromhex(r['c'])), X(ref_850(t)), X(ref_asc(t)), ps[0], ps[1], ps[2])
	if k == 'compose':
		if r['c'] is None:
			return None  # beyond the platform's gmtime: outside the model
		return 'CCompose %s %s' % (Z(c['t']), X(bytes.fromhex(r['c'])))
	if k == 'gmtime':
		if r['dt'] is not None and r['dt'] != r['g']:
			return DISAGREE
		return 'CGmtime %s (mkTm %s)' % (Z(c['t']), ' '.join(Z(x) for x in r['g']))
	if k in ('tuple', 'datetime'):
		f = c['f'] if k == 'tuple' else list(ref_civil(c['t'])[:6])
		p = pres(r['r'])
		return DISAGREE if p is None else 'CTimegm (%s) %s' % (', '.join(Z(x) for x in f), p)
	if k == 'parse':
		p = pres(r['r'])
		if p is None or r['r2'] != r['r']:
			return DISAGREE
		return 'CParse %s %s' % (X(bytes.fromhex(c['d'])), p)
	if k == 'cmp':
		if c['a'][0] not in ('int', 'dtext', 'float') or c['b'][0] == 'rawint':
			return None
		# a Date operand built from text behaves like the text itself on the right-hand side, except that InvalidDate escapes
		if c['b'][0] == 'dtext' and r['r'] is None and r.get('err') == 'InvalidDate':
			return None
		res = 'None' if r['r'] is None else '(Some (mkCmps %s))' % ' '.join(B(x) for x in r['r'])
		return 'CCmp %s %s %s' % (_dval(c['a']), _dval(c['b']), res)
	if k == 'hdr':
		p = pres(r['r'])
		return DISAGREE if p is None else 'CParse %s %s' % (X(bytes.fromhex(c['d'])), p)
	if k == 'var':
		if 'd' not in c or len(c['d']) > 2200 or not _in_model(bytes.fromhex(c['d']).decode('latin-1')):
			return None  # long runs of blanks: oracle only
		p = pres(r['r'])
		if p is None or r['r2'] != r['r'] or r.get('r3', r['r']) != r['r']:
			return DISAGREE
		return 'CParse %s %s' % (X(bytes.fromhex(c['d'])), p)
	if k == 'seq':
		if r.get('s') is None:
			return DISAGREE
		terms = []
		for st, x in zip(c['steps'], r['s']):
			if isinstance(x, str) and x.startswith('exc:'):
				return DISAGREE
			t = c['objs'][st[0]][1]
			op = st[1]
			if op in ('b', 'c', 'N'):
				terms.append('CCompose %s %s' % (Z(t), X(bytes.fromhex(x))))
			elif op == 'g':
				terms.append('CGmtime %s (mkTm %s)' % (Z(t), ' '.join(Z(v) for v in x)))
			elif op == 'P':
				terms.append('CParse %s (POk %s)' % (X(WRITERS[st[2]](t)), Z(x)))
			elif op == 'cmpt':
				terms.append('CCmp (DInt %s) (DText %s) (Some (mkCmps %s))' % (Z(t), X(WRITERS[st[3]](c['objs'][st[2]][1])), ' '.join(B(v) for v in x)))
			elif op in ('cmp', 'cmpi'):
				terms.append('CCmp (DInt %s) (DInt %s) (Some (mkCmps %s))' % (Z(t), Z(c['objs'][st[2]][1]), ' '.join(B(v) for v in x)))
		return terms[:2 if c.get('w5') else 4]  # the oracle states every step; the model is asked about a few (cost)
	return None


# ------------------------------------------------------------------ the property, stated on the implementation
TZDEP = 'observation depends on the process time zone / locale (TZ, LC_ALL)'


def _describe(c):
	k = c['k']
	if k == 'rt':
		return 'int(Date.parse(text)) for the IMF-fixdate / RFC 850 / asctime / str / Date(text) renderings of instant %d (%s)' % (c['t'], ref_imf(c['t']).decode())
	if k in ('parse', 'hdr'):
		return 'int(Date.parse(%r))' % (bytes.fromhex(c['d']),)
	if k == 'tuple':
		return 'int(Date(%r + (0, 1, 0)))' % (tuple(c['f']),)
	if k == 'datetime':
		return 'int(Date(datetime of instant %d))' % c['t']
	if k == 'cmp':
		return '[<, >, ==, !=, <=, >=] of %r and %r' % (c['a'], c['b'])
	if k == 'var':
		return 'Date.parse / Date(bytes) / bytes(Date(text)) / Date(str) of %s' % (_var_show(c),)
	if k == 'seq':
		return 'the uses %r of the Date objects %r' % (c['steps'], c['objs'])
	if k == 'hdr2':
		return 'the %s field carrying %r, then %r' % (c['name'], bytes.fromhex(c['v1']), bytes.fromhex(c['v2']))
	if k == 'typ':
		return 'instant %d as %r in every argument type' % (c['t'], WRITERS[c['f']](c['t']))
	if k == 'sort':
		return 'sorting / searching the Date objects %r' % (c['objs'],)
	if k == 'hdrs':
		return 'the fields %r given as %s' % ([(a, bytes.fromhex(b)) for a, b in c['fields']], c['in'])
	if k == 'now':
		return 'the present instant through %s%s (the text must be the IMF-fixdate of an instant within a second of time.time(), 29 octets)' % (
			{'ctor': 'bytes(Date()) / int(Date())', 'none': 'Date(None).compose()', 'response': "ComposedResponse.prepare() -> headers['Date']", 'request': "ComposedRequest.prepare() of a POST with a body -> headers['Date']"}[c['via']],
			' after os.environ[TZ] = %r; time.tzset()' % c['zone'] if c.get('zone') else '')
	return k


def _var_show(c):
	if 'd' in c:
		return repr(bytes.fromhex(c['d']))
	return 'the tokens %r with a run of %d %r at position %r (%s)' % (c['toks'], c['n'], c['ch'], c['pos'], c['why'])


def _seq_want(c, st):
	"""what a fresh object of the same instant gives for one step"""
	t = c['objs'][st[0]][1]
	op = st[1]
	if op in ('b', 'c', 'N'):
		return ref_imf(t).hex()
	if op == 'u':
		return ref_imf(t).decode('ascii')
	if op in ('g', 'd'):
		return list(ref_civil(t))
	if op in ('i', 'p', 'P'):
		return t
	if op == 'y':
		return [ref_imf(t).hex(), t, ref_imf(t).hex()]
	if op == 'A':
		return [ref_imf(t).hex(), t, list(ref_civil(t))] * 2
	if op == 'R':
		return 'refused'
	if op in ('L', 'arg'):
		return True
	if op == 'Z':
		return EXPECT_GMTOFF[st[2]]
	if op == 'LC':
		return 'ok'
	if op == 'J':
		return 'asked'
	if op == 'F':
		u = ref_imf(t).decode('ascii')
		return [u, u, u.rjust(31), ref_imf(t).hex()]
	if op == 'T':
		sp = c['objs'][st[0]]
		return sp[2] if sp[0] == 'sub' else sp[3] if sp[0] == 'subparse' else 'Date'
	tb = c['objs'][st[2]][1]
	return [t < tb, t > tb, t == tb, t != tb, t <= tb, t >= tb]


def _brief(r):
	if 'p' in r:
		return repr(r['p'])
	if 'escape' in r:
		return r['escape']
	return json.dumps(r.get('r', r), sort_keys=True)


def oracle(c, o):
	if 'harness_exception' in o:
		return 'harness could not observe the implementation: %s' % o['harness_exception']
	r = o['r']
	k = c['k']
	if o['tz']:
		cfg = sorted(o['tz'])[0]
		return '%s: %s; under TZ=UTC %s, under TZ/LC_ALL=%s %s (%d of %d other configurations differ)' % (TZDEP, _describe(c), _brief(r), cfg, _brief(o['tz'][cfg]), len(o['tz']), len(CONFIGS) - 1)
	if 'escape' in r:
		return 'unexpected exception %s' % r['escape']
	if k == 'rt':
		t = c['t']
		comp = bytes.fromhex(r['c'])
		if comp != ref_imf(t):
			return 'composed text is not the IMF-fixdate of the instant: bytes(Date(%d)) = %r, required %r' % (t, comp, ref_imf(t))
		if len(comp) != 29:
			return 'composed text is not 29 octets long: %r' % (comp,)
		names = ['IMF-fixdate', 'RFC 850', 'asctime', 'IMF-fixdate as str', 'Date(Date(text))']
		for i, name in enumerate(names):
			if i == 1 and t > MAX_T_850:
				continue
			if r['p'][i] != t:
				return 'round trip through the %s form: instant %d is read back as %r' % (name, t, r['p'][i])
		for i, name in enumerate(['IMF-fixdate', 'RFC 850', 'asctime']):
			if i == 1 and t > MAX_T_850:
				continue
			if r.get('cc') and r['cc'][i] != ref_imf(t).hex():
				return 'a Date built from the %s text of instant %d is serialised as %r instead of the IMF-fixdate %r' % (name, t, r['cc'][i], ref_imf(t))
		return None
	if k == 'gmtime':
		if 0 <= c['t'] <= MAX_T and (r['g'] != list(ref_civil(c['t'])) or r['dt'] != r['g']):
			return 'Date(%d).gmtime / .datetime = %r / %r, required %r' % (c['t'], r['g'], r['dt'], list(ref_civil(c['t'])))
		return None
	if k == 'datetime':
		if r['r'] != c['t']:
			return 'Date(datetime of instant %d) gives %r' % (c['t'], r['r'])
		return None
	if k == 'tuple':
		if 't' in c and r['r'] != c['t']:
			return 'Date(UTC time tuple of instant %d) gives %r' % (c['t'], r['r'])
		return None
	if k == 'cmp':
		if 'ta' in c:
			ta, tb = c['ta'], c['tb']
			want = [ta < tb, ta > tb, ta == tb, ta != tb, ta <= tb, ta >= tb]
			if r['r'] != want:
				return 'comparison of dates disagrees with the comparison of the instants %d and %d: [<, >, ==, !=, <=, >=] = %r' % (ta, tb, r['r'])
		return None
	if k == 'parse':
		for key in ('r', 'r2'):
			if isinstance(r[key], str) and r[key].startswith('escape:'):
				return 'Date.parse(%r) / Date(text) lets %s escape (not InvalidDate)' % (bytes.fromhex(c['d']), r[key][7:])
		if r['r2'] != r['r']:  # the same octets through the two entry points, one after the other
			return 'Date.parse(%r) gives %r, Date(the same octets) right after gives %r' % (bytes.fromhex(c['d']), r['r'], r['r2'])
		return None
	if k == 'var':
		t = c['t']
		got = [r['r'], r['r2']] + ([r['r3']] if 'r3' in r else [])
		for x in got:
			if isinstance(x, str) and x.startswith('escape:'):
				return '%s lets %s escape' % (_describe(c), x[7:])
		if not c['exp']:
			if any(x != got[0] for x in got):
				return '%s: Date.parse, Date(bytes) and Date(str) disagree: %r' % (_describe(c), got)
			return None
		if any(x != t for x in got):
			return 'instant %d (%s) written as %s [%s] is read back as %r (Date.parse, Date(bytes), Date(str))' % (t, ref_imf(t).decode(), _var_show(c), c['why'], got)
		if r['cc'] != ref_imf(t).hex():
			return 'a Date built from %s [%s] is serialised as %r instead of the IMF-fixdate %r' % (_var_show(c), c['why'], r['cc'], ref_imf(t))
		return None
	if k == 'seq':
		if r.get('s') is None:
			return 'constructing the Date objects %r failed: %s' % (c['objs'], r.get('err'))
		for n, (st, x) in enumerate(zip(c['steps'], r['s'])):
			want = _seq_want(c, st)
			if x != want:
				return 'step %d %r of the uses %r of the Date objects %r gives %r; a fresh object of the same instant gives %r' % (n, st, c['steps'], c['objs'], x, want)
		return None
	if k == 'hdr2':
		t, t2 = c['t'], c['t2']
		if c['mode'] == 'plain':
			want = [t, t, True, False, t2, t, t]
		elif c['mode'] == 'cd':
			want = [t, t2, t, t2, t2, t]
		else:
			want = [t, t, t2, t]
		if c.get('alias'):
			t3 = c['t3']
			want += [[t3, t2, t2], [t, t, True]] if c['mode'] == 'plain' else [[t3, t2], [t3, t, True], t]
		if r['s'] != want:
			return '%s (%s): instants read [%s] = %r, required %r' % (_describe(c), c.get('how', 'parameter replaced'), c['mode'], r['s'], want)
		return None
	if k in ('typ', 'sort', 'hdrs', 'now'):
		return _oracle5(c, r)
	if k == 'hdr':
		if 't' in c:
			if r['r'] != c['t']:
				return 'int(%s element) of instant %d gives %r' % (c['name'], c['t'], r['r'])
			if r.get('eq') != [True, True, True, False]:
				return '%s element of instant %d: equality with [Date(t), t, text, Date(t+1)] = %r' % (c['name'], c['t'], r.get('eq'))
		return None
	return None


def _oracle5(c, r):
	k = c['k']
	if 'failed' in r:
		return '%s: unexpected exception %s' % (_describe(c), r['failed'])
	if k == 'typ':
		t, t2 = c['t'], c['t2']
		text = WRITERS[c['f']](t)
		for key in c['v']:
			x = r.get(key)
			if key in TYP_EQ:
				a, b = (t2, t) if key.startswith('eq:') else (t, t2)
				want = [a < b, a > b, a == b, a != b, a <= b, a >= b]
				if x != want:
					return 'comparison %s of Date(%d) and the text %r as %s: [<, >, ==, !=, <=, >=] = %r, the instants %d and %d give %r' % (
						'date-op-text' if key.startswith('eq:') else 'text-op-date', t2, text, key.split(':')[1], x, a, b, want)
			elif x != t and not (key in TYP_MAY and x == 'type-refusal'):
				return 'instant %d (%s) written as %r and handed over as %s [D: Date(x), P: Date.parse(x), H: headers[%r] = x, HD: Headers(x)] gives %r%s' % (
					t, ref_imf(t).decode(), text, key, c['name'], x, ' (allowed: the instant, or TypeError / AttributeError for the type)' if key in TYP_MAY else '')
		return None
	if k == 'sort':
		ts = [s[1] for s in c['objs']]
		tp = c['probe'][1][1]
		n = len(ts)
		st = sorted(ts)
		import bisect
		want = {'sorted': sorted(range(n), key=lambda i: ts[i]), 'rsorted': sorted(range(n), key=lambda i: ts[i], reverse=True), 'sort': sorted(range(n), key=lambda i: ts[i]),
			'min': ts.index(min(ts)), 'max': ts.index(max(ts)), 'index': ts.index(tp) if tp in ts else -1, 'count': ts.count(tp),
			'bisect': [bisect.bisect_left(st, tp), bisect.bisect_right(st, tp)], 'after': ts}
		for key in sorted(want):
			if r.get(key) != want[key]:
				return 'list of Date objects %r, probe %r: %s gives %r, the instants give %r' % (c['objs'], c['probe'], key, r.get(key), want[key])
		return None
	if k == 'hdrs':
		for n, (st, x, w) in enumerate(zip(c['reads'], r['s'], c['want'])):
			if x != w:
				return 'fields %r given as %s: read %d %r gives %r, required %r (all reads: %r)' % ([(a, bytes.fromhex(b)) for a, b in c['fields']], c['in'], n, st, x, w, c['reads'])
		return None
	if k == 'now':
		want = {'len': 29, 'text-is-a-near-instant': True, 'int-is-that-instant': True, 'gmtoff': EXPECT_GMTOFF[c['zone']] if c.get('zone') else None}
		if r != want:
			return '%s: %r, required %r' % (_describe(c), r, want)
		return None
	return None


def classify(c, o, fail):
	return None


def nontrivial(c, o):
	if 'harness_exception' in o or 'escape' in o['r']:
		return None
	return (c['k'], json.dumps(o['r'], sort_keys=True))


LEVEL_TEXT = ('Machine-checked Coq theorems on a concrete proleptic-Gregorian calendar model: for EVERY integer instant in [0, 253402300799] the composed text is 29 octets with '
	'the weekday of the instant, and parsing it, or the asctime rendering, returns the instant; the RFC 850 rendering returns it for every instant up to 2068-12-31 (two-digit year; '
	'shown to be ambiguous beyond); days<->civil is proved inverse for all integers (one 400-year cycle swept by vm_compute + periodicity); comparisons agree with instants; the repaired '
	'conversion is independent of the zone by construction, the pinned one (mktime - timezone) is refuted. Tie: T1 tables regenerated, ~5k model-vs-implementation evaluations in Coq, '
	'the implementation run under six time zones / three locales.')
LEVEL_NOTE = ('Trusted: Coq kernel + vm_compute; T1/T2 harness; gmtime/timegm/parsedate_tz/int()/str methods are hand models validated against CPython; process zone and locale are '
	'observed under six configurations, not proved (labelled partial for that reason). No axioms.')
TECHNIQUE = 'Coq proof (lia + finite sweep by vm_compute lifted with forallb_forall + symbolic execution of the parser model) + vm_compute correspondence against the implementation under six time zones'


if __name__ == '__main__':
	if '--worker' in sys.argv:
		worker_main()

"""C13 -- percent-encoding and form encoding are exact inverses."""
from harness.coqfmt import B, N, X, pairs

ID = 'C13'
PROPS = 'Props/C13.v'
TABLES = ['PercentT']
COQ_HEADER = 'From Httoop Require Import Lib.Bytes Gen.PercentT Model.Percent Corr.C13.'
COQ_CHECK = 'check'
CORR_VO = 'Corr/C13.vo'
RULE = ('T2: Percent.quote/unquote, FormURLEncoded/QueryString encode/decode evaluated by the Gallina model (vm_compute) '
	'and by the implementation on the same inputs: every single octet x every named safe set, random 2-octet and longer strings, '
	'escape-dense decoder inputs, the escape/octet interaction family (for octet XX: %XX, %xx, %25XX, %2525, %%XX, %XX%XX next to the octet 0xXX itself; every safe set, form codec, QueryString, URI.query; quick tier: 32 octet values incl. % + space / & = ; 00 0f 7f 80 ff, thorough: all 256), pair lists over Unicode incl. delimiters for UTF-8 and ISO-8859-1; oracle: round trips on the real code. '
	'Wave-3 classes: call sequences in one process (the same text / octets through both charsets, both pair codecs and every octet set in every order, repeated calls compared; one URI object whose query is set by pairs / dict / query_string / parse() / __init__, read twice, copied, with a second object in between, compared with a new object); '
	'non-normalised and look-alike text in names and values; lengths 11..8192 (65535/65536) of octet strings, escape runs, names, values and numbers of pairs; every bytes-valued set of Percent and both UNQUOTED sets read at run time, all 22x22 escape spellings against an independent decoder, every usual alias of the two charsets in several letter cases and the default charset; '
	'degenerate names / values / pair lists and every decoder input of <= 3 separator symbols; octets and pairs re-written by an independent sender (lower / mixed-case hex, needless escapes, %20 for +, n= for n, stray &) decoded by Percent.unquote, both codecs, URI(b"...?q").query and the query_string attribute. '
	'Wave-4 classes: (7) read-only observers (repr/str/bytes/hash/len/bool/iteration/format, all six comparisons in both directions with URI/bytes/str operands, copy/deepcopy/pickle/URI(u), every attribute, in-tests, dict()/sorted() of the pairs, reads of HEX_MAP and of every octet set) applied to a URI, to a clone, to the object it was cloned from, to the codec classes and to the pair sequence before / after the query is set: same result as an unobserved new object, before and afterwards; '
	'(8) every member of the families: encode/decode/iterencode/iterdecode/quote/unquote of FormURLEncoded and QueryString with list/tuple/dict/items/generator/list-of-lists data and positional/keyword arguments, Body(application/x-www-form-urlencoded).encode/iterencode/decode, URI.quote/unquote, the query set through setter/dict/generator/query_string/parse/__init__(kwargs|dict|tuple|URI) for URI and all nine scheme classes, composed and parsed again, ==/!= of equal and unequal queries; '
	'(9) reserved NAMES as data (_charset_, charset, q, boundary, filename, realm, uri, bytes, encoding, ...) with every usual codec name / media type / flag as value next to non-ASCII text, in every position, through both codecs, both charsets, URI.query and an independent sender; every metacharacter (: / ? # @ = & ; , % " + and their escapes) in the pairs while user name, password, path and fragment of the same URI carry them too (query read back, after compose+parse as well; neighbours unchanged by the query). New pair inputs also go through the Coq model (CFormEnc + CFormDec). '
	'Wave-5 classes (kind w5; facts checked against the case alone: pairs read back, octets read by an independent standard-library reader, same-as-new-object comparisons): (10) the argument object (list of lists, dict, OrderedDict) given to two objects / calls and changed afterwards, results handed out and changed by the caller, an object built from another one (URI(u), tuple, dict, copy, deepcopy, pickle, bytes, join) changed in six ways, then the original changed; '
	'(11) pairs as list / tuple / lists / iter / generator / map / chain / zip / deque / namedtuple / str subclass / OrderedDict (also re-ordered) / dict / items() for both codecs, URI.query, Body.encode / iterencode; octets as bytes / bytearray / memoryview (a refusal by type is accepted from the decoders, another answer is not), text as str / subclass / object with __str__; '
	'(12) eleven kinds of refused argument (unencodable text, non-iterable, wrong arity, None / int / bytes members, failing half way, a generator that raises) and refused query_string / parse() / decode() calls on a URI, a URI with another encoding, both codecs, a form Body and Percent: the object afterwards equals itself before and an object that never saw the call, and goes on like it; '
	'(13) URI.encoding set by a subclass, a subclass with __slots__, assignment on URI, on a subclass after the object exists and on the scheme class x seven ways of getting the query into the object x 16 ASCII-compatible charsets with text that is not ASCII in them; the charset of a form Body given to the constructor / assigned as encoding / as mimetype / after a first encode(), for 25 charsets incl. UTF-16, UTF-7, EBCDIC; '
	'(14) unsorted, reverse-sorted, non-adjacent duplicate and case-variant names through both codecs, iterencode, Body, URI set / compose+parse / normalize / abspath / join / tuple / dict, mappings whose insertion order is not the sorted one; (15) the assignments that build a URI in five orders, constructor keywords / dict / octets / text / parse() on a used object, Body charset before or after content; '
	'(16) charsets in which ordinary characters are written with the octets of % + & = ; # ? / @ space etc. (UTF-16 LE/BE, UTF-7, cp037, cp500, HZ, cp932, johab, GB18030, GBK, Shift_JIS, Big5): characters found by direct search for every such octet, at the start / end / alone, and 30 multi-piece texts per charset; '
	'(17) 2^k and 2^k +- 1 (k = 9..16) octets, escapes, characters in a name / value, pairs, and octets of query string. '
	'non-trivial = distinct (kind, input) whose output differs from its input or is an error')
EXHAUSTIVE = {'quick': False, 'thorough': False}
TRUSTED = ['harness/gen_tables.py t_percent (T1: masks of the Percent.* sets, HEX_MAP, QueryString.INVALID, escape-width probe)',
	'harness/props/C13.py + coq/Corr/C13.v (T2 canonicalisation: text pairs are compared after re-encoding in the charset)',
	'Lib/Utf8.v models CPython strict UTF-8 validity (validated by CUtf8 cases, not verified)']
ASSUMPTIONS = ['str.encode/bytes.decode round-trip on encodable text (Section hypothesis dec (enc t) = Some t)']

SAFE_NAMES = ['UNRESERVED', 'SCHEME', 'PCHAR', 'USERINFO', 'PATH', 'QUERY', 'FRAGMENT']
D1 = {'k': 'rt_quote', 'safe': 'UNRESERVED', 'd': '01'}
D1F = {'k': 'rt_form', 'qs': False, 'cs': 'ISO8859-1', 'ps': [['a', '\x020']]}
D21 = {'k': 'rt_query', 'ps': [['a', '\x1f']]}
WITNESSES = [('D1-percent-low-octet', D1), ('D1-percent-low-octet', D1F), ('D21-query-c0-controls', D21)]


def random_fork(rng):
	"""an independent stream, so that the cases drawn after this point are the same as before the family was added"""
	import random
	return random.Random(0x13C13 ^ hash(rng.getstate()[1][:8]))   # hash of a tuple of ints: independent of PYTHONHASHSEED


def _impl():
	from httoop.codecs.application.x_www_form_urlencoded import FormURLEncoded
	from httoop.uri.percent_encoding import Percent
	from httoop.uri.query_string import QueryString
	return Percent, FormURLEncoded, QueryString


def _safe(name):
	Percent = _impl()[0]
	if isinstance(name, str) and name in SAFE_NAMES:
		return bytes(getattr(Percent, name))
	if name == 'DEFAULT':
		return None
	return bytes.fromhex(name)


ALPH = ['a', 'b', ' ', '&', '=', '+', '%', '%20', '%2', '/', '?', '#', ';', 'ä', 'ÿ', '€', '\U0001f600', '0', '~', '\x7f', '\x01', '\x0f', '\n', '*', '-', '_', '.', 'Ā']


def rtext(rng, lo=0, hi=6, latin1=False):
	n = rng.randint(lo, hi)
	out = []
	for _ in range(n):
		r = rng.random()
		if r < 0.6:
			ch = rng.choice(ALPH)
		elif r < 0.8:
			ch = chr(rng.randint(0x20, 0x7e))
		elif r < 0.9:
			ch = chr(rng.randint(0, 0xff))
		else:
			ch = chr(rng.choice([rng.randint(0x100, 0xd7ff), rng.randint(0xe000, 0xffff), rng.randint(0x10000, 0x10ffff)]))
		out.append(ch)
	s = ''.join(out)
	if latin1:
		s = ''.join(c for c in s if ord(c) < 256)
	return s


def rbytes(rng, lo=0, hi=12):
	n = rng.randint(lo, hi)
	r = rng.random()
	if r < 0.3:
		return bytes(rng.randrange(256) for _ in range(n))
	if r < 0.6:
		return bytes(rng.choice(b'%%%0123456789abcdefABCDEFgG +&=/a\x00\xff\x0a') for _ in range(n))
	return bytes(rng.choice([rng.randrange(256), rng.randrange(0x20, 0x7f), rng.randrange(0, 0x20)]) for _ in range(n))


# octets that every tier puts through the escape/octet interaction family below
PCT_MUST = [0x25, 0x2b, 0x20, 0x2f, 0x26, 0x3d, 0x3b, 0x00, 0x0f, 0x7f, 0x80, 0xff]
PCT_TEXT_EXTRA = ['€', '\U0001f600', 'Ā', '\ufeff']


def _hexforms(x):
	"""upper, lower and mixed-case spellings of the two hex digits of x"""
	out = ['%02X' % x, '%02x' % x]
	for m in ('%X%x' % (x >> 4, x & 15), '%x%X' % (x >> 4, x & 15)):
		if m not in out:
			out.append(m)
	return out


def pct_family(x):
	"""octet strings in which a literal '%XX' (any case), '%25XX', '%2525', '%%XX', '%XX%XX' meets the octet 0xXX itself:
	a decoder that is not strictly single-pass, or an encoder that does not escape '%', loses the difference"""
	ch = bytes([x])
	U = ('%%%02X' % x).encode()
	out = []
	for hx in _hexforms(x):
		e = b'%' + hx.encode()
		out += [e + ch, ch + e, ch + e + ch, e + ch + e, b'%25' + e[1:], b'%25' + e[1:] + ch, ch + b'%25' + e[1:], b'%' + e, b'%' + e + ch, ch + b'%' + e,
			e + e, e + e + ch, ch + e + e, e + U + ch, b'%2525' + e[1:] + ch]
	out += [b'%2525', b'%2525' + ch, ch + b'%2525', b'%25' + ch, ch + b'%25', b'%25%25' + ch, b'%' + ch, ch + b'%', ch + ch + U, U + ch + ch]
	seen, res = set(), []
	for d in out:
		if d not in seen:
			seen.add(d)
			res.append(d)
	return res


def pct_text_family(ch, cs):
	"""the same family as text for the pair codecs: ch is one character, its octets in charset cs are what gets escaped"""
	try:
		bs = ch.encode(cs)
	except UnicodeEncodeError:
		return []
	escs = []
	for b in bs:
		for hx in _hexforms(b)[:2]:
			escs.append('%' + hx)
	whole = ''.join('%%%02X' % b for b in bs)
	if whole not in escs:
		escs += [whole, whole.lower()]
	out = []
	for e in escs:
		out += [e + ch, ch + e, ch + e + ch, '%25' + e[1:], '%25' + e[1:] + ch, '%' + e, '%' + e + ch, e + e, e + e + ch]
	out += ['%2525', '%2525' + ch, '%25' + ch, ch + '%25', '%' + ch, ch + '%']
	seen, res = set(), []
	for t in out:
		if t not in seen:
			seen.add(t)
			res.append(t)
	return res


def _pct_octets(rng, big):
	if big:
		return list(range(256))
	rest = [x for x in range(256) if x not in PCT_MUST]
	return PCT_MUST + sorted(rng.sample(rest, 20))


def gen_pct_cases(rng, big):
	cases = []
	octets = _pct_octets(rng, big)
	safes = SAFE_NAMES + ['DEFAULT', '']
	for x in octets:
		fam = pct_family(x)
		for d in fam:
			for safe in safes:
				cases.append({'k': 'rt_quote', 'safe': safe, 'd': d.hex()})
			# model vs implementation: the encoder under two safe sets, the decoder on the string itself and on its encodings
			for safe in (SAFE_NAMES[x % 7], 'DEFAULT' if x % 2 else ''):
				cases.append({'k': 'quote', 'safe': safe, 'd': d.hex()})
			cases.append({'k': 'unquote', 'd': d.hex()})
			cases.append({'k': 'unquote', 'd': b''.join(b'%%%02X' % c if c in b'%/ &=;+' or c == x or c >= 0x7f or c < 0x20 else bytes([c]) for c in d).hex()})
			for qs in (False, True):
				for cs in ('UTF-8', 'ISO8859-1'):
					cases.append({'k': 'form_dec', 'qs': qs, 'cs': cs, 'd': (b'a=' + d).hex()})
			cases.append({'k': 'form_dec', 'qs': x % 2 == 0, 'cs': 'ISO8859-1', 'd': (d + b'=' + d + b'&' + d).hex()})
	# the pair codecs: FormURLEncoded and QueryString in both charsets, URI.query
	chars = [chr(x) for x in octets] + PCT_TEXT_EXTRA
	for ch in chars:
		for cs in ('UTF-8', 'ISO8859-1'):
			fam = pct_text_family(ch, cs)
			for j, t in enumerate(fam):
				lists = [[['n', t]], [[t, 'v']], [[t, t]]]
				if j < 6:
					lists += [[['a', t], [ch, ch]], [[t[:3], t[3:]]] if t[3:] and t[:3] else [[ch, t]]]
				for ps in lists:
					for qs in (False, True):
						cases.append({'k': 'rt_form', 'qs': qs, 'cs': cs, 'ps': ps})
					cases.append({'k': 'form_enc', 'qs': j % 2 == 0, 'cs': cs, 'ps': ps})
					if cs == 'UTF-8':
						cases.append({'k': 'rt_query', 'ps': ps})
	return cases


def gen_cases(rng, tier):
	cases = []
	big = tier == 'thorough'
	cases.extend(gen_pct_cases(random_fork(rng), big))
	# every single octet under every named safe set (+ default, + empty set, + full set)
	for safe in SAFE_NAMES + ['DEFAULT', '', bytes(range(256)).hex()]:
		for c in range(256):
			cases.append({'k': 'quote', 'safe': safe, 'd': '%02x' % c})
			cases.append({'k': 'rt_quote', 'safe': safe, 'd': '%02x' % c})
	# 2-octet strings: all of them in the thorough tier (per safe set), a sample otherwise
	if big:
		for safe in SAFE_NAMES:
			for a in range(256):
				for b in range(256):
					cases.append({'k': 'rt_quote', 'safe': safe, 'd': '%02x%02x' % (a, b)})
		for a in range(256):
			for b in range(256):
				cases.append({'k': 'quote', 'safe': SAFE_NAMES[(a + b) % 7], 'd': '%02x%02x' % (a, b)})
				cases.append({'k': 'unquote', 'd': '25%02x%02x' % (a, b)})
	for _ in range(20000 if big else 3000):
		safe = rng.choice(SAFE_NAMES + ['DEFAULT', bytes(rng.randrange(256) for _ in range(rng.randint(0, 40))).hex()])
		d = rbytes(rng, 0, 2 if rng.random() < 0.5 else 24)
		cases.append({'k': 'quote', 'safe': safe, 'd': d.hex()})
		cases.append({'k': 'rt_quote', 'safe': safe, 'd': d.hex()})
	for _ in range(20000 if big else 3000):
		cases.append({'k': 'unquote', 'd': rbytes(rng, 0, 16).hex()})
	for a in range(256):  # '%' + every octet + '0', every octet alone
		cases.append({'k': 'unquote', 'd': '25%02x30' % a})
		cases.append({'k': 'unquote', 'd': '2541%02x' % a})
		cases.append({'k': 'utf8', 'd': '%02x' % a})
	for _ in range(8000 if big else 1500):
		r = rng.random()
		if r < 0.5:
			d = rtext(rng, 0, 5).encode('utf-8', 'surrogatepass')
			d = bytearray(d)
			if d and rng.random() < 0.6:
				i = rng.randrange(len(d))
				if rng.random() < 0.5:
					d[i] = rng.randrange(256)
				else:
					del d[i]
			d = bytes(d)
		else:
			d = bytes(rng.choice([0xc0, 0xc1, 0xc2, 0xdf, 0xe0, 0xed, 0xef, 0xf0, 0xf4, 0xf5, 0x80, 0x8f, 0x90, 0x9f, 0xa0, 0xbf, 0x41, 0x7f]) for _ in range(rng.randint(1, 5)))
		cases.append({'k': 'utf8', 'd': d.hex()})
	# pair lists
	for _ in range(10000 if big else 2000):
		cs = rng.choice(['UTF-8', 'ISO8859-1'])
		ps = [[rtext(rng, 0 if rng.random() < 0.15 else 1, 4, cs != 'UTF-8'), rtext(rng, 0, 4, cs != 'UTF-8')] for _ in range(rng.randint(0, 4))]
		qs = rng.random() < 0.5
		cases.append({'k': 'form_enc', 'qs': qs, 'cs': cs, 'ps': ps})
		if all(p[0] for p in ps):
			cases.append({'k': 'rt_form', 'qs': qs, 'cs': cs, 'ps': ps})
			if cs == 'UTF-8':
				cases.append({'k': 'rt_query', 'ps': ps})
	for _ in range(10000 if big else 2000):
		n = rng.randint(0, 14)
		d = bytes(rng.choice(b'&&==++%%% ab012cCfF\xe4\xc3\xa4\x00\x7f\x1f') for _ in range(n))
		cases.append({'k': 'form_dec', 'qs': rng.random() < 0.5, 'cs': rng.choice(['UTF-8', 'ISO8859-1']), 'd': d.hex()})
	cases.extend(_gen_classes(rng, big))
	cases.extend(_gen_wave4(rng, big))   # appended last: every case above is drawn exactly as before
	cases.extend(_gen_wave5(rng, big))   # (the same: appended after everything else)
	return cases


# ---------------------------------------------------------------- the six classes of DESIGN section 8 (wave-3 strengthening)
# text that NFC / NFD / NFKC / NFKD, lower() or casefold() would change, astral characters
NORM = ['e\u0301', 'A\u030a', '\u00c5', '\u2126', '\u212a', '\u212b', '\u00e9', 'o\u0308', '\u1100\u1161\u11a8', '\uac01', '\uf900', '\ufa0e', '\U0002f800', '\ufb01', '\u2460', '\uff21',
	'\u00b5', '\u03bc', '\u1e9b\u0323', 'a\u0323\u0300', 'a\u0300\u0323', '\u0958', '\u0344', '\u0130', '\u0131', '\u017f', '\u1e9e', '\u03c2', '\u01c5', '\U0001f600',
	'\U0001f468\u200d\U0001f469', '\U00010400', '\u00df', '\u0660', '\uff06', '\uff1d', '\uff0b', '\uff05', '\ufe6a', '\u00a0', '\u3000', '\u037e', '\uff1b', '\u00aa', '\u00b2', '\u00bd']
LENS = [11, 12, 75, 76, 255, 256, 1023, 1024, 4095, 4096, 8190, 8191, 8192]
DEGEN = ['', ' ', '  ', '&', '&&', '=', '==', '+', '++', '%', '%%', '%2', '%%41', '%+', '+%', ';', ';;', ',', '"', '""', '"a', "'", '(', '[', ']', '<', '\\', ' a', 'a ', ' a ', '\u00a0', '\u00a0a\u00a0', '=&', '&=', '&a', 'a&', '=a', 'a=', 'a=b', 'a&b=c',
	'+a', 'a+', '?', '#', '/', '//', '%20', '%26', '%3D', '%2B', '%25', '%00', 'a%', '%a', '%zz', '%u00e4', '\u00ad', '\u00ff', '\u0080', '\u009f']
CHARSETS_UTF8 = ['UTF-8', 'utf-8', 'utf8', 'UTF8', 'Utf-8', 'utf_8', 'U8', 'u8', 'UTF', 'cp65001']
CHARSETS_L1 = ['ISO8859-1', 'iso8859-1', 'ISO-8859-1', 'iso-8859-1', 'Iso-8859-1', 'latin-1', 'Latin-1', 'LATIN1', 'latin1', 'latin_1', 'L1', 'l1', 'cp819', 'iso_8859_1', '8859', None]
COQ_OCTET_LIMIT = 600    # inputs longer than this stay oracle-only (the observation repeats them up to three times in the literal)


def _percent_sets():
	"""every octet set the tree's Percent class and the two pair codecs define, read at run time: name -> octets"""
	Percent, Form, QS = _impl()
	out = []
	for name in sorted(vars(Percent)):
		v = getattr(Percent, name)
		if isinstance(v, (bytes, bytearray)) and not name.startswith('_'):
			out.append((name if name in SAFE_NAMES else bytes(v).hex(), name))
	for codec in (Form, QS):
		out.append((bytes(codec.UNQUOTED).hex(), codec.__name__ + '.UNQUOTED'))
	return out


def _fill(f, n):
	return (f * (n // len(f) + 1))[:n]


def _gen_classes(rng, big):
	out = []
	Percent, Form, QS = _impl()
	sets = [sname for sname, _ in _percent_sets()] + ['DEFAULT', '']
	# (4) registries: every octet set the tree defines (not only the seven named in the statement), every spelling of every escape in HEX_MAP,
	#     every usual alias of the two charsets in several letter cases (and the codecs' default charset)
	for sname in sets:
		if sname in SAFE_NAMES or sname in ('DEFAULT', ''):
			continue   # (covered octet by octet above)
		for c in range(256):
			out.append({'k': 'quote', 'safe': sname, 'd': '%02x' % c})
			out.append({'k': 'rt_quote', 'safe': sname, 'd': '%02x' % c})
	hexd = '0123456789ABCDEFabcdef'
	keys = [(a + b).encode('ascii') for a in hexd for b in hexd]
	keys += [k for k in sorted(Percent.HEX_MAP) if bytes(k) not in keys]
	for key in keys:
		key = bytes(key)
		for d in (b'%' + key, b'a%' + key + b'b', b'%' + key + b'%' + key, b'%25' + key):
			out.append({'k': 'unq_hex', 'd': d.hex()})
		out.append({'k': 'form_dec', 'qs': False, 'cs': 'ISO8859-1', 'd': (b'n=%' + key + b'&%' + key + b'=v').hex()})
	texts = ['\u00e4', 'a b+c', '\u00ff&=\u00e9', '%e4', 'x']
	for cs in CHARSETS_UTF8 + CHARSETS_L1:
		try:
			'\u00e4'.encode(cs or 'ascii', 'replace')
		except LookupError:
			continue   # an alias this Python does not know
		for t in texts + ([] if cs in CHARSETS_L1 else ['\u20ac\U0001f600']):
			for qs in (False, True):
				out.append({'k': 'rt_form', 'qs': qs, 'cs': cs, 'ps': [[t, 'v'], ['n', t]]})
				out.append({'k': 'form_enc', 'qs': qs, 'cs': cs, 'ps': [[t, t]]})
			out.append({'k': 'form_dec', 'qs': cs in CHARSETS_UTF8, 'cs': cs, 'd': b'%e4=%C3%A4&a+b=%c3%a4%E4'.hex()})
	# (2) normalisation forms and look-alikes in names and values, for every pair codec; their octets under every octet set
	for t in NORM:
		for ps in ([[t, 'v']], [['n', t]], [[t, t]], [['a' + t, t + 'b'], [t + t, '']]):
			for qs in (False, True):
				out.append({'k': 'rt_form', 'qs': qs, 'cs': 'UTF-8', 'ps': ps})
				out.append({'k': 'rt_form', 'qs': qs, 'cs': 'ISO8859-1', 'ps': ps})   # (skipped by observe when not encodable)
			out.append({'k': 'form_enc', 'qs': len(out) % 2 == 0, 'cs': 'UTF-8', 'ps': ps})
			out.append({'k': 'rt_query', 'ps': ps})
		for sname in SAFE_NAMES + ['DEFAULT']:
			out.append({'k': 'rt_quote', 'safe': sname, 'd': t.encode('utf-8').hex()})
	# (3) lengths at and around the usual limits: octet strings under every set, escapes to decode, names, values, numbers of pairs
	fills = [b'a', b'\xff', b'%', b'a\xe4 ', b'%41', b'/', b'~\x10']
	for n in LENS + ([16383, 16384, 65535, 65536] if big else []):
		for sname in SAFE_NAMES + ['DEFAULT', '']:
			for f in (fills if big else rng.sample(fills, 3)):
				d = _fill(f, n)
				out.append({'k': 'rt_quote', 'safe': sname, 'd': d.hex()})
				if n <= COQ_OCTET_LIMIT:
					out.append({'k': 'quote', 'safe': sname, 'd': d.hex()})
		for f in (b'%41', b'%', b'a', b'%e4%', b'%2', b'%25'):
			if n <= COQ_OCTET_LIMIT * 2:
				out.append({'k': 'unquote', 'd': _fill(f, n).hex()})
		for f in ('a', ' ', '&', '=', '+', '%', '\u00e4', '\U0001f600'):
			for cs in ('UTF-8', 'ISO8859-1'):
				if ord(f) > 255 and cs != 'UTF-8':
					continue
				qs = rng.random() < 0.5
				out.append({'k': 'rt_form', 'qs': qs, 'cs': cs, 'ps': [['n', f * n]]})
				out.append({'k': 'rt_form', 'qs': not qs, 'cs': cs, 'ps': [[f * n, 'v'], ['m', '']]})
			out.append({'k': 'rt_query', 'ps': [[f * n, f * n]]})
		if n <= 4096:
			ps = [[rng.choice(['a', 'b', '\u00e4', '&']), rng.choice(['', 'v', ' ', '='])] for _ in range(n)]
			out.append({'k': 'rt_form', 'qs': False, 'cs': 'UTF-8', 'ps': ps})
			out.append({'k': 'rt_form', 'qs': True, 'cs': 'ISO8859-1', 'ps': ps})
			out.append({'k': 'rt_query', 'ps': ps})
	if not big:
		for n in (65535, 65536):
			out.append({'k': 'rt_quote', 'safe': rng.choice(SAFE_NAMES), 'd': _fill(rng.choice(fills), n).hex()})
			out.append({'k': 'rt_form', 'qs': n % 2 == 0, 'cs': 'UTF-8', 'ps': [['n', '\u00e4' * n]]})
			out.append({'k': 'rt_query', 'ps': [['a' * n, ' ' * n]]})
	# (5) degenerate names and values: empty, blanks only, separators only, doubled separators, unbalanced quotes, broken escapes
	for d in DEGEN:
		for ps in ([['n', d]], [[d, 'v']] if d else [['n', d], ['m', d]], [[d or 'n', d]], [['a', 'b'], [d or 'n', d], ['c', 'd']], [[d or 'n', d]] * 2):
			for qs in (False, True):
				for cs in ('UTF-8', 'ISO8859-1'):
					out.append({'k': 'rt_form', 'qs': qs, 'cs': cs, 'ps': ps})
			out.append({'k': 'form_enc', 'qs': len(out) % 2 == 0, 'cs': 'UTF-8', 'ps': ps})
			out.append({'k': 'rt_query', 'ps': ps})
	for ps in ([], [['a', '']], [['a', '']] * 3, [['a', 'b']] * 2, [['a', '1'], ['b', '2'], ['a', '3']], [['b', ''], ['a', '']], [['a', 'a=a'], ['a=a', 'a']]):
		for qs in (False, True):
			out.append({'k': 'rt_form', 'qs': qs, 'cs': 'UTF-8', 'ps': ps})
		out.append({'k': 'rt_query', 'ps': ps})
	import itertools
	alpha = [b'&', b'=', b'+', b'%', b'a', b' ', b'2', b'0', b';']
	for n in range(0, 5 if big else 4):   # every decoder input of up to 3 (thorough: 4) symbols over the separators (model vs implementation)
		for tup in itertools.product(alpha, repeat=n):
			d = b''.join(tup)
			out.append({'k': 'form_dec', 'qs': len(out) % 2 == 0, 'cs': 'UTF-8', 'd': d.hex()})
	# (1) statefulness: the codecs are class-level; what can carry state is a memo in a class and a URI object whose query is set and read repeatedly
	out.extend(_gen_sequences(rng, big, sets))
	# (6) the same octets / pairs written the way another sender would write them (other hex case, more escapes than necessary, %20 for '+',
	#     'n=' for 'n', stray separators).  The statement speaks of decoding what the library encoded; the decoders are total and modelled on every input.
	for i in range(4000 if big else 700):
		d = rbytes(rng, 0, 2 if rng.random() < 0.3 else 20)
		out.append({'k': 'unq_ref', 'd': d.hex(), 'pol': ('lower', 'all', 'mixed')[i % 3], 'seed': rng.randrange(1 << 30)})
	for i in range(6000 if big else 1000):
		cs = rng.choice(['UTF-8', 'ISO8859-1'])
		ps = [[_rtext_clean(rng, 1, 4, cs != 'UTF-8'), _rtext_clean(rng, 0, 4, cs != 'UTF-8')] for _ in range(rng.randint(0, 4))]
		if i % 5 == 0 and ps:
			ps[rng.randrange(len(ps))][rng.randrange(2)] = rng.choice([t for t in NORM + DEGEN[1:] if cs == 'UTF-8' or all(ord(ch) < 256 for ch in t)])
		via = ('codec', 'codec', 'qs', 'uri', 'uriattr')[i % 5]
		out.append({'k': 'dec_ref', 'ps': ps, 'cs': 'UTF-8' if via in ('uri', 'uriattr') else cs, 'qs': via != 'codec', 'via': via, 'pol': ('lower', 'all', 'mixed', 'plain')[i % 4], 'seed': rng.randrange(1 << 30)})
	return out


CLEAN = [ch for ch in ALPH if not (len(ch) == 1 and (ord(ch) < 0x20 or ord(ch) == 0x7f))]


def _rtext_clean(rng, lo, hi, latin1):
	"""like rtext, without C0 controls and DEL (known findings D1 / D21 are about them; they have their own cases above)"""
	out = []
	for _ in range(rng.randint(lo, hi)):
		r = rng.random()
		if r < 0.6:
			ch = rng.choice(CLEAN)
		elif r < 0.8:
			ch = chr(rng.randint(0x20, 0x7e))
		elif r < 0.9:
			ch = chr(rng.randint(0x80, 0xff))
		else:
			ch = chr(rng.choice([rng.randint(0x100, 0xd7ff), rng.randint(0xe000, 0xffff), rng.randint(0x10000, 0x10ffff)]))
		if not latin1 or all(ord(x) < 256 for x in ch):
			out.append(ch)
	s = ''.join(out)
	return s if s or lo == 0 else 'n'


def _gen_sequences(rng, big, sets):
	out = []
	nonascii = ['\u00e4', '\u00ff\u00e9', 'a\u00e4 b', '\u00e9&\u00e9=', '\u00df+', '\u00a0']
	wide = ['a/b?c:d@e', "!$'()*,;", 'x=y&z', 'p q+r', '/?:@', '~-._']
	# a memo keyed by text alone: the same pairs through both charsets and both codecs, in every order, and once more at the end
	for t in nonascii + wide:
		variants = [{'k': 'rt_form', 'qs': qs, 'cs': cs, 'ps': [[t, 'v'], ['n', t]]} for qs in (False, True) for cs in ('UTF-8', 'ISO8859-1')] + [{'k': 'rt_query', 'ps': [[t, 'v'], ['n', t]]}]
		for _ in range(6 if big else 3):
			steps = rng.sample(variants, len(variants))
			out.append({'k': 'seq', 'steps': steps + [steps[0], dict(steps[1], k='form_enc') if steps[1]['k'] == 'rt_form' else steps[2]]})
	# ... the same octets under every octet set, in random order, twice
	for _ in range(120 if big else 40):
		d = rng.choice([b'a/b?c:d@e+f', b"!$&'()*+,;=", b'%41%', bytes(rng.randrange(0x20, 0x7f) for _ in range(rng.randint(1, 8))), rbytes(rng, 1, 8)])
		steps = [{'k': 'rt_quote', 'safe': sname, 'd': d.hex()} for sname in rng.sample(sets, len(sets))]
		steps += [dict(st, k='quote') for st in rng.sample(steps, 4)] + [{'k': 'unquote', 'd': d.hex()}, {'k': 'unquote', 'd': d.hex()}]
		out.append({'k': 'seq', 'steps': steps})
	# ... the same octets decoded by both codecs under both charsets (a memo must not carry a result, or the C.2.1 refusal, from one to the other)
	for _ in range(150 if big else 50):
		d = rng.choice([b'a=%e4', b'%C3%A4=%c3%a4&b', b'a=%01', b'a=%7f&b=c', b'a+b=c+d', b'a=b;c=d', b'%u00e4=1'] + [bytes(rng.choice(b'&&==++%%% ab012cCfF\xe4\xc3\xa4\x7f\x1f') for _ in range(rng.randint(1, 10)))])
		variants = [{'k': 'form_dec', 'qs': qs, 'cs': cs, 'd': d.hex()} for qs in (False, True) for cs in ('UTF-8', 'ISO8859-1')]
		steps = rng.sample(variants, 4)
		out.append({'k': 'seq', 'steps': steps + [steps[0], steps[1]]})
	# ... the SAME octets received under both charsets and by both codecs: the pairs expected differ only by the charset (independent expectation per step)
	for i in range(200 if big else 60):
		ps8 = [[rng.choice(nonascii + ['\u20ac', 'a', '\u00e9\u00e8']) + _rtext_clean(rng, 0, 2, True), _rtext_clean(rng, 0, 3, True) + rng.choice(nonascii)] for _ in range(rng.randint(1, 3))]
		ps1 = [[a.encode('utf-8').decode('latin-1'), b.encode('utf-8').decode('latin-1')] for a, b in ps8]
		pol, seed = ('lower', 'all', 'mixed', 'plain')[i % 4], rng.randrange(1 << 30)
		variants = [{'k': 'dec_ref', 'ps': ps, 'cs': cs, 'qs': via != 'codec', 'via': via, 'pol': pol, 'seed': seed} for ps, cs in ((ps8, 'UTF-8'), (ps1, 'ISO8859-1')) for via in ('codec', 'qs')]
		steps = rng.sample(variants, 4)
		out.append({'k': 'seq', 'steps': steps + [steps[0], {'k': 'dec_ref', 'ps': ps8, 'cs': 'UTF-8', 'qs': True, 'via': 'uriattr', 'pol': pol, 'seed': seed}]})
	# ... one URI object whose query is set, read, set again (pairs, dict, raw string, parse()), copied; a second object used in between
	for i in range(1500 if big else 300):
		ops = []
		for _ in range(rng.randint(2, 5)):
			ps = [[_rtext_clean(rng, 1, 3, False), _rtext_clean(rng, 0, 3, False)] for _ in range(rng.randint(0, 3))]
			if rng.random() < 0.3 and ps:
				ps[0][rng.randrange(2)] = rng.choice(nonascii + wide + NORM[:8])
			how = rng.choice(['set', 'set', 'set', 'setdict', 'setqs', 'parse', 'init', 'other', 'copy', 'get'])
			if how == 'setdict' and len({p[0] for p in ps}) != len(ps):
				how = 'set'
			ops.append([how, ps])
		out.append({'k': 'uq', 'ops': ops})
	return out


# ---------------------------------------------------------------- wave-4 classes: (7) read-only observers, (8) every member of an operator family,
# (9) reserved names as ordinary data, metacharacters of neighbouring components.  No C0 controls / DEL in any text here (D1 / D21 have their own cases).
RESERVED_MAIN = ['_charset_', 'charset', '_charset', '_CHARSET_', 'accept-charset', 'encoding', 'enctype', 'q', 'boundary', 'filename', 'realm', 'uri', 'bytes']
RESERVED_MORE = ['isindex', '_method', 'filename*', 'name', 'type', 'Content-Type', 'content-type', 'utf8', 'ie', 'oe', 'cs', 'codec', 'safe', 'sep', 'query', 'query_string', 'fragment', 'path', 'host', 'port',
	'scheme', 'username', 'password', 'data', 'mimetype', '__class__', 'self', 'cls', 'None', 'quote', 'unquote', 'encode', 'decode', 'nonce', 'qop', 'domain', 'expires', 'max-age', 'title', 'rel']
CODEC_VALUES = ['ISO-8859-1', 'iso8859-1', 'latin1', 'utf-8', 'UTF8', 'utf-16', 'utf-16-le', 'utf-32', 'utf-7', 'ascii', 'us-ascii', 'cp1252', 'windows-1252', 'cp437', 'koi8-r', 'shift_jis', 'euc-jp', 'big5', 'cp037',
	'idna', 'punycode', 'rot13', 'hex', 'base64', 'unicode_escape', 'raw_unicode_escape', 'utf-8-sig', 'mbcs', 'undefined']
OTHER_VALUES = ['application/x-www-form-urlencoded', 'multipart/form-data; boundary=x', 'text/plain;charset=utf-8', '0', '1', '0.5', 'true', 'on', '\u2713', 'None', ';', '&', '=', 'bytes=0-1', '"x"', 'a,b', '%', 'PUT', '*', 'q=0']
W4_TEXT = ['Zo\u00eb', '\u00e4', '5 \u00a3', 'K\u00f8benhavn', '\u00ff\u00e9 x', '\u00c3\u00ab']     # expressible in both charsets
W4_TEXT8 = ['\u20ac', '\U0001f600 ok', 'e\u0301']
META = [':', '/', '?', '#', '@', '=', '&', ';', ',', '%', '"', '+', ' ', '[', ']', '\\', "'", '<', '>', '|', '^', '`', '{', '}', '!', '$', '(', ')', '*', '~',
	'%23', '%3F', '%3f', '%26', '%3D', '%2B', '%25', '%2F', '%2f', '%20', '%40', '%3A', '&amp;', '?#', '#?', '://', '//', '/../', '=&', '&=', ';=', '@:', '%%', '+%20']
URI_OBS = ['repr', 'str', 'bytes', 'hash', 'len', 'bool', 'iter', 'format', 'eq', 'ne', 'ord', 'copy', 'deepcopy', 'pickle', 'clone', 'attrs', 'in', 'views', 'join', 'dir']
CLS_OBS = ['cls.repr', 'cls.attrs', 'cls.hexmap', 'cls.in', 'cls.cmp', 'cls.copy', 'cls.new', 'data.views']
FAM_CODEC = ['iter', 'iterenc', 'dict', 'items', 'gen', 'lists', 'tuple', 'kw', 'mt', 'body', 'body.iter', 'fq']
FAM_URI = ['uri.gen', 'uri.dict', 'uri.items', 'uri.kw', 'uri.initdict', 'uri.inittuple', 'uri.clone', 'uri.parse', 'uri.str', 'uri.quote', 'uri.eq']
# NOT in the families: QueryString.iterdecode - on the pinned tree it raises TypeError for every input (Codec.iterdecode passes a third positional
# argument that QueryString.decode() does not take).  The statement does not speak of iterdecode; reported, kept out so that the clean run stays green.


def _w4_pairs(rng, n8):
	"""1-3 clean pairs, at least one non-ASCII character"""
	ps = [[_rtext_clean(rng, 1, 3, not n8), _rtext_clean(rng, 0, 3, not n8)] for _ in range(rng.randint(1, 3))]
	ps[rng.randrange(len(ps))][rng.randrange(2)] += rng.choice(W4_TEXT + (W4_TEXT8 if n8 else []))
	return ps


def _w4_path(path):
	"""'://' in the PATH next to the query is kept out: URI.parse looks for the last '://' (C10's known finding D30-path-scheme-separator; a C10 matter, the query
	never gets that far).  '://' in the pairs themselves, in user name, password and fragment stays in."""
	while '://' in path:
		path = path.replace('://', ':/')
	return path


def _gen_wave4(rng, big):
	out = []
	from httoop import URI
	schemes = sorted(s.decode('ascii') for s in URI.SCHEMES)

	def pair_cases(ps, cs_list=('UTF-8', 'ISO8859-1'), query=True):
		for cs in cs_list:
			for qs in (False, True):
				out.append({'k': 'rt_form', 'qs': qs, 'cs': cs, 'ps': ps, 'm': 1})
		if query:
			out.append({'k': 'rt_query', 'ps': ps, 'm': 1})

	# (9a) reserved names whose value names a codec / media type / flag, next to text that only the right charset decodes
	i = 0
	for name in RESERVED_MAIN:
		for val in CODEC_VALUES + OTHER_VALUES:
			t = W4_TEXT[i % len(W4_TEXT)]
			pair_cases([[name, val], ['name', t]])
			pair_cases([[t, 'x'], [name, val], ['z', t]] if i % 2 else [['name', t], [name, val]])
			if val in CODEC_VALUES:
				out.append({'k': 'rt_form', 'qs': i % 2 == 0, 'cs': 'UTF-8', 'ps': [['n', W4_TEXT8[i % 3]], [name, val]], 'm': 1})
				out.append({'k': 'dec_ref', 'ps': [['name', t], [name, val]], 'cs': 'UTF-8' if i % 4 > 1 else ('UTF-8', 'ISO8859-1')[i % 2], 'qs': i % 4 != 0, 'via': ('codec', 'qs', 'uri', 'uriattr')[i % 4],
					'pol': ('lower', 'all', 'mixed', 'plain')[(i // 4) % 4], 'seed': rng.randrange(1 << 30)})
			i += 1
	for name in RESERVED_MORE:
		for val in rng.sample(CODEC_VALUES, 4) + rng.sample(OTHER_VALUES, 2):
			t = W4_TEXT[i % len(W4_TEXT)]
			ps = [[name, val], [t, t]] if i % 2 else [[t, name], [name, val]]
			out.append({'k': 'rt_form', 'qs': i % 2 == 0, 'cs': ('UTF-8', 'ISO8859-1')[(i // 2) % 2], 'ps': ps, 'm': 1})
			out.append({'k': 'rt_query', 'ps': ps, 'm': 1})
			i += 1
	# ... the reserved word as a VALUE, the codec name as a NAME, the same reserved name twice with different values
	for name in RESERVED_MAIN:
		for val in rng.sample(CODEC_VALUES, 5):
			t = W4_TEXT[i % len(W4_TEXT)]
			pair_cases([[val, name], [t, t]], ('UTF-8', 'ISO8859-1')[i % 2:][:1])
			pair_cases([[name, val], ['n', t], [name, rng.choice(CODEC_VALUES)]], ('UTF-8', 'ISO8859-1')[(i + 1) % 2:][:1])
			i += 1
	# (9b) metacharacters of the neighbouring components in the pairs, and in the neighbours of the query (user name, password, path, fragment)
	for j, m in enumerate(META):
		for ps in ([['a' + m, m + 'b']], [[m, m]], [['n', m + '\u00e4' + m], [m + 'k', '']], [['x', 'y'], [m + m, 'v' + m + 'w' + m]]):
			pair_cases(ps, ('UTF-8', 'ISO8859-1')[j % 2:][:1])
			out.append({'k': 'fam', 'via': 'uri.meta', 'cs': 'UTF-8', 'ps': ps, 'nb': {'username': 'u' + m, 'password': 'w' + m + 'x', 'path': _w4_path('/p' + m + 'q'), 'fragment': 'f' + m}})
			out.append({'k': 'fam', 'via': 'uri.meta', 'cs': 'UTF-8', 'ps': ps, 'nb': {'path': _w4_path('/' + m), 'fragment': m + ps[0][0] + '=' + ps[0][1]} if j % 2 else {'username': m, 'password': m, 'path': '/p'}})
	for _ in range(600 if big else 150):
		ps = _w4_pairs(rng, True)
		ps[0][rng.randrange(2)] += rng.choice(META)
		nb = {key: ''.join(rng.choice(META + ['a', '\u00e4', 'b']) for _ in range(rng.randint(1, 3))) for key in rng.sample(['username', 'password', 'fragment'], rng.randint(1, 3))}
		nb['path'] = _w4_path('/' + ''.join(rng.choice(META + ['a', '\u00e4', '/']) for _ in range(rng.randint(0, 3))))
		out.append({'k': 'fam', 'via': 'uri.meta', 'cs': 'UTF-8', 'ps': ps, 'nb': nb})
	# (8) every member of the families
	special = [[['_charset_', 'ISO-8859-1'], ['name', 'Zo\u00eb']], [['q', '0.5'], ['charset', 'utf-16'], ['\u00e4', '\u00e4']], [['a&b', 'c=d+e%'], ['\u00ff', ' ']], [['n', '']], []]
	for r in range(260 if big else 65):
		for cs in ('UTF-8', 'ISO8859-1', None):
			ps = special[r] if r < len(special) else _w4_pairs(rng, cs == 'UTF-8')
			ps2 = _w4_pairs(rng, cs == 'UTF-8')
			for via in FAM_CODEC:
				if via in ('dict', 'body.iter') and len({p[0] for p in ps}) != len(ps):
					continue
				if via.startswith('body') and cs is None:
					continue
				for qs in ((False,) if via.startswith('body') else (False, True)):
					out.append({'k': 'fam', 'via': via, 'qs': qs, 'cs': cs, 'ps': ps, 'ps2': ps2})
		ps = special[r] if r < len(special) else _w4_pairs(rng, True)
		for via in FAM_URI:
			if via in ('uri.dict', 'uri.initdict') and len({p[0] for p in ps}) != len(ps):
				continue
			out.append({'k': 'fam', 'via': via, 'cs': 'UTF-8', 'ps': ps, 'ps2': _w4_pairs(rng, True)})
		for sch in (schemes if r < 12 or big else rng.sample(schemes, 2)):
			out.append({'k': 'fam', 'via': 'uri.scheme', 'scheme': sch, 'cs': 'UTF-8', 'ps': ps})
	# (7) read-only observers: on the object itself, on a clone of it, on the object it was cloned from; on the classes; on the pair sequence
	bases = ['', '/p', 'http://h/p?x=y', 'https://u:w@h:8443/a/b?n=%C3%A4#f', '//h', 'ftp://h/?_charset_=ISO-8859-1', 'urn:x?a=b']
	for r in range(900 if big else 260):
		ps = special[r % 4] if r % 9 == 0 else _w4_pairs(rng, True)
		obs = URI_OBS if r % 13 == 0 else rng.sample(URI_OBS, rng.randint(1, 4))
		if r % 3 == 0:
			obs = obs + rng.sample(CLS_OBS, rng.randint(1, 3))
		out.append({'k': 'ro', 'on': 'uri', 'base': bases[r % len(bases)], 'how': ('set', 'setqs', 'parse', 'setdict')[r % 4] if len({p[0] for p in ps}) == len(ps) else 'set',
			'when': ('before', 'after', 'both')[(r // 4) % 3], 'target': ('self', 'clone', 'source')[(r // 12) % 3], 'obs': obs, 'cs': 'UTF-8', 'ps': ps})
	for r in range(500 if big else 150):
		cs = ('UTF-8', 'ISO8859-1', None)[r % 3]
		ps = special[r % 4] if r % 9 == 0 else _w4_pairs(rng, cs == 'UTF-8')
		out.append({'k': 'ro', 'on': 'qs' if r % 2 else 'form', 'when': ('before', 'after', 'both')[(r // 2) % 3], 'obs': CLS_OBS if r % 7 == 0 else rng.sample(CLS_OBS, rng.randint(1, 3)), 'cs': cs, 'ps': ps})
	# ... class-level state has no unobserved twin: the same steps before and after the observers, in one sequence
	for r in range(200 if big else 60):
		d = rng.choice([b'%zz%4%41', b'a%2', b'%e4%E4%eG', b'%', b'%%41', rbytes(rng, 1, 10), rbytes(rng, 1, 10)])
		steps = [{'k': 'unquote', 'd': d.hex()}, {'k': 'quote', 'safe': rng.choice(SAFE_NAMES), 'd': d.hex()}, {'k': 'rt_quote', 'safe': rng.choice(SAFE_NAMES + ['DEFAULT']), 'd': bytes(x for x in d if x >= 0x20 and x != 0x7f).hex()},
			{'k': 'form_dec', 'qs': r % 2 == 0, 'cs': ('UTF-8', 'ISO8859-1')[(r // 2) % 2], 'd': (b'a=' + bytes(x for x in d if x >= 0x20 and x != 0x7f) + b'&_charset_=latin1').hex()}]
		out.append({'k': 'seq', 'steps': steps + [{'k': 'peek', 'obs': CLS_OBS if r % 5 == 0 else rng.sample(CLS_OBS, 3), 'd': d.hex()}] + steps})
	return out


def _try(f, *a):
	try:
		return f(*a)
	except Exception as exc:   # an observer that is not supported is still an observer: what counts is what the object does afterwards
		return type(exc).__name__


def _cmp_all(u, others):
	import operator
	r = []
	for op in (operator.eq, operator.ne, operator.lt, operator.le, operator.gt, operator.ge):
		for x in others:
			r.append(repr(_try(op, u, x)))
			r.append(repr(_try(op, x, u)))
	return r


def _observe_uri(u, names):
	"""read-only uses of a URI object; nothing here assigns to it"""
	import copy
	import operator
	import pickle
	from httoop import URI
	for n in names:
		if n == 'repr':
			_try(repr, u)
		elif n == 'str':
			_try(str, u)
		elif n == 'bytes':
			_try(bytes, u), _try(u.compose)
		elif n == 'hash':
			_try(hash, u)
		elif n == 'len':
			_try(len, u)
		elif n == 'bool':
			_try(bool, u), _try(operator.not_, u)
		elif n == 'iter':
			_try(list, u)
		elif n == 'format':
			_try(format, u, ''), _try(lambda: '%s %r' % (u, u)), _try('{0} {0!r} {0!s}'.format, u)
		elif n == 'eq':
			for x in (URI(b'http://other/?x=y'), b'/p?a=b', '/p?a=b', u, _try(bytes, u), _try(str, u), _try(URI, u), None, (), {}):
				_try(operator.eq, u, x), _try(operator.eq, x, u)
		elif n == 'ne':
			for x in (URI(b'/q?_charset_=latin1'), b'', '', u, _try(bytes, u), _try(str, u), None):
				_try(operator.ne, u, x), _try(operator.ne, x, u)
		elif n == 'ord':
			_cmp_all(u, (URI(b'/q?a=b'), b'/q?a=b', '/q?a=b', u, _try(bytes, u)))
		elif n == 'copy':
			_try(copy.copy, u)
		elif n == 'deepcopy':
			_try(copy.deepcopy, u)
		elif n == 'pickle':
			_try(pickle.dumps, u)
		elif n == 'clone':
			_try(URI, u), _try(lambda: URI(u.tuple)), _try(lambda: URI(u.dict)), _try(lambda: URI(bytes(u))), _try(lambda: URI(str(u)))
		elif n == 'attrs':
			for a in list(URI.slots) + ['port', 'query', 'query_string', 'path_segments', 'hostname', 'dict', 'tuple', 'encoding', 'SCHEME', 'PORT', 'SCHEMES', 'nosuch', '__class__', '__doc__']:
				_try(getattr, u, a), _try(hasattr, u, a)
			_try(lambda: (u.query, u.query, u.query_string, u.query))
		elif n == 'in':
			for x in ('a', b'=', ('a', 'b'), u):
				_try(operator.contains, u, x)
			_try(lambda: ('a', 'b') in u.query), _try(lambda: '_charset_' in dict(u.query)), _try(lambda: 'a' in u.query_string)
		elif n == 'views':
			q = _try(lambda: u.query)
			for f in (dict, sorted, len, bool, list, hash, copy.deepcopy, repr, lambda x: [a + b for a, b in x], lambda x: x == x, lambda x: dict(x).get('_charset_'), lambda x: max(x), lambda x: sorted(dict(x).items())):
				_try(f, q)
		elif n == 'join':
			for x in (b'?z=1', b'#f', b'x', b'//o/p?_charset_=utf-16'):
				_try(u.join, x)
		elif n == 'dir':
			_try(dir, u), _try(lambda: u.__slots__), _try(lambda: type(u).__mro__), _try(lambda: u.__reduce_ex__(2)), _try(lambda: u.__sizeof__())
		elif n.startswith(('cls.', 'data.')):
			_observe_cls([n], (_try(bytes, u) or b'') if isinstance(_try(bytes, u), bytes) else b'', _try(lambda: list(u.query)))
		else:
			raise ValueError(n)


def _observe_cls(names, data=b'', ps=None):
	"""read-only uses of the codec classes, of Percent and its tables, and of a pair sequence"""
	import copy
	Percent, Form, QS = _impl()
	if not isinstance(data, bytes):
		data = b''
	keys = [data[i + 1:i + 3] for i in range(len(data)) if data[i:i + 1] == b'%'] + [b'zz', b'4', b'', b'G0', b'e4', b'E4', b'%4', b'41x']
	for n in names:
		if n == 'cls.repr':
			for x in (Percent, Form, QS):
				_try(repr, x), _try(str, x), _try(lambda: x.__name__), _try(lambda: x.__doc__)
		elif n == 'cls.attrs':
			for x in (Percent, Form, QS):
				for a in sorted(vars(x)) + ['UNQUOTED', 'INVALID', 'mimetype', 'HEX_MAP', 'nosuch']:
					if not a.startswith('__'):
						v = _try(getattr, x, a)
						if isinstance(v, (bytes, bytearray)):
							_try(len, v), _try(sorted, v), _try(bytes, v), _try(hash, v)
		elif n == 'cls.hexmap':
			hm = Percent.HEX_MAP
			for key in keys:
				_try(lambda: key in hm), _try(hm.get, key), _try(lambda: hm[key]), _try(hm.get, bytearray(key)), _try(hm.get, key.decode('latin-1'))
			_try(len, hm), _try(sorted, hm), _try(dict, hm), _try(lambda: list(hm.items())[:3]), _try(lambda: [k for k in hm][:3]), _try(bool, hm), _try(repr, hm), _try(copy.copy, hm), _try(lambda: hm == dict(hm))
		elif n == 'cls.in':
			for ch in set(data) | {0x25, 0x2b, 0x26, 0x3d, 0x20}:
				for x in (Percent, Form, QS):
					for a in ('UNQUOTED', 'UNRESERVED', 'QUERY', 'RESERVED'):
						s = getattr(x, a, b'')
						_try(lambda: ch in s), _try(lambda: bytes([ch]) in s), _try(lambda: s.index(bytes([ch]))), _try(lambda: s.count(bytes([ch])))
			_try(lambda: [t(chr(c)) for t in QS.INVALID for c in set(data)])
		elif n == 'cls.cmp':
			_try(lambda: (Form == QS, Form != QS, hash(Form), hash(QS), issubclass(QS, Form), QS.UNQUOTED == Form.UNQUOTED, QS.UNQUOTED < Form.UNQUOTED, Percent.QUERY >= Percent.PCHAR, sorted([QS.UNQUOTED, Form.UNQUOTED])))
		elif n == 'cls.copy':
			for x in (Percent, Form, QS, Percent.HEX_MAP, QS.INVALID):
				_try(copy.copy, x), _try(copy.deepcopy, x)
		elif n == 'cls.new':
			for x in (Percent, Form, QS):
				inst = _try(x)
				_try(repr, inst), _try(bool, inst), _try(lambda: inst == x()), _try(hash, inst)
		elif n == 'data.views':
			if ps is not None:
				for f in (dict, sorted, len, bool, list, tuple, repr, copy.deepcopy, lambda x: [tuple(p) for p in x], lambda x: dict(x).get('_charset_'), lambda x: ('_charset_', 'utf-16') in [tuple(p) for p in x], lambda x: x == x, lambda x: hash(tuple(map(tuple, x)))):
					_try(f, ps)
		elif n in URI_OBS:
			pass   # (a URI observer in a list used for the classes)
		else:
			raise ValueError(n)


def _read_query(x):
	from httoop.exceptions import InvalidURI
	try:
		return [list(p) for p in x.query]
	except InvalidURI:
		return {'err': 'invalid'}
	except UnicodeDecodeError:
		return {'err': 'unicode'}


def _fresh_qs(ps):
	from httoop import URI
	f = URI()
	f.query = [tuple(p) for p in ps]
	return f.query_string


def _ro_uri_once(c, observed):
	from httoop import URI
	tps = [tuple(p) for p in c['ps']]
	base = c['base'].encode('ascii')
	u = URI(base)
	target, keep = u, None
	if c['target'] == 'clone':
		target = URI(u)            # built from u.tuple: observe the clone, use the original
	elif c['target'] == 'source':
		target, u = u, URI(u)      # observe the object u was cloned from
	keep = target
	if observed and c['when'] in ('before', 'both'):
		_observe_uri(target, c['obs'])
	how = c['how']
	if how == 'set':
		u.query = tps
	elif how == 'setdict':
		u.query = dict(tps)
	elif how == 'setqs':
		u.query_string = _fresh_qs(c['ps'])
	elif how == 'parse':
		u.parse(base.partition(b'#')[0].partition(b'?')[0] + b'?' + _fresh_qs(c['ps']).encode('utf-8'))
	if observed and c['when'] in ('after', 'both'):
		_observe_uri(u if c['target'] == 'self' else keep, c['obs'])
		if c['target'] == 'clone':
			_observe_uri(URI(u), c['obs'])
	r = {'qs': u.query_string, 'back': _read_query(u), 'bytes': bytes(u).hex(), 'tuple': [repr(x) for x in u.tuple], 'cls': type(u).__name__}
	r['re'] = _read_query(URI(bytes(u)))
	r['back2'] = _read_query(u)
	return r


def _ro_codec_once(c, observed):
	Percent, Form, QS = _impl()
	codec = QS if c['on'] == 'qs' else Form
	ps = [tuple(p) for p in c['ps']]
	if observed and c['when'] in ('before', 'both'):
		_observe_cls(c['obs'], b'%zz%41', ps)
	e = codec.encode(ps, c['cs'])
	if observed and c['when'] in ('after', 'both'):
		_observe_cls(c['obs'], e, ps)
	try:
		back = codec.decode(e, c['cs'])
	except UnicodeDecodeError:
		return {'enc': e.hex(), 'back': {'err': 'unicode'}}
	if observed and c['when'] in ('after', 'both'):
		_observe_cls(c['obs'], e, back)
	return {'enc': e.hex(), 'back': [list(p) for p in back], 'back2': [list(p) for p in codec.decode(e, c['cs'])]}


def _observe_ro(c):
	once = _ro_uri_once if c['on'] == 'uri' else _ro_codec_once
	try:
		return {'plain': once(c, False), 'observed': once(c, True), 'plain2': once(c, False)}
	except UnicodeEncodeError:
		return {'skip': 'unencodable'}


def _observe_fam(c):
	"""one member of a family; observation: 'enc' (what the member produced for ps), 'ref' (what the plain encode() call gives), 'back' (pairs read back), extras"""
	Percent, Form, QS = _impl()
	from httoop import URI, Body
	via, cs = c['via'], c['cs']
	ps = [tuple(p) for p in c['ps']]
	ps2 = [tuple(p) for p in c.get('ps2', [])]
	o = {}
	try:
		if not via.startswith('uri.'):
			codec = QS if c.get('qs') else Form
			o['ref'] = codec.encode(ps, cs).hex()
			if via == 'iter':      # (QueryString.iterdecode: see the note at FAM_CODEC)
				es = list(codec.iterencode([ps, ps2, ps], cs))
				o['enc'], o['enc2'], o['ref2'] = es[0].hex(), [e.hex() for e in es], [codec.encode(p, cs).hex() for p in (ps, ps2, ps)]
				backs = list(Form.iterdecode(es, cs)) if codec is Form else [codec.decode(e, cs) for e in es]
				o['back'], o['backs'], o['want'] = [list(p) for p in backs[0]], [[list(p) for p in b] for b in backs], [[list(p) for p in b] for b in (ps, ps2, ps)]
			elif via == 'iterenc':
				es = list(codec.iterencode(iter([ps]), cs, None))
				o['enc'], o['n'] = es[0].hex(), len(es)
				o['back'] = [list(p) for p in codec.decode(es[0], cs)]
			elif via in ('dict', 'items', 'gen', 'lists', 'tuple'):
				data = {'dict': lambda: dict(ps), 'items': lambda: dict(ps).items() if len(dict(ps)) == len(ps) else iter(ps), 'gen': lambda: (p for p in ps), 'lists': lambda: [list(p) for p in ps], 'tuple': lambda: tuple(ps)}[via]()
				e = codec.encode(data, cs)
				o['enc'] = e.hex()
				o['back'] = [list(p) for p in codec.decode(e, cs)]
			elif via == 'kw':
				e = codec.encode(data=ps, charset=cs)
				o['enc'] = e.hex()
				o['back'] = [list(p) for p in codec.decode(data=e, charset=cs)]
			elif via == 'mt':
				e = codec.encode(ps, cs, None)
				o['enc'] = e.hex()
				o['back'] = [list(p) for p in (Form.decode(e, cs, None) if codec is Form else codec.decode(e, charset=cs))]
			elif via in ('body', 'body.iter'):
				mt = 'application/x-www-form-urlencoded; charset=%s' % (cs,)
				b = Body(mimetype=mt)
				if via == 'body':
					b.encode(ps)
				else:
					b.iterencode([ps])
				e = bytes(b)
				o['enc'] = e.hex()
				b2 = Body(mimetype=mt)
				o['back'] = [list(p) for p in b2.decode(e)]
				o['back2'] = [list(p) for p in b.decode()]
			elif via == 'fq':
				texts = [t for p in ps for t in p]
				qs_ = [codec.quote(t, cs) for t in texts]
				o['enc'] = codec.encode(ps, cs).hex()
				o['quoted'] = [q.hex() for q in qs_]
				o['unquoted'] = [codec.unquote(q, cs) for q in qs_]
				o['texts'] = texts
				o['unsafe'] = [q.hex() for q in qs_ if not _only_safe(q, set(codec.UNQUOTED) - {0x25})]
				o['back'] = [list(p) for p in codec.decode(bytes.fromhex(o['enc']), cs)]
			else:
				raise ValueError(via)
			return o
		# ---- the URI members
		o['ref'] = _fresh_qs(c['ps']).encode('utf-8').hex()
		if via == 'uri.meta':
			u, f = URI(scheme='http', host='h'), URI(scheme='http', host='h')
			for key, val in sorted(c['nb'].items()):
				setattr(u, key, val)
				setattr(f, key, val)
			u.query = ps
			o['nb'] = [repr(x) for i, x in enumerate(u.tuple) if i != 6]
			o['nb_fresh'] = [repr(x) for i, x in enumerate(f.tuple) if i != 6]
			v, g = URI(bytes(u)), URI(bytes(f))
			o['nb_re'] = [repr(x) for i, x in enumerate(v.tuple) if i != 6]
			o['nb_fresh_re'] = [repr(x) for i, x in enumerate(g.tuple) if i != 6]
			o['wire'] = bytes(u).hex()
			o['re'] = _read_query(v)
			o['re2'] = _read_query(URI(bytes(v)))
		elif via == 'uri.scheme':
			u = URI(('%s://host/p' % c['scheme']).encode('ascii'))
			u.query = ps
			o['cls'] = type(u).__name__
			o['re'] = _read_query(URI(bytes(u)))
			w = URI(('%s://host/p?%s' % (c['scheme'], _fresh_qs(c['ps']))).encode('utf-8'))
			o['re2'] = _read_query(w)
		elif via in ('uri.gen', 'uri.dict', 'uri.items'):
			u = URI(b'/p?x=y')
			u.query = {'uri.gen': lambda: (p for p in ps), 'uri.dict': lambda: dict(ps), 'uri.items': lambda: dict(ps).items() if len(dict(ps)) == len(ps) else iter(ps)}[via]()
		elif via == 'uri.kw':
			u = URI(scheme='http', host='h', path='/p', query_string=_fresh_qs(c['ps']))
		elif via == 'uri.initdict':
			u = URI({'path': '/p', 'query_string': _fresh_qs(c['ps'])})
		elif via == 'uri.inittuple':
			u = URI(('', '', '', '', None, '/p', _fresh_qs(c['ps']), ''))
		elif via == 'uri.clone':
			s = URI(b'http://h/p')
			s.query = ps
			u = URI(s)
			s.query = ps2       # the source changes afterwards: the clone must not follow
			o['src'] = _read_query(s)
			o['src_want'] = [list(p) for p in ps2]
		elif via == 'uri.parse':
			u = URI(b'http://h/p?old=1')
			u.parse(b'/p?' + _fresh_qs(c['ps']).encode('utf-8'))
		elif via == 'uri.str':
			u = URI('/p?' + _fresh_qs(c['ps']))
		elif via == 'uri.quote':
			u = URI()
			u.query = ps
			texts = [t for p in ps for t in p]
			o['texts'] = texts
			o['quoted'] = [u.quote(t, QS.UNQUOTED).hex() for t in texts]
			o['want_quoted'] = [QS.quote(t, 'UTF-8').hex() for t in texts]
			o['unquoted'] = [u.unquote(bytes.fromhex(q)) for q in o['quoted']]
		elif via == 'uri.eq':
			u, v, w = URI(b'http://h/p'), URI(b'http://h/p'), URI(b'http://h/p')
			u.query, v.query, w.query = ps, list(ps), ps2
			o['same'] = _cmp_all(u, (v, bytes(v), str(v)))[:12]
			o['diff'] = _cmp_all(u, (w, bytes(w), str(w)))[:12] if _fresh_qs(c['ps']) != _fresh_qs(c['ps2']) else None
			o['after'] = _read_query(v)
		else:
			raise ValueError(via)
		o['enc'] = u.query_string.encode('utf-8').hex()
		o['back'] = _read_query(u)
		o['back2'] = _read_query(u)
		return o
	except UnicodeEncodeError:
		return {'skip': 'unencodable'}
	except UnicodeDecodeError:
		o['back'] = {'err': 'unicode'}
		return o


def _only_safe(e, safe):
	i = 0
	while i < len(e):
		if e[i] == 0x25:
			if len(e[i + 1:i + 3]) != 2 or not all(ch in b'0123456789ABCDEFabcdef' for ch in e[i + 1:i + 3]):
				return False
			i += 3
		elif e[i] in safe:
			i += 1
		else:
			return False
	return True


def _tie_terms(qs, cs, ps, enc, back, anycs=False):
	"""the member's output and read-back through the Coq model: CFormEnc ps -> enc, CFormDec enc -> back.
	anycs (wave 5): any charset - the model works on the charset-encoded octets; for a charset other than UTF-8 it takes every octet string as text, so that an
	implementation-side decoding error under such a charset is left to the oracle.  back None: the call wrote something and read nothing."""
	if len(enc) > 4 * COQ_OCTET_LIMIT or (not anycs and cs is not None and not _is_utf8(cs) and cs not in CHARSETS_L1):
		return None
	terms = ['CFormEnc %s %s %s' % (B(qs), pairs(_enc_pairs(ps, cs)), X(enc))]
	if back is None or (anycs and isinstance(back, dict) and not _is_utf8(cs)):
		return terms
	if isinstance(back, dict):
		out = 'DUnicode' if back.get('err') == 'unicode' else 'DInvalid'
	else:
		try:
			out = '(DOk %s)' % pairs(_enc_pairs(back, cs))
		except UnicodeEncodeError:
			return terms + ['CUtf8 [] false']   # read back as text the charset cannot even express: force the disagreement
	terms.append('CFormDec %s %s %s %s' % (B(qs), B(_is_utf8(cs)), X(enc), out))
	return terms


def _oracle_fam(c, o):
	via, want = c['via'], [list(p) for p in c['ps']]
	what = 'family member %s (%s, charset %r) on the pairs %r' % (via, c.get('scheme') or ('QueryString' if c.get('qs') or via.startswith('uri.') else 'FormURLEncoded'), c['cs'], c['ps'])
	if 'back' not in o or 'enc' not in o:
		return '%s: unexpected outcome %s' % (what, o)
	if o['back'] != want:
		return '%s: encoded as %r, read back as %r' % (what, bytes.fromhex(o['enc']), o['back'])
	for key in ('back2', 're', 're2', 'after'):
		if key in o and o[key] != want:
			return '%s: encoded as %r, read again (%s) as %r' % (what, bytes.fromhex(o.get('wire', o['enc'])), key, o[key])
	if via in ('dict', 'uri.dict'):
		if sorted(o['enc'].split('26')) != sorted(o['ref'].split('26')) and len(want) > 1:   # (a dict has its own order; the fields must be the same)
			return '%s: produced %r, encode() of the same pairs gives %r' % (what, bytes.fromhex(o['enc']), bytes.fromhex(o['ref']))
	elif o['enc'] != o['ref']:
		return '%s: produced %r, the plain call with the same pairs gives %r' % (what, bytes.fromhex(o['enc']), bytes.fromhex(o['ref']))
	if via == 'iter' and (o['enc2'] != o['ref2'] or o['backs'] != o['want']):
		return '%s: iterencode / iterdecode of three pair lists gave %r / %r, expected %r / %r' % (what, o['enc2'], o['backs'], o['ref2'], o['want'])
	if via == 'iterenc' and o['n'] != 1:
		return '%s: iterencode of one pair list gave %d parts' % (what, o['n'])
	if via in ('fq', 'uri.quote'):
		if o['unquoted'] != o['texts']:
			return '%s: unquote(quote(text)) gave %r for %r (quoted %r)' % (what, o['unquoted'], o['texts'], o['quoted'])
		if o.get('unsafe'):
			return '%s: quote() produced something else than safe octets and two-digit escapes: %r' % (what, o['unsafe'])
		if 'want_quoted' in o and o['quoted'] != o['want_quoted']:
			return '%s: URI.quote gave %r, QueryString.quote gives %r' % (what, o['quoted'], o['want_quoted'])
	if via == 'uri.meta' and (o['nb'] != o['nb_fresh'] or o['nb_re'] != o['nb_fresh_re']):
		return '%s: setting the query changed the other components: %r / %r, without a query %r / %r' % (what, o['nb'], o['nb_re'], o['nb_fresh'], o['nb_fresh_re'])
	if via == 'uri.clone' and o['src'] != o['src_want']:
		return '%s: the source object reads %r after it was set to %r' % (what, o['src'], o['src_want'])
	if via == 'uri.eq':
		if o['same'] != ['True'] * 6 + ['False'] * 6:
			return '%s: two URIs holding the same pairs: ==, != against URI / bytes / str in both directions gave %r' % (what, o['same'])
		if o['diff'] is not None and o['diff'] != ['False'] * 6 + ['True'] * 6:
			return '%s: URIs holding %r and %r: ==, != against URI / bytes / str in both directions gave %r' % (what, c['ps'], c['ps2'], o['diff'])
	return None


def _oracle_ro(c, o):
	want = [list(p) for p in c['ps']]
	what = 'read-only observers %r (%s, on %s%s) with the pairs %r' % (c['obs'], c['when'], c['on'], ': %s, %s of %r' % (c['how'], c['target'], c['base']) if c['on'] == 'uri' else ' charset %r' % (c['cs'],), c['ps'])
	for key in ('plain', 'observed', 'plain2'):
		r = o.get(key)
		if not isinstance(r, dict) or 'back' not in r:
			return '%s: unexpected outcome %s' % (what, o)
		for k2 in ('back', 'back2', 're'):
			if k2 in r and r[k2] != want:
				return '%s: %s object: %s reads %r (query string / octets %r)' % (what, key, k2, r[k2], r.get('qs', r.get('enc')))
	if o['observed'] != o['plain']:
		return '%s: the observed object gives %r, an unobserved new one %r' % (what, o['observed'], o['plain'])
	if o['plain2'] != o['plain']:
		return '%s: a new object after the observation gives %r, before it %r' % (what, o['plain2'], o['plain'])
	return None


def _is_utf8(cs):
	import codecs
	return cs is not None and codecs.lookup(cs).name == 'utf-8'


def _enc_pairs(ps, cs):
	cs = cs or 'ISO8859-1'   # the codecs' default charset
	return [(a.encode(cs, 'surrogatepass') if _is_utf8(cs) else a.encode(cs), b.encode(cs, 'surrogatepass') if _is_utf8(cs) else b.encode(cs)) for a, b in ps]


REF_UNRES = b'abcdefghijklmnopqrstuvwxyzABCDEFGHIJKLMNOPQRSTUVWXYZ0123456789-._~'


def _ref_quote(d, pol, seed, form=False):
	"""percent-encoding written independently of httoop (RFC 3986 2.1/2.3: unreserved octets may be escaped, hex digits in either case)"""
	import random
	r = random.Random(seed)
	out = bytearray()
	for ch in d:
		if form and ch == 0x20 and pol != 'all' and (pol == 'plain' or r.random() < 0.5):
			out += b'+'
		elif ch in REF_UNRES and pol != 'all' and not (pol == 'mixed' and r.random() < 0.3):
			out.append(ch)
		else:
			h = '%02X' % ch
			out += b'%' + (h.lower() if pol == 'lower' else ''.join(x.lower() if r.random() < 0.5 else x for x in h) if pol == 'mixed' else h).encode('ascii')
	return bytes(out)


def _ref_form(ps, cs, pol, seed):
	"""application/x-www-form-urlencoded written by another sender: same pairs, same order"""
	import random
	r = random.Random(seed ^ 0x5a5a)
	fields = []
	for i, (n, v) in enumerate(_enc_pairs(ps, cs)):
		f = _ref_quote(n, pol, seed + 2 * i, True)
		if v or r.random() < 0.5:
			f += b'=' + _ref_quote(v, pol, seed + 2 * i + 1, True)
		fields.append(f)
	sep = lambda: b'&&' if r.random() < 0.1 else b'&'   # noqa: E731  (empty fields are skipped by every form decoder)
	out = b''
	for i, f in enumerate(fields):
		out += (sep() if i else b'') + f
	if fields and r.random() < 0.15:
		out = b'&' + out
	if fields and r.random() < 0.15:
		out += b'&'
	return out


def _observe_dec_ref(c):
	Percent, Form, QS = _impl()
	from httoop import URI
	from httoop.exceptions import InvalidURI
	try:
		e = _ref_form([tuple(p) for p in c['ps']], c['cs'], c['pol'], c['seed'])
	except UnicodeEncodeError:
		return {'skip': 'unencodable'}
	o = {'enc': e.hex()}
	try:
		if c['via'] == 'codec':
			r = Form.decode(e, c['cs'])
		elif c['via'] == 'qs':
			r = QS.decode(e, c['cs'])
		elif c['via'] == 'uri':
			r = URI(b'/p?' + e).query
		else:
			u = URI()
			u.query_string = e.decode('ascii')
			r = u.query
		o['back'] = [list(p) for p in r]
		o['ps'] = [[a.encode(c['cs'], 'surrogatepass').hex(), b.encode(c['cs'], 'surrogatepass').hex()] for a, b in r]
	except UnicodeDecodeError:
		o['err'] = 'unicode'
	except InvalidURI:
		o['err'] = 'invalid'
	return o


def _observe_uq(c):
	"""one URI object whose query is set and read repeatedly; after every step: its query string, the pairs read twice, and the query string a NEW object
	gives for the pairs it should hold now"""
	from httoop import URI
	from httoop.exceptions import InvalidURI

	def fresh_qs(ps):
		f = URI()
		f.query = [tuple(p) for p in ps]
		return f.query_string

	def read(x):
		try:
			return [list(p) for p in x.query]
		except InvalidURI:
			return {'err': 'invalid'}
	state = {'u': URI(), 'cur': []}
	steps = []

	def step(how, ps):
		return _uq_step(state, how, ps, fresh_qs, read)
	for how, ps in c['ops']:
		try:
			st = step(how, ps)
		except Exception as exc:
			steps.append({'how': how, 'err': 'invalid' if isinstance(exc, InvalidURI) else 'escape:%s' % type(exc).__name__, 'msg': str(exc)[:200], 'want': [list(p) for p in ps]})
			break
		steps.append(st)
	return {'steps': steps}


def _uq_step(state, how, ps, fresh_qs, read):
	from httoop import URI
	u, cur = state['u'], state['cur']
	st = {'how': how}
	tps = [tuple(p) for p in ps]
	if how == 'set':
		u.query = tps
		cur = ps
	elif how == 'setdict':
		u.query = dict(tps)
		cur = ps
	elif how == 'setqs':
		u.query_string = fresh_qs(ps)
		cur = ps
	elif how == 'parse':
		u.parse(b'/p?' + fresh_qs(ps).encode('utf-8'))
		cur = ps
	elif how == 'init':
		u.__init__(path='/p', query_string=fresh_qs(ps))
		cur = ps
	elif how == 'other':
		v = URI(b'http://h/p?x=y')
		v.query = tps
		st['second'] = {'qs': v.query_string, 'back': read(v), 'want': [list(p) for p in ps], 'fresh_qs': fresh_qs(ps)}
	elif how == 'copy':
		w = URI(u)
		st['second0'] = {'qs': w.query_string, 'back': read(w)}
		w.query = tps
		st['second'] = {'qs': w.query_string, 'back': read(w), 'want': [list(p) for p in ps], 'fresh_qs': fresh_qs(ps)}
	state['cur'] = cur
	st['qs'] = u.query_string
	st['back'] = read(u)
	st['back2'] = read(u)
	st['qs2'] = u.query_string
	st['want'] = [list(p) for p in cur]
	st['fresh_qs'] = fresh_qs(cur)
	return st


def observe(c):
	Percent, Form, QS = _impl()
	k = c['k']
	try:
		if k == 'quote':
			s = _safe(c['safe'])
			out = Percent.quote(bytes.fromhex(c['d'])) if s is None else Percent.quote(bytes.fromhex(c['d']), s)
			return {'out': out.hex()}
		if k == 'rt_quote':
			s = _safe(c['safe'])
			d = bytes.fromhex(c['d'])
			q = Percent.quote(d) if s is None else Percent.quote(d, s)
			return {'enc': q.hex(), 'back': Percent.unquote(q).hex()}
		if k == 'unquote':
			return {'out': Percent.unquote(bytes.fromhex(c['d'])).hex()}
		if k == 'utf8':
			try:
				bytes.fromhex(c['d']).decode('utf-8')
				return {'ok': True}
			except UnicodeDecodeError:
				return {'ok': False}
		if k == 'seq':
			return {'steps': [observe(st) for st in c['steps']]}
		if k == 'unq_hex':
			return {'out': Percent.unquote(bytes.fromhex(c['d'])).hex()}
		if k == 'unq_ref':
			e = _ref_quote(bytes.fromhex(c['d']), c['pol'], c['seed'])
			return {'enc': e.hex(), 'out': Percent.unquote(e).hex()}
		if k == 'dec_ref':
			return _observe_dec_ref(c)
		if k == 'uq':
			return _observe_uq(c)
		if k == 'fam':
			return _observe_fam(c)
		if k == 'ro':
			return _observe_ro(c)
		if k == 'w5':
			return _observe_w5(c)
		if k == 'peek':
			_observe_cls(c['obs'], bytes.fromhex(c['d']), None)
			return {'peek': len(c['obs'])}
		codec = QS if c.get('qs') else Form
		if k == 'form_enc':
			ps = [tuple(p) for p in c['ps']]
			try:
				return {'out': codec.encode(ps, c['cs']).hex()}
			except UnicodeEncodeError:
				return {'skip': 'unencodable'}
		if k == 'form_dec':
			try:
				r = codec.decode(bytes.fromhex(c['d']), c['cs'])
			except UnicodeDecodeError:
				return {'err': 'unicode'}
			return {'ps': [[a.encode(c['cs'] or 'ISO8859-1').hex(), b.encode(c['cs'] or 'ISO8859-1').hex()] for a, b in r]}
		if k == 'rt_form':
			ps = [tuple(p) for p in c['ps']]
			try:
				e = codec.encode(ps, c['cs'])
			except UnicodeEncodeError:
				return {'skip': 'unencodable'}
			return {'enc': e.hex(), 'back': [list(p) for p in codec.decode(e, c['cs'])]}
		if k == 'rt_query':
			from httoop import URI
			u = URI()
			try:
				u.query = [tuple(p) for p in c['ps']]
			except UnicodeEncodeError:
				return {'skip': 'unencodable'}
			return {'qs': u.query_string, 'back': [list(p) for p in u.query]}
	except Exception as exc:
		from httoop.exceptions import InvalidURI
		if isinstance(exc, InvalidURI):
			return {'err': 'invalid'}
		return {'err': 'escape:%s' % type(exc).__name__, 'msg': str(exc)[:200]}
	raise ValueError(k)


def _mask(s):
	if s is None:
		s = _impl()[0].UNRESERVED
	m = 0
	for ch in set(s):
		m |= 1 << ch
	return m


def coq_case(c, o):
	k = c['k']
	if 'skip' in o or k == 'peek':
		return None
	if c.get('m') and k in ('rt_form', 'rt_query'):   # wave-4 pair inputs: the encoder's output and the decoder's answer through the model as well
		if str(o.get('err', '')).startswith('escape'):
			return 'CUtf8 [] false'
		if 'err' in o:
			return None
		qs = True if k == 'rt_query' else c['qs']
		return _tie_terms(qs, c.get('cs', 'UTF-8'), c['ps'], o['qs'].encode('utf-8') if k == 'rt_query' else bytes.fromhex(o['enc']), o['back'], c['m'] == 5)
	if k.startswith('rt_'):
		return None  # oracle-only kinds
	if k == 'fam':
		if 'enc' not in o or 'back' not in o or c['via'] in ('dict', 'uri.dict'):
			return 'CUtf8 [] false' if str(o.get('err', '')).startswith('escape') else None
		return _tie_terms(bool(c.get('qs')) or c['via'].startswith('uri.'), c['cs'], c['ps'], bytes.fromhex(o['enc']), o['back'])
	if k == 'ro':
		r = o.get('observed')
		if not isinstance(r, dict) or 'back' not in r:
			return 'CUtf8 [] false' if str(o.get('err', '')).startswith('escape') else None
		return _tie_terms(c['on'] != 'form', c['cs'], c['ps'], bytes.fromhex(r['enc']) if 'enc' in r else r['qs'].encode('utf-8'), r['back'])
	if str(o.get('err', '')).startswith('escape'):
		return 'CUtf8 [] false'  # an escaping exception where the model has none: force a disagreement
	if k in ('seq', 'uq') and 'steps' not in o:
		return None
	if k == 'w5':
		return _coq_w5(c, o)
	if k == 'seq':
		terms = [coq_case(st, so) for st, so in zip(c['steps'], o['steps'])]
		return [t for t in terms if t is not None] or None
	if k == 'unq_hex':
		return 'CUnquote %s %s' % (X(bytes.fromhex(c['d'])), X(bytes.fromhex(o['out'])))
	if k == 'unq_ref':
		return 'CUnquote %s %s' % (X(bytes.fromhex(o['enc'])), X(bytes.fromhex(o['out'])))
	if k == 'dec_ref':
		if c['via'] == 'uri' or len(o['enc']) > 4 * COQ_OCTET_LIMIT:
			return None   # (URI.parse re-encodes the query first: a C10 matter)
		return coq_case({'k': 'form_dec', 'qs': c['qs'], 'cs': c['cs'], 'd': o['enc']}, o)
	if k == 'uq':
		terms, seen = [], set()
		for st in o['steps']:
			for x in (st, st.get('second')):
				if x and 'want' in x and 'fresh_qs' in x and repr(x['want']) not in seen and sum(len(a) + len(b) for a, b in x['want']) < COQ_OCTET_LIMIT:
					seen.add(repr(x['want']))
					terms.append('CFormEnc true %s %s' % (pairs(_enc_pairs(x['want'], 'UTF-8')), X(x['fresh_qs'].encode('utf-8'))))
		return terms or None
	if k == 'quote':
		return 'CQuote %s %s %s' % (N(_mask(_safe(c['safe']))), X(bytes.fromhex(c['d'])), X(bytes.fromhex(o['out'])))
	if k == 'unquote':
		return 'CUnquote %s %s' % (X(bytes.fromhex(c['d'])), X(bytes.fromhex(o['out'])))
	if k == 'utf8':
		return 'CUtf8 %s %s' % (X(bytes.fromhex(c['d'])), B(o['ok']))
	if k == 'form_enc':
		return 'CFormEnc %s %s %s' % (B(c['qs']), pairs(_enc_pairs(c['ps'], c['cs'])), X(bytes.fromhex(o['out'])))
	if k == 'form_dec':
		if o.get('err') == 'unicode':
			out = 'DUnicode'
		elif o.get('err') == 'invalid':
			out = 'DInvalid'
		else:
			out = '(DOk %s)' % pairs([(bytes.fromhex(a), bytes.fromhex(b)) for a, b in o['ps']])
		return 'CFormDec %s %s %s %s' % (B(c['qs']), B(_is_utf8(c['cs'])), X(bytes.fromhex(c['d'])), out)
	return None


def oracle(c, o):
	k = c['k']
	if str(o.get('err', '')).startswith('escape') or 'harness_exception' in o:
		return 'unexpected exception %s' % (o,)
	if 'skip' in o or k == 'peek':
		return None
	if k == 'fam':
		return _oracle_fam(c, o)
	if k == 'ro':
		return _oracle_ro(c, o)
	if k == 'w5':
		return _oracle_w5(c, o)
	if k == 'seq':
		first = {}
		for i, (st, so) in enumerate(zip(c['steps'], o['steps'])):
			f = oracle(st, so)
			if f:
				return 'step %d of a call sequence (%s): %s' % (i, _seq_text(c, i), f)
			key = repr(sorted(st.items()))
			if key in first and o['steps'][first[key]] != so:
				return 'step %d of a call sequence repeats step %d and gives a different result: %r then %r (%s)' % (i, first[key], o['steps'][first[key]], so, _seq_text(c, i))
			first.setdefault(key, i)
		return None
	if k == 'unq_hex':
		import urllib.parse
		want = urllib.parse.unquote_to_bytes(bytes.fromhex(c['d']))
		if bytes.fromhex(o['out']) != want:
			return 'unquote(%r) gave %r, every escape spelling must decode: expected %r' % (bytes.fromhex(c['d']), bytes.fromhex(o['out']), want)
		return None
	if k == 'unq_ref':
		if o['out'] != c['d']:
			return 'the octets %r escaped by another sender as %r decode to %r' % (bytes.fromhex(c['d']), bytes.fromhex(o['enc']), bytes.fromhex(o['out']))
		return None
	if k == 'dec_ref':
		if o.get('err'):
			return 'the pairs %r written by another sender as %r: decoding (%s) raised %s' % (c['ps'], bytes.fromhex(o['enc']), c['via'], o['err'])
		if o['back'] != [list(p) for p in c['ps']]:
			return 'the pairs %r written by another sender as %r decode (%s) to %r' % (c['ps'], bytes.fromhex(o['enc']), c['via'], o['back'])
		return None
	if k in ('seq', 'uq', 'dec_ref', 'unq_ref', 'unq_hex') and ('steps' if k in ('seq', 'uq') else 'out' if k != 'dec_ref' else 'enc') not in o:
		return 'unexpected outcome %s' % (o,)
	if k == 'uq':
		for i, st in enumerate(o['steps']):
			where = 'one URI object, step %d (%s)' % (i, ' / '.join('%s %r' % (h, p) for h, p in c['ops'][:i + 1]))
			if 'err' in st:
				return '%s: raised %s %s' % (where, st['err'], st.get('msg'))
			for name, x in (('', st), ('second object: ', st.get('second'))):
				if not x:
					continue
				if x['back'] != x['want']:
					return '%s: %sthe query reads back as %r, it should hold %r (query string %r)' % (where, name, x['back'], x['want'], x['qs'])
				if x['qs'] != x['fresh_qs']:
					return '%s: %sthe query string is %r, a new object holding the same pairs has %r' % (where, name, x['qs'], x['fresh_qs'])
			if st['back2'] != st['back'] or st['qs2'] != st['qs']:
				return '%s: reading the query changed it: %r / %r then %r / %r' % (where, st['qs'], st['back'], st['qs2'], st['back2'])
			if 'second0' in st and i and (st['second0']['back'] != o['steps'][i - 1]['back'] or st['second0']['qs'] != o['steps'][i - 1]['qs']):
				return '%s: a copy does not hold what the original holds: %r vs %r' % (where, st['second0'], o['steps'][i - 1]['back'])
		return None
	if k == 'rt_quote':
		d = bytes.fromhex(c['d'])
		if bytes.fromhex(o['back']) != d:
			return 'unquote(quote(d)) != d: quote gave %s, unquote gave %s' % (o['enc'], o['back'])
		s = _safe(c['safe'])
		safe = set(_impl()[0].UNRESERVED if s is None else s) - {0x25}
		e = bytes.fromhex(o['enc'])
		i = 0
		while i < len(e):
			if e[i] == 0x25:
				if not (i + 2 < len(e) + 0 and all(ch in b'0123456789ABCDEFabcdef' for ch in e[i + 1:i + 3]) and len(e[i + 1:i + 3]) == 2):
					return 'encoded string has a malformed escape at %d: %s' % (i, o['enc'])
				i += 3
			elif e[i] in safe:
				i += 1
			else:
				return 'encoded string contains an unsafe octet at %d: %s' % (i, o['enc'])
		return None
	if k == 'rt_form':
		if o.get('err'):
			return 'form round trip raised %s' % o['err']
		if o['back'] != [list(p) for p in c['ps']]:
			return 'decode(encode(pairs)) != pairs: %s -> %r' % (o['enc'], o['back'])
	if k == 'rt_query':
		if o.get('err'):
			return 'URI.query round trip raised %s' % o['err']
		if o['back'] != [list(p) for p in c['ps']]:
			return 'URI.query read back differs: %r -> %r' % (o['qs'], o['back'])
	return None


def _seq_text(c, i):
	return ' ; '.join('%s %s' % (st['k'], {a: b for a, b in st.items() if a != 'k'}) for st in c['steps'][:i + 1])[:600]


def _low_unsafe(data, safe):
	return any(ch < 0x10 and ch not in safe for ch in data)


def classify(c, o, fail):
	Percent, Form, QS = _impl()
	k = c['k']
	if k == 'seq':
		# the failing step decides (a known finding inside a sequence stays that known finding)
		for st, so in zip(c['steps'], o['steps']):
			f = oracle(st, so)
			if f:
				return classify(st, so, f)
		return None
	if k == 'dec_ref':
		try:
			enc = b''.join(a + b for a, b in _enc_pairs(c['ps'], c['cs']))
		except UnicodeEncodeError:
			return None
		if c['via'] != 'codec' and o.get('err') == 'invalid' and any(ch < 0x20 or ch == 0x7f for ch in enc):
			return 'D21-query-c0-controls'
		return None
	if k == 'rt_quote':
		s = _safe(c['safe'])
		safe = set(Percent.UNRESERVED if s is None else s) - {0x25}
		if _low_unsafe(bytes.fromhex(c['d']), safe):
			return 'D1-percent-low-octet'
	if k in ('rt_form', 'rt_query'):
		cs = c.get('cs', 'UTF-8')
		codec = QS if (c.get('qs') or k == 'rt_query') else Form
		safe = set(codec.UNQUOTED) - {0x25}
		try:
			enc = b''.join(a + b for a, b in _enc_pairs(c['ps'], cs))
		except UnicodeEncodeError:
			return None   # text the charset cannot express was encoded all the same: never a known finding
		if _low_unsafe(enc, safe):
			return 'D1-percent-low-octet'
		if (k == 'rt_query' or c.get('qs')) and o.get('err') == 'invalid' and any(ch < 0x20 or ch == 0x7f for ch in enc):
			return 'D21-query-c0-controls'
	return None


def nontrivial(c, o):
	if 'skip' in o:
		return None
	k = c['k']
	if k in ('seq', 'uq'):
		return (k, repr(c.get('steps') or c.get('ops')))
	if k in ('fam', 'ro', 'w5'):
		return (k, repr(sorted(c.items())))
	if k == 'peek':
		return None
	if k in ('unq_ref', 'dec_ref'):
		return (k, c.get('d'), repr(c.get('ps')), c.get('cs'), c.get('via'), c['pol'], c['seed'])
	if k in ('quote', 'unquote') and o.get('out') == c['d']:
		return None
	if k == 'rt_quote' and o.get('enc') == c['d']:
		return None
	return (k, c.get('safe'), c.get('d'), repr(c.get('ps')), c.get('cs'), c.get('qs'))

# ---------------------------------------------------------------- wave-5 classes (DESIGN section 8, classes 10-17)
# (10) aliasing  (11) argument types  (12) refused operations  (13) configuration knobs (URI.encoding, charset of a form Body)  (14) order
# (15) order of API calls  (16) value-dependent branches: charsets whose octets for ordinary text ARE the metacharacters  (17) lengths 2^k and 2^k +- 1
# One kind 'w5' with a 'via'.  The observation is a list of facts; what each fact must be is decided by the oracle from the CASE alone:
#   r   [label, pairs read by the implementation, key of the pair list in the case that it must equal]
#   dec [label, octets the implementation wrote, charset, key]: read by _ref_parse (standard library only) they must give the pairs; safe characters and %HH only
#   eq  [label, a, b]: 'same as a new object / same as before / argument unchanged' comparisons
#   exc [label, exception name or None, 'must-accept' | 'may-refuse']
#   tie [is QueryString, charset, key, octets, pairs read back (, 'dec')]: the same through the Coq model (CFormEnc + CFormDec; 'dec': the octets are another sender's, CFormDec only)
# No C0 control / DEL OCTET in any charset-encoded text here (D1 / D21 have their own cases): _w5_clean().
# charsets in which ASCII octets are ASCII characters: usable as URI.encoding (the URI syntax itself is ASCII)
W5_URI_CS = ['ISO8859-1', 'cp1252', 'koi8-r', 'iso8859-15', 'iso8859-5', 'iso8859-7', 'cp1251', 'cp437', 'mac-roman', 'gb18030', 'gbk', 'shift_jis', 'big5', 'euc-jp', 'euc-kr', 'UTF-8']
# NOT used as URI.encoding: UTF-16 / UTF-32 / UTF-7 / EBCDIC (cp037): on the pinned tree URI(b'/p') itself raises InvalidURI under UTF-16/32, the query setter raises
# UnicodeDecodeError under UTF-7, and under cp037 the query string is not ASCII.  The knob is documented for the charset of the percent-encoded octets; the statement does
# not speak of URI syntax in a charset that is not ASCII-compatible.  Reported, kept out.  They are used where the charset is an argument of the codec / of the media type.
W5_WIDE_CS = ['utf-16', 'utf-16-le', 'utf-16-be', 'utf-7', 'cp037', 'cp500', 'hz', 'cp932', 'johab']
W5_HOWS = ['sub', 'sub_slots', 'assign', 'sub_late', 'scheme']
W5_SETS = ['set', 'setdict', 'gen', 'setqs', 'parse', 'init', 'str']
W5_POW2 = [1 << k for k in range(9, 17)]
REF_QUERY = REF_UNRES + b"!$&'()*+,;=:@/?"     # RFC 3986: query = *( pchar / "/" / "?" )
W5_META_OCTETS = b' %&+=;#?/@:[]\\|~"<>^`{}$!\'()*,'
W5_CONTAINERS = ['list', 'tuple', 'lists', 'iter', 'gen', 'map', 'chain', 'zip', 'deque', 'ntuple', 'strsub', 'odict', 'dict', 'ditems', 'odict.rev']
W5_BAD = ['unencodable', 'int', 'none', 'single', 'triple', 'noneval', 'intval', 'bytespair', 'midway', 'genraise', 'str']
_W5_ALPHA = {}


def _w5_pool():
	return (list(range(0x21, 0x7f)) + list(range(0xa0, 0x180)) + list(range(0x391, 0x3ca)) + list(range(0x410, 0x450)) + list(range(0x2010, 0x2c00)) + list(range(0x3041, 0x3097))
		+ list(range(0x4e00, 0x5200)) + list(range(0xac00, 0xac80)) + list(range(0xff01, 0xff5f)) + [0x1f600, 0x10400, 0x2f800, 0x20])


def _w5_alpha(cs):
	"""(characters the charset can express, round-trips and writes without C0 / DEL octets; per ASCII metacharacter octet: non-ASCII characters - or, for charsets that
	are not ASCII-compatible, any characters - whose encoded form CONTAINS that octet).  Searched directly, class (16)."""
	if cs not in _W5_ALPHA:
		plain, special = [], {}
		for cp in _w5_pool():
			ch = chr(cp)
			try:
				e = ch.encode(cs)
				if e.decode(cs) != ch or (ch + ch).encode(cs).decode(cs) != ch + ch:
					continue
			except (UnicodeError, LookupError):
				continue
			if any(x < 0x20 or x == 0x7f for x in e):
				continue
			if cp >= 0xa0:
				plain.append(ch)
			if e != ch.encode('ascii', 'replace') or cp >= 0x80:
				for x in set(e):
					if x in W5_META_OCTETS:
						special.setdefault(x, []).append(ch)
		_W5_ALPHA[cs] = (plain, special)
	return _W5_ALPHA[cs]


def _w5_clean(ps, cs):
	"""names non-empty, every text expressible, round-tripping in Python's codec, and free of C0 / DEL octets in the charset"""
	try:
		for a, b in ps:
			if not a:
				return False
			for t in (a, b):
				e = t.encode(cs or 'ISO8859-1')
				if e.decode(cs or 'ISO8859-1') != t or any(x < 0x20 or x == 0x7f for x in e):
					return False
	except UnicodeError:
		return False
	return True


W5_ASCII = 'abcxyz019 &=+%;/?#:@~.-_*!'


def _w5_ascii(cs):
	"""the ASCII characters usable as filler under the charset (under UTF-16 every one of them is written with a NUL octet: none)"""
	return [ch for ch in W5_ASCII if _w5_clean([['n' if _w5_clean([['n', '']], cs) else ch, ch]], cs)]


def _w5_text(rng, cs, lo, hi):
	plain = _w5_alpha(cs)[0]
	asc = _w5_ascii(cs)
	out = []
	for _ in range(rng.randint(lo, hi)):
		r = rng.random()
		if not asc or (plain and r < 0.45):
			out.append(rng.choice(plain))
		elif r < 0.9 or len(asc) < len(W5_ASCII):
			out.append(rng.choice(asc))
		else:
			out.append(rng.choice(['%20', '%2B', '+', '&amp;', '%E4', '=', ' ']))
	return ''.join(out)


def _w5_pairs(rng, cs, lo=1, hi=3, unique=False):
	"""pairs in which at least one text is non-ASCII in the charset (where the charset has any such character)"""
	plain = _w5_alpha(cs)[0]
	for _ in range(50):
		ps = [[_w5_text(rng, cs, 1, 3), _w5_text(rng, cs, 0, 3)] for _ in range(rng.randint(lo, hi))]
		if plain and ps:
			ps[rng.randrange(len(ps))][rng.randrange(2)] += rng.choice(plain)
		if _w5_clean(ps, cs) and (not unique or len({p[0] for p in ps}) == len(ps)):
			return ps
	return [[plain[0], plain[1]]] if lo else []


W5_ORDER = [
	[['b', '1'], ['a', '2'], ['b', '3'], ['a', '1']],
	[['z', ''], ['y', ''], ['x', ''], ['m', ''], ['c', ''], ['b', ''], ['a', '']],
	[['a', '3'], ['a', '2'], ['a', '1'], ['a', '2'], ['a', '3']],
	[['k', 'v'], ['other', 'x'], ['k', 'v'], ['another', 'y'], ['k', 'v']],
	[['a', 'z'], ['b', 'y'], ['c', 'x'], ['a', 'w'], ['b', 'v'], ['c', 'u'], ['a', 't']],
	[['10', 'a'], ['9', 'b'], ['2', 'c'], ['1', 'd'], ['01', 'e'], ['1', 'f']],
	[['B', '1'], ['a', '1'], ['A', '1'], ['b', '1'], ['ä', '1'], ['a', '1'], ['Ä', '1']],
	[['x', 'b'], ['x', 'a'], ['y', 'b'], ['y', 'a'], ['x', 'a'], ['x', 'b']],
	[['n', ''], ['n', 'v'], ['n', ''], ['m', 'v'], ['n', 'v']],
	[['é', '2'], ['e', '1'], ['é', '1'], ['f', ''], ['e', '2']],
	[['a b', '1'], ['a+b', '2'], ['a%20b', '3'], ['a b', '4'], ['a&b', '5'], ['a=b', '6'], ['a b', '7']],
]


def _w5_order_lists(rng):
	out = [ps for ps in W5_ORDER]
	names = ['n%d' % i for i in range(12)] + ['ä', 'ß', 'Z', '_', '~']
	for n in (8, 20, 40):
		ks = rng.sample(names, min(n, len(names)))
		out.append([[k, ''] for k in sorted(ks, reverse=True)])
		out.append([[rng.choice(ks[:4]), str(rng.randrange(3))] for _ in range(n)])
		out.append([[k, str(n - i)] for i, k in enumerate(ks)] + [[k, str(i)] for i, k in enumerate(reversed(ks))])
	return out


def _gen_wave5(rng, big):
	out = []
	from httoop import URI   # noqa: F401  (import errors of the tree surface here, as in the other generators)
	scale = 4 if big else 1
	bases = ['/p', '', 'p/q;x', '//h/p?x=1#f', '/a/b/../c?old=1', '?', '/p#frag']
	abs_bases = ['http://example.com/path', 'http://h/p?x=y#f', 'https://u:w@h:8443/a/b?n=1', 'ftp://h/', 'urn:x', 'foo://h/p']

	def w5(via, **kw):
		kw.update(k='w5', via=via)
		out.append(kw)

	def base_for(how, i):
		if how in ('sub', 'sub_slots', 'sub_late'):
			# a subclass of URI never holds a URI with a scheme: assigning the scheme swaps the object's class for the registered scheme class (or URI) and the
			# subclass's encoding with it (with __slots__ = () in the subclass; without, the swap raises TypeError: object layout differs).  A C10 matter
			# (composition by scheme); reported, kept out: subclasses get references without a scheme.
			return bases[i % len(bases)]
		if how == 'scheme':
			return ('http://example.com/path', 'http://h/p?x=y#f', 'http://u@h:81/a/b')[i % 3]
		return (bases + abs_bases)[i % (len(bases) + len(abs_bases))]

	# (13) the charset knob of a URI: subclass / subclass with __slots__ / assigned on URI / assigned on a subclass after the object exists / assigned on the scheme class,
	#      x every way the query gets into the object, x ASCII-compatible charsets, with text that is not ASCII in the charset
	i = 0
	for cs in W5_URI_CS:
		for how in W5_HOWS:
			for st in W5_SETS:
				if (i % 3 and not big) and cs not in ('ISO8859-1', 'cp1252', 'koi8-r'):
					i += 1
					continue
				ps = _w5_pairs(rng, cs, 1, 3, unique=st == 'setdict')
				w5('knob', how=how, cs=cs, base=base_for(how, i), set=st, ps=ps, pol=('plain', 'lower', 'mixed', 'all')[i % 4], seed=rng.randrange(1 << 30))
				i += 1
	for ps in ([['name', 'café']], [['über', 'straße'], ['x', 'ÿ '], ['Ã©', '']], [['a', 'b'], ['a', 'c']], [['key', 'a&b=c+d%20e f'], ['sp ace', '%'], ['plus+', '=&']],
			[['é', 'é'], ['Ã©', 'Ã©']], [['n', 'ä' * 300]]):
		for how in W5_HOWS:
			for st in ('set', 'parse', 'gen'):
				for cs in ('ISO8859-1', 'cp1252', 'iso8859-15'):
					w5('knob', how=how, cs=cs, base=base_for(how, i), set=st, ps=ps, pol='plain', seed=i)
					i += 1
	# ... and the same knob for the other text entry points of the object (quote / unquote of one text, str())
	for cs in W5_URI_CS:
		for how in W5_HOWS[:3] if not big else W5_HOWS:
			w5('knob.text', how=how, cs=cs, base=base_for(how, i), texts=[t for p in _w5_pairs(rng, cs, 2, 3) for t in p if t])
			i += 1
	# (13) the charset of a form body: media type parameter at construction, assigned afterwards (encoding / mimetype attribute), x charsets incl. UTF-16, UTF-7, EBCDIC
	for cs in W5_URI_CS + W5_WIDE_CS:
		for r in range(2 * scale):
			for how in ('ctor', 'encoding', 'mimetype', 'late'):
				w5('body.knob', how=how, cs=cs, ps=_w5_pairs(rng, cs), ps2=_w5_pairs(rng, cs))
	# (16) charsets in which ordinary characters are written with the octets of '%', '+', '&', '=', ' ', ';', '#' ...: every such octet the charset offers,
	#      at the start / at the end / alone, in names and values, through both codecs (and URI.encoding where the charset is ASCII-compatible); then many multi-piece texts
	for cs in W5_WIDE_CS + ['gb18030', 'gbk', 'shift_jis', 'big5']:
		plain, special = _w5_alpha(cs)
		for x in sorted(special):
			chars = special[x] if big and len(special[x]) <= 6 else rng.sample(special[x], min(len(special[x]), 6 if big else 2))
			for j, ch in enumerate(chars):
				for ps in ([[ch, ch]], [['n' + ch, ch + 'v'], [ch + 'n', 'v' + ch]], [['a', ch + ch], [ch + 'b' + ch, '']]):
					if not _w5_clean(ps, cs):
						continue
					out.append({'k': 'rt_form', 'qs': (x + j) % 2 == 0, 'cs': cs, 'ps': ps, 'm': 5})
					if cs in W5_URI_CS and j == 0:
						w5('knob', how=W5_HOWS[x % 5], cs=cs, base=base_for(W5_HOWS[x % 5], x), set=W5_SETS[x % 7], ps=ps, pol='plain', seed=x)
		pieces = [ch for x in special for ch in special[x]] or plain
		for r in range(120 if big else 30):
			ps = [[''.join(rng.choice(pieces) if rng.random() < 0.7 else rng.choice('ab =&+%') for _ in range(rng.randint(1, 4))), ''.join(rng.choice(pieces) for _ in range(rng.randint(0, 4)))] for _ in range(rng.randint(1, 3))]
			if _w5_clean(ps, cs):
				out.append({'k': 'rt_form', 'qs': r % 2 == 0, 'cs': cs, 'ps': ps, 'm': 5})
	# (10) aliasing: the argument object (list of lists, dict, OrderedDict) given to two objects / two calls and changed afterwards; an object built from another
	#      object's parts, changed; the original changed afterwards
	for r in range(6 * scale):
		for cont in ('lists', 'list', 'dict', 'odict'):
			for entry in ('uri', 'form', 'qs', 'body'):
				cs = ('UTF-8', 'ISO8859-1', 'cp1252', 'koi8-r')[(r + len(out)) % 4]
				w5('alias.arg', cont=cont, entry=entry, cs='UTF-8' if entry == 'uri' else cs, ps=_w5_pairs(rng, 'UTF-8' if entry == 'uri' else cs, 2, 4, unique=True), ps2=_w5_pairs(rng, 'UTF-8' if entry == 'uri' else cs))
	for r in range(3 * scale):
		for build in ('uri', 'tuple', 'dict', 'copy', 'deepcopy', 'pickle', 'bytes', 'join'):
			for mut in ('query', 'qs', 'parse', 'normalize', 'dictmut', 'attrs'):
				w5('alias.obj', build=build, mut=mut, base=(bases + abs_bases)[(r + len(out)) % 13], ps=_w5_pairs(rng, 'UTF-8', 1, 3), ps2=_w5_pairs(rng, 'UTF-8', 1, 3), ps3=_w5_pairs(rng, 'UTF-8', 0, 2) if r else [])
	# (11) argument types: pair data in every container / one-shot iterator / mapping for every entry point that takes pairs; octets as bytes / bytearray / memoryview;
	#      text as str / subclass of str / object with __str__ where the entry point converts
	for r in range(3 * scale):
		for cont in W5_CONTAINERS:
			for entry in ('form', 'qs', 'uri', 'body', 'body.iter', 'uri.knob'):
				cs = 'UTF-8' if entry == 'uri' else ('UTF-8', 'ISO8859-1', 'cp1252', 'koi8-r', 'utf-16', None)[(r + len(out)) % (5 if entry.startswith(('body', 'uri')) else 6)]
				if entry == 'uri.knob' and cs in ('UTF-8', 'utf-16'):
					cs = 'iso8859-15'
				w5('types.pairs', cont=cont, entry=entry, cs=cs, ps=_w5_pairs(rng, cs or 'ISO8859-1', 2, 4, unique=cont in ('odict', 'dict', 'ditems', 'odict.rev')))
	for r in range(40 * scale):
		d = bytes(x for x in rbytes(rng, 1, 16) if x >= 0x10)
		for ty in ('bytes', 'bytearray', 'memoryview'):
			w5('types.octets', ty=ty, d=d.hex(), safe=rng.choice(SAFE_NAMES), pol=('lower', 'all', 'mixed')[r % 3], seed=rng.randrange(1 << 30))
		t = _w5_text(rng, 'UTF-8', 1, 6)
		if _w5_clean([[t, '']], 'UTF-8'):
			for ty in ('str', 'strsub', 'objstr', 'bytes', 'bytearray', 'memoryview'):
				# (every fourth: ASCII pairs written without any escape - what a bytearray-taking decoder of the pinned tree accepts)
				w5('types.text', ty=ty, t=t, ps=_w5_pairs(rng, 'UTF-8') if r % 4 != 3 else [[rng.choice('abc') + '.' + str(r), rng.choice(['x y', '', '-_.~', 'v'])], ['d', '']], pol=('lower', 'all', 'mixed', 'plain')[r % 4], seed=rng.randrange(1 << 30))
	# (12) a refused operation leaves the object as it was, and the object goes on like one that never saw the refused call
	for r in range(2 * scale):
		for bad in W5_BAD + ['qs.int', 'qs.list', 'parse.octets', 'parse.space', 'parse.charset', 'dec.charset', 'dec.type']:
			for on in ('uri', 'uri.knob', 'form', 'qs', 'body', 'percent'):
				if on == 'percent' and bad != 'int':
					continue     # (one case per round: the refused calls are a fixed list)
				if bad.startswith(('qs.', 'parse.')) and not on.startswith('uri'):
					continue
				if bad.startswith('dec.') and on.startswith('uri'):
					continue
				cs = 'UTF-8' if on == 'uri' else ('ISO8859-1', 'cp1252', 'koi8-r')[(r + len(out)) % 3] if on == 'uri.knob' else ('UTF-8', 'ISO8859-1', 'koi8-r', 'cp1252')[(r + len(out)) % 4]
				w5('refuse', on=on, bad=bad, cs=cs, base=(bases + (abs_bases if on == 'uri' else []))[(r + len(out)) % (13 if on == 'uri' else 7)], ps=_w5_pairs(rng, cs), ps2=_w5_pairs(rng, cs))
	# (14) order: unsorted, duplicates that are not adjacent, reverse-sorted, case variants - through both codecs, a URI (set, compose + parse, normalize, join, copies,
	#      dict / tuple round trips), mappings whose insertion order is not the sorted one
	for ps in _w5_order_lists(rng):
		for cs in ('UTF-8', 'ISO8859-1'):
			for qs in (False, True):
				out.append({'k': 'rt_form', 'qs': qs, 'cs': cs, 'ps': ps, 'm': 5})
		out.append({'k': 'rt_query', 'ps': ps, 'm': 5})
		for path in ('codec', 'uri', 'uri.knob', 'body'):
			w5('order', path=path, cs='ISO8859-1' if path == 'uri.knob' else 'UTF-8', base=(bases + abs_bases)[len(out) % 13], ps=ps, unique=len({p[0] for p in ps}) == len(ps))
	# (15) order of API calls: the same assignments in several orders; constructor argument / attribute / dict / tuple / parse; knob set before or after the object exists
	for r in range(50 * scale):
		cs = ('UTF-8', 'ISO8859-1', 'cp1252', 'UTF-8', 'koi8-r')[r % 5]
		w5('calls', cs=cs, ps=_w5_pairs(rng, cs), ps2=_w5_pairs(rng, cs), perms=[rng.sample(range(6), 6) for _ in range(4)], frag=_w5_text(rng, cs, 0, 2), seg=_w5_text(rng, cs, 1, 2).replace('/', '-'))
	# (17) lengths 2^k and 2^k +- 1 for k = 9..16: octet strings, escape runs, names, values, numbers of pairs, the whole query string
	fills = [b'a', b'\xff', b'%', b'a\xe4 ', b'/', b'~\x10', b'+&=']
	for n0 in W5_POW2:
		for n in (n0 - 1, n0, n0 + 1):
			if n in LENS:
				continue   # (there already)
			for f in rng.sample(fills, 2):
				out.append({'k': 'rt_quote', 'safe': rng.choice(SAFE_NAMES + ['DEFAULT', '']), 'd': _fill(f, n).hex()})
			f = rng.choice(['a', ' ', '&', 'ä', '%', '+'])
			out.append({'k': 'rt_form', 'qs': n % 2 == 0, 'cs': ('UTF-8', 'ISO8859-1')[(n // 2) % 2], 'ps': [['n', f * n]] if n % 3 else [[f * n, 'v'], ['m', '']]})
			# ... the ENCODED form has the length: n octets of query string exactly
			k = n - 2
			if n <= 16385 or big:
				out.append({'k': 'rt_query', 'ps': [['n', 'a' * k]]})
				w5('knob', how=W5_HOWS[n % 5], cs='ISO8859-1', base=base_for(W5_HOWS[n % 5], n), set=W5_SETS[n % 7], ps=[['n', 'ä' * ((k) // 3) + 'a' * (k % 3)]], pol='plain', seed=n)
			if n <= 4097 or big:
				ps = [[rng.choice(['a', 'b', 'ä']), rng.choice(['', 'v'])] for _ in range(n)]
				out.append({'k': 'rt_form', 'qs': n % 2 == 1, 'cs': 'UTF-8', 'ps': ps})
				out.append({'k': 'rt_query', 'ps': ps})
			if n <= COQ_OCTET_LIMIT * 2:
				out.append({'k': 'unquote', 'd': _fill(rng.choice([b'%41', b'%', b'%e4%', b'%2']), n).hex()})
	return out


class _W5Str(str):
	pass


class _W5Obj(object):
	def __init__(self, t):
		self.t = t

	def __str__(self):
		return self.t


def _w5_container(cont, ps):
	"""the pairs in the container type named; every call gives a new object"""
	import collections
	import itertools
	tps = [tuple(p) for p in ps]
	if cont == 'list':
		return list(tps)
	if cont == 'tuple':
		return tuple(tps)
	if cont == 'lists':
		return [list(p) for p in tps]
	if cont == 'iter':
		return iter(tps)
	if cont == 'gen':
		return (p for p in tps)
	if cont == 'map':
		return map(tuple, [list(p) for p in tps])
	if cont == 'chain':
		return itertools.chain(tps[:1], iter(tps[1:2]), (p for p in tps[2:]))
	if cont == 'zip':
		return zip([p[0] for p in tps], [p[1] for p in tps])
	if cont == 'deque':
		return collections.deque(tps)
	if cont == 'ntuple':
		NT = collections.namedtuple('Field', 'name value')
		return [NT(*p) for p in tps]
	if cont == 'strsub':
		return [(_W5Str(a), _W5Str(b)) for a, b in tps]
	if cont == 'odict':
		return collections.OrderedDict(tps)
	if cont == 'odict.rev':      # built in reverse, then turned round: insertion order and iteration order differ from what a plain dict of the same items has
		d = collections.OrderedDict(reversed(tps))
		for key in [p[0] for p in tps]:
			d.move_to_end(key)
		return d
	if cont == 'dict':
		return dict(tps)
	if cont == 'ditems':
		return dict(tps).items()
	raise ValueError(cont)


def _w5_knob(how, cs):
	"""(class to instantiate, function to call once the object exists, function that restores everything)"""
	from httoop import URI
	meta = type(URI)
	nothing = lambda: None   # noqa: E731
	if how == 'default':
		return URI, nothing, nothing
	if how == 'sub':
		return meta('KnobURI', (URI,), {'encoding': cs}), nothing, nothing
	if how == 'sub_slots':
		return meta('KnobSlotsURI', (URI,), {'encoding': cs, '__slots__': ()}), nothing, nothing
	if how == 'sub_late':
		cls = meta('KnobLateURI', (URI,), {'__slots__': ()})
		return cls, lambda: setattr(cls, 'encoding', cs), nothing
	if how == 'assign':
		old = vars(URI)['encoding']
		URI.encoding = cs
		return URI, nothing, lambda: setattr(URI, 'encoding', old)
	if how == 'scheme':
		HTTP = URI.SCHEMES[b'http']
		had = 'encoding' in vars(HTTP)
		old = vars(HTTP).get('encoding')
		HTTP.encoding = cs
		return URI, nothing, (lambda: setattr(HTTP, 'encoding', old)) if had else (lambda: delattr(HTTP, 'encoding'))
	raise ValueError(how)


def _w5_new():
	return {'r': [], 'dec': [], 'eq': [], 'exc': [], 'tie': []}


def _w5_call(o, label, mode, f, *a):
	"""run f; an exception is a fact of the observation"""
	try:
		r = f(*a)
	except Exception as exc:
		o['exc'].append([label, type(exc).__name__, mode])
		return None, False
	o['exc'].append([label, None, mode])
	return r, True


def _w5_state(u):
	"""everything a URI object holds and says, JSON-able"""
	return {'tuple': [repr(x) for x in u.tuple], 'cls': type(u).__name__, 'bytes': _try(lambda: bytes(u).hex()), 'query': _try(_read_query, u), 'qs': u.query_string}


def _w5_noq(base):
	return base.partition(b'#')[0].partition(b'?')[0]


def _observe_w5(c):
	o = _w5_new()
	via = c['via']
	f = {'knob': _w5_obs_knob, 'knob.text': _w5_obs_knob_text, 'body.knob': _w5_obs_body_knob, 'alias.arg': _w5_obs_alias_arg, 'alias.obj': _w5_obs_alias_obj, 'types.pairs': _w5_obs_types_pairs,
		'types.octets': _w5_obs_types_octets, 'types.text': _w5_obs_types_text, 'refuse': _w5_obs_refuse, 'order': _w5_obs_order, 'calls': _w5_obs_calls}[via]
	f(c, o)
	return o


def _w5_obs_knob(c, o):
	cs, ps = c['cs'], [tuple(p) for p in c['ps']]
	base = c['base'].encode('ascii')
	ref = _ref_form(ps, cs, c['pol'], c['seed'])
	cls, late, restore = _w5_knob(c['how'], cs)
	try:
		st = c['set']
		if st in ('init', 'str'):
			late()
			u = cls(_w5_noq(base) + b'?' + ref) if st == 'init' else cls((_w5_noq(base) + b'?' + ref).decode('ascii'))
		else:
			u = cls(base)
			late()
			if st == 'set':
				u.query = ps
			elif st == 'setdict':
				u.query = dict(ps)
			elif st == 'gen':
				u.query = (p for p in ps)
			elif st == 'setqs':
				u.query_string = ref.decode('ascii')
			elif st == 'parse':
				u.parse(_w5_noq(base) + b'?' + ref)
		o['eff'] = [u.encoding, type(u).encoding]
		o['qs'] = u.query_string
		o['r'].append(['the query read back', _read_query(u), 'ps'])
		wire = bytes(u)
		o['wire'] = wire.hex()
		o['r'].append(['the query of the composed URI parsed by the same class', _read_query(cls(wire)), 'ps'])
		o['r'].append(['the query of a copy (same class)', _read_query(cls(u)), 'ps'])
		o['r'].append(['the query read a second time', _read_query(u), 'ps'])
		if ps:
			o['eq'].append(['the query in the composed URI and the query_string attribute', wire.partition(b'#')[0].partition(b'?')[2].hex(), u.query_string.encode('utf-8').hex()])
		try:
			e = u.query_string.encode('ascii')
			o['dec'].append(['the query_string attribute', e.hex(), cs, 'ps'])
			o['tie'].append([True, cs, 'ps', e.hex(), o['r'][0][1]] + (['dec'] if st == 'setqs' else []))   # (query_string = ...: not written by the implementation's encoder)
		except UnicodeEncodeError:
			o['eq'].append(['the query_string attribute is ASCII', ascii(u.query_string), 'ASCII'])
	finally:
		restore()


def _w5_obs_knob_text(c, o):
	from httoop.exceptions import InvalidURI
	Percent = _impl()[0]
	cs = c['cs']
	cls, late, restore = _w5_knob(c['how'], cs)
	try:
		u = cls(c['base'].encode('ascii'))
		late()
		for t in c['texts']:
			for sname in ('QUERY', 'UNRESERVED'):
				q = u.quote(t, getattr(Percent, sname))
				try:
					back = u.unquote(q)
				except InvalidURI:
					back = {'err': 'invalid'}
				o['eq'].append(['unquote(quote(%r, Percent.%s)) of the object (quoted %r)' % (t, sname, q), back, t])
				o['dec'].append(['quote(%r, Percent.%s) of the object' % (t, sname), q.hex(), cs, 'text:' + t])
	finally:
		restore()


def _w5_form_mt(cs):
	return 'application/x-www-form-urlencoded; charset=%s' % (cs,)


def _w5_obs_body_knob(c, o):
	from httoop import Body
	cs, ps, ps2, how = c['cs'], [tuple(p) for p in c['ps']], [tuple(p) for p in c['ps2']], c['how']
	if how == 'ctor':
		b = Body(mimetype=_w5_form_mt(cs))
	elif how == 'encoding':
		b = Body(mimetype='application/x-www-form-urlencoded')
		b.encoding = cs
	elif how == 'mimetype':
		b = Body()
		b.mimetype = _w5_form_mt(cs)
	else:   # 'late': content first (another charset), the charset afterwards
		b = Body(mimetype=_w5_form_mt('UTF-8'))
		b.encode([('first', 'früh')])
		b.encoding = cs
	b.encode(ps)
	e = bytes(b)
	o['dec'].append(['the body content', e.hex(), cs, 'ps'])
	back = _try(lambda: [list(p) for p in b.decode()])
	o['r'].append(['decode() of the same body', back, 'ps'])
	o['r'].append(['decode(content) of a new body of the media type', _try(lambda: [list(p) for p in Body(mimetype=_w5_form_mt(cs)).decode(e)]), 'ps'])
	o['tie'].append([False, cs, 'ps', e.hex(), back])
	ref = _ref_form(ps, cs, ('plain', 'lower', 'mixed', 'all')[len(ps) % 4], len(e))
	o['r'].append(['Body(content of another sender, mimetype).decode()', _try(lambda: [list(p) for p in Body(ref, mimetype=_w5_form_mt(cs)).decode()]), 'ps'])
	o['r'].append(['Body(bytearray content, mimetype=bytes).decode()', _try(lambda: [list(p) for p in Body(bytearray(ref), mimetype=_w5_form_mt(cs).encode('ascii')).decode()]), 'ps'])
	b.encode(ps2)
	o['dec'].append(['the body content after a second encode()', bytes(b).hex(), cs, 'ps2'])
	o['r'].append(['decode() after a second encode()', _try(lambda: [list(p) for p in b.decode()]), 'ps2'])
	o['eq'].append(['the charset of the body', _try(lambda: __import__('codecs').lookup(b.encoding).name), __import__('codecs').lookup(cs).name])


def _w5_mutate(arg):
	"""change the argument object in place, the way a caller who reuses it would"""
	if isinstance(arg, dict):
		first = next(iter(arg))
		arg[first] = 'changed'
		arg['zz'] = 'zz'
		arg.pop(first)
	else:
		if arg and isinstance(arg[0], list):
			arg[0][1] += '!'
			arg[-1][0] = 'renamed'
		arg.append(('zz', 'zz'))
		arg.reverse()
		del arg[0]


def _w5_spoil(r):
	"""what a caller can do to a result: nothing if it is a tuple of tuples"""
	for f in (lambda: r.append(('zz', 'zz')), lambda: r.reverse(), lambda: r.__setitem__(0, ('zz', 'zz')), lambda: r[0].__setitem__(1, 'zz'), lambda: r.clear()):
		_try(f)


def _w5_obs_alias_arg(c, o):
	import copy
	from httoop import URI, Body
	Percent, Form, QS = _impl()
	cs, ps2 = c['cs'], [tuple(p) for p in c['ps2']]
	arg = _w5_container(c['cont'], c['ps'])
	snap = copy.deepcopy(arg)
	entry = c['entry']
	if entry == 'uri':
		a, b = URI(b'/p'), URI(b'http://h/q?x=y')
		a.query = arg
		o['eq'].append(['the argument object after the first object took it', repr(arg), repr(snap)])
		b.query = arg
		o['eq'].append(['the argument object after the second object took it', repr(arg), repr(snap)])
		o['r'].append(['first object', _read_query(a), 'ps'])
		_w5_mutate(arg)
		o['r'].append(['first object after the argument object was changed', _read_query(a), 'ps'])
		o['r'].append(['second object after the argument object was changed', _read_query(b), 'ps'])
		b.query = ps2
		o['r'].append(['first object after the second was set to other pairs', _read_query(a), 'ps'])
		o['r'].append(['second object', _read_query(b), 'ps2'])
		o['dec'].append(['query_string of the first object', a.query_string.encode('utf-8').hex(), 'UTF-8', 'ps'])
		_w5_spoil(_try(lambda: a.query))
		o['r'].append(['first object after the caller tried to change the pairs it had handed out', _read_query(a), 'ps'])
		f = URI(b'/p')
		f.query = [tuple(p) for p in c['ps']]
		o['eq'].append(['first object and a new object holding the same pairs', _w5_state(a), _w5_state(f)])
	elif entry in ('form', 'qs'):
		codec = QS if entry == 'qs' else Form
		e1 = codec.encode(arg, cs)
		o['eq'].append(['the argument object after encode()', repr(arg), repr(snap)])
		e2 = codec.encode(arg, cs)
		_w5_mutate(arg)
		e3 = codec.encode(snap, cs)
		o['eq'].append(['encode() of the same argument object twice', e1.hex(), e2.hex()])
		o['eq'].append(['encode() of an equal object after the first was changed', e1.hex(), e3.hex()])
		o['dec'].append(['encode()', e1.hex(), cs, 'ps'])
		back = _try(lambda: [list(p) for p in codec.decode(e1, cs)])
		o['r'].append(['decode(encode())', back, 'ps'])
		_w5_spoil(_try(codec.decode, e1, cs))
		o['r'].append(['decode() of the same octets after the caller tried to change the pairs the first decode() had handed out', _try(lambda: [list(p) for p in codec.decode(e1, cs)]), 'ps'])
		o['tie'].append([entry == 'qs', cs, 'ps', e1.hex(), back])
	else:
		b1, b2 = Body(mimetype=_w5_form_mt(cs)), Body(mimetype=_w5_form_mt(cs))
		b1.encode(arg)
		o['eq'].append(['the argument object after Body.encode()', repr(arg), repr(snap)])
		b2.encode(arg)
		w1 = bytes(b1)
		_w5_mutate(arg)
		o['eq'].append(['the content of the first body after the argument object was changed', bytes(b1).hex(), w1.hex()])
		o['eq'].append(['the content of the second body', bytes(b2).hex(), w1.hex()])
		b2.encode(ps2)
		o['eq'].append(['the content of the first body after the second body encoded other pairs', bytes(b1).hex(), w1.hex()])
		o['dec'].append(['the content of the first body', w1.hex(), cs, 'ps'])
		o['dec'].append(['the content of the second body', bytes(b2).hex(), cs, 'ps2'])
		o['r'].append(['decode(content) of a new body', _try(lambda: [list(p) for p in Body(mimetype=_w5_form_mt(cs)).decode(w1)]), 'ps'])


def _w5_obs_alias_obj(c, o):
	import copy
	import pickle
	from httoop import URI
	ps, ps2, ps3 = ([tuple(p) for p in c[key]] for key in ('ps', 'ps2', 'ps3'))
	base = c['base'].encode('ascii')

	def make():
		x = URI(base)
		x.query = ps
		return x
	a = make()
	before = _w5_state(a)
	build = c['build']
	try:
		if build == 'uri':
			b = URI(a)
		elif build == 'tuple':
			b = URI(a.tuple)
		elif build == 'dict':
			b = URI(a.dict)
		elif build == 'copy':
			b = copy.copy(a)
		elif build == 'deepcopy':
			b = copy.deepcopy(a)
		elif build == 'pickle':
			b = pickle.loads(pickle.dumps(a))
		elif build == 'bytes':
			b = URI(bytes(a))
		else:
			b = a.join(b'')
	except Exception as exc:   # (a way of copying that the class does not offer for this reference is not a matter of the statement)
		o['skip'] = 'build: %s' % type(exc).__name__
		return
	if build != 'join':
		o['r'].append(['the copy', _read_query(b), 'ps'])
	mut = c['mut']
	if mut == 'query':
		b.query = ps2
	elif mut == 'qs':
		b.query_string = _ref_form(ps2, 'UTF-8', 'plain', 1).decode('ascii')
	elif mut == 'parse':
		b.parse(b'/other?' + _ref_form(ps2, 'UTF-8', 'lower', 2))
	elif mut == 'normalize':
		b.query = ps2
		_try(b.normalize)
	elif mut == 'dictmut':
		d, t = a.dict, list(a.tuple)
		d['query_string'] = 'zz=1'
		d.clear()
		t[6] = 'zz=1'
		b.query = ps2
	else:
		b.query = ps2
		b.path, b.fragment = '/elsewhere', 'g'
		_try(setattr, b, 'host', 'other')
	o['r'].append(['the copy after it was changed', _read_query(b), 'ps2'])
	o['r'].append(['the original after the copy was changed', _read_query(a), 'ps'])
	o['eq'].append(['the original after the copy was changed, and before', _w5_state(a), before])
	o['eq'].append(['the original after the copy was changed, and a new object', _w5_state(a), _w5_state(make())])
	a.query = ps3
	o['r'].append(['the original set to other pairs', _read_query(a), 'ps3'])
	o['r'].append(['the copy after the original was set to other pairs', _read_query(b), 'ps2'])
	o['dec'].append(['query_string of the copy', b.query_string.encode('utf-8').hex(), 'UTF-8', 'ps2'])


def _w5_obs_types_pairs(c, o):
	from httoop import URI, Body
	Percent, Form, QS = _impl()
	cs, entry, cont = c['cs'], c['entry'], c['cont']
	tps = [tuple(p) for p in c['ps']]
	mk = lambda: _w5_container(cont, c['ps'])   # noqa: E731
	if entry in ('form', 'qs'):
		codec = QS if entry == 'qs' else Form
		e, ok = _w5_call(o, '%s.encode(<%s>)' % (codec.__name__, cont), 'must-accept', lambda: codec.encode(mk(), cs))
		ref = codec.encode(tps, cs)
	elif entry in ('uri', 'uri.knob'):
		cls, late, restore = _w5_knob('sub_slots' if entry == 'uri.knob' else 'default', cs)

		def setq(data):
			u = cls(b'/p?old=1')
			u.query = data
			return u.query_string.encode('ascii')
		e, ok = _w5_call(o, 'URI.query = <%s>' % cont, 'must-accept', setq, mk())
		ref = setq(tps)
	else:
		def enc(data):
			b = Body(mimetype=_w5_form_mt(cs))
			if entry == 'body':
				b.encode(data)
			else:
				b.iterencode([data])
			return bytes(b)
		e, ok = _w5_call(o, 'Body.%s(<%s>)' % ('encode' if entry == 'body' else 'iterencode', cont), 'must-accept', enc, mk())
		ref = enc(tps)
	if ok:
		o['dec'].append(['what the call wrote', e.hex(), cs, 'ps'])
		o['eq'].append(['what the call wrote, and what it writes for a list of tuples', e.hex(), ref.hex()])
		o['tie'].append([entry in ('qs', 'uri', 'uri.knob'), cs, 'ps', e.hex(), None])


def _w5_conv(ty, d):
	if ty == 'bytes':
		return bytes(d)
	if ty == 'bytearray':
		return bytearray(d)
	if ty == 'memoryview':
		return memoryview(bytes(d))
	raise ValueError(ty)


def _w5_obs_types_octets(c, o):
	from httoop import URI
	Percent = _impl()[0]
	ty, d, safe = c['ty'], bytes.fromhex(c['d']), _safe(c['safe'])
	q, ok = _w5_call(o, 'Percent.quote(<%s>, safe)' % ty, 'must-accept', lambda: Percent.quote(_w5_conv(ty, d), safe))
	if ok:
		o['eq'].append(['type of the result of quote', type(q).__name__, 'bytes'])
		o['q1'] = bytes(q).hex()
	q, ok = _w5_call(o, 'Percent.quote(octets, <%s>)' % ty, 'must-accept', lambda: Percent.quote(d, _w5_conv(ty, safe)))
	if ok:
		o['q2'] = bytes(q).hex()
	e = _ref_quote(d, c['pol'], c['seed'])
	o['e'] = e.hex()
	# decoders are annotated `bytes`; on the pinned tree bytearray works unless an escape is present (unhashable key), memoryview never: a refusal by type is accepted, a different answer is not
	u, ok = _w5_call(o, 'Percent.unquote(<%s>)' % ty, 'must-accept' if ty == 'bytes' else 'may-refuse', lambda: Percent.unquote(_w5_conv(ty, e)))
	if ok:
		o['u1'] = bytes(u).hex()
	t, ok = _w5_call(o, 'URI().unquote(<%s>)' % ty, 'must-accept', lambda: URI().unquote(_w5_conv(ty, _ref_quote(d.decode('latin-1').encode('utf-8'), c['pol'], c['seed']))))
	if ok:
		o['u2'] = t


def _w5_obs_types_text(c, o):
	from httoop import URI
	Percent, Form, QS = _impl()
	ty, t = c['ty'], c['t']
	ps = [tuple(p) for p in c['ps']]
	if ty in ('str', 'strsub', 'objstr'):
		conv = {'str': str, 'strsub': _W5Str, 'objstr': _W5Obj}[ty]
		q, ok = _w5_call(o, 'URI().quote(<%s>, Percent.QUERY)' % ty, 'must-accept', lambda: URI().quote(conv(t), Percent.QUERY))
		if ok:
			o['dec'].append(['URI().quote(text)', q.hex(), 'UTF-8', 'text:' + t])
		if ty != 'objstr':
			for codec in (Form, QS):
				q, ok = _w5_call(o, '%s.quote(<%s>)' % (codec.__name__, ty), 'must-accept', lambda: codec.quote(conv(t), 'UTF-8'))
				if ok:
					o['dec'].append(['%s.quote(text)' % codec.__name__, q.hex(), 'UTF-8', 'text:' + t])
		ref = _ref_form(ps, 'UTF-8', c['pol'], c['seed']).decode('ascii')
		if ty != 'objstr':
			def setqs():
				u = URI(b'/p')
				u.query_string = conv(ref)
				return _read_query(u)
			r, ok = _w5_call(o, 'URI.query_string = <%s>' % ty, 'must-accept', setqs)
			if ok:
				o['r'].append(['the query after query_string = <%s>' % ty, r, 'ps'])
			r, ok = _w5_call(o, 'URI(<%s>)' % ty, 'must-accept', lambda: _read_query(URI(conv('/p?' + ref))))
			if ok:
				o['r'].append(['the query of URI(<%s>)' % ty, r, 'ps'])
	else:
		e = _ref_form(ps, 'UTF-8', c['pol'], c['seed'])
		mode = 'must-accept' if ty == 'bytes' else 'may-refuse'
		for codec in (Form, QS):
			r, ok = _w5_call(o, '%s.decode(<%s>)' % (codec.__name__, ty), mode, lambda: [list(p) for p in codec.decode(_w5_conv(ty, e), 'UTF-8')])
			if ok:
				o['r'].append(['%s.decode(<%s>)' % (codec.__name__, ty), r, 'ps'])

		def setqs():
			u = URI(b'/p')
			u.query_string = _w5_conv(ty, e)
			return _read_query(u)
		r, ok = _w5_call(o, 'URI.query_string = <%s>' % ty, mode, setqs)
		if ok:
			o['r'].append(['the query after query_string = <%s>' % ty, r, 'ps'])
		r, ok = _w5_call(o, 'URI(<%s>)' % ty, mode, lambda: _read_query(URI(_w5_conv(ty, b'/p?' + e))))
		if ok:
			o['r'].append(['the query of URI(<%s>)' % ty, r, 'ps'])


def _w5_bad_value(bad, cs, ps):
	"""an argument the pair encoders have to refuse"""
	tps = [tuple(p) for p in ps]
	un = '\ud800' if _is_utf8(cs) else ('€中Жé' if cs != 'cp1252' else '中Ж')
	if bad == 'unencodable':
		return tps[:1] + [('n', 'a' + un)]
	if bad == 'int':
		return 5
	if bad == 'none':
		return None
	if bad == 'single':
		return tps + [('a',)]
	if bad == 'triple':
		return [('a', 'b', 'c')] + tps
	if bad == 'noneval':
		return tps + [('a', None)]
	if bad == 'intval':
		return [('a', 1)]
	if bad == 'bytespair':
		return tps + [(b'a', b'b')]
	if bad == 'midway':
		return [('ok', 'v'), ('zz', 'zz'), (un, 'x'), ('never', 'seen')]
	if bad == 'genraise':
		def g():
			yield ('ok', 'v')
			raise RuntimeError('the caller\'s generator failed')
		return g()
	if bad == 'str':
		return 'a=b&c=d'
	raise ValueError(bad)


def _w5_obs_refuse(c, o):
	from httoop import URI, Body
	Percent, Form, QS = _impl()
	on, bad, cs = c['on'], c['bad'], c['cs']
	ps, ps2 = [tuple(p) for p in c['ps']], [tuple(p) for p in c['ps2']]
	if on.startswith('uri'):
		cls, late, restore = _w5_knob('sub_slots' if on == 'uri.knob' else 'default', cs)
		base = c['base'].encode('ascii')

		def make():
			x = cls(base)
			x.query = ps
			return x
		u, twin = make(), make()
		before = _w5_state(u)
		if bad == 'qs.int':
			f = lambda: setattr(u, 'query_string', 5)   # noqa: E731
		elif bad == 'qs.list':
			f = lambda: setattr(u, 'query_string', ['a=b'])   # noqa: E731
		elif bad == 'parse.octets':    # (no ':' in the refused reference: see the note in the report - parse() assigns the scheme before it validates)
			f = lambda: u.parse(b'/other?a=%ff%fe\xe4' if _is_utf8(cs) else b'/other?a=\xe4')   # noqa: E731
		elif bad == 'parse.space':
			f = lambda: u.parse(b'/o ther?a=b')   # noqa: E731
		elif bad == 'parse.charset':
			f = lambda: u.parse(b'/other?a=%ff%fe&b=c' if _is_utf8(cs) else b'/other?a=%81%8d&b=c' if cs == 'cp1252' else b'/other?a\x80')   # noqa: E731
		else:
			f = lambda: setattr(u, 'query', _w5_bad_value(bad, cs, ps2))   # noqa: E731
		_, accepted = _w5_call(o, 'the refused call (%s)' % bad, 'refusal', f)
		if accepted:
			return
		o['eq'].append(['the object after the refused call, and before', _w5_state(u), before])
		o['eq'].append(['the object after the refused call, and an object that never saw it', _w5_state(u), _w5_state(twin)])
		o['r'].append(['the query after the refused call', _read_query(u), 'ps'])
		u.query = ps2
		twin.query = ps2
		o['r'].append(['the query set after the refused call', _read_query(u), 'ps2'])
		o['eq'].append(['the object set to other pairs after the refused call, and an object that never saw it', _w5_state(u), _w5_state(twin)])
		o['dec'].append(['query_string after the refused call', u.query_string.encode('utf-8').hex(), cs, 'ps2'])
	elif on == 'percent':
		d = b''.join(a + b for a, b in _enc_pairs(ps, cs))
		q1 = {name: Percent.quote(d, getattr(Percent, name)).hex() for name in SAFE_NAMES}
		u1 = Percent.unquote(_ref_quote(d, 'mixed', 5)).hex()
		for label, f in (('quote(text)', lambda: Percent.quote('a b', Percent.QUERY)), ('quote(octets, 5)', lambda: Percent.quote(d, 5)), ('quote(None)', lambda: Percent.quote(None)), ('unquote(5)', lambda: Percent.unquote(5)),
				('unquote(text)', lambda: Percent.unquote('%41%zz')), ('quote(octets, text)', lambda: Percent.quote(d, 'abc')), ('HEX_MAP[text]', lambda: Percent.HEX_MAP['41']), ('unquote(list)', lambda: Percent.unquote([b'%41']))):
			_w5_call(o, 'the refused call (%s)' % label, 'refusal', f)
		o['eq'].append(['quote() of the same octets under every named set after the refused calls, and before', {name: Percent.quote(d, getattr(Percent, name)).hex() for name in SAFE_NAMES}, q1])
		o['eq'].append(['unquote() after the refused calls, and before', Percent.unquote(_ref_quote(d, 'mixed', 5)).hex(), u1])
		o['eq'].append(['unquote() of the octets another sender escaped', u1, d.hex()])
	elif on in ('form', 'qs'):
		codec = QS if on == 'qs' else Form
		e1 = codec.encode(ps, cs)
		r1 = _try(lambda: [list(p) for p in codec.decode(e1, cs)])
		if bad == 'dec.charset':
			f = lambda: codec.decode(b'a=%ff%fe&b=%C3' if _is_utf8(cs) else b'a=%98%81' if cs == 'koi8-r' else b'a=%81%8d', 'ascii' if cs == 'ISO8859-1' else cs)   # noqa: E731
		elif bad == 'dec.type':
			f = lambda: codec.decode(e1.decode('ascii'), cs)   # noqa: E731
		else:
			f = lambda: codec.encode(_w5_bad_value(bad, cs, ps2), cs)   # noqa: E731
		_, accepted = _w5_call(o, 'the refused call (%s)' % bad, 'refusal', f)
		e2 = codec.encode(ps, cs)
		o['eq'].append(['encode() of the same pairs after the refused call, and before', e2.hex(), e1.hex()])
		o['eq'].append(['decode() of the same octets after the refused call, and before', _try(lambda: [list(p) for p in codec.decode(e1, cs)]), r1])
		o['dec'].append(['encode() after the refused call', e2.hex(), cs, 'ps'])
		o['r'].append(['decode(encode()) after the refused call', _try(lambda: [list(p) for p in codec.decode(e2, cs)]), 'ps'])
		o['tie'].append([on == 'qs', cs, 'ps', e2.hex(), r1])
	else:
		b, twin = Body(mimetype=_w5_form_mt(cs)), Body(mimetype=_w5_form_mt(cs))
		b.encode(ps)
		twin.encode(ps)
		w = bytes(b)
		if bad == 'dec.charset':
			return
		if bad == 'dec.type':
			f = lambda: b.decode(5)   # noqa: E731
		else:
			f = lambda: b.encode(_w5_bad_value(bad, cs, ps2))   # noqa: E731
		_, accepted = _w5_call(o, 'the refused call (%s)' % bad, 'refusal', f)
		if accepted:
			return
		o['eq'].append(['the content after the refused call, and before', bytes(b).hex(), w.hex()])
		o['eq'].append(['the media type after the refused call', _try(lambda: bytes(b.mimetype).hex()), _try(lambda: bytes(twin.mimetype).hex())])
		o['r'].append(['decode() after the refused call', _try(lambda: [list(p) for p in b.decode()]), 'ps'])
		b.encode(ps2)
		twin.encode(ps2)
		o['eq'].append(['the content encoded after the refused call, and that of a body that never saw it', bytes(b).hex(), bytes(twin).hex()])
		o['dec'].append(['the content encoded after the refused call', bytes(b).hex(), cs, 'ps2'])


def _w5_obs_order(c, o):
	import collections
	from httoop import URI, Body
	Percent, Form, QS = _impl()
	cs, path = c['cs'], c['path']
	ps = [tuple(p) for p in c['ps']]
	if path == 'codec':
		for codec in (Form, QS):
			for name, data in (('list', ps), ('generator', (p for p in ps)), ('reversed(reversed)', reversed(list(reversed(ps))))) + ((('dict', dict(ps)), ('OrderedDict', collections.OrderedDict(ps))) if c['unique'] else ()):
				e = codec.encode(data, cs)
				o['dec'].append(['%s.encode(<%s>)' % (codec.__name__, name), e.hex(), cs, 'ps'])
				o['r'].append(['%s.decode(encode(<%s>))' % (codec.__name__, name), _try(lambda: [list(p) for p in codec.decode(e, cs)]), 'ps'])
			es = list(codec.iterencode([ps, list(reversed(ps)), ps], cs))
			o['dec'].append(['%s.iterencode, first part' % codec.__name__, es[0].hex(), cs, 'ps'])
			o['dec'].append(['%s.iterencode, third part' % codec.__name__, es[2].hex(), cs, 'ps'])
		return
	if path == 'body':
		b = Body(mimetype=_w5_form_mt(cs))
		b.encode(ps)
		o['dec'].append(['Body content', bytes(b).hex(), cs, 'ps'])
		o['r'].append(['Body.decode()', _try(lambda: [list(p) for p in b.decode()]), 'ps'])
		o['r'].append(['Body.data after decode()', _try(lambda: [list(p) for p in b.data]), 'ps'])
		return
	cls, late, restore = _w5_knob('assign' if path == 'uri.knob' else 'default', cs)
	try:
		base = c['base'].encode('ascii')
		u = cls(base)
		u.query = ps
		o['dec'].append(['query_string', u.query_string.encode('utf-8').hex(), cs, 'ps'])
		o['r'].append(['the query', _read_query(u), 'ps'])
		wire = bytes(u)
		o['dec'].append(['the query in the composed URI', wire.partition(b'#')[0].partition(b'?')[2].hex(), cs, 'ps'])
		v = cls(wire)
		o['r'].append(['composed and parsed', _read_query(v), 'ps'])
		_try(v.normalize)
		o['r'].append(['composed, parsed and normalized', _read_query(v), 'ps'])
		w = cls(u)
		_try(w.normalize)
		o['r'].append(['a normalized copy', _read_query(w), 'ps'])
		_try(w.abspath)
		o['r'].append(['after abspath()', _read_query(w), 'ps'])
		for rel in (b'', b'#frag', b'other', b'../up'):
			o['r'].append(['join(%r) of the object' % rel, _try(lambda: _read_query(u.join(rel))), 'ps' if rel in (b'', b'#frag') else 'none'])
		ref = _ref_form(ps, cs, 'plain', 7)
		o['r'].append(['a base URI joined with a reference that carries the query', _try(lambda: _read_query(cls(b'http://h/a/b?x=1').join(b'../c?' + ref))), 'ps'])
		o['r'].append(['URI(tuple)', _try(lambda: _read_query(cls(u.tuple))), 'ps'])
		o['r'].append(['URI(dict)', _try(lambda: _read_query(cls(u.dict))), 'ps'])
		o['eq'].append(['== with the parsed composed URI', repr(_try(lambda: u == cls(wire))), 'True'])
		if c['unique']:
			for name, data in (('dict', dict(ps)), ('OrderedDict', collections.OrderedDict(ps)), ('items()', dict(ps).items())):
				x = cls(base)
				x.query = data
				o['r'].append(['the query set from <%s>' % name, _read_query(x), 'ps'])
		o['tie'].append([True, cs, 'ps', u.query_string.encode('utf-8').hex(), o['r'][0][1]])
	finally:
		restore()


def _w5_obs_calls(c, o):
	from httoop import URI, Body
	cs = c['cs']
	ps, ps2 = [tuple(p) for p in c['ps']], [tuple(p) for p in c['ps2']]
	cls, late, restore = _w5_knob('default' if _is_utf8(cs) else 'assign', cs)
	try:
		# the assignments a caller makes, in several orders: the final object must not depend on the order (the scheme comes first or last or in between: it changes the class)
		ops = [('query', ps), ('scheme', 'http'), ('host', 'example.com'), ('path', '/' + c['seg']), ('fragment', c['frag']), ('username', 'u')]
		states = []
		for perm in [list(range(6))] + c['perms']:
			u = cls()
			for j in perm:
				if ops[j][0] == 'query' and perm.index(j) % 2:
					u.query = ps2    # set once to something else first
				setattr(u, ops[j][0], ops[j][1])
			states.append(_w5_state(u))
			o['r'].append(['assignments in the order %s' % '/'.join(ops[j][0] for j in perm), _read_query(u), 'ps'])
		for perm, st in zip(c['perms'], states[1:]):
			o['eq'].append(['assignments in the order %s, and in the order %s' % ('/'.join(ops[j][0] for j in perm), '/'.join(x[0] for x in ops)), st, states[0]])
		qs = states[0]['qs']
		o['dec'].append(['query_string', qs.encode('utf-8').hex(), cs, 'ps'])
		# constructor argument / dict / tuple / attribute / parse
		wire = bytes.fromhex(states[0]['bytes']) if isinstance(states[0]['bytes'], str) else b''
		kw = dict(scheme='http', host='example.com', path='/' + c['seg'], fragment=c['frag'], username='u', query_string=qs)
		for name, f in (('keyword arguments', lambda: cls(**kw)), ('a dict', lambda: cls(dict(kw))), ('the composed octets', lambda: cls(wire)), ('the composed text', lambda: cls(wire.decode('ascii'))),
				('parse() on an object that held other pairs', lambda: _w5_reparse(cls, ps2, wire))):
			x = _try(f)
			o['r'].append(['built from %s' % name, _try(_read_query, x), 'ps'])
			o['eq'].append(['built from %s, and by assignments' % name, _try(lambda: bytes(x).hex()), states[0]['bytes']])
	finally:
		restore()
	# the form body: charset before content / content before charset (re-encoded) / constructor
	b1 = Body(mimetype=_w5_form_mt(cs))
	b1.encode(ps)
	b2 = Body(mimetype='application/x-www-form-urlencoded')
	b2.encoding = cs
	b2.encode(ps)
	b3 = Body(mimetype='application/x-www-form-urlencoded; charset=UTF-8')
	b3.encode(ps2)
	b3.encoding = cs
	b3.encode(ps)
	b4 = Body()
	b4.mimetype = _w5_form_mt(cs)
	b4.encode(ps)
	o['dec'].append(['Body(mimetype=...; charset).encode()', bytes(b1).hex(), cs, 'ps'])
	for name, b in (('encoding assigned, then encode()', b2), ('encode() under UTF-8, encoding assigned, encode() again', b3), ('mimetype assigned, then encode()', b4)):
		o['eq'].append(['Body: %s, and charset given to the constructor' % name, bytes(b).hex(), bytes(b1).hex()])
		o['r'].append(['Body: %s: decode()' % name, _try(lambda: [list(p) for p in b.decode()]), 'ps'])


def _w5_reparse(cls, ps2, wire):
	x = cls(b'/p')
	x.query = ps2
	x.parse(wire)
	return x


def _w5_want(c, key):
	if key == 'none':
		return []
	return [list(p) for p in c[key]]


def _ref_parse(e, cs):
	"""application/x-www-form-urlencoded read with the standard library only: fields between '&' (empty ones skipped), the name ends at the first '=', '+' is a blank,
	%HH is an octet, the octets are text in the charset"""
	import urllib.parse
	out = []
	for f in bytes(e).split(b'&'):
		if f:
			n, _, v = f.partition(b'=')
			out.append([urllib.parse.unquote_to_bytes(x.replace(b'+', b' ')).decode(cs or 'ISO8859-1') for x in (n, v)])
	return out


def _oracle_w5(c, o):
	what = '%s %s' % (c['via'], {a: b for a, b in sorted(c.items()) if a not in ('k', 'via', 'seed', 'pol', 'perms')})
	if 'skip' in o:
		return None
	if not all(key in o for key in ('r', 'dec', 'eq', 'exc')):
		return '%s: unexpected outcome %s' % (what, o)
	for label, exc, mode in o['exc']:
		if exc is not None and (mode == 'must-accept' or (mode == 'may-refuse' and exc not in ('TypeError', 'AttributeError'))):
			return '%s: %s raised %s' % (what, label, exc)
	if c['via'] == 'knob':
		import codecs
		if 'eff' not in o or any(codecs.lookup(x).name != codecs.lookup(c['cs']).name for x in o['eff']):
			return '%s: the object does not have the configured encoding: %r' % (what, o.get('eff'))
	for label, got, key in o['r']:
		if got != _w5_want(c, key):
			return '%s: %s is %r, expected the pairs %r%s' % (what, label, got, _w5_want(c, key), ' (query string %r)' % o['qs'] if 'qs' in o else '')
	for label, hx, cs, key in o['dec']:
		e = bytes.fromhex(hx)
		if not _only_safe(e, set(REF_QUERY)):
			return '%s: %s is %r: something else than safe characters and two-digit escapes' % (what, label, e)
		if key.startswith('text:'):
			import urllib.parse
			try:
				got = urllib.parse.unquote_to_bytes(e).decode(cs)
			except UnicodeDecodeError:
				got = {'err': 'unicode'}
			if got != key[5:]:
				return '%s: %s is %r, which is %r in %s, not the text %r' % (what, label, e, got, cs, key[5:])
			continue
		try:
			got = _ref_parse(e, cs)
		except UnicodeDecodeError:
			got = {'err': 'unicode'}
		want = _w5_want(c, key)
		if got != want:
			return '%s: %s is %r, which another reader (charset %s) reads as %r, not as the pairs %r' % (what, label, e, cs, got, want)
	for label, a, b in o['eq']:
		if a != b:
			return '%s: %s differ: %r / %r' % (what, label, a, b)
	if c['via'] == 'types.octets':
		import urllib.parse
		d = bytes.fromhex(c['d'])
		safe = set(_safe(c['safe'])) - {0x25}
		for key in ('q1', 'q2'):
			if key in o and (urllib.parse.unquote_to_bytes(bytes.fromhex(o[key])) != d or not _only_safe(bytes.fromhex(o[key]), safe)):
				return '%s: quote with a %s argument gave %r for %r' % (what, c['ty'], bytes.fromhex(o[key]), d)
		if 'u1' in o and o['u1'] != c['d']:
			return '%s: unquote(<%s> %r) gave %r, expected %r' % (what, c['ty'], bytes.fromhex(o['e']), bytes.fromhex(o['u1']), d)
		if 'u2' in o and o['u2'] != d.decode('latin-1'):
			return '%s: URI().unquote(<%s>) gave %r, expected %r' % (what, c['ty'], o['u2'], d.decode('latin-1'))
	return None


def _coq_w5(c, o):
	if 'skip' in o or not o.get('tie'):
		return None
	terms = []
	for qs, cs, key, hx, back, *only in o['tie'][:1]:
		if isinstance(back, str):    # (the name of an exception: the oracle's matter)
			continue
		t = _tie_terms(qs, cs, _w5_want(c, key), bytes.fromhex(hx), back, True)
		if t:
			terms += t[1:] if only else t
	return terms or None


LEVEL_TEXT = ('Machine-checked Coq theorems, for every safe set and every octet string of any length: unquote(quote d) = d, the encoded string is '
	'safe octets and %HH escapes only (two-digit model variant); form/query pair lists round-trip for every charset codec with dec(enc t)=t; '
	'for the pinned tree\'s one-digit "%X" variant the full statement is refuted by a witness and proved away from octets < 0x10 (known finding D1). '
	'The model is tied to /repo on every run: sets and HEX_MAP regenerated (table lemmas re-proved), ~15k model-vs-implementation evaluations inside Coq.')
LEVEL_NOTE = ('Trusted: Coq kernel + vm_compute; harness/gen_tables.py (T1) and the correspondence harness (T2); CPython charset codecs are a Section '
	'parameter (round-trip hypothesis); Lib/Utf8.v validity model validated, not verified. No axioms (Print Assumptions: closed).')
TECHNIQUE = 'Coq proof by induction over octet lists on a Gallina model + vm_compute correspondence against the implementation'

"""C13 -- percent-encoding and form encoding are exact inverses."""
from harness.coqfmt import B, N, X, pairs

ID = 'C13'
PROPS = 'Props/C13.v'
TABLES = ['PercentT']
COQ_HEADER = 'From Httoop Require Import Lib.Bytes Gen.PercentT Model.Percent Corr.C13.'
COQ_CHECK = 'check'
CORR_VO = 'Corr/C13.vo'
RULE = ('T2: Percent.quote/unquote, FormURLEncoded/QueryString encode/decode evaluated by the Gallina model (vm_compute) '
	'and by the implementation on the same inputs: every single octet x every named safe set, random 2-octet and longer strings, '
	'escape-dense decoder inputs, the escape/octet interaction family (for octet XX: %XX, %xx, %25XX, %2525, %%XX, %XX%XX next to the octet 0xXX itself; every safe set, form codec, QueryString, URI.query; quick tier: 32 octet values incl. % + space / & = ; 00 0f 7f 80 ff, thorough: all 256), pair lists over Unicode incl. delimiters for UTF-8 and ISO-8859-1; oracle: round trips on the real code. '
	'non-trivial = distinct (kind, input) whose output differs from its input or is an error')
EXHAUSTIVE = {'quick': False, 'thorough': False}
TRUSTED = ['harness/gen_tables.py t_percent (T1: masks of the Percent.* sets, HEX_MAP, QueryString.INVALID, escape-width probe)',
	'harness/props/C13.py + coq/Corr/C13.v (T2 canonicalisation: text pairs are compared after re-encoding in the charset)',
	'Lib/Utf8.v models CPython strict UTF-8 validity (validated by CUtf8 cases, not verified)']
ASSUMPTIONS = ['str.encode/bytes.decode round-trip on encodable text (Section hypothesis dec (enc t) = Some t)']

SAFE_NAMES = ['UNRESERVED', 'SCHEME', 'PCHAR', 'USERINFO', 'PATH', 'QUERY', 'FRAGMENT']
D1 = {'k': 'rt_quote', 'safe': 'UNRESERVED', 'd': '01'}
D1F = {'k': 'rt_form', 'qs': False, 'cs': 'ISO8859-1', 'ps': [['a', '\x020']]}
D21 = {'k': 'rt_query', 'ps': [['a', '\x1f']]}
WITNESSES = [('D1-percent-low-octet', D1), ('D1-percent-low-octet', D1F), ('D21-query-c0-controls', D21)]


def random_fork(rng):
	"""an independent stream, so that the cases drawn after this point are the same as before the family was added"""
	import random
	return random.Random(0x13C13 ^ hash(rng.getstate()[1][:8]))   # hash of a tuple of ints: independent of PYTHONHASHSEED


def _impl():
	from httoop.codecs.application.x_www_form_urlencoded import FormURLEncoded
	from httoop.uri.percent_encoding import Percent
	from httoop.uri.query_string import QueryString
	return Percent, FormURLEncoded, QueryString


def _safe(name):
	Percent = _impl()[0]
	if isinstance(name, str) and name in SAFE_NAMES:
		return bytes(getattr(Percent, name))
	if name == 'DEFAULT':
		return None
	return bytes.fromhex(name)


ALPH = ['a', 'b', ' ', '&', '=', '+', '%', '%20', '%2', '/', '?', '#', ';', 'ä', 'ÿ', '€', '\U0001f600', '0', '~', '\x7f', '\x01', '\x0f', '\n', '*', '-', '_', '.', 'Ā']


def rtext(rng, lo=0, hi=6, latin1=False):
	n = rng.randint(lo, hi)
	out = []
	for _ in range(n):
		r = rng.random()
		if r < 0.6:
			ch = rng.choice(ALPH)
		elif r < 0.8:
			ch = chr(rng.randint(0x20, 0x7e))
		elif r < 0.9:
			ch = chr(rng.randint(0, 0xff))
		else:
			ch = chr(rng.choice([rng.randint(0x100, 0xd7ff), rng.randint(0xe000, 0xffff), rng.randint(0x10000, 0x10ffff)]))
		out.append(ch)
	s = ''.join(out)
	if latin1:
		s = ''.join(c for c in s if ord(c) < 256)
	return s


def rbytes(rng, lo=0, hi=12):
	n = rng.randint(lo, hi)
	r = rng.random()
	if r < 0.3:
		return bytes(rng.randrange(256) for _ in range(n))
	if r < 0.6:
		return bytes(rng.choice(b'%%%0123456789abcdefABCDEFgG +&=/a\x00\xff\x0a') for _ in range(n))
	return bytes(rng.choice([rng.randrange(256), rng.randrange(0x20, 0x7f), rng.randrange(0, 0x20)]) for _ in range(n))


# octets that every tier puts through the escape/octet interaction family below
PCT_MUST = [0x25, 0x2b, 0x20, 0x2f, 0x26, 0x3d, 0x3b, 0x00, 0x0f, 0x7f, 0x80, 0xff]
PCT_TEXT_EXTRA = ['€', '\U0001f600', 'Ā', '\ufeff']


def _hexforms(x):
	"""upper, lower and mixed-case spellings of the two hex digits of x"""
	out = ['%02X' % x, '%02x' % x]
	for m in ('%X%x' % (x >> 4, x & 15), '%x%X' % (x >> 4, x & 15)):
		if m not in out:
			out.append(m)
	return out


def pct_family(x):
	"""octet strings in which a literal '%XX' (any case), '%25XX', '%2525', '%%XX', '%XX%XX' meets the octet 0xXX itself:
	a decoder that is not strictly single-pass, or an encoder that does not escape '%', loses the difference"""
	ch = bytes([x])
	U = ('%%%02X' % x).encode()
	out = []
	for hx in _hexforms(x):
		e = b'%' + hx.encode()
		out += [e + ch, ch + e, ch + e + ch, e + ch + e, b'%25' + e[1:], b'%25' + e[1:] + ch, ch + b'%25' + e[1:], b'%' + e, b'%' + e + ch, ch + b'%' + e,
			e + e, e + e + ch, ch + e + e, e + U + ch, b'%2525' + e[1:] + ch]
	out += [b'%2525', b'%2525' + ch, ch + b'%2525', b'%25' + ch, ch + b'%25', b'%25%25' + ch, b'%' + ch, ch + b'%', ch + ch + U, U + ch + ch]
	seen, res = set(), []
	for d in out:
		if d not in seen:
			seen.add(d)
			res.append(d)
	return res


def pct_text_family(ch, cs):
	"""the same family as text for the pair codecs: ch is one character, its octets in charset cs are what gets escaped"""
	try:
		bs = ch.encode(cs)
	except UnicodeEncodeError:
		return []
	escs = []
	for b in bs:
		for hx in _hexforms(b)[:2]:
			escs.append('%' + hx)
	whole = ''.join('%%%02X' % b for b in bs)
	if whole not in escs:
		escs += [whole, whole.lower()]
	out = []
	for e in escs:
		out += [e + ch, ch + e, ch + e + ch, '%25' + e[1:], '%25' + e[1:] + ch, '%' + e, '%' + e + ch, e + e, e + e + ch]
	out += ['%2525', '%2525' + ch, '%25' + ch, ch + '%25', '%' + ch, ch + '%']
	seen, res = set(), []
	for t in out:
		if t not in seen:
			seen.add(t)
			res.append(t)
	return res


def _pct_octets(rng, big):
	if big:
		return list(range(256))
	rest = [x for x in range(256) if x not in PCT_MUST]
	return PCT_MUST + sorted(rng.sample(rest, 20))


def gen_pct_cases(rng, big):
	cases = []
	octets = _pct_octets(rng, big)
	safes = SAFE_NAMES + ['DEFAULT', '']
	for x in octets:
		fam = pct_family(x)
		for d in fam:
			for safe in safes:
				cases.append({'k': 'rt_quote', 'safe': safe, 'd': d.hex()})
			# model vs implementation: the encoder under two safe sets, the decoder on the string itself and on its encodings
			for safe in (SAFE_NAMES[x % 7], 'DEFAULT' if x % 2 else ''):
				cases.append({'k': 'quote', 'safe': safe, 'd': d.hex()})
			cases.append({'k': 'unquote', 'd': d.hex()})
			cases.append({'k': 'unquote', 'd': b''.join(b'%%%02X' % c if c in b'%/ &=;+' or c == x or c >= 0x7f or c < 0x20 else bytes([c]) for c in d).hex()})
			for qs in (False, True):
				for cs in ('UTF-8', 'ISO8859-1'):
					cases.append({'k': 'form_dec', 'qs': qs, 'cs': cs, 'd': (b'a=' + d).hex()})
			cases.append({'k': 'form_dec', 'qs': x % 2 == 0, 'cs': 'ISO8859-1', 'd': (d + b'=' + d + b'&' + d).hex()})
	# the pair codecs: FormURLEncoded and QueryString in both charsets, URI.query
	chars = [chr(x) for x in octets] + PCT_TEXT_EXTRA
	for ch in chars:
		for cs in ('UTF-8', 'ISO8859-1'):
			fam = pct_text_family(ch, cs)
			for j, t in enumerate(fam):
				lists = [[['n', t]], [[t, 'v']], [[t, t]]]
				if j < 6:
					lists += [[['a', t], [ch, ch]], [[t[:3], t[3:]]] if t[3:] and t[:3] else [[ch, t]]]
				for ps in lists:
					for qs in (False, True):
						cases.append({'k': 'rt_form', 'qs': qs, 'cs': cs, 'ps': ps})
					cases.append({'k': 'form_enc', 'qs': j % 2 == 0, 'cs': cs, 'ps': ps})
					if cs == 'UTF-8':
						cases.append({'k': 'rt_query', 'ps': ps})
	return cases


def gen_cases(rng, tier):
	cases = []
	big = tier == 'thorough'
	cases.extend(gen_pct_cases(random_fork(rng), big))
	# every single octet under every named safe set (+ default, + empty set, + full set)
	for safe in SAFE_NAMES + ['DEFAULT', '', bytes(range(256)).hex()]:
		for c in range(256):
			cases.append({'k': 'quote', 'safe': safe, 'd': '%02x' % c})
			cases.append({'k': 'rt_quote', 'safe': safe, 'd': '%02x' % c})
	# 2-octet strings: all of them in the thorough tier (per safe set), a sample otherwise
	if big:
		for safe in SAFE_NAMES:
			for a in range(256):
				for b in range(256):
					cases.append({'k': 'rt_quote', 'safe': safe, 'd': '%02x%02x' % (a, b)})
		for a in range(256):
			for b in range(256):
				cases.append({'k': 'quote', 'safe': SAFE_NAMES[(a + b) % 7], 'd': '%02x%02x' % (a, b)})
				cases.append({'k': 'unquote', 'd': '25%02x%02x' % (a, b)})
	for _ in range(20000 if big else 3000):
		safe = rng.choice(SAFE_NAMES + ['DEFAULT', bytes(rng.randrange(256) for _ in range(rng.randint(0, 40))).hex()])
		d = rbytes(rng, 0, 2 if rng.random() < 0.5 else 24)
		cases.append({'k': 'quote', 'safe': safe, 'd': d.hex()})
		cases.append({'k': 'rt_quote', 'safe': safe, 'd': d.hex()})
	for _ in range(20000 if big else 3000):
		cases.append({'k': 'unquote', 'd': rbytes(rng, 0, 16).hex()})
	for a in range(256):  # '%' + every octet + '0', every octet alone
		cases.append({'k': 'unquote', 'd': '25%02x30' % a})
		cases.append({'k': 'unquote', 'd': '2541%02x' % a})
		cases.append({'k': 'utf8', 'd': '%02x' % a})
	for _ in range(8000 if big else 1500):
		r = rng.random()
		if r < 0.5:
			d = rtext(rng, 0, 5).encode('utf-8', 'surrogatepass')
			d = bytearray(d)
			if d and rng.random() < 0.6:
				i = rng.randrange(len(d))
				if rng.random() < 0.5:
					d[i] = rng.randrange(256)
				else:
					del d[i]
			d = bytes(d)
		else:
			d = bytes(rng.choice([0xc0, 0xc1, 0xc2, 0xdf, 0xe0, 0xed, 0xef, 0xf0, 0xf4, 0xf5, 0x80, 0x8f, 0x90, 0x9f, 0xa0, 0xbf, 0x41, 0x7f]) for _ in range(rng.randint(1, 5)))
		cases.append({'k': 'utf8', 'd': d.hex()})
	# pair lists
	for _ in range(10000 if big else 2000):
		cs = rng.choice(['UTF-8', 'ISO8859-1'])
		ps = [[rtext(rng, 0 if rng.random() < 0.15 else 1, 4, cs != 'UTF-8'), rtext(rng, 0, 4, cs != 'UTF-8')] for _ in range(rng.randint(0, 4))]
		qs = rng.random() < 0.5
		cases.append({'k': 'form_enc', 'qs': qs, 'cs': cs, 'ps': ps})
		if all(p[0] for p in ps):
			cases.append({'k': 'rt_form', 'qs': qs, 'cs': cs, 'ps': ps})
			if cs == 'UTF-8':
				cases.append({'k': 'rt_query', 'ps': ps})
	for _ in range(10000 if big else 2000):
		n = rng.randint(0, 14)
		d = bytes(rng.choice(b'&&==++%%% ab012cCfF\xe4\xc3\xa4\x00\x7f\x1f') for _ in range(n))
		cases.append({'k': 'form_dec', 'qs': rng.random() < 0.5, 'cs': rng.choice(['UTF-8', 'ISO8859-1']), 'd': d.hex()})
	return cases


def _enc_pairs(ps, cs):
	return [(a.encode(cs, 'surrogatepass') if cs == 'UTF-8' else a.encode(cs), b.encode(cs, 'surrogatepass') if cs == 'UTF-8' else b.encode(cs)) for a, b in ps]


def observe(c):
	Percent, Form, QS = _impl()
	k = c['k']
	try:
		if k == 'quote':
			s = _safe(c['safe'])
			out = Percent.quote(bytes.fromhex(c['d'])) if s is None else Percent.quote(bytes.fromhex(c['d']), s)
			return {'out': out.hex()}
		if k == 'rt_quote':
			s = _safe(c['safe'])
			d = bytes.fromhex(c['d'])
			q = Percent.quote(d) if s is None else Percent.quote(d, s)
			return {'enc': q.hex(), 'back': Percent.unquote(q).hex()}
		if k == 'unquote':
			return {'out': Percent.unquote(bytes.fromhex(c['d'])).hex()}
		if k == 'utf8':
			try:
				bytes.fromhex(c['d']).decode('utf-8')
				return {'ok': True}
			except UnicodeDecodeError:
				return {'ok': False}
		codec = QS if c.get('qs') else Form
		if k == 'form_enc':
			ps = [tuple(p) for p in c['ps']]
			try:
				return {'out': codec.encode(ps, c['cs']).hex()}
			except UnicodeEncodeError:
				return {'skip': 'unencodable'}
		if k == 'form_dec':
			try:
				r = codec.decode(bytes.fromhex(c['d']), c['cs'])
			except UnicodeDecodeError:
				return {'err': 'unicode'}
			return {'ps': [[a.encode(c['cs']).hex(), b.encode(c['cs']).hex()] for a, b in r]}
		if k == 'rt_form':
			ps = [tuple(p) for p in c['ps']]
			try:
				e = codec.encode(ps, c['cs'])
			except UnicodeEncodeError:
				return {'skip': 'unencodable'}
			return {'enc': e.hex(), 'back': [list(p) for p in codec.decode(e, c['cs'])]}
		if k == 'rt_query':
			from httoop import URI
			u = URI()
			try:
				u.query = [tuple(p) for p in c['ps']]
			except UnicodeEncodeError:
				return {'skip': 'unencodable'}
			return {'qs': u.query_string, 'back': [list(p) for p in u.query]}
	except Exception as exc:
		from httoop.exceptions import InvalidURI
		if isinstance(exc, InvalidURI):
			return {'err': 'invalid'}
		return {'err': 'escape:%s' % type(exc).__name__, 'msg': str(exc)[:200]}
	raise ValueError(k)


def _mask(s):
	if s is None:
		s = _impl()[0].UNRESERVED
	m = 0
	for ch in set(s):
		m |= 1 << ch
	return m


def coq_case(c, o):
	k = c['k']
	if 'skip' in o or k.startswith('rt_'):
		return None  # oracle-only kinds
	if str(o.get('err', '')).startswith('escape'):
		return 'CUtf8 [] false'  # an escaping exception where the model has none: force a disagreement
	if k == 'quote':
		return 'CQuote %s %s %s' % (N(_mask(_safe(c['safe']))), X(bytes.fromhex(c['d'])), X(bytes.fromhex(o['out'])))
	if k == 'unquote':
		return 'CUnquote %s %s' % (X(bytes.fromhex(c['d'])), X(bytes.fromhex(o['out'])))
	if k == 'utf8':
		return 'CUtf8 %s %s' % (X(bytes.fromhex(c['d'])), B(o['ok']))
	if k == 'form_enc':
		return 'CFormEnc %s %s %s' % (B(c['qs']), pairs(_enc_pairs(c['ps'], c['cs'])), X(bytes.fromhex(o['out'])))
	if k == 'form_dec':
		if o.get('err') == 'unicode':
			out = 'DUnicode'
		elif o.get('err') == 'invalid':
			out = 'DInvalid'
		else:
			out = '(DOk %s)' % pairs([(bytes.fromhex(a), bytes.fromhex(b)) for a, b in o['ps']])
		return 'CFormDec %s %s %s %s' % (B(c['qs']), B(c['cs'] == 'UTF-8'), X(bytes.fromhex(c['d'])), out)
	return None


def oracle(c, o):
	k = c['k']
	if str(o.get('err', '')).startswith('escape') or 'harness_exception' in o:
		return 'unexpected exception %s' % (o,)
	if 'skip' in o:
		return None
	if k == 'rt_quote':
		d = bytes.fromhex(c['d'])
		if bytes.fromhex(o['back']) != d:
			return 'unquote(quote(d)) != d: quote gave %s, unquote gave %s' % (o['enc'], o['back'])
		s = _safe(c['safe'])
		safe = set(_impl()[0].UNRESERVED if s is None else s) - {0x25}
		e = bytes.fromhex(o['enc'])
		i = 0
		while i < len(e):
			if e[i] == 0x25:
				if not (i + 2 < len(e) + 0 and all(ch in b'0123456789ABCDEFabcdef' for ch in e[i + 1:i + 3]) and len(e[i + 1:i + 3]) == 2):
					return 'encoded string has a malformed escape at %d: %s' % (i, o['enc'])
				i += 3
			elif e[i] in safe:
				i += 1
			else:
				return 'encoded string contains an unsafe octet at %d: %s' % (i, o['enc'])
		return None
	if k == 'rt_form':
		if o.get('err'):
			return 'form round trip raised %s' % o['err']
		if o['back'] != [list(p) for p in c['ps']]:
			return 'decode(encode(pairs)) != pairs: %s -> %r' % (o['enc'], o['back'])
	if k == 'rt_query':
		if o.get('err'):
			return 'URI.query round trip raised %s' % o['err']
		if o['back'] != [list(p) for p in c['ps']]:
			return 'URI.query read back differs: %r -> %r' % (o['qs'], o['back'])
	return None


def _low_unsafe(data, safe):
	return any(ch < 0x10 and ch not in safe for ch in data)


def classify(c, o, fail):
	Percent, Form, QS = _impl()
	k = c['k']
	if k == 'rt_quote':
		s = _safe(c['safe'])
		safe = set(Percent.UNRESERVED if s is None else s) - {0x25}
		if _low_unsafe(bytes.fromhex(c['d']), safe):
			return 'D1-percent-low-octet'
	if k in ('rt_form', 'rt_query'):
		cs = c.get('cs', 'UTF-8')
		codec = QS if (c.get('qs') or k == 'rt_query') else Form
		safe = set(codec.UNQUOTED) - {0x25}
		enc = b''.join(a + b for a, b in _enc_pairs(c['ps'], cs))
		if _low_unsafe(enc, safe):
			return 'D1-percent-low-octet'
		if (k == 'rt_query' or c.get('qs')) and o.get('err') == 'invalid' and any(ch < 0x20 or ch == 0x7f for ch in enc):
			return 'D21-query-c0-controls'
	return None


def nontrivial(c, o):
	if 'skip' in o:
		return None
	k = c['k']
	if k in ('quote', 'unquote') and o.get('out') == c['d']:
		return None
	if k == 'rt_quote' and o.get('enc') == c['d']:
		return None
	return (k, c.get('safe'), c.get('d'), repr(c.get('ps')), c.get('cs'), c.get('qs'))

LEVEL_TEXT = ('Machine-checked Coq theorems, for every safe set and every octet string of any length: unquote(quote d) = d, the encoded string is '
	'safe octets and %HH escapes only (two-digit model variant); form/query pair lists round-trip for every charset codec with dec(enc t)=t; '
	'for the pinned tree\'s one-digit "%X" variant the full statement is refuted by a witness and proved away from octets < 0x10 (known finding D1). '
	'The model is tied to /repo on every run: sets and HEX_MAP regenerated (table lemmas re-proved), ~15k model-vs-implementation evaluations inside Coq.')
LEVEL_NOTE = ('Trusted: Coq kernel + vm_compute; harness/gen_tables.py (T1) and the correspondence harness (T2); CPython charset codecs are a Section '
	'parameter (round-trip hypothesis); Lib/Utf8.v validity model validated, not verified. No axioms (Print Assumptions: closed).')
TECHNIQUE = 'Coq proof by induction over octet lists on a Gallina model + vm_compute correspondence against the implementation'

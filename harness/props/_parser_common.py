"""Shared by C01, C02, C03, C07 (all tied to coq/Model/Parser.v through coq/Corr/Parser.v)."""
from harness import parser_rec, streams
from harness.coqfmt import X

TABLES = ['HeadersT', 'ParserT']
COQ_HEADER = 'From Coq Require Import ZArith.\nFrom Httoop Require Import Model.Parser Corr.Parser.'
COQ_CHECK = 'check'
CORR_VO = 'Corr/Parser.vo'
TRUSTED_COMMON = [
	'harness/tables/headers.py, parser.py (T1: HEADER_RE class, HEADER spelling/join tables, Trailer.forbidden_headers, int digit limit, Content-Length-overwrite probe)',
	'harness/parser_rec.py (T3: subclasses of the two state machines and class-attribute wrappers installed in the harness process record every (callee argument -> result) the implementation evaluated; T2: per-call observations compared inside Coq by Corr/Parser.v)',
	'callees of the parser model that are parameters of every theorem: start-line parser + on_startline_complete hooks, header-semantics hooks of on_headers_complete after the Host-present check, Body.decompress, RFC 2047 decoding in Headers.__getitem__, Trailer element parsing, and c_connect (does ClientStateMachine.remove_invalid_headers strip the framing fields of the message with this status line: probed black-box by the harness subclass with sentinel fields)',
	'Lib/PyInt.v models CPython int() (validated by CInt10/CInt16 cases, not verified)',
]


def observe_stream(kind, s, cuts_list):
	runs = []
	for n, cuts in enumerate(cuts_list):
		frags = streams.cuts_to_frags(s, cuts)
		# the type of the argument of parse() is rotated over the runs of a case: bytes, a fresh bytearray, and one receive buffer that the
		# caller reuses and overwrites after every call (the machine must have copied what it keeps); the expected outcome is the same
		o = parser_rec.run(kind, frags, feed=('bytes', 'reused', 'bytearray')[n % 3] if len(cuts_list) > 1 else 'bytes')
		o['cuts'] = list(cuts)
		runs.append(o)
	return {'runs': runs}


def coq_parse_cases(case, obs):
	"""one CParse literal per fragmentation"""
	s = bytes.fromhex(case['s'])
	out = []
	if len(s) > 20000:
		# streams of 32 kB and more (thorough tier, boundary-length payloads): the implementation is run and judged by the oracle,
		# the Coq evaluation is skipped (a literal of several hundred kB per run costs gigabytes in coqc)
		return None
	for run in obs['runs']:
		frags = streams.cuts_to_frags(s, run['cuts'])
		out.append(parser_rec.coq_parse_case(case['kind'], frags, run))
		if case.get('quiet_tie') and len(frags) <= 12:
			out.append(parser_rec.coq_quiet_case(case['kind'], frags, run))
	return out


def summary(run):
	"""(delivered messages across calls, first error, leftover when idle)"""
	delivered = []
	err = None
	for c in run['calls']:
		if 'err' in c:
			err = c['err']
			break
		delivered.extend(c['msgs'])
	left = None
	if err is None and not run['final']['started']:
		left = run['final']['buf']
	return delivered, err, left

"""C09 -- header element parameters survive compose and parse."""
import json

from harness.coqfmt import B, L, N, P, X, opt

ID = 'C09'
PROPS = 'Props/C09.v'
TABLES = ['HeadersT', 'HeadersApiT', 'Base64T', 'PercentT', 'ElementT']
COQ_HEADER = 'From Httoop Require Import Lib.Bytes Lib.Variant Model.Headers Model.HeadersApi Model.Element Corr.C09.'
COQ_CHECK = 'check'
CORR_VO = 'Corr/C09.vo'
RULE = ('T2: formatparam (generic and cookie tspecials), bytes(element) after construction through the API, Element.parse and Headers.elements for the generic '
	'element, Content-Type, Content-Disposition, Cookie and Set-Cookie evaluated by the Gallina model (vm_compute) and by the implementation on the same inputs: '
	'parameter values over every separator, whitespace, backslash, double quote, controls, Latin-1 and arbitrary Unicode; wire strings with sloppy whitespace, '
	'quoted / unquoted / RFC 5987 extended values in several charsets, RFC 2231 continuations (ordered, shuffled, gaps, signs, leading zeros, underscores), '
	'duplicates, stray separators, unbalanced quotes, encoded-word-like octets; for the round trip every value of up to 4 characters over {a, ", ;, backslash}, double quotes at both '
	'edges / one edge / doubled / behind backslashes / next to separators around a list of inner texts, in all element classes and in list fields. Oracle: compose -> parse gives back the value and exactly the parameter names and '
	'values, alone and as a joined list read through Headers.elements. non-trivial = distinct (kind, input)')
EXHAUSTIVE = {'quick': False, 'thorough': False}
TRUSTED = ['harness/tables/element.py, headers_api.py, percent.py (T1: tspecials classes, pinned regex texts, extended-parameter framing, cookie attribute names, charset alias '
	'classification, safe set and escape width of Percent.quote, D15 guard probe)',
	'harness/props/C09.py + coq/Corr/C09.v (T2 canonicalisation: str compared as UTF-8, exceptions mapped to an enum; T3 table for email.header.decode_header per case)',
	'dict is modelled as an insertion-ordered association list, re.split / re.sub by hand-written recognisers whose pattern text is pinned in T1 (validated, not verified)']
ASSUMPTIONS = ['email.header.decode_header is a callee (Section variable); round-trip theorems assume the composed element does not contain an encoded-word opener',
	'codecs other than utf-8 / iso-8859-1 / ascii for RFC 5987 values are a callee (Section variable cs_other)',
	'parameter names are distinct, lower-case, free of whitespace, separators, quotes and asterisks; values have no leading or trailing whitespace']

CLASSES = ['generic', 'ctype', 'disp', 'cookie']
COQ_CLS = {'generic': 'EGeneric', 'ctype': 'EContentType', 'disp': 'EDisposition', 'cookie': 'ECookie'}
LCLS = {'generic': 'LGeneric', 'cookie': 'LCookie', 'setcookie': 'LSetCookie'}

W_DQUOTE = {'k': 'rt', 'cls': 'generic', 'value': 'v', 'cookie': ['n', 'v'], 'params': [['a', {'t': 'x"y'}]]}
W_BSL = {'k': 'rt', 'cls': 'generic', 'value': 'v', 'cookie': ['n', 'v'], 'params': [['a', {'t': 'x\\\\y'}]]}
W_D1 = {'k': 'rt', 'cls': 'generic', 'value': 'v', 'cookie': ['n', 'v'], 'params': [['a', {'t': '\x01€'}]]}
W_EW = {'k': 'rt', 'cls': 'generic', 'value': 'v', 'cookie': ['n', 'v'], 'params': [['a', {'t': 'x=?utf-8?b?4oKs?='}]]}
W_EXPIRES = {'k': 'rt_list', 'lcls': 'setcookie', 'elems': [{'cls': 'cookie', 'value': 'v', 'cookie': ['a', '1'], 'params': [['expires', {'t': 'Wed, 09 Jun 2021 10:18:14 GMT'}]]},
	{'cls': 'cookie', 'value': 'v', 'cookie': ['b', '2'], 'params': [['path', {'t': '/'}]]}]}
W_COOKIE = {'k': 'rt', 'cls': 'cookie', 'value': 'v', 'cookie': ['n', 'v'], 'params': [['path', {'t': '/a;b'}]]}
WITNESSES = [('D17-param-dquote-or-backslash-pair', W_DQUOTE), ('D17-param-dquote-or-backslash-pair', W_BSL), ('D1-percent-low-octet-ext-param', W_D1),
	('D16-element-contains-encoded-word', W_EW), ('D33-cookie-params-never-quoted', W_COOKIE),
	('D34-setcookie-expires-rewrite', W_EXPIRES)]

NAMES = ['a', 'b', 'filename', 'name', 'charset', 'boundary', 'path', 'domain', 'expires', 'max-age', 'httponly', 'secure', 'q', 'x-y', 'inline', 'attachment', 'form-data', 'c1', 'foo']
TOKCH = "abcxyzABC019-._~!#$%&'*+^`|"
SEPS = ';,= \t"\\/()<>@:[]?{}'


def gen_text(rng, lo=0, hi=6, domain='any'):
	"""domain 'prop': the property's value domain (no leading/trailing whitespace)"""
	out = []
	mode = rng.random()
	for _ in range(rng.randint(lo, hi)):
		r = rng.random()
		if mode < 0.25:
			out.append(rng.choice(TOKCH))
		elif r < 0.35:
			out.append(rng.choice(TOKCH))
		elif r < 0.65:
			out.append(rng.choice(SEPS))
		elif r < (0.665 if domain == 'prop' else 0.72):
			out.append(rng.choice('\n\r\x0b\x0c\x00\x01\x0f\x10\x1f\x7f'))
		elif r < 0.82:
			out.append(chr(rng.randint(0x80, 0xff)))
		elif r < 0.985:
			out.append(chr(rng.choice([rng.randint(0x100, 0x7ff), rng.randint(0x800, 0xd7ff), rng.randint(0xe000, 0xffff), rng.randint(0x10000, 0x10ffff), 0x20ac])))
		else:
			out.append(chr(rng.randint(0xd800, 0xdfff)))
	s = ''.join(out)
	if domain == 'prop':
		s = ''.join(ch for ch in s if not 0xd800 <= ord(ch) <= 0xdfff)
		s = s.strip(' \t\n\r\x0b\x0c')
	return s


def gen_pval(rng, domain='any'):
	r = rng.random()
	if domain != 'prop':
		if r < 0.05:
			return None
		if r < 0.15:
			return {'b': bytes(rng.choice([rng.randint(0x20, 0x7e), rng.randint(0, 255), ord(rng.choice(SEPS))]) for _ in range(rng.randint(0, 6))).hex()}
		if r < 0.2:
			return {'t': rng.choice(['=?utf-8?b?4oKs?=', 'x=?utf-8?b?4oKs?=', '?x', '=?', 'a=?b?c?=', '"=?x?b?AA==?="'])}
	return {'t': gen_text(rng, 0 if r < 0.3 else 1, 7, domain)}


def gen_name(rng, domain='any'):
	r = rng.random()
	if domain == 'prop' or r < 0.6:
		return rng.choice(NAMES) if rng.random() < 0.8 else ''.join(rng.choice('abcdxyz019-_.') for _ in range(rng.randint(1, 5)))
	if r < 0.75:
		return rng.choice(['Path', 'HttpOnly', 'SECURE', 'A', 'FileName', 'Boundary', 'Max-Age', 'Expires', 'X'])
	if r < 0.9:
		return rng.choice(NAMES) + rng.choice(['*', '*0', '*1', '*0*', '**', '*x'])
	return rng.choice(['', ' a', 'a ', 'a b', 'a=b', 'a;b', '"a"', 'a,b', 'é', 'a\tb'])


def gen_params(rng, domain='any'):
	ps, seen = [], set()
	for _ in range(rng.choice([0, 1, 1, 1, 2, 2, 3, 4])):
		k = gen_name(rng, domain)
		if k in seen:
			continue
		seen.add(k)
		ps.append([k, gen_pval(rng, domain)])
	return ps


def gen_value(rng, cls, domain='any'):
	if cls == 'disp':
		v = rng.choice(['attachment', 'inline', 'form-data', 'Attachment', 'INLINE', 'Form-Data'])
		if domain != 'prop' and rng.random() < 0.2:
			v = rng.choice(['other', '', 'attachment ', 'inlİne', 'attachmentK', 'attachmenť'])
		return v
	if cls == 'ctype':
		v = rng.choice(['text/plain', 'multipart/form-data', 'application/json', 'a/b+c', 'x'])
	else:
		v = ''.join(rng.choice(TOKCH) for _ in range(rng.randint(1, 6)))
	if domain != 'prop' and rng.random() < 0.15:
		v = rng.choice(['', 'a b', 'a;b', 'a,b', 'é', '€', 'a=?b', '"q"', ' x ', 'a"b'])
	return v


def gen_cookie(rng, domain='any'):
	n = ''.join(rng.choice('abcSID019_-') for _ in range(rng.randint(1, 5)))
	v = ''.join(rng.choice('abcxyz019-_.~/+') for _ in range(rng.randint(0, 6)))
	if domain != 'prop' and rng.random() < 0.3:
		n = rng.choice(['', 'a=b', 'Path', ' n', 'n ', 'né', '€', 'a;b', '"n"'])
	if domain != 'prop' and rng.random() < 0.3:
		v = rng.choice(['', '"v"', '"a b"', '""x""', 'a b', 'a=b', 'a"b', '\\', 'a;b', 'a,b', ' v', 'v ', 'é', '€', '"', '"a\\"b"', '=?x?='])
	return [n, v]


def gen_elem(rng, cls=None, domain='any'):
	cls = cls or rng.choice(CLASSES)
	ps = gen_params(rng, domain)
	if cls == 'ctype':
		# a bytes boundary is a TypeError in sanitize_boundary (API misuse); arbitrary text is refused by VALID_BOUNDARY
		ps = [p for p in ps if p[0] != 'boundary' or (domain != 'prop' and p[1] is not None and 't' in p[1])]
	if cls == 'ctype' and rng.random() < 0.4:
		ps = [p for p in ps if p[0] != 'boundary']
		b = rng.choice(['abc', '"abc"', 'a b', 'a b ', '""', '"', 'x' * 201, 'x' * 202, 'a\n', 'a\n\n', 'é', 'a"b', '----=_Part_1', '"a;b"'])
		if domain == 'prop':
			b = rng.choice(['abc', 'a b', '----=_Part_1', 'a;b', "a'b"])
		ps.insert(rng.randint(0, len(ps)), ['boundary', {'t': b}])
	if cls == 'disp' and domain == 'prop':
		ps = [p for p in ps if p[0] not in ('inline', 'attachment', 'form-data')]
	return {'cls': cls, 'value': gen_value(rng, cls, domain), 'cookie': gen_cookie(rng, domain), 'params': ps}


# ---- values built around double quotes and backslashes (quote at both edges, at one edge, in the middle, doubled, behind backslashes, next to separators)
QUOTE_INNERS = ['', 'a', 'xyzzy', '1.0', 'W/"1"', 'draft" and "final', 'a b', 'a;b', 'a,b', 'a=b', 'a; b="c"', 'a", "b', '""', 'a""b', 'a"b"c', '\\', 'a\\b', '/', '?', 'a;"b";c', ',', ';',
	'x' * 40]
QUOTE_WRAPS = [('"', '"'), ('"', ''), ('', '"'), ('""', '""'), ('"', '""'), ('\\"', '\\"'), ('"', '\\"'), ('\\"', '"'), ('"\\', '"'), ('"', '\\\\"'), ("'", "'"), ('"', '";'), (';"', '"'),
	('"', '",'), (',"', '"'), ('="', '"'), ('a"', '"'), ('"', '"a'), ('" ', ' "'), ('é"', '"'), ('"', '"é')]
QUOTE_PIECES = ['"', '"', '"', '""', '\\', '\\"', '\\\\', ';', ',', '=', ' ', 'a', 'xy', '1.0', '/', ':', '?', "'", 'é']


def quote_shapes(big):
	"""deterministic: every value of up to 4 (thorough: 5) characters over {a, ", ;, backslash}, of up to 3 over {a, space, ", comma, =, backslash}, and every wrap of every inner text"""
	import itertools
	out, seen = [], set()
	for alpha, n in (('a";\\', 5 if big else 4), ('a ",=\\', 4 if big else 3)):
		for l in range(1, n + 1):
			for t in itertools.product(alpha, repeat=l):
				out.append(''.join(t))
	for a, b in QUOTE_WRAPS:
		for inner in QUOTE_INNERS:
			out.append(a + inner + b)
	res = []
	for t in out:
		if t and t == t.strip(' \t\n\r\x0b\x0c') and t not in seen:
			seen.add(t)
			res.append(t)
	return res


def gen_qtext(rng):
	"""random value in the property domain that is dense in double quotes, backslashes and separators; four times in ten wrapped in double quotes"""
	t = ''.join(rng.choice(QUOTE_PIECES) for _ in range(rng.randint(0, 5)))
	r = rng.random()
	if r < 0.4:
		t = '"' + t + '"'
	elif r < 0.5:
		t = rng.choice(['"', '']) + t + rng.choice(['"', ''])
	return t.strip(' \t\n\r\x0b\x0c')


def quote_cases(rng, big):
	one = lambda cls, key, t: {'cls': cls, 'value': 'inline' if cls == 'disp' else ('text/plain' if cls == 'ctype' else 'v'), 'cookie': ['n', 'v'], 'params': [[key, {'t': t}]]}
	cases = []
	for i, t in enumerate(quote_shapes(big)):
		cases.append(dict(one('generic', 'a', t), k='rt'))
		j = i % 6
		if j == 0:
			cases.append(dict(one('disp', 'filename', t), k='rt'))
		elif j == 1:
			cases.append(dict(one('ctype', 'charset', t), k='rt'))
		elif j == 2:
			cases.append(dict(one('cookie', 'path', t), k='rt'))
		elif j == 3:
			cases.append({'k': 'rt_list', 'lcls': 'generic', 'elems': [one('generic', 'a', t), one('generic', 'b', 'y z')]})
		elif j == 4:
			cases.append({'k': 'rt_list', 'lcls': 'generic', 'elems': [one('generic', 'x-y', 'q'), one('generic', 'a', t)]})
		else:
			cases.append({'k': 'rt_list', 'lcls': 'setcookie', 'elems': [one('cookie', rng.choice(['path', 'domain', 'expires']), t), one('cookie', 'path', '/')]})
	for _ in range(8000 if big else 500):
		e = gen_elem(rng, domain='prop')
		keys = [p[0] for p in e['params'] if not (e['cls'] == 'ctype' and p[0] == 'boundary')]
		if not keys:
			e['params'].append(['a', None])
			keys = ['a']
		for p in e['params']:
			if p[0] in keys and (p[0] == keys[0] or rng.random() < 0.5):
				p[1] = {'t': gen_qtext(rng)}
		e['k'] = 'rt'
		cases.append(e)
	for _ in range(3000 if big else 250):
		lcls = rng.choice(['generic', 'generic', 'generic', 'setcookie'])
		els = []
		for _ in range(rng.randint(1, 3)):
			e = gen_elem(rng, 'generic' if lcls == 'generic' else 'cookie', domain='prop')
			if not e['params'] or rng.random() < 0.7:
				e['params'] = [p for p in e['params'] if p[0] != 'a'] + [['a', {'t': gen_qtext(rng)}]]
			els.append(e)
		cases.append({'k': 'rt_list', 'lcls': lcls, 'elems': els})
	return cases


# ---- wire strings for the parse direction
def pct(b, rng):
	return b''.join((b'%%%02X' % c if rng.random() < 0.5 else b'%%%02x' % c) if (c >= 0x80 or c < 0x21 or c in b"%';=\",*" or rng.random() < 0.1) else bytes([c]) for c in b)


def gen_wire_value(rng):
	r = rng.random()
	if r < 0.25:
		return ''.join(rng.choice(TOKCH) for _ in range(rng.randint(0, 5))).encode()
	if r < 0.5:
		inner = gen_text(rng, 0, 6).encode('latin-1', 'replace')
		esc = inner.replace(b'\\', b'\\\\').replace(b'"', b'\\"') if rng.random() < 0.7 else inner
		return b'"' + esc + b'"'
	if r < 0.6:
		return gen_text(rng, 0, 5).encode('latin-1', 'replace')
	if r < 0.7:
		return rng.choice([b'"', b'""', b'"a', b'a"', b'"a"b"', b'"\\"', b'"\\\\"', b'"\\\\\\"', b'"a\\', b'\\', b'"a;b"c', b"'a'", b'=?utf-8?b?4oKs?=', b'"=?utf-8?b?4oKs?="'])
	return b''


def gen_ext_value(rng):
	cs = rng.choice([b'utf-8', b'UTF-8', b'utf8', b'iso-8859-1', b'ISO-8859-1', b'latin1', b'us-ascii', b'ascii', b'', b'bogus', b'x', b'utf-9', b'utf-8\xff', b'none'])
	lang = rng.choice([b'', b'', b'en', b'de-DE'])
	t = gen_text(rng, 0, 5)
	if rng.random() < 0.7:
		data = t.encode('utf-8', 'surrogatepass') if cs.lower().startswith(b'utf') or rng.random() < 0.3 else t.encode('latin-1', 'replace')
	else:
		data = bytes(rng.choice([0xe2, 0x82, 0xac, 0xc3, 0xa9, 0xff, 0x41, 0x27, 0x25]) for _ in range(rng.randint(0, 4)))
	body = pct(data, rng)
	if rng.random() < 0.1:
		body = rng.choice([b'%', b'%e', b'%zz', b'%e2%82', b"a'b", b'a%27b', b'%2', b'%1'])
	r = rng.random()
	if r < 0.8:
		return cs + b"'" + lang + b"'" + body
	if r < 0.88:
		return cs + b"'" + body
	if r < 0.94:
		return b"'" + lang + b"'" + body
	return b'"' + cs + b"'" + lang + b"'" + body + b'"'


def gen_wire_params(rng):
	atoms = []
	for _ in range(rng.choice([0, 1, 1, 2, 2, 3, 4])):
		name = gen_name(rng).encode('latin-1', 'replace')
		r = rng.random()
		if r < 0.45:
			atoms.append((name, gen_wire_value(rng)))
		elif r < 0.65:
			base = rng.choice([b'a', b'filename', b'n'])
			atoms.append((base + b'*', gen_ext_value(rng)))
		elif r < 0.9:
			base = rng.choice([b'a', b'filename', b'n', b''])
			idx = list(range(rng.randint(1, 4)))
			if rng.random() < 0.3:
				rng.shuffle(idx)
			if rng.random() < 0.3 and idx:
				idx.remove(rng.choice(idx))
			for i in idx:
				num = b'%d' % i
				if rng.random() < 0.2:
					num = rng.choice([b'0%d' % i, b'+%d' % i, b'-%d' % i, b' %d' % i, b'\t%d' % i, b'%d_0' % i, b'_%d' % i, b'%d_' % i, b'%d ' % i, b'x', b'', b'1e1', b'0x1', b'\xb2', b'%d\x0c' % i, b'0' * 3, b'00'])
				star = b'*' if rng.random() < 0.3 else b''
				val = gen_ext_value(rng) if star and (i == 0 or rng.random() < 0.3) else (pct(gen_text(rng, 0, 3).encode('utf-8', 'surrogatepass'), rng) if star else gen_wire_value(rng))
				atoms.append((base + b'*' + num + star, val))
		else:
			atoms.append((name, None))
	if rng.random() < 0.15 and atoms:
		atoms.append(rng.choice(atoms))
	return atoms


def render_wire(rng, value, atoms):
	out = value
	for name, val in atoms:
		sep = rng.choice([b'; ', b'; ', b';', b' ; ', b';;', b'; ;', b';\t'])
		if val is None:
			out += sep + name
		else:
			out += sep + name + rng.choice([b'=', b'=', b'=', b' = ', b'= ', b' =']) + val
	out += rng.choice([b'', b'', b'', b';', b' ', b'; '])
	return out


def gen_wire(rng, cls):
	if cls == 'cookie':
		value = rng.choice([b'n=v', b'sid=abc', b'n="a b"', b'n=""x""', b'n', b'=v', b'n=a=b', b'Path=/', b'n = v', b'n="a\\"b"', b'n=\xe9', b''])
	elif cls == 'disp':
		value = rng.choice([b'attachment', b'inline', b'form-data', b'Attachment', b'INLINE', b'other', b''])
	elif cls == 'ctype':
		value = rng.choice([b'text/plain', b'multipart/form-data', b'a/b', b'x'])
	else:
		value = rng.choice([b'v', b'a/b', b'tok', b'', b'a b', b'a=b', b'"q"', b'a\xe9'])
	s = render_wire(rng, value, gen_wire_params(rng))
	r = rng.random()
	if r < 0.08:
		s = bytearray(s)
		for _ in range(rng.randint(1, 2)):
			i = rng.randint(0, len(s))
			s[i:i] = rng.choice([b'"', b';', b'=', b'\\', b'*', b"'", b' ', b',', b'=?', b'\xff'])
		s = bytes(s)
	elif r < 0.12:
		s = rng.choice([b'=?utf-8?b?', b'x =?utf-8?b?4oKs?= ', b'=?iso-8859-1?q?a=3Bb?=; ']) + s
	return s


def gen_cases(rng, tier):
	big = tier == 'thorough'
	cases = []
	# formatparam: every single octet / a sample of code points as a one-character value, for both tspecials classes
	for c in range(256):
		cases.append({'k': 'format', 'cookie': False, 'name': 'a', 'v': {'b': '%02x' % c}})
		cases.append({'k': 'format', 'cookie': c % 2 == 0, 'name': 'a', 'v': {'t': chr(c)}})
		cases.append({'k': 'rt', 'cls': 'generic', 'value': 'v', 'cookie': ['n', 'v'], 'params': [['a', {'t': 'x' + chr(c) + 'y'}]]})
	for _ in range(6000 if big else 500):
		cases.append({'k': 'format', 'cookie': rng.random() < 0.3, 'name': gen_name(rng), 'v': gen_pval(rng)})
	for _ in range(30000 if big else 1500):
		e = gen_elem(rng)
		e['k'] = 'compose'
		cases.append(e)
	for _ in range(40000 if big else 2200):
		e = gen_elem(rng, domain='prop')
		e['k'] = 'rt'
		cases.append(e)
	for _ in range(40000 if big else 2500):
		cls = rng.choice(CLASSES)
		cases.append({'k': 'parse', 'cls': cls, 's': gen_wire(rng, cls).hex(), 'set': rng.random() < 0.5})
	for _ in range(10000 if big else 600):
		lcls = rng.choice(['generic', 'cookie', 'setcookie'])
		n = rng.randint(0, 3)
		if rng.random() < 0.5:
			els = [gen_wire(rng, 'cookie' if lcls != 'generic' else 'generic') for _ in range(n)]
			v = rng.choice([b', ', b',', b'; ', b' , ']).join(els)
		else:
			from harness.props.C08 import gen_setcookie
			v = gen_setcookie(rng) if lcls != 'generic' else bytes(rng.choice(b'ab,"; =\\') for _ in range(rng.randint(0, 12)))
		cases.append({'k': 'parselist', 'lcls': lcls, 'v': v.hex()})
	for _ in range(10000 if big else 700):
		lcls = rng.choice(['generic', 'generic', 'setcookie', 'cookie'])
		els = []
		for _ in range(rng.randint(1, 3)):
			e = gen_elem(rng, 'generic' if lcls == 'generic' else 'cookie', domain='prop')
			if lcls == 'cookie':
				e['params'] = []
			els.append(e)
		cases.append({'k': 'rt_list', 'lcls': lcls, 'elems': els})
	# last, so that the cases above are the same as before for a given seed
	cases.extend(quote_cases(rng, big))
	return cases


# ------------------------------------------------------------------ observation
def _impl():
	from httoop.exceptions import InvalidHeader
	from httoop.header import Headers
	from httoop.header.element import HeaderElement
	from httoop.header.messaging import ContentDisposition, ContentType, Cookie, SetCookie
	return {'generic': HeaderElement, 'ctype': ContentType, 'disp': ContentDisposition, 'cookie': Cookie, 'setcookie': SetCookie, 'Headers': Headers, 'InvalidHeader': InvalidHeader}


def _exc(exc):
	if isinstance(exc, _impl()['InvalidHeader']):
		return 'invalid'
	if isinstance(exc, UnicodeEncodeError):
		return 'unicode'
	return 'escape:%s:%s' % (type(exc).__name__, str(exc)[:80])


def _pv(v):
	if v is None:
		return None
	return bytes.fromhex(v['b']) if 'b' in v else v['t']


def _u8(s):
	return s.encode('utf-8', 'surrogatepass').hex()


def _build(c, cookie_cls='cookie'):
	I = _impl()
	params = dict((k.encode('utf-8'), _pv(v)) for k, v in c['params'])
	if c['cls'] == 'cookie':
		return I[cookie_cls](c['cookie'][0], c['cookie'][1], params)
	return I[c['cls']](c['value'], params)


def _elem_obs(e, cls):
	o = {'value': _u8(e.value), 'params': [[bytes(k).hex(), _u8(v)] for k, v in e.params.items()]}
	if cls in ('cookie', 'setcookie'):
		o['cookie'] = [_u8(e.cookie_name), _u8(e.cookie_value)]
	return o


def _td(raw, td):
	if b'=?' in raw:
		HeaderElement, InvalidHeader = _impl()['generic'], _impl()['InvalidHeader']
		try:
			td[raw.hex()] = _u8(HeaderElement.decode_rfc2047(raw))
		except InvalidHeader:
			td[raw.hex()] = None
		except Exception:
			pass


def _parse(cls, raw):
	try:
		return _elem_obs(_impl()[cls].parse(raw), cls)
	except Exception as exc:
		return {'err': _exc(exc)}


def observe(c):
	I = _impl()
	k = c['k']
	if k == 'format':
		cls = I['cookie' if c['cookie'] else 'generic']
		try:
			return {'out': cls.formatparam(c['name'].encode('utf-8'), _pv(c['v'])).hex()}
		except Exception as exc:
			return {'err': _exc(exc)}
	if k in ('compose', 'rt'):
		try:
			e = _build(c)
			b = bytes(e)
		except Exception as exc:
			return {'err': _exc(exc)}
		o = {'out': b.hex()}
		if k == 'rt':
			td = {}
			_td(b, td)
			o['td'] = td
			o['back'] = _parse(c['cls'], b)
			o['built'] = _elem_obs(e, c['cls'])
		return o
	if k == 'parse':
		raw = bytes.fromhex(c['s'])
		td = {}
		_td(raw, td)
		cls = c['cls']
		if cls == 'cookie' and c.get('set'):
			cls = 'setcookie'
		o = _parse(cls, raw)
		o['td'] = td
		return o
	if k == 'parselist':
		raw = bytes.fromhex(c['v'])
		cls = I[c['lcls']]
		field = {'generic': 'X-List', 'cookie': 'Cookie', 'setcookie': 'Set-Cookie'}[c['lcls']]
		td = {}
		try:
			pieces = cls.split(raw)
		except Exception as exc:
			return {'err': _exc(exc)}
		for p in pieces:
			_td(p, td)
		elems = [_parse(c['lcls'], p) for p in pieces] if raw else []
		h = I['Headers']()
		dict.__setitem__(h, field, raw)
		try:
			via = [_elem_obs(e, c['lcls']) for e in h.elements(field)]
		except Exception as exc:
			via = {'err': _exc(exc)}
		return {'pieces': [p.hex() for p in pieces], 'elems': elems, 'via': via, 'td': td}
	if k == 'rt_list':
		cls = I[c['lcls']]
		field = {'generic': 'X-List', 'cookie': 'Cookie', 'setcookie': 'Set-Cookie'}[c['lcls']]
		try:
			built = [_build(e, c['lcls'] if c['lcls'] != 'generic' else 'cookie') for e in c['elems']]
			wire = cls.join([bytes(e) for e in built])
		except Exception as exc:
			return {'err': _exc(exc)}
		h = I['Headers']()
		h[field] = wire
		try:
			back = [_elem_obs(e, c['lcls']) for e in h.elements(field)]
		except Exception as exc:
			back = {'err': _exc(exc)}
		return {'wire': wire.hex(), 'back': back, 'built': [_elem_obs(e, c['lcls']) for e in built]}
	raise ValueError(k)


# ------------------------------------------------------------------ Coq literals
def cps(t):
	return L([N(ord(ch)) for ch in t], 'N')


def cpval(v):
	if v is None:
		return 'PNone'
	if 'b' in v:
		return '(PB %s)' % X(bytes.fromhex(v['b']))
	return '(PT %s)' % cps(v['t'])


def ohex(x):
	return opt(None if x is None else X(bytes.fromhex(x)), 'bytes')


def ctd(td):
	return L([P(X(bytes.fromhex(a)), ohex(b)) for a, b in sorted(td.items())], '(bytes * option bytes)')


def cpairs(ps):
	return L([P(X(bytes.fromhex(a)), X(bytes.fromhex(b))) for a, b in ps], '(bytes * bytes)')


def cpresult(o):
	if o.get('err') == 'invalid':
		return 'PInvalid'
	if o.get('err') == 'unicode':
		return 'PUnicode'
	if 'err' in o:
		return None
	ck = 'None'
	if 'cookie' in o:
		ck = '(Some %s)' % P(X(bytes.fromhex(o['cookie'][0])), X(bytes.fromhex(o['cookie'][1])))
	return '(PElem %s %s %s)' % (X(bytes.fromhex(o['value'])), ck, cpairs(o['params']))


def _known_charsets():
	from harness.tables.element import CHARSET_CANDIDATES
	return set(c.encode('latin-1') for c in CHARSET_CANDIDATES)


def _ext_charsets_ok(raw):
	"""every charset named by an extended parameter in raw is in the regenerated alias table"""
	import re
	known = _known_charsets()
	for m in re.finditer(rb"\*\s*=\s*([^';]*)'", raw):
		if m.group(1) not in known:
			return False
	return True


def _td_charsets_ok(td):
	"""the RFC 2047 path re-encodes the element as UTF-8 before the parameters are parsed: charset names are then looked up in that form"""
	return all(v is None or _ext_charsets_ok(bytes.fromhex(v)) for v in td.values())


def _bytes_boundary(c):
	return any(k == 'boundary' and v is not None and 'b' in v for k, v in c['params'])


def coq_case(c, o):
	k = c['k']
	if 'harness_exception' in o:
		return 'CBad'
	if k == 'format':
		if str(o.get('err', '')).startswith('escape'):
			return 'CBad'
		out = 'None' if o.get('err') == 'unicode' else ohex(o['out'])
		return 'CFormat %s %s %s %s' % (B(c['cookie']), X(c['name'].encode('utf-8')), cpval(c['v']), out)
	if k in ('compose', 'rt'):
		if c['cls'] == 'ctype' and _bytes_boundary(c):
			return None
		if str(o.get('err', '')).startswith('escape'):
			return 'CBad'
		out = {'invalid': 'CInvalid', 'unicode': 'CUnicode'}.get(o.get('err')) or '(COk %s)' % X(bytes.fromhex(o['out']))
		ps = L([P(X(a.encode('utf-8')), cpval(v)) for a, v in c['params']], '(bytes * pval)')
		t = ['CCompose %s %s %s %s %s %s' % (COQ_CLS[c['cls']], cps(c['value']), cps(c['cookie'][0]), cps(c['cookie'][1]), ps, out)]
		if k == 'rt' and 'back' in o:
			pr = cpresult(o['back'])
			t.append('CBad' if pr is None else 'CParse %s %s %s %s' % (ctd(o['td']), COQ_CLS[c['cls']], X(bytes.fromhex(o['out'])), pr))
		return t
	if k == 'parse':
		raw = bytes.fromhex(c['s'])
		if not _ext_charsets_ok(raw) or not _td_charsets_ok(o.get('td', {})):
			return None
		pr = cpresult(o)
		return 'CBad' if pr is None else 'CParse %s %s %s %s' % (ctd(o['td']), COQ_CLS[c['cls']], X(raw), pr)
	if k == 'parselist':
		if 'err' in o:
			return 'CBad'
		raw = bytes.fromhex(c['v'])
		t = ['CSplitList %s %s %s' % (LCLS[c['lcls']], X(raw), L([X(bytes.fromhex(p)) for p in o['pieces']], 'bytes'))]
		if _ext_charsets_ok(raw) and _td_charsets_ok(o.get('td', {})):
			prs = [cpresult(e) for e in o['elems']]
			t.append('CBad' if any(p is None for p in prs) else 'CParseList %s %s %s %s' % (ctd(o['td']), LCLS[c['lcls']], X(raw), L(prs, 'presult')))
		return t
	return None


# ------------------------------------------------------------------ oracle
def _expect_params(c):
	out = {}
	for k, v in c['params']:
		pv = _pv(v)
		out[k.encode('utf-8').hex()] = _u8('' if pv is None else (pv.decode('latin-1') if isinstance(pv, bytes) else pv))
	return out


def _cmp_elem(c, built, back, what):
	"""the parsed element must equal the element that was built through the API, and its parameters what the caller passed"""
	if isinstance(back, dict) and back.get('err'):
		return '%s: parsing the composed element raised %s' % (what, back['err'])
	if back['value'] != built['value']:
		return '%s: element value differs after compose and parse: built %s parsed %s' % (what, built['value'], back['value'])
	if back.get('cookie') != built.get('cookie'):
		return '%s: cookie name/value differ after compose and parse: built %r parsed %r' % (what, built.get('cookie'), back.get('cookie'))
	want = _expect_params(c)
	if c['cls'] == 'ctype' and 'boundary' in dict(c['params']):
		want[b'boundary'.hex()] = dict(built['params'])[b'boundary'.hex()]
	got = dict((a, b) for a, b in back['params'])
	if got != want or len(got) != len(back['params']):
		return '%s: parameters differ after compose and parse: passed %s parsed %s' % (what, json.dumps(want, sort_keys=True), json.dumps(back['params']))
	return None


def oracle(c, o):
	k = c['k']
	if 'harness_exception' in o or str(o.get('err', '')).startswith('escape'):
		return 'unexpected exception: %s' % (json.dumps(o)[:300],)
	if k == 'parse' and str(o.get('err', '')).startswith('escape'):
		return 'unexpected exception: %s' % (o['err'],)
	if k == 'rt':
		if 'err' in o:
			return None if o['err'] in ('invalid', 'unicode') and not _in_domain(c) else 'element in the property domain cannot be composed: %s' % o['err']
		return _cmp_elem(c, o['built'], o['back'], 'single element')
	if k == 'rt_list':
		if 'err' in o:
			return 'list in the property domain cannot be composed: %s' % o['err']
		back = o['back']
		if isinstance(back, dict):
			return 'list of elements: reading the joined field raised %s (wire %s)' % (back['err'], o['wire'])
		if len(back) != len(c['elems']):
			return 'list of elements: %d elements joined, %d read back (wire %s)' % (len(c['elems']), len(back), o['wire'])
		for e, bu, ba in zip(c['elems'], o['built'], back):
			f = _cmp_elem(e, bu, ba, 'list of elements')
			if f:
				return f + ' (wire %s)' % o['wire']
	return None


def _in_domain(c):
	return True


def _texts(c):
	els = c['elems'] if c['k'] == 'rt_list' else [c]
	for e in els:
		for k, v in e['params']:
			pv = _pv(v)
			if isinstance(pv, bytes):
				pv = pv.decode('latin-1')
			yield e, k, pv or ''


WS = ' \t\n\r\x0b\x0c'


def _sep_before_quotes(t, seps, parity):
	"""t contains one of seps at a place where the number of double quotes that follow it inside t has the given parity"""
	return any(ch in seps and t[i + 1:].count('"') % 2 == parity for i, ch in enumerate(t))


def d17_value(t, in_list):
	"""D17 as a predicate: exactly the ASCII values (no leading/trailing whitespace) that the generic quoting of the pinned tree does not bring back.
	Established by exhaustive enumeration of every value of up to 6 characters over {a, space, ", \\, ;, =, comma} alone, of every pair of values of up to
	3 characters in two parameters of one element and in two elements of a list, and of every value of up to 5 characters in lists of one and three
	elements (predicate and oracle agree on all of them; the other values with double quotes, e.g. "xyzzy", a""b or a;"b", do come back):
	 * an odd number of double quotes (RE_PARAMS / RE_SPLIT count the escaped quote: the separator in front of the parameter is no longer seen),
	 * a backslash directly in front of a backslash or of a double quote (the unescape regex drops one backslash of every run: a run of n in the value is
	   2n or 2n+1 on the wire and 2n-1 or 2n after unescaping, which is n only for a single backslash that does not precede a quote),
	 * a semicolon (in a list field also a comma) that is followed, inside the value, by an odd number of double quotes (with the closing quote the
	   count to the end of the element is even and the regex splits there)."""
	return t.count('"') % 2 == 1 or '\\\\' in t or '\\"' in t or _sep_before_quotes(t, ';,' if in_list else ';', 1)


def d33_value(t, in_list):
	"""D33 as a predicate: exactly the non-empty ASCII attribute values a cookie element (never quoted) does not bring back; same enumeration as d17_value
	for Cookie elements and Set-Cookie lists: an odd number of double quotes, a double quote at both ends (taken for a quoted-string), a semicolon
	(in a Set-Cookie list also a comma) followed inside the value by an even number of double quotes, surrounding whitespace. Backslashes are harmless."""
	return t.count('"') % 2 == 1 or (len(t) > 1 and t[0] == '"' == t[-1]) or _sep_before_quotes(t, ';,' if in_list else ';', 0) or t != t.strip(WS)


def expires_value(t, swallows):
	"""expires=<t> inside a Set-Cookie list (ASCII, non-empty). SetCookie.split rewrites expires=([^"][^;]+) to expires="..." before splitting.
	swallows: the attribute is the last one of a cookie that is followed by another cookie (the rewrite then runs into the next cookie).
	Not rewritten (t opens with a double quote, is a single character with nothing to run into, or has a semicolon second) -> the D33 class;
	rewritten -> D34 exactly when the rewrite runs into the next cookie, or the value has a semicolon after its first character, an odd number of double
	quotes, any backslash (the quoted-string unescaping drops one of every run), or a comma followed inside the value by an odd number of double quotes.
	Enumerated over every value of up to 5 characters of the same alphabet in four positions (alone, before a cookie, before an attribute, in the last cookie)."""
	rewritten = t[0] != '"' and (len(t) > 1 or swallows) and t[1:2] != ';'
	if not rewritten:
		return 'D33-cookie-params-never-quoted' if d33_value(t, True) else None
	if swallows or ';' in t[1:] or t.count('"') % 2 == 1 or '\\' in t or _sep_before_quotes(t, ',', 1):
		return 'D34-setcookie-expires-rewrite'
	return None


def classify(c, o, fail):
	if c['k'] not in ('rt', 'rt_list'):
		return None
	wire = bytes.fromhex(o.get('out') or o.get('wire') or '')
	if b'=?' in wire:
		return 'D16-element-contains-encoded-word'
	in_list = c['k'] == 'rt_list'
	for e, k, t in _texts(c):
		ascii_ = all(ord(ch) < 128 for ch in t)
		if e['cls'] == 'cookie' and ascii_ and t:
			if in_list and c['lcls'] == 'setcookie' and k.lower() == 'expires':
				fid = expires_value(t, e is not c['elems'][-1] and k == e['params'][-1][0])
				if fid:
					return fid
			elif d33_value(t, in_list):
				return 'D33-cookie-params-never-quoted'
		if e['cls'] != 'cookie' and ascii_ and d17_value(t, in_list):
			return 'D17-param-dquote-or-backslash-pair'
		if not ascii_ and any(ord(ch) < 0x10 for ch in t):
			return 'D1-percent-low-octet-ext-param'
	return None


def nontrivial(c, o):
	return (c['k'], json.dumps({a: b for a, b in c.items() if not a.startswith('_')}, sort_keys=True))


LEVEL_TEXT = ('Machine-checked Coq theorems about Gallina models of formatparam / compose and parseparams / parseparam / unescape_param / RFC 2231-5987 assembly, '
	'for values and parameter lists of any length: compose then parse returns the element value and exactly the parameters under boolean hypotheses (no double quote, '
	'no backslash pair, no octet below 0x10 in non-ASCII values on the pinned tree), with refuting witnesses for each excluded class; a separator inside a quoted '
	'value never splits; joined lists split back into their elements. The model is tied to /repo on every run: tables regenerated, ~10k model-vs-implementation '
	'evaluations inside Coq, round-trip oracle on the real classes.')
LEVEL_NOTE = ('Trusted: Coq kernel + vm_compute; T1 generators and the T2 harness; email.header.decode_header and non-listed codecs are Section parameters; regexes are '
	'modelled by hand-written recognisers with pinned pattern text. No axioms.')
TECHNIQUE = 'Coq proof by induction over octet lists and parameter lists on a Gallina model + vm_compute correspondence against the implementation'

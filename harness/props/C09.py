"""C09 -- header element parameters survive compose and parse."""
import json

from harness.coqfmt import B, L, N, P, X, opt

ID = 'C09'
PROPS = 'Props/C09.v'
TABLES = ['HeadersT', 'HeadersApiT', 'Base64T', 'PercentT', 'ElementT']
COQ_HEADER = 'From Httoop Require Import Lib.Bytes Lib.Variant Model.Headers Model.HeadersApi Model.Element Corr.C09.'
COQ_CHECK = 'check'
CORR_VO = 'Corr/C09.vo'
RULE = ('T2: formatparam (generic and cookie tspecials), bytes(element) after construction through the API, Element.parse and Headers.elements for the generic '
	'element, Content-Type, Content-Disposition, Cookie and Set-Cookie evaluated by the Gallina model (vm_compute) and by the implementation on the same inputs: '
	'parameter values over every separator, whitespace, backslash, double quote, controls, Latin-1 and arbitrary Unicode; wire strings with sloppy whitespace, '
	'quoted / unquoted / RFC 5987 extended values in several charsets, RFC 2231 continuations (ordered, shuffled, gaps, signs, leading zeros, underscores), '
	'duplicates, stray separators, unbalanced quotes, encoded-word-like octets; for the round trip every value of up to 4 characters over {a, ", ;, backslash}, double quotes at both '
	'edges / one edge / doubled / behind backslashes / next to separators around a list of inner texts, in all element classes and in list fields. Oracle: compose -> parse gives back the value and exactly the parameter names and '
	'values, alone and as a joined list read through Headers.elements. Wave 4 (oracle): percent / RFC 5987 / RFC 2231 look-alikes, normalisation forms, degenerate values and limit lengths '
	'(values, names, element value, number of parameters) in every class and in lists; one element object serialised, changed through every public way and serialised again, compared '
	'with the data assigned and with a fresh element (seq); the same data written by an independent serialiser in token / quoted / extended form (alt); every registered '
	'generic-grammar class under its field name in several letter cases (reg); every known charset in an extended parameter (charset); everything parsed / serialised twice. '
	'Wave 5: ASCII values handed over as bytes (also through the model); two elements built from one argument object / from each other\'s params / from the same octets, one of them or the '
	'argument changed (alias); the same data in every container, key and value type through every way of construction, user subclasses with the class-level encoding switch (types); '
	'calls that raise on or next to an element that is used afterwards (refuse); list fields built member by member - append / append_element / merge / repeated non-adjacent lines - '
	'with members that share element values, in every order, with observers, other fields and refused calls in between (apl); values with white space like octets in their encoded form, '
	'lengths 2^k and neighbours for k = 9..16 with the only separator / non-ASCII character at the far end. '
	'non-trivial = distinct (kind, input)')
EXHAUSTIVE = {'quick': False, 'thorough': False}
TRUSTED = ['harness/tables/element.py, headers_api.py, percent.py (T1: tspecials classes, pinned regex texts, extended-parameter framing, cookie attribute names, charset alias '
	'classification, safe set and escape width of Percent.quote, D15 guard probe)',
	'harness/props/C09.py + coq/Corr/C09.v (T2 canonicalisation: str compared as UTF-8, exceptions mapped to an enum; T3 table for email.header.decode_header per case)',
	'dict is modelled as an insertion-ordered association list, re.split / re.sub by hand-written recognisers whose pattern text is pinned in T1 (validated, not verified)']
ASSUMPTIONS = ['email.header.decode_header is a callee (Section variable); round-trip theorems assume the composed element does not contain an encoded-word opener',
	'codecs other than utf-8 / iso-8859-1 / ascii for RFC 5987 values are a callee (Section variable cs_other)',
	'parameter names are distinct, lower-case, free of whitespace, separators, quotes and asterisks; values have no leading or trailing whitespace']

CLASSES = ['generic', 'ctype', 'disp', 'cookie']
COQ_CLS = {'generic': 'EGeneric', 'ctype': 'EContentType', 'disp': 'EDisposition', 'cookie': 'ECookie'}
LCLS = {'generic': 'LGeneric', 'cookie': 'LCookie', 'setcookie': 'LSetCookie'}

W_DQUOTE = {'k': 'rt', 'cls': 'generic', 'value': 'v', 'cookie': ['n', 'v'], 'params': [['a', {'t': 'x"y'}]]}
W_BSL = {'k': 'rt', 'cls': 'generic', 'value': 'v', 'cookie': ['n', 'v'], 'params': [['a', {'t': 'x\\\\y'}]]}
W_D1 = {'k': 'rt', 'cls': 'generic', 'value': 'v', 'cookie': ['n', 'v'], 'params': [['a', {'t': '\x01€'}]]}
W_EW = {'k': 'rt', 'cls': 'generic', 'value': 'v', 'cookie': ['n', 'v'], 'params': [['a', {'t': 'x=?utf-8?b?4oKs?='}]]}
W_EXPIRES = {'k': 'rt_list', 'lcls': 'setcookie', 'elems': [{'cls': 'cookie', 'value': 'v', 'cookie': ['a', '1'], 'params': [['expires', {'t': 'Wed, 09 Jun 2021 10:18:14 GMT'}]]},
	{'cls': 'cookie', 'value': 'v', 'cookie': ['b', '2'], 'params': [['path', {'t': '/'}]]}]}
W_COOKIE = {'k': 'rt', 'cls': 'cookie', 'value': 'v', 'cookie': ['n', 'v'], 'params': [['path', {'t': '/a;b'}]]}
WITNESSES = [('D17-param-dquote-or-backslash-pair', W_DQUOTE), ('D17-param-dquote-or-backslash-pair', W_BSL), ('D1-percent-low-octet-ext-param', W_D1),
	('D16-element-contains-encoded-word', W_EW), ('D33-cookie-params-never-quoted', W_COOKIE),
	('D34-setcookie-expires-rewrite', W_EXPIRES)]

NAMES = ['a', 'b', 'filename', 'name', 'charset', 'boundary', 'path', 'domain', 'expires', 'max-age', 'httponly', 'secure', 'q', 'x-y', 'inline', 'attachment', 'form-data', 'c1', 'foo']
TOKCH = "abcxyzABC019-._~!#$%&'*+^`|"
SEPS = ';,= \t"\\/()<>@:[]?{}'


def gen_text(rng, lo=0, hi=6, domain='any'):
	"""domain 'prop': the property's value domain (no leading/trailing whitespace)"""
	out = []
	mode = rng.random()
	for _ in range(rng.randint(lo, hi)):
		r = rng.random()
		if mode < 0.25:
			out.append(rng.choice(TOKCH))
		elif r < 0.35:
			out.append(rng.choice(TOKCH))
		elif r < 0.65:
			out.append(rng.choice(SEPS))
		elif r < (0.665 if domain == 'prop' else 0.72):
			out.append(rng.choice('\n\r\x0b\x0c\x00\x01\x0f\x10\x1f\x7f'))
		elif r < 0.82:
			out.append(chr(rng.randint(0x80, 0xff)))
		elif r < 0.985:
			out.append(chr(rng.choice([rng.randint(0x100, 0x7ff), rng.randint(0x800, 0xd7ff), rng.randint(0xe000, 0xffff), rng.randint(0x10000, 0x10ffff), 0x20ac])))
		else:
			out.append(chr(rng.randint(0xd800, 0xdfff)))
	s = ''.join(out)
	if domain == 'prop':
		s = ''.join(ch for ch in s if not 0xd800 <= ord(ch) <= 0xdfff)
		s = s.strip(' \t\n\r\x0b\x0c')
	return s


def gen_pval(rng, domain='any'):
	r = rng.random()
	if domain != 'prop':
		if r < 0.05:
			return None
		if r < 0.15:
			return {'b': bytes(rng.choice([rng.randint(0x20, 0x7e), rng.randint(0, 255), ord(rng.choice(SEPS))]) for _ in range(rng.randint(0, 6))).hex()}
		if r < 0.2:
			return {'t': rng.choice(['=?utf-8?b?4oKs?=', 'x=?utf-8?b?4oKs?=', '?x', '=?', 'a=?b?c?=', '"=?x?b?AA==?="'])}
	return {'t': gen_text(rng, 0 if r < 0.3 else 1, 7, domain)}


def gen_name(rng, domain='any'):
	r = rng.random()
	if domain == 'prop' or r < 0.6:
		return rng.choice(NAMES) if rng.random() < 0.8 else ''.join(rng.choice('abcdxyz019-_.') for _ in range(rng.randint(1, 5)))
	if r < 0.75:
		return rng.choice(['Path', 'HttpOnly', 'SECURE', 'A', 'FileName', 'Boundary', 'Max-Age', 'Expires', 'X'])
	if r < 0.9:
		return rng.choice(NAMES) + rng.choice(['*', '*0', '*1', '*0*', '**', '*x'])
	return rng.choice(['', ' a', 'a ', 'a b', 'a=b', 'a;b', '"a"', 'a,b', 'é', 'a\tb'])


def gen_params(rng, domain='any'):
	ps, seen = [], set()
	for _ in range(rng.choice([0, 1, 1, 1, 2, 2, 3, 4])):
		k = gen_name(rng, domain)
		if k in seen:
			continue
		seen.add(k)
		ps.append([k, gen_pval(rng, domain)])
	return ps


def gen_value(rng, cls, domain='any'):
	if cls == 'disp':
		v = rng.choice(['attachment', 'inline', 'form-data', 'Attachment', 'INLINE', 'Form-Data'])
		if domain != 'prop' and rng.random() < 0.2:
			v = rng.choice(['other', '', 'attachment ', 'inlİne', 'attachmentK', 'attachmenť'])
		return v
	if cls == 'ctype':
		v = rng.choice(['text/plain', 'multipart/form-data', 'application/json', 'a/b+c', 'x'])
	else:
		v = ''.join(rng.choice(TOKCH) for _ in range(rng.randint(1, 6)))
	if domain != 'prop' and rng.random() < 0.15:
		v = rng.choice(['', 'a b', 'a;b', 'a,b', 'é', '€', 'a=?b', '"q"', ' x ', 'a"b'])
	return v


def gen_cookie(rng, domain='any'):
	n = ''.join(rng.choice('abcSID019_-') for _ in range(rng.randint(1, 5)))
	v = ''.join(rng.choice('abcxyz019-_.~/+') for _ in range(rng.randint(0, 6)))
	if domain != 'prop' and rng.random() < 0.3:
		n = rng.choice(['', 'a=b', 'Path', ' n', 'n ', 'né', '€', 'a;b', '"n"'])
	if domain != 'prop' and rng.random() < 0.3:
		v = rng.choice(['', '"v"', '"a b"', '""x""', 'a b', 'a=b', 'a"b', '\\', 'a;b', 'a,b', ' v', 'v ', 'é', '€', '"', '"a\\"b"', '=?x?='])
	return [n, v]


def gen_elem(rng, cls=None, domain='any'):
	cls = cls or rng.choice(CLASSES)
	ps = gen_params(rng, domain)
	if cls == 'ctype':
		# a bytes boundary is a TypeError in sanitize_boundary (API misuse); arbitrary text is refused by VALID_BOUNDARY
		ps = [p for p in ps if p[0] != 'boundary' or (domain != 'prop' and p[1] is not None and 't' in p[1])]
	if cls == 'ctype' and rng.random() < 0.4:
		ps = [p for p in ps if p[0] != 'boundary']
		b = rng.choice(['abc', '"abc"', 'a b', 'a b ', '""', '"', 'x' * 201, 'x' * 202, 'a\n', 'a\n\n', 'é', 'a"b', '----=_Part_1', '"a;b"'])
		if domain == 'prop':
			b = rng.choice(['abc', 'a b', '----=_Part_1', 'a;b', "a'b"])
		ps.insert(rng.randint(0, len(ps)), ['boundary', {'t': b}])
	if cls == 'disp' and domain == 'prop':
		ps = [p for p in ps if p[0] not in ('inline', 'attachment', 'form-data')]
	return {'cls': cls, 'value': gen_value(rng, cls, domain), 'cookie': gen_cookie(rng, domain), 'params': ps}


# ---- values built around double quotes and backslashes (quote at both edges, at one edge, in the middle, doubled, behind backslashes, next to separators)
QUOTE_INNERS = ['', 'a', 'xyzzy', '1.0', 'W/"1"', 'draft" and "final', 'a b', 'a;b', 'a,b', 'a=b', 'a; b="c"', 'a", "b', '""', 'a""b', 'a"b"c', '\\', 'a\\b', '/', '?', 'a;"b";c', ',', ';',
	'x' * 40]
QUOTE_WRAPS = [('"', '"'), ('"', ''), ('', '"'), ('""', '""'), ('"', '""'), ('\\"', '\\"'), ('"', '\\"'), ('\\"', '"'), ('"\\', '"'), ('"', '\\\\"'), ("'", "'"), ('"', '";'), (';"', '"'),
	('"', '",'), (',"', '"'), ('="', '"'), ('a"', '"'), ('"', '"a'), ('" ', ' "'), ('é"', '"'), ('"', '"é')]
QUOTE_PIECES = ['"', '"', '"', '""', '\\', '\\"', '\\\\', ';', ',', '=', ' ', 'a', 'xy', '1.0', '/', ':', '?', "'", 'é']


def quote_shapes(big):
	"""deterministic: every value of up to 4 (thorough: 5) characters over {a, ", ;, backslash}, of up to 3 over {a, space, ", comma, =, backslash}, and every wrap of every inner text"""
	import itertools
	out, seen = [], set()
	for alpha, n in (('a";\\', 5 if big else 4), ('a ",=\\', 4 if big else 3)):
		for l in range(1, n + 1):
			for t in itertools.product(alpha, repeat=l):
				out.append(''.join(t))
	for a, b in QUOTE_WRAPS:
		for inner in QUOTE_INNERS:
			out.append(a + inner + b)
	res = []
	for t in out:
		if t and t == t.strip(' \t\n\r\x0b\x0c') and t not in seen:
			seen.add(t)
			res.append(t)
	return res


def gen_qtext(rng):
	"""random value in the property domain that is dense in double quotes, backslashes and separators; four times in ten wrapped in double quotes"""
	t = ''.join(rng.choice(QUOTE_PIECES) for _ in range(rng.randint(0, 5)))
	r = rng.random()
	if r < 0.4:
		t = '"' + t + '"'
	elif r < 0.5:
		t = rng.choice(['"', '']) + t + rng.choice(['"', ''])
	return t.strip(' \t\n\r\x0b\x0c')


def quote_cases(rng, big):
	one = lambda cls, key, t: {'cls': cls, 'value': 'inline' if cls == 'disp' else ('text/plain' if cls == 'ctype' else 'v'), 'cookie': ['n', 'v'], 'params': [[key, {'t': t}]]}
	cases = []
	for i, t in enumerate(quote_shapes(big)):
		cases.append(dict(one('generic', 'a', t), k='rt'))
		j = i % 6
		if j == 0:
			cases.append(dict(one('disp', 'filename', t), k='rt'))
		elif j == 1:
			cases.append(dict(one('ctype', 'charset', t), k='rt'))
		elif j == 2:
			cases.append(dict(one('cookie', 'path', t), k='rt'))
		elif j == 3:
			cases.append({'k': 'rt_list', 'lcls': 'generic', 'elems': [one('generic', 'a', t), one('generic', 'b', 'y z')]})
		elif j == 4:
			cases.append({'k': 'rt_list', 'lcls': 'generic', 'elems': [one('generic', 'x-y', 'q'), one('generic', 'a', t)]})
		else:
			cases.append({'k': 'rt_list', 'lcls': 'setcookie', 'elems': [one('cookie', rng.choice(['path', 'domain', 'expires']), t), one('cookie', 'path', '/')]})
	for _ in range(8000 if big else 500):
		e = gen_elem(rng, domain='prop')
		keys = [p[0] for p in e['params'] if not (e['cls'] == 'ctype' and p[0] == 'boundary')]
		if not keys:
			e['params'].append(['a', None])
			keys = ['a']
		for p in e['params']:
			if p[0] in keys and (p[0] == keys[0] or rng.random() < 0.5):
				p[1] = {'t': gen_qtext(rng)}
		e['k'] = 'rt'
		cases.append(e)
	for _ in range(3000 if big else 250):
		lcls = rng.choice(['generic', 'generic', 'generic', 'setcookie'])
		els = []
		for _ in range(rng.randint(1, 3)):
			e = gen_elem(rng, 'generic' if lcls == 'generic' else 'cookie', domain='prop')
			if not e['params'] or rng.random() < 0.7:
				e['params'] = [p for p in e['params'] if p[0] != 'a'] + [['a', {'t': gen_qtext(rng)}]]
			els.append(e)
		cases.append({'k': 'rt_list', 'lcls': lcls, 'elems': els})
	return cases


# ---- wire strings for the parse direction
def pct(b, rng):
	return b''.join((b'%%%02X' % c if rng.random() < 0.5 else b'%%%02x' % c) if (c >= 0x80 or c < 0x21 or c in b"%';=\",*" or rng.random() < 0.1) else bytes([c]) for c in b)


def gen_wire_value(rng):
	r = rng.random()
	if r < 0.25:
		return ''.join(rng.choice(TOKCH) for _ in range(rng.randint(0, 5))).encode()
	if r < 0.5:
		inner = gen_text(rng, 0, 6).encode('latin-1', 'replace')
		esc = inner.replace(b'\\', b'\\\\').replace(b'"', b'\\"') if rng.random() < 0.7 else inner
		return b'"' + esc + b'"'
	if r < 0.6:
		return gen_text(rng, 0, 5).encode('latin-1', 'replace')
	if r < 0.7:
		return rng.choice([b'"', b'""', b'"a', b'a"', b'"a"b"', b'"\\"', b'"\\\\"', b'"\\\\\\"', b'"a\\', b'\\', b'"a;b"c', b"'a'", b'=?utf-8?b?4oKs?=', b'"=?utf-8?b?4oKs?="'])
	return b''


def gen_ext_value(rng):
	cs = rng.choice([b'utf-8', b'UTF-8', b'utf8', b'iso-8859-1', b'ISO-8859-1', b'latin1', b'us-ascii', b'ascii', b'', b'bogus', b'x', b'utf-9', b'utf-8\xff', b'none'])
	lang = rng.choice([b'', b'', b'en', b'de-DE'])
	t = gen_text(rng, 0, 5)
	if rng.random() < 0.7:
		data = t.encode('utf-8', 'surrogatepass') if cs.lower().startswith(b'utf') or rng.random() < 0.3 else t.encode('latin-1', 'replace')
	else:
		data = bytes(rng.choice([0xe2, 0x82, 0xac, 0xc3, 0xa9, 0xff, 0x41, 0x27, 0x25]) for _ in range(rng.randint(0, 4)))
	body = pct(data, rng)
	if rng.random() < 0.1:
		body = rng.choice([b'%', b'%e', b'%zz', b'%e2%82', b"a'b", b'a%27b', b'%2', b'%1'])
	r = rng.random()
	if r < 0.8:
		return cs + b"'" + lang + b"'" + body
	if r < 0.88:
		return cs + b"'" + body
	if r < 0.94:
		return b"'" + lang + b"'" + body
	return b'"' + cs + b"'" + lang + b"'" + body + b'"'


def gen_wire_params(rng):
	atoms = []
	for _ in range(rng.choice([0, 1, 1, 2, 2, 3, 4])):
		name = gen_name(rng).encode('latin-1', 'replace')
		r = rng.random()
		if r < 0.45:
			atoms.append((name, gen_wire_value(rng)))
		elif r < 0.65:
			base = rng.choice([b'a', b'filename', b'n'])
			atoms.append((base + b'*', gen_ext_value(rng)))
		elif r < 0.9:
			base = rng.choice([b'a', b'filename', b'n', b''])
			idx = list(range(rng.randint(1, 4)))
			if rng.random() < 0.3:
				rng.shuffle(idx)
			if rng.random() < 0.3 and idx:
				idx.remove(rng.choice(idx))
			for i in idx:
				num = b'%d' % i
				if rng.random() < 0.2:
					num = rng.choice([b'0%d' % i, b'+%d' % i, b'-%d' % i, b' %d' % i, b'\t%d' % i, b'%d_0' % i, b'_%d' % i, b'%d_' % i, b'%d ' % i, b'x', b'', b'1e1', b'0x1', b'\xb2', b'%d\x0c' % i, b'0' * 3, b'00'])
				star = b'*' if rng.random() < 0.3 else b''
				val = gen_ext_value(rng) if star and (i == 0 or rng.random() < 0.3) else (pct(gen_text(rng, 0, 3).encode('utf-8', 'surrogatepass'), rng) if star else gen_wire_value(rng))
				atoms.append((base + b'*' + num + star, val))
		else:
			atoms.append((name, None))
	if rng.random() < 0.15 and atoms:
		atoms.append(rng.choice(atoms))
	return atoms


def render_wire(rng, value, atoms):
	out = value
	for name, val in atoms:
		sep = rng.choice([b'; ', b'; ', b';', b' ; ', b';;', b'; ;', b';\t'])
		if val is None:
			out += sep + name
		else:
			out += sep + name + rng.choice([b'=', b'=', b'=', b' = ', b'= ', b' =']) + val
	out += rng.choice([b'', b'', b'', b';', b' ', b'; '])
	return out


def gen_wire(rng, cls):
	if cls == 'cookie':
		value = rng.choice([b'n=v', b'sid=abc', b'n="a b"', b'n=""x""', b'n', b'=v', b'n=a=b', b'Path=/', b'n = v', b'n="a\\"b"', b'n=\xe9', b''])
	elif cls == 'disp':
		value = rng.choice([b'attachment', b'inline', b'form-data', b'Attachment', b'INLINE', b'other', b''])
	elif cls == 'ctype':
		value = rng.choice([b'text/plain', b'multipart/form-data', b'a/b', b'x'])
	else:
		value = rng.choice([b'v', b'a/b', b'tok', b'', b'a b', b'a=b', b'"q"', b'a\xe9'])
	s = render_wire(rng, value, gen_wire_params(rng))
	r = rng.random()
	if r < 0.08:
		s = bytearray(s)
		for _ in range(rng.randint(1, 2)):
			i = rng.randint(0, len(s))
			s[i:i] = rng.choice([b'"', b';', b'=', b'\\', b'*', b"'", b' ', b',', b'=?', b'\xff'])
		s = bytes(s)
	elif r < 0.12:
		s = rng.choice([b'=?utf-8?b?', b'x =?utf-8?b?4oKs?= ', b'=?iso-8859-1?q?a=3Bb?=; ']) + s
	return s


# ------------------------------------------------------------------ strengthening (wave 4): classes of inputs rather than single inputs
TCHARS = set("!#$%&'*+-.^_`|~0123456789abcdefghijklmnopqrstuvwxyzABCDEFGHIJKLMNOPQRSTUVWXYZ")
# texts that look like the encodings the library itself uses on the wire (percent escapes, RFC 5987 framing, RFC 2231 numbering, quoted strings)
PCT_PIECES = ['%', '%%', '%2', '%20', '%20', '%25', '%2520', '%41', '%61', '%C3', '%c3%a9', '%C3%A9', '%E2%82%AC', '%zz', '%0', '%00', '%7F', '%80', '%FF', '%2B', '+', ' ', ' ', 'é', '€', 'ä',
	'A', 'a', '0', ':', "'", "''", "utf-8''", "UTF-8'en'", '*', '*0', '*0*', '.pdf', 'März', '100%', '\U0001f600', 'Å', 'é']


def gen_pct_text(rng):
	t = ''.join(rng.choice(PCT_PIECES) for _ in range(rng.randint(2, 6)))
	if rng.random() < 0.75 and all(ord(ch) < 128 for ch in t):
		i = rng.randint(0, len(t))
		t = t[:i] + rng.choice(['é', '€', 'ä ', 'März', '\U0001f600']) + t[i:]
	if rng.random() < 0.5:
		# the same escape once more, further right (and once more in front)
		esc = rng.choice(['%20', '%25', '%C3', '%41', '%E2%82%AC', '%2520', ' ', '%'])
		t = rng.choice(['', esc]) + t + rng.choice([esc, esc + 'x', ' ' + esc])
	return t.strip(WS)


def safe_text(t, cookie):
	"""outside every class of the known findings (D1, D16, D17, D33): such a value must come back, alone and in a list"""
	if '=?' in t or t != t.strip(WS) or any(0xd800 <= ord(ch) <= 0xdfff for ch in t):
		return False
	if all(ord(ch) < 128 for ch in t):
		return not (d33_value(t, True) if cookie else d17_value(t, True)) if t else True
	return not any(ord(ch) < 0x10 for ch in t)


def gen_class_text(rng, cookie=False, safe=False, maxlen=300):
	"""a parameter value from the classes: normalisation forms / look-alikes, percent look-alikes, degenerate, limit lengths, quote-dense, generic"""
	from harness.props.C08 import NORM, DEGENERATE, LIMITS_SMALL, ALPHABETS, text_of_len
	for _ in range(200):
		r = rng.random()
		if r < 0.22:
			t = ''.join(rng.choice(NORM) for _ in range(rng.randint(1, 3)))
		elif r < 0.32:
			t = rng.choice(['', 'x', 'a b', '€', 'caf']) + rng.choice(NORM) + rng.choice(['', 'y', ', z', '; q=1', 'é', '.pdf'])
		elif r < 0.52:
			t = gen_pct_text(rng)
		elif r < 0.62:
			t = rng.choice(DEGENERATE)
		elif r < 0.72:
			t = text_of_len(rng, rng.choice([n for n in LIMITS_SMALL if n <= maxlen]), rng.choice(sorted(ALPHABETS)))
		elif r < 0.82:
			t = gen_qtext(rng)
		else:
			t = gen_text(rng, 1, 7, 'prop')
		t = t.strip(WS)
		if not safe or safe_text(t, cookie):
			return t
	return 'x'


def _registry_fields():
	"""field name -> element class for every registered class that uses the generic serialisation and parameter parsing (classes with a grammar of their own -
	authentication, ranges, Forwarded, CSP - and the cookie classes, which have cases of their own, are left out)"""
	import httoop  # noqa: F401
	from httoop.header.element import HEADER, HeaderElement, _AcceptElement, _CookieElement
	f = lambda cls, m: getattr(getattr(cls, m), '__func__', getattr(cls, m))
	out = {}
	for name, cls in sorted(dict.items(HEADER)):
		if issubclass(cls, _CookieElement):
			continue
		if any(f(cls, m) is not f(HeaderElement, m) for m in ('compose', 'parseparams', 'parseparam', 'formatparam', 'split', 'join', '__init__')):
			continue
		if f(cls, 'parse') is not f(HeaderElement, 'parse') and not issubclass(cls, _AcceptElement):
			continue
		if any(getattr(cls, r).pattern != getattr(HeaderElement, r).pattern for r in ('RE_PARAMS', 'RE_SPLIT', 'RE_TSPECIALS')):
			continue
		out[cls.__name__ if isinstance(cls.__name__, str) else name] = cls
	return out


REG_SAMPLES = ['tok', 'attachment', 'gzip', 'text/html', 'example.com', 'Thu, 01 Jan 1970 00:00:00 GMT', '1']


def _known_encodings():
	from httoop.util import KNOWN_ENCODINGS
	return sorted(KNOWN_ENCODINGS)


def _spell(rng, name):
	return rng.choice([name, name.lower(), name.upper(), name.title(), name.swapcase()])


def gen_seq(rng, cls=None):
	"""one element object that is serialised, changed through a public way and serialised again"""
	cls = cls or rng.choice(CLASSES)
	cookie = cls == 'cookie'
	val = lambda: {'t': gen_class_text(rng, cookie, True, 80)}
	pnames = [n for n in ['a', 'b', 'filename', 'name', 'foo', 'x-y', 'c1', 'path', 'domain', 'size'] if not (cookie and n in ('path', 'domain'))] + (['path', 'domain', 'max-age'] if cookie else [])
	params = []
	for n in rng.sample(pnames, rng.randint(1, 3)):
		params.append([n, val()])
	c = {'k': 'seq', 'cls': cls, 'value': gen_value(rng, cls, 'prop').lower() if cls == 'disp' else gen_value(rng, cls, 'prop'), 'cookie': gen_cookie(rng, 'prop'), 'params': params,
		'via': rng.choice(['built', 'built', 'parsed']), 'setcookie': rng.random() < 0.5}
	have = [p[0] for p in params]
	steps = [['ser', rng.choice(['bytes', 'compose', 'str', 'fmt', 'repr', 'cmp'])]]
	for _ in range(rng.randint(1, 5)):
		r = rng.random()
		mut = [n for n in have if n != 'boundary']   # the boundary has a syntax of its own (VALID_BOUNDARY): only changed through its attribute
		if mut and r < 0.4:
			steps.append(['set', rng.choice(mut), val(), rng.choice(['b', 't'])])
		elif r < 0.5:
			n = rng.choice(pnames)
			steps.append(['set', n, val(), rng.choice(['b', 't'])])
			if n not in have:
				have.append(n)
		elif have and r < 0.56:
			n = rng.choice(have)
			have.remove(n)
			steps.append([rng.choice(['del', 'pop']), n])
		elif mut and r < 0.66:
			ns = rng.sample(mut, rng.randint(1, len(mut)))
			steps.append(['update', [[n, val()] for n in ns]])
		elif r < 0.7:
			n = rng.choice(pnames)
			steps.append(['setdefault', n, val()])
			if n not in have:
				have.append(n)
		elif mut and r < 0.76:
			have = list(mut)
			steps.append(['newparams', [[n, val()] for n in have]])
		elif r < 0.8:
			have = []
			steps.append(['clear'])
		elif r < 0.9 and cls == 'ctype':
			a = rng.choice(['charset', 'version', 'boundary', 'subtype', 'type'])
			t = {'charset': rng.choice(['utf-8', 'ISO-8859-1', 'us-ascii', gen_class_text(rng, False, True, 40)]), 'version': rng.choice(['1', '1.1', 'x y']),
				'boundary': rng.choice(['abc', 'a b', '----=_Part_1', "a'b", 'x' * 70]), 'subtype': rng.choice(['html', 'x+json', 'plain']), 'type': rng.choice(['text', 'application'])}[a]
			if a in ('type', 'subtype') and '/' not in c['value']:
				continue
			steps.append(['attr', a, t])
			if a in ('charset', 'version', 'boundary') and a not in have:
				have.append(a)
		elif r < 0.9 and cookie:
			steps.append(['cookie'] + gen_cookie(rng, 'prop'))
		elif r < 0.9 and cls == 'generic':
			steps.append(['value', gen_value(rng, cls, 'prop')])
		else:
			steps.append(['ser', rng.choice(['bytes', 'compose', 'str', 'fmt'])])
			continue
		if rng.random() < 0.7:
			steps.append(['ser', rng.choice(['bytes', 'compose', 'str', 'fmt', 'repr', 'cmp'])])
	if steps[-1][0] != 'ser':
		steps.append(['ser', 'bytes'])
	c['steps'] = steps
	return c


def gen_wave4(rng, tier):
	from harness.props.C08 import NORM, DEGENERATE, LIMITS_SMALL, LIMITS_BIG, ALPHABETS, text_of_len
	big = tier == 'thorough'
	one = lambda cls, key, t: {'cls': cls, 'value': 'inline' if cls == 'disp' else ('text/plain' if cls == 'ctype' else 'v'), 'cookie': ['n', 'v'], 'params': [[key, {'t': t}]]}
	cases = []
	# (2) normalisation forms and look-alikes, (5) degenerate values: alone, between other text, in every element class and in lists
	for i, t in enumerate(NORM + [d for d in DEGENERATE if d == d.strip(WS)]):
		cls = CLASSES[i % 4]
		cases.append(dict(one(cls, 'filename' if cls == 'disp' else 'a', t), k='rt'))
		cases.append(dict(one('generic', 'a', 'caf' + t + ' é.pdf'), k='rt'))
		cases.append({'k': 'rt_list', 'lcls': 'generic', 'elems': [one('generic', 'a', t), one('generic', 'b', t + 'z')]})
		cases.append(dict(one(cls, 'filename' if cls == 'disp' else 'a', t), k='alt', style=rng.randrange(1 << 30)))
	# percent look-alikes inside values that travel percent-encoded (and inside those that do not)
	for _ in range(4000 if big else 350):
		cls = rng.choice(CLASSES)
		e = one(cls, rng.choice(['filename', 'a', 'name']), gen_pct_text(rng))
		if rng.random() < 0.3:
			e['params'].append(['b', {'t': gen_pct_text(rng)}])
		cases.append(dict(e, k='rt'))
	for t in ['Ergebnis%20März 2024.pdf', '50%3A é: x', '%C3 é', '%E2%82%AC = €', '%25 é %', '%2525 é %25 %', 'é%C3%A9', '%c3%a9 é', '100% é %41A', '%20%20 ä  ']:
		cases.append(dict(one('disp', 'filename', t.strip(WS)), k='rt'))
		cases.append(dict(one('generic', 'a', t.strip(WS)), k='alt', style=rng.randrange(1 << 30)))
	# (3) lengths at and around the limits: parameter values in every alphabet, parameter names, the element value, the number of parameters
	for n in LIMITS_SMALL + LIMITS_BIG:
		for alpha in sorted(ALPHABETS):
			if n > 9000 and not (big and alpha in ('ascii', 'bmp')):
				continue
			if n > 1100 and alpha not in ('ascii', 'asciisp', 'bmp') and not big:
				continue
			t = text_of_len(rng, n, alpha)
			if alpha == 'asciisp':
				t = t.replace('"', 'q')   # an odd number of double quotes is the known D17 class
			cls = rng.choice(['generic', 'disp', 'ctype', 'cookie']) if alpha != 'asciisp' else rng.choice(['generic', 'disp', 'ctype'])
			e = dict(one(cls, 'filename' if cls == 'disp' else 'a', t), k='rt')
			if n > 300:
				e['nocoq'] = True
			cases.append(e)
			if n <= 1100:
				cases.append({'k': 'rt_list', 'lcls': 'generic', 'elems': [one('generic', 'a', t), one('generic', 'b', 'y z'), one('generic', 'c1', t[:n // 2].strip(WS) or 'x')], 'nocoq': n > 300})
	for n in LIMITS_SMALL + [1023, 1024, 4096]:
		nm = ''.join('abcdxyz019-_.'[(i * 5) % 13] for i in range(n))
		cases.append(dict(one('generic', nm, 'x y'), k='rt', nocoq=n > 300))
		cases.append(dict(one('generic', 'a', 'x'), k='rt', value=''.join(TOKCH[(i * 7) % len(TOKCH)] for i in range(n)), nocoq=n > 300))
	for n in [2, 11, 12, 16, 17, 75, 76, 255, 256]:
		e = {'cls': 'generic', 'value': 'v', 'cookie': ['n', 'v'], 'params': [['p%d' % i, {'t': gen_class_text(rng, False, True, 30)}] for i in range(n)], 'k': 'rt', 'nocoq': n > 20}
		cases.append(e)
		cases.append({'k': 'rt_list', 'lcls': 'generic', 'nocoq': n > 20, 'elems': [one('generic', 'a', gen_class_text(rng, False, True, 30)) for i in range(n)]})
	# random members of the classes in every element class, alone and in lists; the same data written by another sender
	for _ in range(5000 if big else 450):
		cls = rng.choice(CLASSES)
		e = gen_elem(rng, cls, domain='prop')
		e['params'] = [p for p in e['params'] if p[0] != 'boundary'] or [['a', None]]
		for p in e['params']:
			if p is e['params'][0] or rng.random() < 0.5:
				p[1] = {'t': gen_class_text(rng, cls == 'cookie')}
		cases.append(dict(e, k='rt'))
	for _ in range(6000 if big else 500):
		cls = rng.choice(CLASSES)
		e = gen_elem(rng, cls, domain='prop')
		e['params'] = [p for p in e['params'] if p[0] != 'boundary' and p[0].lower() not in ('path', 'domain', 'expires', 'max-age', 'httponly', 'secure')] or [['a', None]]
		for p in e['params']:
			if p is e['params'][0] or rng.random() < 0.5:
				p[1] = {'t': gen_class_text(rng, cls == 'cookie')}
		cases.append(dict(e, k='alt', style=rng.randrange(1 << 30)))
	for _ in range(3000 if big else 250):
		lcls = rng.choice(['generic', 'generic', 'setcookie'])
		els = []
		for _ in range(rng.randint(1, 4)):
			e = gen_elem(rng, 'generic' if lcls == 'generic' else 'cookie', domain='prop')
			e['params'] = [p for p in e['params'] if p[0] not in ('a', 'expires')] + [['a', {'t': gen_class_text(rng, lcls != 'generic')}]]
			els.append(e)
		cases.append({'k': 'rt_list', 'lcls': lcls, 'elems': els})
	# (1) one object used more than once and changed between the uses
	for _ in range(9000 if big else 700):
		cases.append(gen_seq(rng))
	# (4) every registered element class with the generic grammar, under its field name in several letter cases; every charset the parser knows
	for field in sorted(_registry_fields()):
		for _ in range(3 if big else 2):
			ps = [[n, {'t': gen_class_text(rng, False, True, 80)}] for n in rng.sample(['a', 'b', 'filename', 'name', 'foo', 'x-y', 'c1'], rng.randint(1, 3))]
			cases.append({'k': 'reg', 'field': _spell(rng, field), 'read': _spell(rng, field), 'params': ps})
	for enc in _known_encodings():
		cases.append({'k': 'charset', 'enc': enc, 't': rng.choice(['aé', 'März 2024', '€ 5', 'x']), 'style': rng.randrange(1 << 30)})
		cases.append({'k': 'charset', 'enc': _spell(rng, enc), 't': rng.choice(['café; 100%', 'é', 'abc def']), 'style': rng.randrange(1 << 30)})
	return cases


# ------------------------------------------------------------------ strengthening (wave 5): aliasing, argument types, refused operations, knobs, order, order of calls,
# value-dependent rare branches, lengths at powers of two.  Everything here is generated AFTER the earlier cases (same cases as before for a given seed).
P5_NAMES = ['a', 'b', 'filename', 'name', 'foo', 'x-y', 'c1', 'p', 'lang', 'size']
P5_COOKIE = ['a', 'b', 'foo', 'x-y', 'c1', 'p', 'path', 'domain', 'max-age', 'samesite']
APL_TOKENS = ['tok', 'a', 'b', 'close', 'Accept', 'gzip', 'x-1', 'attachment', 'zz', 'keep-alive']
APL_COOKIES = [['sid', '1'], ['sid', '2'], ['lang', 'de'], ['a', '1'], ['b', ''], ['SID', 'abc.def']]
# single backslashes (not in front of a backslash or a double quote: that is the known D17 class), the values of the 'opaque string' kind
BSL_TEXTS = ['C:\\temp\\report.txt', 'dir\\', 'a\\b c', '\\', 'a\\b;c', 'x\\y', '\\a b\\', 'say "hi"\\now', 'a\\b "c" d', '\\.\\', 'a\\,b', 'domain\\user=1']
PTYPES = ['dict', 'odict', 'list', 'tuple', 'listlist', 'iter', 'gen', 'map', 'chain', 'items', 'zip', 'bud', 'params']
REITER = ('dict', 'odict', 'list', 'tuple', 'listlist', 'items', 'bud', 'params')
MUTABLE = ('dict', 'odict', 'list', 'listlist', 'bud', 'params')
# white space of str.strip() / str.isspace() that is not white space of the wire grammar
UNI_WS = ['\x85', '\xa0', '\u1680', '\u2000', '\u2001', '\u2004', '\u2009', '\u200a', '\u2028', '\u2029', '\u202f', '\u205f', '\u3000', '\x1c', '\x1d', '\x1e', '\x1f']
RARE_ASCII = ['=', '==', '%', '%2', "'", "''", '*', '\\', 'a=', '.', '-', 'x y', 'a=b', '/', '?', ':', '%20', '%0A', '%0D%0A', '+', '~', '!', '|', '^', '`', '{', '}', '\x7f', '\x10', '\x1f']


def _ws_octet_char(rng):
	"""a character whose UTF-8 form ends in, or has in the middle, an octet that is white space in Latin-1 / Unicode (0x85 NEL, 0xA0 NBSP): found by construction -
	the low six bits of the code point are the low six bits of the last octet"""
	r = rng.random()
	if r < 0.45:
		cp = rng.choice([rng.randint(0x80, 0x7ff), rng.randint(0x800, 0xd7ff), rng.randint(0xe000, 0xffff), rng.randint(0x10000, 0x10ffff)])
		return chr((cp & ~0x3f) | rng.choice([0x05, 0x20]))
	if r < 0.6:
		cp = rng.randint(0x1000, 0xcfff)
		return chr((cp & ~0xfc0) | (rng.choice([0x05, 0x20]) << 6))
	if r < 0.7:
		# UTF-16 / UTF-32 forms with a 0x20, 0x0A, 0x0D, 0x09 or 0x00 octet
		return chr(rng.choice([0x2000 + rng.randint(0, 0xff), 0x0a00 + rng.randint(0, 0xff), 0x0d00 + rng.randint(0, 0xff), 0x0900 + rng.randint(0, 0xff), 0x100 * rng.randint(1, 0xd7), 0x2020, 0x0a0a, 0x0d0a]))
	return rng.choice(UNI_WS)


def gen_rare_text(rng):
	"""(16) cheap multi-piece values whose encoded form has a white space like octet, padding or an escape look-alike at an edge or inside"""
	core = [rng.choice(['a', 'b.txt', 'é', '€', 'x y', 'März', '1', 'é è', 'Ω'] + RARE_ASCII) for _ in range(rng.randint(0, 3))]
	r = rng.random()
	w = _ws_octet_char(rng)
	if r < 0.3:
		t = ''.join(core) + w
	elif r < 0.55:
		t = w + ''.join(core)
	elif r < 0.7:
		t = w + ''.join(core) + _ws_octet_char(rng)
	elif r < 0.85:
		i = rng.randint(0, len(core))
		t = ''.join(core[:i]) + w + ''.join(core[i:])
	else:
		t = ''.join(core) + rng.choice(RARE_ASCII)
	return t.strip(WS)


def val5(rng, cookie=False, noctl=False, maxlen=80):
	"""a parameter value of the property domain outside the classes of the known findings"""
	for _ in range(200):
		r = rng.random()
		t = rng.choice(BSL_TEXTS) if r < 0.12 else (gen_rare_text(rng) if r < 0.3 else gen_class_text(rng, cookie, True, maxlen))
		if not safe_text(t, cookie):
			continue
		if noctl and any(ord(ch) < 0x20 or ord(ch) == 0x7f for ch in t):
			continue
		return t
	return 'x'


def _vt5(rng, params, p=0.35):
	"""per parameter: value handed over as str ('t') or - ASCII only - as bytes ('b')"""
	return ''.join('b' if (all(ord(ch) < 128 for ch in v['t']) and rng.random() < p) else 't' for n, v in params)


def _elem5(rng, cls, noctl=False, value=None, nmax=3, nmin=0):
	cookie = cls in ('cookie', 'setcookie')
	names = rng.sample(P5_COOKIE if cookie else P5_NAMES, rng.randint(nmin, nmax))
	params = [[n, {'t': val5(rng, cookie, noctl)}] for n in names]
	v = value if value is not None else (gen_value(rng, cls, 'prop').lower() if cls == 'disp' else gen_value(rng, 'generic' if cookie else cls, 'prop'))
	return {'cls': 'cookie' if cookie else cls, 'value': v, 'cookie': gen_cookie(rng, 'prop'), 'params': params, 'vt': _vt5(rng, params), 'kt': rng.choice('ttbm')}


def _apl_fields():
	"""registered field names whose class keeps every list operation of the generic element (split, join, sorted, merge, equality, parse)"""
	from httoop.header.element import HeaderElement
	f = lambda cls, m: getattr(getattr(cls, m), '__func__', getattr(cls, m))
	return sorted(n for n, cls in _registry_fields().items() if all(f(cls, m) is f(HeaderElement, m) for m in ('sorted', 'merge', '__eq__', '__init__', 'sanitize', 'parse', 'join', 'split')) and
		n not in ('Content-Length', 'Host', 'Date', 'Age', 'Expires', 'Retry-After', 'Max-Forwards'))


def gen_apl(rng, fields):
	"""(14)(15)(11)(12) a list field built member by member - append() of bytes / str / bytearray, append(value, **params), append_element() - or from repeated,
	non-adjacent field lines, or merged from two header sets; members share element values (same value with other parameters, exact duplicates), come unsorted,
	sorted and reverse-sorted; other fields are set, read-only observers run and refused calls are made in between"""
	lcls = rng.choice(['generic', 'generic', 'generic', 'reg', 'setcookie', 'setcookie', 'cookie'])
	field = {'generic': rng.choice(['X-List', 'X-Generic']), 'reg': rng.choice(fields) if fields else 'X-List', 'setcookie': 'Set-Cookie', 'cookie': 'Cookie'}[lcls]
	if lcls == 'reg':
		lcls = 'generic'
	n = rng.choice([2, 2, 3, 3, 4, 5, 6])
	pool = rng.sample(APL_TOKENS, rng.randint(1, 3))
	cpool = rng.sample(APL_COOKIES, rng.randint(1, 3))
	elems = []
	for i in range(n):
		e = _elem5(rng, lcls, noctl=True, value=rng.choice(pool), nmax=0 if lcls == 'cookie' else 3)
		e['cookie'] = list(rng.choice(cpool))
		r = rng.random()
		if elems and r < 0.15:
			# an exact duplicate of an earlier member
			prev = rng.choice(elems)
			e = json.loads(json.dumps(prev))
		elif elems and r < 0.45 and lcls != 'cookie':
			# the value and the parameter names of an earlier member, other parameter values
			prev = rng.choice(elems)
			e['value'], e['cookie'] = prev['value'], list(prev['cookie'])
			e['params'] = [[p[0], {'t': val5(rng, lcls != 'generic', True)}] for p in prev['params']] or e['params']
			e['vt'] = _vt5(rng, e['params'])
		elems.append(e)
	order = rng.choice(['asis', 'asis', 'sorted', 'reverse'])
	key = (lambda e: e['value']) if lcls == 'generic' else (lambda e: e['cookie'])
	if order != 'asis':
		elems.sort(key=key, reverse=order == 'reverse')
	hows = ['bytes', 'bytes', 'str', 'bytearray', 'kw', 'kw', 'elem', 'elempairs', 'elemiter']
	if lcls == 'cookie':
		hows = ['bytes', 'str', 'bytearray', 'elem']
	path = rng.choice(['append', 'append', 'append', 'mixed', 'merge', 'lines', 'lines'])
	inter = []
	for i in range(n):
		r = rng.random()
		inter.append('other' if r < 0.3 else ('observe' if r < 0.5 else (rng.choice(['refuse:param', 'refuse:name', 'refuse:elem', 'refuse:value']) if r < 0.62 else '')))
	return {'k': 'apl', 'lcls': lcls, 'field': field, 'spell': [_spell(rng, field) for _ in range(3)], 'read': _spell(rng, field), 'elems': elems,
		'how': [rng.choice(hows) for _ in range(n)], 'path': path, 'cut': rng.randint(1, n - 1), 'inter': inter, 'ows': rng.randrange(1 << 16)}


def _steps5(rng, cls, targets, haves, argmut):
	"""mutations of the parameters / value of one of several objects; haves: target -> parameter names it holds now (kept up to date)"""
	cookie = cls == 'cookie'
	pn = P5_COOKIE if cookie else P5_NAMES
	val = lambda: {'t': val5(rng, cookie)}
	vk = lambda v: 'b' if all(ord(ch) < 128 for ch in v['t']) and rng.random() < 0.3 else 't'
	steps = []
	for _ in range(rng.randint(1, 4)):
		tgt = rng.choice(targets)
		have = haves[tgt]
		r = rng.random()
		if tgt == 'arg':
			if r < 0.6:
				n = 'arg%d' % len(steps)
				steps.append(['arg', 'set', n, val()])
				have.append(n)
			elif r < 0.85 and have:
				have.pop(0)
				steps.append(['arg', 'delfirst'])
			else:
				del have[:]
				steps.append(['arg', 'clear'])
			continue
		if r < 0.35:
			n = rng.choice(pn + ['zz', 'new-1'])
			v = val()
			steps.append([tgt, 'set', n, v, rng.choice('bt'), vk(v)])
			if n not in have:
				have.append(n)
		elif r < 0.5 and have:
			n = rng.choice(have)
			have.remove(n)
			steps.append([tgt, rng.choice(['del', 'pop']), n])
		elif r < 0.62:
			ns = rng.sample(pn, rng.randint(1, 2))
			steps.append([tgt, 'update', [[n, val()] for n in ns]])
			have.extend(n for n in ns if n not in have)
		elif r < 0.7:
			n = rng.choice(pn)
			steps.append([tgt, 'setdefault', n, val()])
			if n not in have:
				have.append(n)
		elif r < 0.76:
			del have[:]
			steps.append([tgt, 'clear'])
		elif r < 0.9 and cls == 'ctype':
			a = rng.choice(['charset', 'version', 'boundary'])
			t = {'charset': rng.choice(['utf-8', 'ISO-8859-1', 'koi8-r', val5(rng, False, False, 40)]), 'version': rng.choice(['1', '1.1', 'x y']), 'boundary': rng.choice(['abc', 'a b', '----=_Part_1', "a'b"])}[a]
			steps.append([tgt, 'attr', a, t])
			if a not in have:
				have.append(a)
		elif r < 0.9 and cookie:
			steps.append([tgt, 'cookie'] + gen_cookie(rng, 'prop'))
		elif r < 0.9 and cls == 'generic':
			steps.append([tgt, 'value', gen_value(rng, cls, 'prop')])
		else:
			steps.append([tgt, 'ser'])
	return steps


def gen_alias(rng):
	"""(10)(11) two elements built from the same argument object (a dict, a list of pairs, an iterator, a ByteUnicodeDict, the .params of the other element, the same
	octets parsed twice, the same field read twice); one of them - or the argument object - is changed; every object must serialise its own data"""
	cls = rng.choice(CLASSES)
	e = _elem5(rng, cls, nmin=1)
	ptype = rng.choice(PTYPES)
	src = rng.choice(['arg', 'arg', 'params', 'params', 'params', 'items', 'iter', 'parse', 'elements'])
	if src == 'arg' and ptype not in REITER:
		src = 'params'
	setcookie = cls == 'cookie' and rng.random() < 0.5
	if src == 'elements' and cls == 'cookie':
		setcookie = True   # the members of a Cookie field have no parameters
	second = _elem5(rng, cls, nmax=0)
	names = [p[0] for p in e['params']]
	targets = ['A', 'B', 'B'] + (['arg'] if ptype in MUTABLE and src not in ('parse', 'elements') else [])
	haves = {'A': list(names), 'B': list(names), 'arg': list(names)}
	c = dict(e, k='alias', ptype=ptype, src=src, setcookie=setcookie, value2=second['value'], cookie2=second['cookie'])
	if src in ('parse', 'elements'):
		c['value2'], c['cookie2'] = c['value'], c['cookie']
	c['steps'] = _steps5(rng, cls, targets, haves, ptype in MUTABLE)
	return c


def gen_types(rng):
	"""(11)(13)(14)(15) the same data handed over in every container / key / value type, through the constructor, by assignment, update(), setdefault(), create_element();
	parsed from bytes and from a bytearray; through a user subclass with the class-level encoding switch either way; parameters unsorted / sorted / reverse-sorted"""
	cls = rng.choice(CLASSES)
	e = _elem5(rng, cls, nmin=1, nmax=4)
	order = rng.choice(['asis', 'sorted', 'reverse'])
	if order != 'asis':
		e['params'].sort(key=lambda p: p[0], reverse=order == 'reverse')
		e['vt'] = _vt5(rng, e['params'])
	c = dict(e, k='types', ptype=rng.choice(PTYPES), build=rng.choice(['ctor', 'ctor', 'ctor', 'assign', 'update', 'setdefault', 'kw', 'mixed', 'attr']),
		parse_as=rng.choice(['bytes', 'bytes', 'bytearray']), sub=rng.choice([None, None, 'plain', 'qp', 'noqp', 'assigned']), setcookie=cls == 'cookie' and rng.random() < 0.5)
	if cls == 'generic' and rng.random() < 0.3:
		# an element value outside ASCII but inside Latin-1 (sent as it is, or as an encoded word when the class says so)
		c['value'] = rng.choice(['café', 'é', 'ÿ', 'a©b', 'Åre', 'x\xa0y', 'ü-1'])
	if c['build'] == 'attr':
		c['cls'], c['value'], c['setcookie'] = 'ctype', rng.choice(['text/plain', 'application/json', 'a/b+c']), False
		c['params'] = [[n, {'t': t}] for n, t in rng.sample([['charset', rng.choice(['utf-8', 'ISO-8859-1', 'koi8-r', 'utf-16', 'cp1252'])], ['version', rng.choice(['1', '1.1'])],
			['boundary', rng.choice(['abc', '----=_Part_1', "a'b", 'a b'])]], rng.randint(1, 3))]
		c['vt'] = ''
	return c


def gen_refuse(rng):
	"""(12) calls that raise (wrong key type, missing key, unencodable text, invalid wire form, invalid constructor argument) on or next to an element that is used afterwards"""
	cls = rng.choice(CLASSES)
	cookie = cls == 'cookie'
	e = _elem5(rng, cls, nmin=1)
	menu = [['setkey', rng.choice(['int', 'none', 'float', 'tuple'])], ['update_bad', rng.choice(['int', 'none', 'pairs', 'str'])], ['del_missing', 'zz-missing'], ['setdefault_bad', rng.choice(['int', 'none'])],
		['ser_bad', 'zz', rng.choice(['surrogate', 'surrogate2', 'int', 'list'])], ['parse_bad', rng.choice([b'v; a=x y', b'v; a=1; a=2', b"v; a*=bogus''x", b"v; a*=utf-8''%ff", b'v; a=(x)', b'n=v; a=1; a=2']).hex()],
		['ctor_bad', rng.choice(['int', 'str', 'pairs3'])], ['fmt_bad', rng.choice(['surrogate', 'int'])], ['noop_pop', 'zz-missing'], ['noop_get', 'zz-missing']]
	if cookie:
		menu.append(['cookie_value_bad', rng.choice(['né€=1', '€', 'a=\u0100'])])
	else:
		menu.append(['value_bad', rng.choice(['surrogate', 'surrogate2'])])
	if cls == 'ctype':
		menu.append(['boundary_bad', rng.choice(['b\x01ad', 'é', 'x' * 202, '', 'a\x7f'])])
	ops = [rng.choice(menu) for _ in range(rng.randint(1, 3))]
	v = {'t': val5(rng, cookie)}
	then = ['E', 'set', rng.choice(P5_COOKIE if cookie else P5_NAMES), v, rng.choice('bt'), 't']
	return dict(e, k='refuse', ops=ops, then=then, setcookie=cookie and rng.random() < 0.5)


POW2 = [1 << k for k in range(9, 17)]


def gen_wave5(rng, tier):
	from harness.props.C08 import ALPHABETS, text_of_len
	big = tier == 'thorough'
	one = lambda cls, key, t: {'cls': cls, 'value': 'inline' if cls == 'disp' else ('text/plain' if cls == 'ctype' else 'v'), 'cookie': ['n', 'v'], 'params': [[key, {'t': t}]]}
	cases = []
	# (11) ASCII parameter values handed over as bytes instead of str - through the Coq model as well: single backslashes, quote-dense and separator-dense values
	shapes = [t for t in quote_shapes(False) if '\\' in t and all(ord(ch) < 128 for ch in t)]
	for i, t in enumerate(BSL_TEXTS + shapes):
		cls = ['generic', 'disp', 'ctype'][i % 3]
		cases.append(dict(one(cls, 'filename' if cls == 'disp' else 'a', t), k='rt'))
		cases[-1]['params'][0][1] = {'b': t.encode('ascii').hex()}
		if i % 4 == 0:
			a, b = one('generic', 'a', t), one('generic', 'b', 'y z')
			a['params'][0][1] = {'b': t.encode('ascii').hex()}
			cases.append({'k': 'rt_list', 'lcls': 'generic', 'elems': [b, a] if i % 8 else [a, b]})
	for _ in range(3000 if big else 220):
		e = gen_elem(rng, domain='prop')
		e['params'] = [p for p in e['params'] if p[0] != 'boundary'] or [['a', None]]
		for p in e['params']:
			t = rng.choice(BSL_TEXTS) if rng.random() < 0.3 else (gen_qtext(rng) if rng.random() < 0.5 else gen_class_text(rng, e['cls'] == 'cookie'))
			if p is e['params'][0] or rng.random() < 0.5:
				p[1] = {'b': t.encode('ascii').hex()} if all(ord(ch) < 128 for ch in t) else {'t': t}
		cases.append(dict(e, k='rt'))
	# (16) value-dependent rare branches: many cheap multi-piece values with white space like octets in their encoded form, padding and escape look-alikes at the edges
	for i in range(4000 if big else 380):
		cls = CLASSES[i % 4]
		t = val5(rng, cls == 'cookie') if i % 3 else gen_rare_text(rng)
		if not safe_text(t, cls == 'cookie'):
			continue
		j = i % 5
		if j < 3:
			cases.append(dict(one(cls, rng.choice(['filename', 'a', 'name']), t), k='rt', nocoq=j != 0))
		elif j == 3:
			cases.append(dict(one(cls, rng.choice(['filename', 'a', 'name']), t), k='alt', style=rng.randrange(1 << 30)))
		elif safe_text(t, True):
			lcls = rng.choice(['generic', 'setcookie'])
			mk = lambda tt: one('generic' if lcls == 'generic' else 'cookie', 'a', tt)
			cases.append({'k': 'rt_list', 'lcls': lcls, 'nocoq': True, 'elems': [mk(t), mk(val5(rng, True, True)), mk(t)]})
	# (17) lengths that are powers of two (512 ... 65536) and their neighbours: values (token, quoted, extended), names, element value, number of parameters / members
	for n in POW2:
		for d in (-1, 0, 1):
			for alpha in ('ascii', 'asciisp', 'bmp', 'latin1'):
				if n + d > 20000 and alpha in ('asciisp', 'latin1') and not big:
					continue
				t = text_of_len(rng, n + d, alpha)
				if alpha == 'asciisp':
					t = t.replace('"', 'q')   # an odd number of double quotes is the known D17 class
				cls = rng.choice(['generic', 'disp', 'ctype', 'cookie']) if alpha != 'asciisp' else rng.choice(['generic', 'disp', 'ctype'])
				cases.append(dict(one(cls, 'filename' if cls == 'disp' else 'a', t), k='rt', nocoq=True))
			# the only character that asks for the quoted / the extended form sits at the far end of a long token
			# (at index n - 1, n, n + 1: behind a prefix of exactly that many token characters)
			t = text_of_len(rng, n + d, 'ascii')
			cases.append(dict(one(rng.choice(['generic', 'disp', 'ctype']), 'a', t + rng.choice(' ,;=/\\') + 'z'), k='rt', nocoq=True))
			cases.append(dict(one(rng.choice(CLASSES), 'a', t + rng.choice('é€\U0001f600')), k='rt', nocoq=True))
			if n <= 4096 or big:
				nm = ''.join('abcdxyz019-_.'[(i * 5) % 13] for i in range(n + d))
				cases.append(dict(one('generic', nm, 'x y'), k='rt', nocoq=True))
				cases.append(dict(one('generic', 'a', 'x y'), k='rt', value=''.join(TOKCH[(i * 7) % len(TOKCH)] for i in range(n + d)), nocoq=True))
			if n <= 1024 or (big and n <= 2048):
				cases.append({'cls': 'generic', 'value': 'v', 'cookie': ['n', 'v'], 'params': [['p%d' % i, {'t': 'v %d' % i if i % 3 else 'é%d' % i}] for i in range(n + d)], 'k': 'rt', 'nocoq': True})
				cases.append({'k': 'rt_list', 'lcls': 'generic', 'nocoq': True, 'elems': [one('generic', 'a', 'v,%d' % i if i % 3 else 'é;%d' % i) for i in range(n + d)]})
	# (10)-(15): aliasing, argument types, refused calls, class-level switches, order, order of calls
	fields = _apl_fields()
	for _ in range(9000 if big else 800):
		cases.append(gen_apl(rng, fields))
	for _ in range(9000 if big else 800):
		cases.append(gen_alias(rng))
	for _ in range(7000 if big else 600):
		cases.append(gen_types(rng))
	for _ in range(4000 if big else 350):
		cases.append(gen_refuse(rng))
	return cases


def gen_cases(rng, tier):
	big = tier == 'thorough'
	cases = []
	# formatparam: every single octet / a sample of code points as a one-character value, for both tspecials classes
	for c in range(256):
		cases.append({'k': 'format', 'cookie': False, 'name': 'a', 'v': {'b': '%02x' % c}})
		cases.append({'k': 'format', 'cookie': c % 2 == 0, 'name': 'a', 'v': {'t': chr(c)}})
		cases.append({'k': 'rt', 'cls': 'generic', 'value': 'v', 'cookie': ['n', 'v'], 'params': [['a', {'t': 'x' + chr(c) + 'y'}]]})
	for _ in range(6000 if big else 500):
		cases.append({'k': 'format', 'cookie': rng.random() < 0.3, 'name': gen_name(rng), 'v': gen_pval(rng)})
	for _ in range(30000 if big else 1500):
		e = gen_elem(rng)
		e['k'] = 'compose'
		cases.append(e)
	for _ in range(40000 if big else 2200):
		e = gen_elem(rng, domain='prop')
		e['k'] = 'rt'
		cases.append(e)
	for _ in range(40000 if big else 2500):
		cls = rng.choice(CLASSES)
		cases.append({'k': 'parse', 'cls': cls, 's': gen_wire(rng, cls).hex(), 'set': rng.random() < 0.5})
	for _ in range(10000 if big else 600):
		lcls = rng.choice(['generic', 'cookie', 'setcookie'])
		n = rng.randint(0, 3)
		if rng.random() < 0.5:
			els = [gen_wire(rng, 'cookie' if lcls != 'generic' else 'generic') for _ in range(n)]
			v = rng.choice([b', ', b',', b'; ', b' , ']).join(els)
		else:
			from harness.props.C08 import gen_setcookie
			v = gen_setcookie(rng) if lcls != 'generic' else bytes(rng.choice(b'ab,"; =\\') for _ in range(rng.randint(0, 12)))
		cases.append({'k': 'parselist', 'lcls': lcls, 'v': v.hex()})
	for _ in range(10000 if big else 700):
		lcls = rng.choice(['generic', 'generic', 'setcookie', 'cookie'])
		els = []
		for _ in range(rng.randint(1, 3)):
			e = gen_elem(rng, 'generic' if lcls == 'generic' else 'cookie', domain='prop')
			if lcls == 'cookie':
				e['params'] = []
			els.append(e)
		cases.append({'k': 'rt_list', 'lcls': lcls, 'elems': els})
	# last, so that the cases above are the same as before for a given seed
	cases.extend(quote_cases(rng, big))
	cases.extend(gen_wave4(rng, tier))
	cases.extend(gen_wave5(rng, tier))
	return cases


# ------------------------------------------------------------------ observation
def _impl():
	from httoop.exceptions import InvalidHeader
	from httoop.header import Headers
	from httoop.header.element import HeaderElement
	from httoop.header.messaging import ContentDisposition, ContentType, Cookie, SetCookie
	return {'generic': HeaderElement, 'ctype': ContentType, 'disp': ContentDisposition, 'cookie': Cookie, 'setcookie': SetCookie, 'Headers': Headers, 'InvalidHeader': InvalidHeader}


def _exc(exc):
	if isinstance(exc, _impl()['InvalidHeader']):
		return 'invalid'
	if isinstance(exc, UnicodeEncodeError):
		return 'unicode'
	return 'escape:%s:%s' % (type(exc).__name__, str(exc)[:80])


def _pv(v):
	if v is None:
		return None
	return bytes.fromhex(v['b']) if 'b' in v else v['t']


def _u8(s):
	if isinstance(s, bytes):
		s = s.decode('latin-1')   # an ASCII parameter value that was handed over as bytes is held as bytes
	return s.encode('utf-8', 'surrogatepass').hex()


def _build(c, cookie_cls='cookie'):
	I = _impl()
	params = dict((k.encode('utf-8'), _pv(v)) for k, v in c['params'])
	if c['cls'] == 'cookie':
		return I[cookie_cls](c['cookie'][0], c['cookie'][1], params)
	return I[c['cls']](c['value'], params)


def _elem_obs(e, cls):
	o = {'value': _u8(e.value), 'params': [[bytes(k).hex(), _u8(v)] for k, v in e.params.items()]}
	if cls in ('cookie', 'setcookie'):
		o['cookie'] = [_u8(e.cookie_name), _u8(e.cookie_value)]
	return o


def _td(raw, td):
	if b'=?' in raw:
		HeaderElement, InvalidHeader = _impl()['generic'], _impl()['InvalidHeader']
		try:
			td[raw.hex()] = _u8(HeaderElement.decode_rfc2047(raw))
		except InvalidHeader:
			td[raw.hex()] = None
		except Exception:
			pass


def _parse(cls, raw):
	try:
		return _elem_obs(_impl()[cls].parse(raw), cls)
	except Exception as exc:
		return {'err': _exc(exc)}


def _fresh(e, cls):
	"""a new element built through the constructor from what the object holds now"""
	I = _impl()
	params = dict((bytes(k), v) for k, v in e.params.items())
	if cls in ('cookie', 'setcookie'):
		return I[cls](e.cookie_name, e.cookie_value, params)
	return I[cls](e.value, params)


def _serialise(e, how):
	"""the ways an element gets serialised; the octets are always taken with bytes() afterwards"""
	if how == 'compose':
		e.compose()
	elif how == 'str':
		str(e)
	elif how == 'fmt':
		'{}'.format(e), '%s' % (e,)
	elif how == 'repr':
		repr(e)
	elif how == 'cmp':
		try:
			e < e, e == e, sorted([e, e])
		except Exception:
			pass
	return bytes(e)


def _seq(c):
	I = _impl()
	cls = c['cls']
	if cls == 'cookie' and c.get('setcookie'):
		cls = 'setcookie'
	e = _build(c, cls if cls in ('cookie', 'setcookie') else 'cookie')
	if c['via'] == 'parsed':
		e = I[cls].parse(bytes(e))
	key = lambda n, kind='b': n.encode('utf-8') if kind == 'b' else n
	sers = []
	for st in c['steps']:
		op = st[0]
		if op == 'ser':
			out = _serialise(e, st[1])
			again = bytes(e)
			try:
				fresh = bytes(_fresh(e, cls)).hex()
			except Exception as exc:
				fresh = {'err': _exc(exc)}
			sers.append({'out': out.hex(), 'again': again.hex(), 'fresh': fresh, 'state': _elem_obs(e, cls), 'back': _parse(cls, out)})
		elif op == 'set':
			e.params[key(st[1], st[3])] = _pv(st[2])
		elif op == 'del':
			del e.params[key(st[1])]
		elif op == 'pop':
			e.params.pop(key(st[1], 't'))
		elif op == 'update':
			e.params.update(dict((key(n, 'bt'[i % 2]), _pv(v)) for i, (n, v) in enumerate(st[1])))
		elif op == 'setdefault':
			e.params.setdefault(key(st[1], 't'), _pv(st[2]))
		elif op == 'newparams':
			e.params = type(e.params)(dict((key(n), _pv(v)) for n, v in st[1]))
		elif op == 'clear':
			e.params.clear()
		elif op == 'attr':
			setattr(e, st[1], st[2])
		elif op == 'value':
			e.value = st[1]
		elif op == 'cookie':
			e.cookie_name, e.cookie_value = st[1], st[2]
		else:
			raise ValueError(op)
	return {'sers': sers}


def _hexup(b, rng, style):
	return (b'%%%02X' if style == 0 or (style == 2 and rng.random() < 0.5) else b'%%%02x') % b


def alt_wire(c, rng):
	"""the element as another sender writes it - an independent serialiser: token, quoted-string (backslash in front of double quote and backslash) or RFC 5987
	extended value (always two hex digits, either letter case, more octets escaped than necessary, utf-8 or iso-8859-1, with or without a language), parameter
	names in another letter case, optional whitespace around the separators"""
	cookie = c['cls'] == 'cookie'
	out = ('%s=%s' % tuple(c['cookie']) if cookie else c['value']).encode('latin-1')
	for name, v in c['params']:
		pv = _pv(v)
		t = '' if pv is None else (pv.decode('latin-1') if isinstance(pv, bytes) else pv)
		nm = name if cookie else ''.join(rng.choice([ch.lower(), ch.upper()]) for ch in name)
		forms = ['ext']
		if t and all(ch in TCHARS for ch in t):
			forms += ['token', 'token'] + ([] if cookie else ['quoted'])
		elif not cookie and t and all(0x20 <= ord(ch) <= 0x7e for ch in t):
			forms += ['quoted', 'quoted']
		elif cookie and t and all(0x21 <= ord(ch) <= 0x7e and ch not in ';,"' for ch in t):
			forms += ['token']
		if not t:
			forms = ['bare', 'empty'] + ([] if cookie else ['emptyq'])
		form = rng.choice(forms)
		sep = rng.choice([b'; ', b'; ', b';', b' ; ', b' ;', b';\t'])
		eq = rng.choice([b'=', b'=', b'=', b' = ', b'= ', b' =']) if not cookie else b'='
		if form == 'bare':
			atom = nm.encode()
		elif form == 'empty':
			atom = nm.encode() + eq
		elif form == 'emptyq':
			atom = nm.encode() + eq + b'""'
		elif form == 'token':
			atom = nm.encode() + eq + t.encode('ascii')
		elif form == 'quoted':
			atom = nm.encode() + eq + b'"' + t.encode('latin-1').replace(b'\\', b'\\\\').replace(b'"', b'\\"') + b'"'
		else:
			try:
				data, cs = (t.encode('latin-1'), rng.choice([b'iso-8859-1', b'ISO-8859-1', b'latin1'])) if rng.random() < 0.3 else (t.encode('utf-8'), rng.choice([b'utf-8', b'UTF-8', b'utf8', b'Utf-8']))
			except UnicodeEncodeError:
				data, cs = t.encode('utf-8'), b'utf-8'
			style = rng.randrange(3)
			over = rng.random()
			body = b''.join(bytes([b]) if (chr(b) in TCHARS and chr(b) not in "%'*" and rng.random() >= over * 0.3) else _hexup(b, rng, style) for b in data)
			atom = nm.encode() + b'*' + eq + cs + b"'" + rng.choice([b'', b'', b'en', b'de-DE']) + b"'" + body
		out += sep + atom
	return out + rng.choice([b'', b'', b' ', b';', b'; '])


# ------------------------------------------------------------------ observation (wave 5)
FIELD5 = {'generic': 'X-List', 'ctype': 'Content-Type', 'disp': 'Content-Disposition', 'cookie': 'Cookie', 'setcookie': 'Set-Cookie'}
BAD5 = {'surrogate': 'a\ud800', 'surrogate2': '\udfff€', 'int': 5, 'none': None, 'float': 1.5, 'tuple': ('a',), 'list': ['x'], 'str': 'abc', 'pairs': [('zz', '1')], 'pairs3': [('a', 'b', 'c')]}
_SUB5 = {}


def _cls5(c):
	return 'setcookie' if c['cls'] == 'cookie' and c.get('setcookie') else c['cls']


def _sub5(base, flag):
	"""a user subclass of an element class; the class-level switch for the encoding of the element value set in the class body, or assigned afterwards"""
	if not flag:
		return base
	if (base, flag) not in _SUB5:
		body = {'qp': {'encode_latin1_quoted_printable': True}, 'noqp': {'encode_latin1_quoted_printable': False}}.get(flag, {})
		sub = type(base)('Sub' + base.__name__.replace('-', ''), (base,), dict(body))
		if flag == 'assigned':
			sub.encode_latin1_quoted_printable = True
			sub.encode_latin1_quoted_printable = False
		_SUB5[(base, flag)] = sub
	return _SUB5[(base, flag)]


def _tv5(t, kind):
	return t.encode('ascii') if kind == 'b' and all(ord(ch) < 128 for ch in t) else t


def _pairs5(c, params=None):
	"""the parameters as typed (key, value) pairs: keys str / bytes / alternating, values str or - where the case says so and the text is ASCII - bytes"""
	params = c['params'] if params is None else params
	vt, kt = c.get('vt') or '', c.get('kt', 't')
	out = []
	for i, (n, v) in enumerate(params):
		out.append((n.encode('utf-8') if kt == 'b' or (kt == 'm' and i % 2) else n, _tv5(v['t'], vt[i] if i < len(vt) else 't')))
	return out


def _mk_params(ptype, pairs):
	import collections
	import itertools
	from httoop.util import ByteUnicodeDict
	pairs = list(pairs)
	if ptype == 'dict':
		return dict(pairs)
	if ptype == 'odict':
		return collections.OrderedDict(pairs)
	if ptype == 'list':
		return list(pairs)
	if ptype == 'tuple':
		return tuple(pairs)
	if ptype == 'listlist':
		return [list(p) for p in pairs]
	if ptype == 'iter':
		return iter(pairs)
	if ptype == 'gen':
		return (p for p in pairs)
	if ptype == 'map':
		return map(tuple, [list(p) for p in pairs])
	if ptype == 'chain':
		return itertools.chain(pairs[:1], pairs[1:])
	if ptype == 'items':
		return dict(pairs).items()
	if ptype == 'zip':
		return zip([p[0] for p in pairs], [p[1] for p in pairs])
	if ptype == 'bud':
		return ByteUnicodeDict(pairs)
	if ptype == 'params':
		return _impl()['generic']('other', dict(pairs)).params
	raise ValueError(ptype)


def _new5(cls, c, arg, second=False):
	if c['cls'] == 'cookie':
		n, v = c['cookie2'] if second else c['cookie']
		return cls(n, v, arg)
	return cls(c['value2'] if second else c['value'], arg)


def _snap5(arg):
	items = arg.items() if hasattr(arg, 'items') else arg
	out = []
	for k, v in items:
		out.append([(k if isinstance(k, bytes) else k.encode('utf-8')).hex(), _u8(v.decode('latin-1') if isinstance(v, bytes) else v)])
	return out


def _apply5(e, st):
	"""one change of an element through a public way"""
	op = st[0]
	key = lambda n, kind='b': n.encode('utf-8') if kind == 'b' else n
	if op == 'set':
		e.params[key(st[1], st[3])] = _tv5(st[2]['t'], st[4])
	elif op == 'del':
		del e.params[key(st[1])]
	elif op == 'pop':
		e.params.pop(key(st[1], 't'))
	elif op == 'update':
		e.params.update(dict((key(n, 'bt'[i % 2]), v['t']) for i, (n, v) in enumerate(st[1])))
	elif op == 'setdefault':
		e.params.setdefault(key(st[1], 't'), st[2]['t'])
	elif op == 'clear':
		e.params.clear()
	elif op == 'attr':
		setattr(e, st[1], st[2])
	elif op == 'value':
		e.value = st[1]
	elif op == 'cookie':
		e.cookie_name, e.cookie_value = st[1], st[2]
	elif op == 'ser':
		bytes(e), str(e), repr(e)
	else:
		raise ValueError(op)


def _ser5(e, clsname, cls=None):
	out = bytes(e)
	try:
		back = _elem_obs((cls or _impl()[clsname]).parse(out), clsname)
	except Exception as exc:
		back = {'err': _exc(exc)}
	return {'out': out.hex(), 'back': back, 'state': _elem_obs(e, clsname)}


def _alias(c):
	I = _impl()
	clsname = _cls5(c)
	cls = I[clsname]
	pairs = _pairs5(c)
	arg = _mk_params(c['ptype'], pairs)
	src = c['src']
	if src in ('parse', 'elements'):
		wire = bytes(_new5(cls, c, dict(pairs)))
		arg = None
		if src == 'parse':
			A, B = cls.parse(wire), cls.parse(wire)
		else:
			h = I['Headers']()
			h[FIELD5[clsname]] = wire
			A, B = h.elements(FIELD5[clsname])[0], h.elements(FIELD5[clsname])[0]
	else:
		A = _new5(cls, c, arg)
		B = _new5(cls, c, {'arg': arg, 'params': A.params, 'items': A.params.items(), 'iter': iter(A.params.items())}[src], True)
	objs = {'A': A, 'B': B}
	for st in c['steps']:
		if st[0] != 'arg':
			_apply5(objs[st[0]], st[1:])
		elif st[1] == 'set':
			if hasattr(arg, 'items'):
				arg[st[2]] = st[3]['t']
			else:
				arg.append((st[2], st[3]['t']) if c['ptype'] == 'list' else [st[2], st[3]['t']])
		elif st[1] == 'delfirst':
			if hasattr(arg, 'items'):
				del arg[next(iter(arg))]
			else:
				arg.pop(0)
		else:
			arg.clear()
	o = {'A': _ser5(A, clsname), 'B': _ser5(B, clsname)}
	if arg is not None and c['ptype'] in REITER:
		o['arg'] = _snap5(arg)
	if clsname in ('generic', 'setcookie'):
		h = I['Headers']()
		h.append(FIELD5[clsname], bytes(A))
		h.append(FIELD5[clsname], bytes(B))
		try:
			o['list'] = [_elem_obs(e, clsname) for e in h.elements(FIELD5[clsname])]
		except Exception as exc:
			o['list'] = {'err': _exc(exc)}
	return o


def _types(c):
	I = _impl()
	clsname = _cls5(c)
	cls = _sub5(I[clsname], c.get('sub'))
	pairs = _pairs5(c)
	build = c['build']
	args = tuple(c['cookie']) if c['cls'] == 'cookie' else (c['value'],)
	if build == 'ctor':
		e = cls(*(args + (_mk_params(c['ptype'], pairs),)))
	elif build == 'kw':
		if c.get('sub'):
			e = cls(*args, params=_mk_params(c['ptype'], pairs))
		else:
			e = I['Headers']().create_element(FIELD5[clsname], *args, params=_mk_params(c['ptype'], pairs))
	elif build == 'mixed':
		e = cls(*(args + (_mk_params(c['ptype'], pairs[:len(pairs) // 2]),)))
		for k, v in pairs[len(pairs) // 2:]:
			e.params[k] = v
	else:
		e = cls(*args)
		if build == 'assign':
			for k, v in pairs:
				e.params[k] = v
		elif build == 'update':
			e.params.update(dict(pairs))
		elif build == 'setdefault':
			for k, v in pairs:
				e.params.setdefault(k, v)
		elif build == 'attr':
			for k, v in pairs:
				setattr(e, k if isinstance(k, str) else k.decode('ascii'), v)
		else:
			raise ValueError(build)
	wire = bytes(e)
	# reference form: the base class, the constructor, a plain dict with str keys and str values
	ref = I[clsname](*(args + (dict((n, v['t']) for n, v in c['params']),)))
	o = {'out': wire.hex(), 'ref': bytes(ref).hex(), 'state': _elem_obs(e, clsname), 'type': type(e).__name__}
	given = {'bytes': wire, 'bytearray': bytearray(wire)}[c['parse_as']]
	try:
		back = cls.parse(given)
		o['back'] = _elem_obs(back, clsname)
		o['backtype'] = type(back) is cls
		o['given'] = bytes(given) == wire
	except Exception as exc:
		o['back'] = {'err': _exc(exc)}
	return o


def _refused5(e, cls, c, op):
	"""-> name of the exception the call raised, or None; every call here leaves - or must leave - the element as it was"""
	kind = op[0]
	try:
		if kind == 'setkey':
			e.params[BAD5[op[1]]] = 'x'
		elif kind == 'update_bad':
			e.params.update(BAD5[op[1]])
		elif kind == 'del_missing':
			del e.params[op[1]]
		elif kind == 'setdefault_bad':
			e.params.setdefault(BAD5[op[1]], 'x')
		elif kind == 'noop_pop':
			e.params.pop(op[1])
		elif kind == 'noop_get':
			e.params.get(op[1]), op[1] in e.params, e.params.get(op[1].encode())
		elif kind == 'parse_bad':
			cls.parse(bytes.fromhex(op[1]))
		elif kind == 'ctor_bad':
			cls(*((tuple(c['cookie']) if c['cls'] == 'cookie' else (c['value'],)) + (BAD5[op[1]],)))
		elif kind == 'fmt_bad':
			cls.formatparam(b'zz', BAD5[op[1]])
		elif kind == 'cookie_value_bad':
			e.value = op[1]
		elif kind == 'ser_bad':
			e.params[op[1]] = BAD5[op[2]]
			try:
				bytes(e)
			finally:
				del e.params[op[1]]
		elif kind == 'value_bad':
			old = e.value
			e.value = BAD5[op[1]]
			try:
				bytes(e)
			finally:
				e.value = old
		elif kind == 'boundary_bad':
			e.boundary = op[1]
			try:
				e.sanitize()
			finally:
				del e.params['boundary']
		else:
			raise ValueError(kind)
	except Exception as exc:
		if isinstance(exc, ValueError) and str(exc) == kind:
			raise
		return type(exc).__name__
	return None


def _refuse(c):
	I = _impl()
	clsname = _cls5(c)
	cls = I[clsname]
	mk = lambda: _new5(cls, c, dict(_pairs5(c)))
	e, twin = mk(), mk()
	log = []
	for op in c['ops']:
		before = (bytes(e).hex(), _elem_obs(e, clsname))
		raised = _refused5(e, cls, c, op)
		log.append({'op': op[0], 'raised': raised, 'same': (bytes(e).hex(), _elem_obs(e, clsname)) == before, 'wire': bytes(e).hex()})
	_apply5(e, c['then'][1:])
	_apply5(twin, c['then'][1:])
	o = _ser5(e, clsname)
	o['log'] = log
	o['twin'] = bytes(twin).hex()
	return o


def _apl(c):
	import random
	from httoop.header.element import HEADER, HeaderElement
	I = _impl()
	H = I['Headers']
	lcls = c['lcls']
	rng = random.Random(c['ows'])
	sp = lambda i: c['spell'][i % len(c['spell'])]
	built, wires = [], []
	for m in c['elems']:
		cls = I[lcls] if lcls != 'generic' else HEADER.get(c['field'], HeaderElement)
		built.append(_new5(cls, m, dict(_pairs5(m))))
		wires.append(bytes(built[-1]))
	n = len(wires)
	refused = []

	def add(h, i):
		m, how, name = c['elems'][i], c['how'][i], sp(i)
		args = tuple(m['cookie']) if m['cls'] == 'cookie' else (m['value'],)
		if how == 'bytes':
			h.append(name, wires[i])
		elif how == 'str':
			h.append(name, wires[i].decode('latin-1'))
		elif how == 'bytearray':
			h.append(name, bytearray(wires[i]))
		elif how == 'kw':
			h.append(name.encode('ascii') if i % 2 else name, '='.join(args) if i % 3 else '='.join(args).encode('latin-1'), **dict((n_, _tv5(v['t'], m['vt'][j])) for j, (n_, v) in enumerate(m['params'])))
		elif how == 'elem':
			h.append_element(name, *(args + (dict(_pairs5(m)),)))
		elif how == 'elempairs':
			h.append_element(name, *args, params=list(_pairs5(m)))
		elif how == 'elemiter':
			h.append_element(name, *args, params=iter(_pairs5(m)))
		else:
			raise ValueError(how)

	def between(h, i):
		what = c['inter'][i]
		if what == 'other':
			h['X-Other-%d' % i] = 'x%d' % i
		elif what == 'observe':
			name = sp(i + 1)
			h.elements(name), name in h, h.get(name), len(h), list(h), h.compose(), repr(h), h.values(name), h.get_element(name), h.getbytes(name), bool(h), dict(h), h.items()
		elif what.startswith('refuse:'):
			try:
				if what == 'refuse:param':
					h.append(sp(i), 'tok', p=BAD5['surrogate'])
				elif what == 'refuse:name':
					h.append('Bad Name', 'x')
				elif what == 'refuse:elem':
					h.append_element('Content-Type', 'multipart/x', {'boundary': 'b\x01ad'})
				else:
					h.append(sp(i), BAD5['surrogate'])
				refused.append(None)
			except Exception as exc:
				refused.append(type(exc).__name__)

	path = c['path']
	if path == 'lines':
		lines = []
		for i in range(n):
			if c['inter'][i] == 'other':
				lines.append(b'X-Other-%d: x%d' % (i, i))
			lines.append(sp(i).encode('ascii') + rng.choice([b': ', b':', b':  ', b':\t']) + wires[i] + rng.choice([b'', b'', b' ']))
		h = H()
		h.parse(b'\r\n'.join(lines))
	elif path == 'merge':
		h, b = H(), H()
		for i in range(n):
			between(h if i < c['cut'] else b, i)
			add(h if i < c['cut'] else b, i)
		h.merge(b)
	else:
		h = H()
		start = 0
		if path == 'mixed':
			start = c['cut']
			h[sp(0)] = (I[lcls] if lcls != 'generic' else HEADER.get(c['field'], HeaderElement)).join(wires[:start])
		for i in range(start, n):
			between(h, i)
			add(h, i)
	o = {'raw': (h.getbytes(c['field']) or b'').hex(), 'refused': refused, 'built': [_elem_obs(e, lcls) for e in built]}
	try:
		o['got'] = [_elem_obs(e, lcls) for e in h.elements(c['read'])]
	except Exception as exc:
		o['got'] = {'err': _exc(exc)}
	o['others'] = sorted([k, v.hex()] for k, v in dict.items(h) if k.lower().startswith('x-other-'))
	try:
		h2 = H()
		h2.parse(h.compose()[:-4])
		o['got2'] = [_elem_obs(e, lcls) for e in h2.elements(c['read'])]
	except Exception as exc:
		o['got2'] = {'err': _exc(exc)}
	return o


def observe(c):
	I = _impl()
	k = c['k']
	if k in ('alias', 'types', 'refuse', 'apl'):
		try:
			return {'alias': _alias, 'types': _types, 'refuse': _refuse, 'apl': _apl}[k](c)
		except Exception as exc:
			return {'err': _exc(exc)}
	if k == 'format':
		cls = I['cookie' if c['cookie'] else 'generic']
		try:
			return {'out': cls.formatparam(c['name'].encode('utf-8'), _pv(c['v'])).hex()}
		except Exception as exc:
			return {'err': _exc(exc)}
	if k in ('compose', 'rt'):
		try:
			e = _build(c)
			b = bytes(e)
		except Exception as exc:
			return {'err': _exc(exc)}
		o = {'out': b.hex()}
		if k == 'rt':
			td = {}
			_td(b, td)
			o['td'] = td
			o['back'] = _parse(c['cls'], b)
			o['built'] = _elem_obs(e, c['cls'])
			# used again: the same object serialised a second time, the same octets parsed a second time, a second object from the same data
			o['again'] = [bytes(e) == b, _parse(c['cls'], b) == o['back'], bytes(_build(c)) == b, _elem_obs(e, c['cls']) == o['built']]
		return o
	if k == 'seq':
		try:
			return _seq(c)
		except Exception as exc:
			return {'err': _exc(exc)}
	if k == 'alt':
		import random
		wire = alt_wire(c, random.Random(c['style']))
		o = {'out': wire.hex(), 'back': _parse(c['cls'], wire)}
		o['again'] = _parse(c['cls'], wire) == o['back']
		return o
	if k == 'charset':
		import random
		rng = random.Random(c['style'])
		t = c['t']
		try:
			data = t.encode(c['enc'])
		except UnicodeEncodeError:
			t = 'x yz'   # the charset has none of the accented letters: plain text
			data = t.encode(c['enc'])
		except LookupError as exc:
			return {'skip': type(exc).__name__}
		wire = b"v; a*=" + c['enc'].encode('ascii') + b"''" + b''.join(_hexup(b, rng, 2) for b in data) + b'; b=y'
		return {'out': wire.hex(), 'back': _parse('generic', wire), 't': t}
	if k == 'reg':
		from httoop.header.element import HEADER
		cls = HEADER[c['field']]
		params = dict((n.encode('utf-8'), _pv(v)) for n, v in c['params'])
		e = None
		for sample in REG_SAMPLES:
			try:
				e = cls(sample, dict(params))
				break
			except Exception:
				continue
		if e is None:
			return {'skip': 'no sample value accepted'}
		if not isinstance(e.value, str):
			# excluded input class (reported, clean tree): the date-valued classes (If-Modified-Since, If-Unmodified-Since, Last-Modified) replace .value by a Date
			# object in sanitize() and bytes(element) then raises AttributeError ('Date' object has no attribute 'encode'): they cannot be serialised at all
			return {'skip': 'value is not text: %s' % type(e.value).__name__}
		try:
			wire = bytes(e)
			o = {'out': wire.hex(), 'sample': sample, 'built': _elem_obs(e, 'generic')}
			try:
				o['back'] = _elem_obs(cls.parse(wire), 'generic')
			except Exception as exc:
				o['back'] = {'err': _exc(exc)}
			h = I['Headers']()
			h[c['field']] = wire
			try:
				o['via'] = [_elem_obs(x, 'generic') for x in h.elements(c['read'])]
			except Exception as exc:
				o['via'] = {'err': _exc(exc)}
			o['again'] = bytes(e) == wire
			return o
		except Exception as exc:
			return {'err': _exc(exc)}
	if k == 'parse':
		raw = bytes.fromhex(c['s'])
		td = {}
		_td(raw, td)
		cls = c['cls']
		if cls == 'cookie' and c.get('set'):
			cls = 'setcookie'
		o = _parse(cls, raw)
		again = _parse(cls, raw)
		o['again'] = again == dict((a, b) for a, b in o.items())
		o['td'] = td
		return o
	if k == 'parselist':
		raw = bytes.fromhex(c['v'])
		cls = I[c['lcls']]
		field = {'generic': 'X-List', 'cookie': 'Cookie', 'setcookie': 'Set-Cookie'}[c['lcls']]
		td = {}
		try:
			pieces = cls.split(raw)
		except Exception as exc:
			return {'err': _exc(exc)}
		for p in pieces:
			_td(p, td)
		elems = [_parse(c['lcls'], p) for p in pieces] if raw else []
		h = I['Headers']()
		dict.__setitem__(h, field, raw)
		try:
			via = [_elem_obs(e, c['lcls']) for e in h.elements(field)]
		except Exception as exc:
			via = {'err': _exc(exc)}
		return {'pieces': [p.hex() for p in pieces], 'elems': elems, 'via': via, 'td': td}
	if k == 'rt_list':
		cls = I[c['lcls']]
		field = {'generic': 'X-List', 'cookie': 'Cookie', 'setcookie': 'Set-Cookie'}[c['lcls']]
		try:
			built = [_build(e, c['lcls'] if c['lcls'] != 'generic' else 'cookie') for e in c['elems']]
			wire = cls.join([bytes(e) for e in built])
		except Exception as exc:
			return {'err': _exc(exc)}
		h = I['Headers']()
		h[field] = wire
		try:
			back = [_elem_obs(e, c['lcls']) for e in h.elements(field)]
		except Exception as exc:
			back = {'err': _exc(exc)}
		return {'wire': wire.hex(), 'back': back, 'built': [_elem_obs(e, c['lcls']) for e in built]}
	raise ValueError(k)


# ------------------------------------------------------------------ Coq literals
def cps(t):
	return L([N(ord(ch)) for ch in t], 'N')


def cpval(v):
	if v is None:
		return 'PNone'
	if 'b' in v:
		return '(PB %s)' % X(bytes.fromhex(v['b']))
	return '(PT %s)' % cps(v['t'])


def ohex(x):
	return opt(None if x is None else X(bytes.fromhex(x)), 'bytes')


def ctd(td):
	return L([P(X(bytes.fromhex(a)), ohex(b)) for a, b in sorted(td.items())], '(bytes * option bytes)')


def cpairs(ps):
	return L([P(X(bytes.fromhex(a)), X(bytes.fromhex(b))) for a, b in ps], '(bytes * bytes)')


def cpresult(o):
	if o.get('err') == 'invalid':
		return 'PInvalid'
	if o.get('err') == 'unicode':
		return 'PUnicode'
	if 'err' in o:
		return None
	ck = 'None'
	if 'cookie' in o:
		ck = '(Some %s)' % P(X(bytes.fromhex(o['cookie'][0])), X(bytes.fromhex(o['cookie'][1])))
	return '(PElem %s %s %s)' % (X(bytes.fromhex(o['value'])), ck, cpairs(o['params']))


def _known_charsets():
	from harness.tables.element import CHARSET_CANDIDATES
	return set(c.encode('latin-1') for c in CHARSET_CANDIDATES)


def _ext_charsets_ok(raw):
	"""every charset named by an extended parameter in raw is in the regenerated alias table"""
	import re
	known = _known_charsets()
	for m in re.finditer(rb"\*\s*=\s*([^';]*)'", raw):
		if m.group(1) not in known:
			return False
	return True


def _td_charsets_ok(td):
	"""the RFC 2047 path re-encodes the element as UTF-8 before the parameters are parsed: charset names are then looked up in that form"""
	return all(v is None or _ext_charsets_ok(bytes.fromhex(v)) for v in td.values())


def _bytes_boundary(c):
	return any(k == 'boundary' and v is not None and 'b' in v for k, v in c['params'])


def coq_case(c, o):
	k = c['k']
	if 'harness_exception' in o:
		return 'CBad'
	if k == 'format':
		if str(o.get('err', '')).startswith('escape'):
			return 'CBad'
		out = 'None' if o.get('err') == 'unicode' else ohex(o['out'])
		return 'CFormat %s %s %s %s' % (B(c['cookie']), X(c['name'].encode('utf-8')), cpval(c['v']), out)
	if c.get('nocoq') or k in ('seq', 'alt', 'charset', 'reg', 'alias', 'types', 'refuse', 'apl'):
		return None
	if k in ('compose', 'rt'):
		if c['cls'] == 'ctype' and _bytes_boundary(c):
			return None
		if str(o.get('err', '')).startswith('escape'):
			return 'CBad'
		out = {'invalid': 'CInvalid', 'unicode': 'CUnicode'}.get(o.get('err')) or '(COk %s)' % X(bytes.fromhex(o['out']))
		ps = L([P(X(a.encode('utf-8')), cpval(v)) for a, v in c['params']], '(bytes * pval)')
		t = ['CCompose %s %s %s %s %s %s' % (COQ_CLS[c['cls']], cps(c['value']), cps(c['cookie'][0]), cps(c['cookie'][1]), ps, out)]
		if k == 'rt' and 'back' in o:
			pr = cpresult(o['back'])
			t.append('CBad' if pr is None else 'CParse %s %s %s %s' % (ctd(o['td']), COQ_CLS[c['cls']], X(bytes.fromhex(o['out'])), pr))
		return t
	if k == 'parse':
		raw = bytes.fromhex(c['s'])
		if not _ext_charsets_ok(raw) or not _td_charsets_ok(o.get('td', {})):
			return None
		pr = cpresult(o)
		return 'CBad' if pr is None else 'CParse %s %s %s %s' % (ctd(o['td']), COQ_CLS[c['cls']], X(raw), pr)
	if k == 'parselist':
		if 'err' in o:
			return 'CBad'
		raw = bytes.fromhex(c['v'])
		t = ['CSplitList %s %s %s' % (LCLS[c['lcls']], X(raw), L([X(bytes.fromhex(p)) for p in o['pieces']], 'bytes'))]
		if _ext_charsets_ok(raw) and _td_charsets_ok(o.get('td', {})):
			prs = [cpresult(e) for e in o['elems']]
			t.append('CBad' if any(p is None for p in prs) else 'CParseList %s %s %s %s' % (ctd(o['td']), LCLS[c['lcls']], X(raw), L(prs, 'presult')))
		return t
	return None


# ------------------------------------------------------------------ oracle
def _expect_params(c):
	out = {}
	for k, v in c['params']:
		pv = _pv(v)
		out[k.encode('utf-8').hex()] = _u8('' if pv is None else (pv.decode('latin-1') if isinstance(pv, bytes) else pv))
	return out


def _cmp_elem(c, built, back, what):
	"""the parsed element must equal the element that was built through the API, and its parameters what the caller passed"""
	if isinstance(back, dict) and back.get('err'):
		return '%s: parsing the composed element raised %s' % (what, back['err'])
	if back['value'] != built['value']:
		return '%s: element value differs after compose and parse: built %s parsed %s' % (what, built['value'], back['value'])
	if back.get('cookie') != built.get('cookie'):
		return '%s: cookie name/value differ after compose and parse: built %r parsed %r' % (what, built.get('cookie'), back.get('cookie'))
	want = _expect_params(c)
	if c['cls'] == 'ctype' and 'boundary' in dict(c['params']):
		want[b'boundary'.hex()] = dict(built['params'])[b'boundary'.hex()]
	got = dict((a, b) for a, b in back['params'])
	if got != want or len(got) != len(back['params']):
		return '%s: parameters differ after compose and parse: passed %s parsed %s' % (what, json.dumps(want, sort_keys=True), json.dumps(back['params']))
	return None


# ------------------------------------------------------------------ oracle (wave 5)
def _want5(cls, value, cookie, params):
	"""what must come back: the element value (a disposition type in lower case), the cookie pair, the parameters in the order they were given"""
	w = {'value': _u8(value), 'params': [[n.encode('utf-8').hex(), _u8(t)] for n, t in params]}
	if cls == 'cookie':
		w['value'] = _u8('%s=%s' % tuple(cookie))
		w['cookie'] = [_u8(cookie[0]), _u8(cookie[1])]
	return w


def _cmp5(want, got, what):
	if isinstance(got, dict) and got.get('err'):
		return '%s: raised %s' % (what, got['err'])
	if got['value'] != want['value'] or got.get('cookie') != want.get('cookie'):
		return '%s: element value differs: expected %s %r got %s %r' % (what, want['value'], want.get('cookie'), got['value'], got.get('cookie'))
	if dict((a, b) for a, b in got['params']) != dict((a, b) for a, b in want['params']) or len(got['params']) != len(want['params']):
		return '%s: parameters differ: expected %s got %s' % (what, json.dumps(want['params'])[:600], json.dumps(got['params'])[:600])
	if [a for a, b in got['params']] != [a for a, b in want['params']]:
		return '%s: the order of the parameters is not the order in which they were given: expected %s got %s' % (what, json.dumps([a for a, b in want['params']])[:300], json.dumps([a for a, b in got['params']])[:300])
	return None


def _ref_apply5(ref, st):
	"""the same change on the reference data: ref = {'value', 'cookie', 'params': OrderedDict name -> text}"""
	op = st[0]
	p = ref['params']
	if op == 'set':
		p[st[1]] = st[2]['t']
	elif op in ('del', 'pop'):
		del p[st[1]]
	elif op == 'update':
		for n, v in st[1]:
			p[n] = v['t']
	elif op == 'setdefault':
		p.setdefault(st[1], st[2]['t'])
	elif op == 'clear':
		p.clear()
	elif op == 'attr':
		p[st[1]] = st[2]
	elif op == 'value':
		ref['value'] = st[1]
	elif op == 'cookie':
		ref['cookie'] = [st[1], st[2]]


def _alias_oracle(c, o):
	from collections import OrderedDict
	mk = lambda value, cookie: {'value': value, 'cookie': list(cookie), 'params': OrderedDict((n, v['t']) for n, v in c['params'])}
	refs = {'A': mk(c['value'], c['cookie']), 'B': mk(c['value2'], c['cookie2'])}
	arg = [[n, v['t']] for n, v in c['params']]
	for st in c['steps']:
		if st[0] != 'arg':
			_ref_apply5(refs[st[0]], st[1:])
		elif st[1] == 'set':
			arg.append([st[2], st[3]['t']])
		elif st[1] == 'delfirst':
			arg.pop(0)
		else:
			del arg[:]
	what = 'two elements from one argument object (%s of type %s; second element from %s), after %s' % (c['cls'], c['ptype'], c['src'], json.dumps(c['steps'])[:300])
	wants = {}
	for x in 'AB':
		wants[x] = _want5(c['cls'], refs[x]['value'], refs[x]['cookie'], refs[x]['params'].items())
		f = _cmp5(wants[x], o[x]['back'], '%s: element %s serialised and parsed (wire %s)' % (what, x, o[x]['out'][:300]))
		if f:
			return f
	if 'arg' in o:
		want = [[n.encode('utf-8').hex(), _u8(t)] for n, t in arg]
		if o['arg'] != want:
			return '%s: the argument object was changed by the elements built from it (or not changed by its owner): expected %s, holds %s' % (what, json.dumps(want)[:300], json.dumps(o['arg'])[:300])
	if 'list' in o:
		if isinstance(o['list'], dict) or len(o['list']) != 2:
			return '%s: both elements appended to one list field: %s' % (what, json.dumps(o['list'])[:300])
		for x, got in zip('AB', o['list']):
			f = _cmp5(wants[x], got, '%s: element %s as member of a list field' % (what, x))
			if f:
				return f
	return None


def _types_oracle(c, o):
	what = 'element built with build=%s from parameters of type %s (keys %s, values %s), subclass %s' % (c['build'], c['ptype'], c['kt'], c['vt'], c.get('sub'))
	want = _want5(c['cls'], c['value'], c['cookie'], [(n, v['t']) for n, v in c['params']])
	f = _cmp5(want, o['back'], '%s: parsed from %s (wire %s)' % (what, c['parse_as'], o['out'][:300]))
	if f:
		return f
	if not o.get('backtype') or not o.get('given'):
		return '%s: parse() of a subclass returns another class, or changed its argument: %r %r' % (what, o.get('backtype'), o.get('given'))
	if o['out'] != o['ref'] and not (c.get('sub') == 'qp' and any(ord(ch) > 127 for ch in c['value'])):
		return '%s: serialises differently from the same data given as a dict of str to the constructor: %s, reference %s' % (what, o['out'][:300], o['ref'][:300])
	return None


def _refuse_oracle(c, o):
	from collections import OrderedDict
	for i, l in enumerate(o['log']):
		if not l['same']:
			return 'element after a refused / empty call (%s, raised %s; calls %s): the element is no longer what it was: %s' % (l['op'], l['raised'], json.dumps(c['ops'])[:200], l['wire'][:300])
	ref = {'value': c['value'], 'cookie': list(c['cookie']), 'params': OrderedDict((n, v['t']) for n, v in c['params'])}
	_ref_apply5(ref, c['then'][1:])
	what = 'element used after calls that raised (%s)' % (json.dumps([[l['op'], l['raised']] for l in o['log']])[:200],)
	f = _cmp5(_want5(c['cls'], ref['value'], ref['cookie'], ref['params'].items()), o['back'], '%s (wire %s)' % (what, o['out'][:300]))
	if f:
		return f
	if o['out'] != o['twin']:
		return '%s: serialises differently from an element on which the refused calls were never made: %s, twin %s' % (what, o['out'][:300], o['twin'][:300])
	return None


def _apl_oracle(c, o):
	what = 'list field %s built member by member (path %s, members added as %s, in between %s)' % (c['field'], c['path'], json.dumps(c['how']), json.dumps(c['inter']))
	wants = [_want5(m['cls'], m['value'], m['cookie'], [(n, v['t']) for n, v in m['params']]) for m in c['elems']]
	for key, how in (('got', 'read through Headers.elements'), ('got2', 'composed as a header block, parsed and read through Headers.elements')):
		got = o[key]
		if isinstance(got, dict):
			return '%s, %s: raised %s (field value %s)' % (what, how, got['err'], o['raw'][:400])
		if len(got) != len(wants):
			return '%s, %s: %d members were added, %d come back (field value %s)' % (what, how, len(wants), len(got), o['raw'][:400])
		for i, (w, g) in enumerate(zip(wants, got)):
			f = _cmp5(w, g, '%s, %s: member %d (field value %s)' % (what, how, i, o['raw'][:400]))
			if f:
				return f
	start = c['cut'] if c['path'] == 'mixed' else 0
	others = sorted(['X-Other-%d' % i, (b'x%d' % i).hex()] for i in range(start, len(c['elems'])) if c['inter'][i] == 'other')
	if o['others'] != others:
		return '%s: the other fields of the header set: expected %s, holds %s' % (what, json.dumps(others), json.dumps(o['others'])[:300])
	return None


def oracle(c, o):
	k = c['k']
	if 'harness_exception' in o or str(o.get('err', '')).startswith('escape'):
		return 'unexpected exception: %s' % (json.dumps(o)[:300],)
	if k == 'parse' and str(o.get('err', '')).startswith('escape'):
		return 'unexpected exception: %s' % (o['err'],)
	if 'skip' in o:
		return None
	if k == 'parse' and o.get('again') is False:
		return 'parsing the same octets a second time gives another result (state kept between uses): %s' % c['s']
	if k == 'rt':
		if 'err' in o:
			return None if o['err'] in ('invalid', 'unicode') and not _in_domain(c) else 'element in the property domain cannot be composed: %s' % o['err']
		f = _cmp_elem(c, o['built'], o['back'], 'single element')
		if f:
			return f
		if 'again' in o and o['again'] != [True, True, True, True]:
			return 'single element used twice: [second bytes() equal, second parse equal, second object from the same data equal, object unchanged by bytes()] = %r (wire %s)' % (o['again'], o['out'][:400])
		return None
	if k == 'alt':
		if o.get('again') is False:
			return 'parsing the same octets a second time gives another result (state kept between uses): %s' % o['out'][:400]
		built = {'value': _u8(c['value']), 'params': []}
		if c['cls'] == 'cookie':
			built = {'value': _u8('%s=%s' % tuple(c['cookie'])), 'cookie': [_u8(c['cookie'][0]), _u8(c['cookie'][1])], 'params': []}
		if c['cls'] == 'disp':
			built['value'] = _u8(c['value'].lower())
		f = _cmp_elem(c, built, o['back'], 'single element written by another sender (token / quoted-string / extended value, other letter case and whitespace)')
		return f + ' (wire %s)' % o['out'][:600] if f else None
	if k == 'charset':
		want = {'value': _u8('v'), 'params': [[b'a'.hex(), _u8(o['t'])], [b'b'.hex(), _u8('y')]]}
		if o['back'] != want:
			return 'extended parameter in the registered charset %r is not decoded to the text that was encoded: wire %s parsed %s' % (c['enc'], o['out'], json.dumps(o['back'])[:300])
		return None
	if k == 'reg':
		if 'err' in o:
			return 'registered element class %s: composing raised %s' % (c['field'], o['err'])
		cc = {'cls': 'generic', 'params': c['params']}
		f = _cmp_elem(cc, o['built'], o['back'], 'element of the registered class %s' % c['field'])
		if f:
			return f + ' (wire %s)' % o['out'][:400]
		via = o['via']
		if isinstance(via, dict) or len(via) != 1:
			return 'element of the registered class %s read through Headers.elements(%r): %s (wire %s)' % (c['field'], c['read'], json.dumps(via)[:300], o['out'][:400])
		f = _cmp_elem(cc, o['built'], via[0], 'element of the registered class %s read through Headers.elements(%r)' % (c['field'], c['read']))
		if f:
			return f + ' (wire %s)' % o['out'][:400]
		if not o['again']:
			return 'element of the registered class %s serialises differently the second time' % c['field']
		return None
	if k in ('alias', 'types', 'refuse', 'apl'):
		if 'err' in o:
			return '%s: raised %s' % ({'alias': 'two elements built from one argument object', 'types': 'element built from another argument type', 'refuse': 'element used after a refused call', 'apl': 'list field built member by member'}[k], o['err'])
		return {'alias': _alias_oracle, 'types': _types_oracle, 'refuse': _refuse_oracle, 'apl': _apl_oracle}[k](c, o)
	if k == 'seq':
		if 'err' in o:
			return 'one element object, changed between two serialisations: raised %s' % o['err']
		return _seq_oracle(c, o)
	if k == 'rt_list':
		if 'err' in o:
			return 'list in the property domain cannot be composed: %s' % o['err']
		back = o['back']
		if isinstance(back, dict):
			return 'list of elements: reading the joined field raised %s (wire %s)' % (back['err'], o['wire'])
		if len(back) != len(c['elems']):
			return 'list of elements: %d elements joined, %d read back (wire %s)' % (len(c['elems']), len(back), o['wire'])
		for e, bu, ba in zip(c['elems'], o['built'], back):
			f = _cmp_elem(e, bu, ba, 'list of elements')
			if f:
				return f + ' (wire %s)' % o['wire']
	return None


def _seq_oracle(c, o):
	"""reference: the data the caller put into the object, step by step; after every serialisation the octets must parse back to exactly that, and must be
	the octets a fresh object built from the same data gives"""
	from collections import OrderedDict
	value, cookie = c['value'], list(c['cookie'])
	params = OrderedDict()
	for n, v in c['params']:
		params[n] = _pv(v) or ''
	if c['cls'] == 'cookie':
		value = '%s=%s' % tuple(cookie)
	sers = iter(o['sers'])
	for i, st in enumerate(c['steps']):
		op = st[0]
		if op == 'set':
			params[st[1]] = _pv(st[2])
		elif op in ('del', 'pop'):
			del params[st[1]]
		elif op == 'update':
			for n, v in st[1]:
				params[n] = _pv(v)
		elif op == 'setdefault':
			params.setdefault(st[1], _pv(st[2]))
		elif op == 'newparams':
			params = OrderedDict((n, _pv(v)) for n, v in st[1])
		elif op == 'clear':
			params = OrderedDict()
		elif op == 'attr':
			if st[1] in ('charset', 'version', 'boundary'):
				params[st[1]] = st[2]
			elif st[1] == 'type':
				value = '%s/%s' % (st[2], value.split('/', 1)[1])
			else:
				value = '%s/%s' % (value.split('/', 1)[0], st[2])
		elif op == 'value':
			value = st[1]
		elif op == 'cookie':
			cookie = [st[1], st[2]]
			value = '%s=%s' % tuple(cookie)
		elif op == 'ser':
			ob = next(sers)
			what = 'one element object, step %d (%s after %s)' % (i, st[1], json.dumps(c['steps'][:i])[:300])
			built = {'value': _u8(value), 'params': []}
			if c['cls'] == 'cookie':
				built['cookie'] = [_u8(cookie[0]), _u8(cookie[1])]
			cc = {'cls': c['cls'], 'params': [[n, {'t': t}] for n, t in params.items()]}
			if c['cls'] == 'ctype' and 'boundary' in params:
				built['params'] = [[b'boundary'.hex(), _u8(params['boundary'])]]
			f = _cmp_elem(cc, built, ob['back'], what)
			if f:
				return f + ' (wire %s)' % ob['out'][:400]
			if ob['again'] != ob['out']:
				return '%s: serialised twice in a row the object gives different octets: %s then %s' % (what, ob['out'][:300], ob['again'][:300])
			if ob['fresh'] != ob['out']:
				return '%s: the object serialises differently from a fresh element built from the same value and parameters (state kept between uses): %s, fresh %s' % (what, ob['out'][:300], json.dumps(ob['fresh'])[:300])
	return None


def _in_domain(c):
	return True


def _texts(c):
	els = c['elems'] if c['k'] == 'rt_list' else [c]
	for e in els:
		for k, v in e['params']:
			pv = _pv(v)
			if isinstance(pv, bytes):
				pv = pv.decode('latin-1')
			yield e, k, pv or ''


WS = ' \t\n\r\x0b\x0c'


def _sep_before_quotes(t, seps, parity):
	"""t contains one of seps at a place where the number of double quotes that follow it inside t has the given parity"""
	return any(ch in seps and t[i + 1:].count('"') % 2 == parity for i, ch in enumerate(t))


def d17_value(t, in_list):
	"""D17 as a predicate: exactly the ASCII values (no leading/trailing whitespace) that the generic quoting of the pinned tree does not bring back.
	Established by exhaustive enumeration of every value of up to 6 characters over {a, space, ", \\, ;, =, comma} alone, of every pair of values of up to
	3 characters in two parameters of one element and in two elements of a list, and of every value of up to 5 characters in lists of one and three
	elements (predicate and oracle agree on all of them; the other values with double quotes, e.g. "xyzzy", a""b or a;"b", do come back):
	 * an odd number of double quotes (RE_PARAMS / RE_SPLIT count the escaped quote: the separator in front of the parameter is no longer seen),
	 * a backslash directly in front of a backslash or of a double quote (the unescape regex drops one backslash of every run: a run of n in the value is
	   2n or 2n+1 on the wire and 2n-1 or 2n after unescaping, which is n only for a single backslash that does not precede a quote),
	 * a semicolon (in a list field also a comma) that is followed, inside the value, by an odd number of double quotes (with the closing quote the
	   count to the end of the element is even and the regex splits there)."""
	return t.count('"') % 2 == 1 or '\\\\' in t or '\\"' in t or _sep_before_quotes(t, ';,' if in_list else ';', 1)


def d33_value(t, in_list):
	"""D33 as a predicate: exactly the non-empty ASCII attribute values a cookie element (never quoted) does not bring back; same enumeration as d17_value
	for Cookie elements and Set-Cookie lists: an odd number of double quotes, a double quote at both ends (taken for a quoted-string), a semicolon
	(in a Set-Cookie list also a comma) followed inside the value by an even number of double quotes, surrounding whitespace. Backslashes are harmless."""
	return t.count('"') % 2 == 1 or (len(t) > 1 and t[0] == '"' == t[-1]) or _sep_before_quotes(t, ';,' if in_list else ';', 0) or t != t.strip(WS)


def expires_value(t, swallows):
	"""expires=<t> inside a Set-Cookie list (ASCII, non-empty). SetCookie.split rewrites expires=([^"][^;]+) to expires="..." before splitting.
	swallows: the attribute is the last one of a cookie that is followed by another cookie (the rewrite then runs into the next cookie).
	Not rewritten (t opens with a double quote, is a single character with nothing to run into, or has a semicolon second) -> the D33 class;
	rewritten -> D34 exactly when the rewrite runs into the next cookie, or the value has a semicolon after its first character, an odd number of double
	quotes, any backslash (the quoted-string unescaping drops one of every run), or a comma followed inside the value by an odd number of double quotes.
	Enumerated over every value of up to 5 characters of the same alphabet in four positions (alone, before a cookie, before an attribute, in the last cookie)."""
	rewritten = t[0] != '"' and (len(t) > 1 or swallows) and t[1:2] != ';'
	if not rewritten:
		return 'D33-cookie-params-never-quoted' if d33_value(t, True) else None
	if swallows or ';' in t[1:] or t.count('"') % 2 == 1 or '\\' in t or _sep_before_quotes(t, ',', 1):
		return 'D34-setcookie-expires-rewrite'
	return None


def classify(c, o, fail):
	if c['k'] not in ('rt', 'rt_list', 'alt'):
		return None
	wire = bytes.fromhex(o.get('out') or o.get('wire') or '')
	if b'=?' in wire:
		return 'D16-element-contains-encoded-word'
	in_list = c['k'] == 'rt_list'
	for e, k, t in _texts(c):
		ascii_ = all(ord(ch) < 128 for ch in t)
		if e['cls'] == 'cookie' and ascii_ and t:
			if in_list and c['lcls'] == 'setcookie' and k.lower() == 'expires':
				fid = expires_value(t, e is not c['elems'][-1] and k == e['params'][-1][0])
				if fid:
					return fid
			elif d33_value(t, in_list):
				return 'D33-cookie-params-never-quoted'
		if e['cls'] != 'cookie' and ascii_ and d17_value(t, in_list):
			return 'D17-param-dquote-or-backslash-pair'
		if not ascii_ and any(ord(ch) < 0x10 for ch in t):
			return 'D1-percent-low-octet-ext-param'
	return None


def nontrivial(c, o):
	return (c['k'], json.dumps({a: b for a, b in c.items() if not a.startswith('_')}, sort_keys=True))


LEVEL_TEXT = ('Machine-checked Coq theorems about Gallina models of formatparam / compose and parseparams / parseparam / unescape_param / RFC 2231-5987 assembly, '
	'for values and parameter lists of any length: compose then parse returns the element value and exactly the parameters under boolean hypotheses (no double quote, '
	'no backslash pair, no octet below 0x10 in non-ASCII values on the pinned tree), with refuting witnesses for each excluded class; a separator inside a quoted '
	'value never splits; joined lists split back into their elements. The model is tied to /repo on every run: tables regenerated, ~10k model-vs-implementation '
	'evaluations inside Coq, round-trip oracle on the real classes.')
LEVEL_NOTE = ('Trusted: Coq kernel + vm_compute; T1 generators and the T2 harness; email.header.decode_header and non-listed codecs are Section parameters; regexes are '
	'modelled by hand-written recognisers with pinned pattern text. No axioms.')
TECHNIQUE = 'Coq proof by induction over octet lists and parameter lists on a Gallina model + vm_compute correspondence against the implementation'

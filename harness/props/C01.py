"""C01 -- parser results do not depend on how the byte stream is fragmented."""
import json

from harness import streams
from harness.props import _parser_common as pc

ID = 'C01'
PROPS = 'Props/C01.v'
TABLES = pc.TABLES
COQ_HEADER = pc.COQ_HEADER
COQ_CHECK = pc.COQ_CHECK
CORR_VO = pc.CORR_VO
RULE = ('streams from a grammar of 1-3 requests/responses (all target forms, header casing/OWS/continuations/repeats, Content-Length and chunked bodies with '
	'extensions and trailers, binary bodies) plus a mutation stream; each stream is fed under several fragmentations (whole, per octet, cuts before and after '
	'every CR/LF, random cuts); T2 compares every parse() call of every fragmentation with the Gallina model inside Coq (callee tables recorded, T3); the oracle '
	'compares the fragmentations of one stream with each other on the real parser. non-trivial = distinct stream that delivers a message or raises')
EXHAUSTIVE = {'quick': False, 'thorough': False}
TRUSTED = pc.TRUSTED_COMMON
ASSUMPTIONS = ['the connection is abandoned after the first error (observations stop there)', 'client machine: .request is a GET request (API precondition)']
D13 = 'D13-411-buffer-peek'
D14 = 'D14-lf-line-end-mode'
D34 = 'D34-truncated-header-error-timing'
WITNESSES = [
	(D13, {'k': 'frag', 'kind': 'server', 's': b'GET / HTTP/1.1\r\nHost: x\r\n\r\nGET / HTTP/1.1\r\nHost: x\r\n\r\n'.hex(), 'cuts': [[], list(range(1, 52))]}),
	(D14, {'k': 'frag', 'kind': 'server', 's': b'GET / HTTP/1.1\nHost: x\r\n\r\n'.hex(), 'cuts': [[], list(range(1, 26))]}),
	(D34, {'k': 'frag', 'kind': 'server', 's': b'GET / HTTP/1.1\r\nBad\r\nX\r\n Y'.hex(), 'cuts': [[], [22]]}),
]


def _gen_cases(rng, tier):
	cases = []
	n = 2500 if tier == 'thorough' else 260
	for i in range(n):
		kind = 'server' if rng.random() < .55 else 'client'
		s = streams.gen_stream(rng, kind, mutate_p=.4)
		if len(s) > 700:
			s = s[:700]
		cuts = streams.fragmentations(rng, s, n_random=4 if tier == 'thorough' else 2)
		cases.append({'k': 'frag', 'kind': kind, 's': s.hex(), 'cuts': cuts})
	# every two-call fragmentation of pipelines with bodies (a later part of a body arriving together with the next message etc.)
	for i in range(400 if tier == 'thorough' else 24):
		kind = 'server' if rng.random() < .5 else 'client'
		gts, sers = streams.gen_wf(rng, kind, n=rng.randint(2, 3))
		s = b''.join(sers)
		if rng.random() < .3:
			s = streams.mutate(rng, s, 1)
		if len(s) > 500:
			s = s[:500]
		cases.append({'k': 'frag', 'kind': kind, 's': s.hex(), 'cuts': [[], list(range(1, len(s)))] + streams.single_cuts(s, None if tier == 'thorough' else 120)})
	# header sections with a field repeated on the wire (each with its own join separator: Cookie '; ', others ', '), other fields in between,
	# continuation lines; every two-call fragmentation + per octet: a repeated field whose occurrences arrive in different calls
	rep_names = [b'Cookie', b'cookie', b'Foo', b'Accept', b'Set-Cookie', b'WWW-Authenticate', b'Via']
	for i in range(60 if tier == 'thorough' else 6):
		kind = 'server' if i % 2 == 0 else 'client'
		a, b2 = rng.choice(rep_names), rng.choice(rep_names)
		lines = [a + b': a=1', b2 + b': x', rng.choice([a, a.upper(), a.lower()]) + b': b=2', b'Other: o', rng.choice([b2, b2.upper()]) + b':y', a + b': c=3']
		if rng.random() < .5:
			lines.insert(rng.randrange(1, len(lines)), b' folded')
		if rng.random() < .5:
			rng.shuffle(lines)
			if lines[0].startswith(b' '):
				lines.append(lines.pop(0))
		head = (b'GET / HTTP/1.1\r\nHost: h\r\n' if kind == 'server' else b'HTTP/1.1 200 OK\r\nContent-Length: 0\r\n')
		s = head + b'\r\n'.join(lines) + b'\r\n\r\n'
		cases.append({'k': 'frag', 'kind': kind, 's': s.hex(), 'cuts': [[], list(range(1, len(s)))] + streams.single_cuts(s, None if tier == 'thorough' else 90)})
	# stray line ends around well-formed messages (before the first start line, between pipelined messages, after the last one): whatever the
	# machine does with them, it must do the same when CR and LF arrive in different calls
	for i in range(40 if tier == 'thorough' else 4):
		kind = 'server' if i % 2 == 0 else 'client'
		gts, sers = streams.gen_wf(rng, kind, n=2)
		sers = [x for x in sers if len(x) < 220] or [b'GET / HTTP/1.1\r\nHost: h\r\n\r\n' if kind == 'server' else b'HTTP/1.1 200 OK\r\nContent-Length: 0\r\n\r\n']
		stray = rng.choice([b'\r\n', b'\r\n\r\n', b'\n', b'\r\n'])
		where = i % 4
		if where == 0:
			s = stray + b''.join(sers)
		elif where == 1:
			s = sers[0] + stray + b''.join(sers[1:] or sers[:1])
		elif where == 2:
			s = b''.join(sers) + stray
		else:
			s = stray + sers[0] + stray + b''.join(sers[1:]) + stray
		cases.append({'k': 'frag', 'kind': kind, 's': s.hex(), 'cuts': [[], list(range(1, len(s)))] + streams.single_cuts(s, None if tier == 'thorough' else 90)})
	# directed error paths (measured gaps of the random streams: see impl_statement_coverage in the evidence): the error must not depend on the cut
	import gzip
	gz = gzip.compress(b'hello world', mtime=0)
	directed = [
		('server', b'POST / HTTP/1.1\r\nHost: h\r\nTransfer-Encoding: chunked\r\n\r\n5\r\nhelloXX\r\n0\r\n\r\n'),
		('server', b'POST / HTTP/1.1\r\nHost: h\r\nTransfer-Encoding: chunked\r\n\r\n-1\r\nhello\r\n0\r\n\r\n'),
		('server', b'POST / HTTP/1.1\r\nHost: h\r\nTransfer-Encoding: chunked\r\n\r\n1\r\na\r\n0\r\nBad Trailer\r\n\r\n'),
		('server', b'POST / HTTP/1.1\r\nHost: h\r\nContent-Length: -5\r\n\r\nhello'),
		('server', b'POST / HTTP/1.1\r\nHost: h\r\nContent-Encoding: gzip\r\nContent-Length: %d\r\n\r\n' % len(gz) + gz[:12] + b'XX' + gz[14:] + b'GET / HTTP/1.1\r\nHost: h\r\n\r\n'),
		('client', b'HTTP/1.1 200 OK\r\nContent-Encoding: deflate\r\nContent-Length: 5\r\n\r\nhelloHTTP/1.1 204 No Content\r\n\r\n'),
		('client', b'HTTP/1.1 200 OK\r\nContent-Encoding: gzip\r\nTransfer-Encoding: chunked\r\n\r\n%x\r\n' % len(gz) + gz + b'\r\n0\r\n\r\nHTTP/1.1 204 No Content\r\n\r\n'),
		('client', b'HTTP/1.1 200 OK\r\nTransfer-Encoding: chunked\r\nTrailer: X\r\n\r\n1\r\na\r\n0\r\nY: untold\r\n\r\n'),
		('server', b'GET / HTTP/1.1\r\nHost: h\r\nConnection: Upgrade, HTTP2-Settings\r\nUpgrade: h2c\r\nHTTP2-Settings: Zm9v\r\nContent-Length: 2\r\n\r\nPOST / HTTP/1.1\r\nHost: h\r\nContent-Length: 1\r\n\r\nx'),
		('server', b'GET ' + b'/a' * 600 + b' HTTP/1.1\r\nHost: h\r\n\r\n'),
		('client-connect', b'HTTP/1.1 200 OK\r\nContent-Length: 3\r\nTransfer-Encoding: chunked\r\n\r\nHTTP/1.1 407 Auth\r\nContent-Length: 2\r\n\r\nabHTTP/1.1 200 OK\r\n\r\n'),
		# white space other than SP inside the start line (what strip()/split() tolerate must be tolerated at every cut)
		('server', b'GET\x0b/ HTTP/1.1\r\nHost: h\r\n\r\nGET / HTTP/1.1\r\nHost: h\r\nContent-Length: 0\r\n\r\n'),
		('server', b'GET /\x0cHTTP/1.1\r\nHost: h\r\n\r\n'),
		('server', b'GET\t/\tHTTP/1.1 \r\nHost: h\r\n\r\n'),
		('server', b' GET  /  HTTP/1.1\r\nHost: h\r\n\r\n'),
		('client', b'HTTP/1.1\x0b200\x0cOK\r\nContent-Length: 0\r\n\r\nHTTP/1.1\t204\tNo Content\r\n\r\n'),
		# two things wrong in one message: which error is reported must not depend on the cuts
		('server', b'POST / HTTP/1.1\r\nHost: h\r\nTransfer-Encoding: gzip\r\nBad Line\r\n\r\nab'),
		('server', b'POST / HTTP/1.1\r\nHost: h\r\nBad Line\r\nTransfer-Encoding: gzip\r\n\r\nab'),
		('server', b'POST / HTTP/1.1\r\nTransfer-Encoding: gzip\r\nContent-Length: x\r\nX: y\r\n z\r\nBad\x00Name: v\r\n\r\nab'),
		('client', b'HTTP/1.1 200 OK\r\nTransfer-Encoding: foo\r\nContent-Length: -1\r\nNoColon\r\n\r\nab'),
		('server', b'GET /%zz HTTP/9.9\r\nHost: a b\r\nContent-Length: x\r\n\r\n'),
	]
	for kind, s in directed:
		cases.append({'k': 'frag', 'kind': kind, 's': s.hex(), 'cuts': [[], list(range(1, len(s)))] + streams.single_cuts(s, None if tier == 'thorough' else 50)})
	# header lines and folded fields at boundary lengths (limits an implementation might have or get: 255/256, 4 kB, 8190..8192, 16 kB):
	# whole, cut just before / inside / after the line end, and in coarse pieces
	lengths = [255, 256, 1023, 1024, 4095, 4096, 8188, 8189, 8190, 8191, 8192] + ([16383, 16384, 65535, 65536] if tier == 'thorough' else [])
	if tier != 'thorough':
		lengths = sorted(set(rng.sample([255, 256, 1023, 1024], 2) + rng.sample([4095, 4096, 8188, 8189, 8192], 1) + [8190, 8191]))
	for L in lengths:
		for kind, head, tail in (('server', b'GET / HTTP/1.1\r\nHost: h\r\n', b'GET /2 HTTP/1.1\r\nHost: h\r\n\r\n'), ('client', b'HTTP/1.1 200 OK\r\nContent-Length: 0\r\n', b'HTTP/1.1 204 No Content\r\n\r\n')):
			line = b'X-Long: ' + b'a' * (L - 8)
			s = head + line + b'\r\n\r\n' + tail
			e = len(head) + L
			cuts = [[], [e - 1], [e], [e + 1], [e + 2], [e + 3], [e + 1, e + 3], list(range(1000, len(s), 1000))] if tier == 'thorough' else [[], [e], [e + 1], [e + 2], list(range(2000, len(s), 2000))]
			cases.append({'k': 'frag', 'kind': kind, 's': s.hex(), 'cuts': [c for c in cuts if all(0 < x < len(s) for x in c)]})
			# the same total length as a folded field: physical lines of 60 octets
			n = max(1, (L - 8) // 62)
			folded = b'X-Fold: ' + b'\r\n '.join([b'b' * 60] * n)
			s = head + folded + b'\r\n\r\n' + tail
			e = len(head) + len(folded)
			cuts = [[], [e], [e + 1], [e + 2], [e + 3], list(range(997, len(s), 997))] if tier == 'thorough' else [[], [e + 1], list(range(1997, len(s), 1997))]
			if tier != 'thorough' and L not in (256, 1024, 8190, 8191) and kind == 'client':
				continue
			cases.append({'k': 'frag', 'kind': kind, 's': s.hex(), 'cuts': [c for c in cuts if all(0 < x < len(s) for x in c)]})
	# a request that asks for the connection to be closed, followed by more octets (pipelined request, garbage, truncated request)
	for follow in (b'GET /2 HTTP/1.1\r\nHost: h\r\n\r\n', b'GARBAGE\r\n\r\n', b'GET /3 HTTP/1.1\r\nHo', b'POST /4 HTTP/1.1\r\nHost: h\r\nContent-Length: 3\r\n\r\nabc'):
		for first in (b'GET / HTTP/1.1\r\nHost: h\r\nConnection: close\r\n\r\n', b'POST / HTTP/1.1\r\nHost: h\r\nconnection: Close\r\nContent-Length: 2\r\n\r\nab', b'GET / HTTP/1.0\r\n\r\n'):
			s = first + follow
			cases.append({'k': 'frag', 'kind': 'server', 's': s.hex(), 'cuts': [[], list(range(1, len(s)))] + streams.single_cuts(s, None if tier == 'thorough' else 25)})
	# boundary arithmetic: bodies of 2^k and 2^k +- 1 octets (Content-Length and chunks of exactly 2^j octets) followed by a second message;
	# fragments of exactly 512 / 4096 / 8192 octets, cuts at and around the block boundaries inside the body and at the message end
	for n, L in enumerate([4095, 4096, 8192, 8193, 16384] + ([1024, 4097, 8191, 32768, 65536, 65537] if tier == 'thorough' else [])):
		kind = ('server', 'client')[n % 2]
		gts, sers = streams.gen_wf(rng, kind, n=2, paylen=L, chunk_sizes=[rng.choice([1024, 4096, 8192])])
		s = b''.join(sers)
		e0 = len(sers[0])
		hd = sers[0].index(b'\r\n\r\n') + 4
		cuts = [[], list(range(4096, len(s), 4096)), list(range(8192, len(s), 8192)), list(range(512, len(s), 512)), [hd + 4096], [hd + 8192], [hd + L - 1], [hd + L], [e0 - 1], [e0], [e0 + 1], [hd, hd + 4096, hd + 8192]]
		cases.append({'k': 'frag', 'kind': kind, 's': s.hex(), 'cuts': [c for c in cuts if all(0 < x < len(s) for x in c)]})
	if tier == 'thorough':
		# all 2^(n-1) fragmentations of short streams over a message-skeleton alphabet
		skel = [b'GET / HTTP/1.1\r\n', b'Host:x\r\n', b'\r\n', b'A:b\r\n', b'Content-Length:2\r\n', b'ab', b'Transfer-Encoding:chunked\r\n', b'1\r\nz\r\n', b'0\r\n\r\n', b'HTTP/1.1 200 OK\r\n', b'\r', b'\n', b' c\r\n']
		tails = [b'\r\n\r\n', b'\r\nA:b\r\n\r\n', b'1\r\nz\r\n0\r\n\r\n', b'\r\n c\r\n\r\n', b'2\r\nab']
		for t in tails:
			for pre in (b'', b'x'):
				s = pre + t
				if len(s) <= 13:
					allcuts = []
					for mask in range(1 << (len(s) - 1)):
						allcuts.append([i + 1 for i in range(len(s) - 1) if mask >> i & 1])
					# the tail is fed after a fixed, already-consumed prefix: encode as a stream whose prefix is never cut
					for head, kind in ((b'POST / HTTP/1.1\r\nHost:x\r\nTransfer-Encoding:chunked', 'server'), (b'HTTP/1.1 200 OK\r\nContent-Length:2', 'client')):
						full = head + s
						cases.append({'k': 'frag', 'kind': kind, 's': full.hex(), 'cuts': [[len(head)] + [len(head) + c for c in cs] for cs in allcuts]})
	return cases


def gen_cases(rng, tier):
	cases = _gen_cases(rng, tier)
	# one in five client-side cases is read by a client machine whose request is a CONNECT (its successful responses lose their framing fields)
	for c in cases:
		if c.get('kind') == 'client' and rng.random() < .2:
			c['kind'] = 'client-connect'
	return cases


def observe(c):
	return pc.observe_stream(c['kind'], bytes.fromhex(c['s']), c['cuts'])


def coq_case(c, o):
	return pc.coq_parse_cases(dict(c, quiet_tie=True), o)


def oracle(c, o):
	"""fragmentations of one stream must agree (reference = the finest fragmentation present)"""
	runs = o['runs']
	for r in runs:
		for call in r['calls']:
			if isinstance(call.get('err'), str):
				return None  # escapes are C03's business; C01 compares HTTP-level results
	sums = [pc.summary(r) for r in runs]
	ref_i = max(range(len(runs)), key=lambda i: len(runs[i]['cuts']))
	ref = sums[ref_i]
	longest_i = max(range(len(runs)), key=lambda i: (len(sums[i][0]), i == ref_i))
	longest = sums[longest_i][0]
	for i, (d, e, left) in enumerate(sums):
		if i == ref_i:
			if e is not None and d != longest[:len(d)]:
				return 'messages delivered before the error are not a prefix of what another fragmentation (%s) delivered before the same error' % (runs[longest_i]['cuts'][:8],)
			continue
		if e != ref[1]:
			return 'first error differs between fragmentations: cuts=%s -> %r, cuts=%s -> %r' % (runs[i]['cuts'][:8], e, runs[ref_i]['cuts'][:8], ref[1])
		if e is None:
			if d != ref[0]:
				return 'delivered messages differ between fragmentations %s and %s' % (runs[i]['cuts'][:8], runs[ref_i]['cuts'][:8])
			if left != ref[2]:
				return 'leftover differs between fragmentations: %r vs %r' % (left, ref[2])
		else:
			# messages completed in the erroring call are not handed out: what a run delivered before the error must be a prefix of the
			# longest list any fragmentation delivered (normally the finest one's; not when the finest one present is no per-octet run and
			# another cut happens to separate the last good message from the erroring call)
			if d != longest[:len(d)]:
				return 'messages delivered before the error are not a prefix of what another fragmentation (%s) delivered before the same error' % (runs[longest_i]['cuts'][:8],)
	return None


def classify(c, o, fail):
	if any(r.get('raised_411') for r in o['runs']):
		return D13
	if any(r.get('lf_mode') for r in o['runs']):
		return D14
	if fail.startswith('first error differs'):
		# D34: one fragmentation already refused an invalid header line (400) while another is still waiting inside the
		# unfinished header section of the same message (it has not examined that line yet)
		sums = [pc.summary(r) for r in o['runs']]
		errs = set(e for d, e, l in sums)
		if errs == {None, 400} and all(r['final']['started'] and not r['final']['hdr_done'] for r in o['runs'] if 'final' in r) and len(set(len(d) for d, e, l in sums)) == 1:
			return D34
	return None


def nontrivial(c, o):
	d, e, left = pc.summary(o['runs'][0])
	if d or e is not None:
		return c['s']
	return None


LEVEL_TEXT = ('Machine-checked Coq theorems about a Gallina model of the whole incremental parse loop (start line, line-wise header parsing, Content-Length / chunked / trailer framing, hooks in '
	'their real order; sub-parsers are parameters, every theorem holds for every instantiation): (A) the reference machine (the three buffer-dependent shortcuts off) gives the same '
	'messages, first error and final state for EVERY fragmentation of every stream, equal to one call on the whole stream; (B) the line-wise (eager) header parsing is simulated by it, '
	'up to the timing of a 400 inside a truncated header section (finding D34); (C) the machine as implemented equals the eager one on every run in which neither the bare-LF fallback nor '
	'the 411 peek fires, and that condition is DISCHARGED for the client machine on every stream the reference machine parses completely into messages with LF-free start lines, and for the '
	'server machine when in addition the header hook of the run accepts framed header sections only; witnesses refute the unrestricted statement (D13, D14, D34). '
	'Tied to /repo by T1 tables and by comparing every parse() call of every generated fragmentation with the model inside Coq.')
LEVEL_NOTE = 'Trusted: Coq kernel + vm_compute, T1/T2/T3 harness, the callees listed as parameters. Known findings D13 (411 peek), D14 (LF mode), D34 (truncated-header error timing) are the exact complement of the proved statements.'
TECHNIQUE = 'Coq proof (induction over octet lists / fragment lists) on a Gallina parser model + in-Coq correspondence with recorded callee tables'

"""C05 -- composed output is a well-framed message whose framing headers tell the truth; composing is
repeatable and non-destructive."""
from harness import composer_rec as cr
from harness.coqfmt import B, L, N, X

ID = 'C05'
PROPS = 'Props/C05.v'
TABLES = ['HeadersT', 'StartLineT', 'ComposerT']
COQ_HEADER = 'From Httoop Require Import Model.Composer Corr.C05.'
COQ_CHECK = 'check'
CORR_VO = 'Corr/C05.vo'
RULE = ('T2: generated API-level requests and responses (all body source types, sizes 0 .. 3 blocks, chunked on/off, coding none/gzip/deflate, '
	'trailers, every status class, HEAD/TRACE, 1.0/1.1, caller-set headers incl. list-valued and priority fields) driven through random sequences of '
	'prepare / chunked-setter / compose on the real composer with a frozen clock; after every operation the header collection in dict order, the type and '
	'position of body.fd and the body chunked flag, and for compose the emitted octets, are compared with the Gallina model evaluated by vm_compute '
	'(content coders, Element.split and the codec lookup instantiated by the recorded tables, T3). Plus str(n)/%x for numbers, bytes(Headers), len/iter of bodies. '
	'Oracle (independent of the model): an RFC 7230 section 3 reader written from the RFC applied to the real output, payload compared with the content '
	'supplied, Date-masked equality of all outputs and header sets of one sequence, source content/position unchanged. '
	'non-trivial = distinct (kind, framing, source type, dropped?, coding, #ops) classes')
EXHAUSTIVE = {'quick': False, 'thorough': False}
TRUSTED = [
	'harness/tables/composer.py (T1: block size, safe/dated/TRACE methods, request defaults, bodiless statuses, STATUSES header_to_remove, Allow default, 416 Content-Range literal, closing statuses, Connection literals, header priorities, list-valued fields, D29 and D42 probes)',
	'harness/composer_rec.py (T2/T3: messages built through the public API, frozen time.time, wrappers around GZip.encode / Deflate.encode / Element.split installed in the harness process, canonicalisation of header collections as (name, raw value) lists in dict order)',
	'callees that are parameters of every theorem: content coders (zlib, gzip), Element.split of list-valued fields, codec lookup of a Content-Encoding value',
	'the request target (bytes(uri) inside relative_uri()), the Host value and bytes(Date()) are inputs of the composer model (URI: C10, Date: C15)',
	'the composer model covers Transfer-Encoding values absent / empty / exactly "chunked" and responses to requests without Range header (everything else is outside the model: prepare returns None)',
]
ASSUMPTIONS = [
	'body sources behave as the four-constructor state machine (BytesIO slice semantics, a file does not change on disk, a generator yields a fixed finite list) -- validated in T2 against real BytesIO, lists, generators and temp files',
	'the clock does not change during one compose (gzip member header mtime) -- the harness freezes time.time',
	'caller-set header names are non-empty tokens and values contain no CR/LF (API precondition: Headers does not validate values)',
]

D29 = {'k': 'resp', 'version': [1, 1], 'status': 200, 'reason': None, 'rmethod': 'HEAD', 'hdrs': [], 'body': {'t': 'bytes', 'items': ['68656c6c6f']},
	'coding': None, 'trailer': [], 'ops': [['ch', True], ['p', 1000], ['c']]}
D45 = {'k': 'resp', 'version': [1, 1], 'status': 200, 'reason': None, 'rmethod': 'HEAD', 'hdrs': [], 'body': {'t': 'bytes', 'items': ['68656c6c6f']},
	'coding': None, 'trailer': [], 'ops': [['p', 1000], ['c'], ['p', 1000], ['c']]}
D43 = {'k': 'req', 'version': [1, 1], 'method': 'POST', 'segs': ['', 'a'], 'query': None, 'host': 'example.com', 'hdrs': [],
	'body': {'t': 'bytes', 'items': ['68656c6c6f']}, 'coding': 'gzip', 'trailer': [], 'ops': [['p', 1000], ['c']]}
D46 = {'k': 'req', 'version': [1, 1], 'method': 'GET', 'segs': ['', 'a'], 'query': None, 'host': 'example.com', 'hdrs': [['Content-Length', '37']],
	'body': {'t': 'bytes', 'items': ['68656c6c6f']}, 'coding': None, 'trailer': [], 'ops': [['p', 1000], ['c']]}
WITNESSES = [('D29-bodiless-last-chunk', D29), ('D45-head-second-prepare', D45), ('D43-request-coding-content-length', D43), ('D46-request-stale-content-length', D46)]

METHODS_REQ = ['GET', 'HEAD', 'POST', 'PUT', 'DELETE', 'OPTIONS', 'TRACE', 'PATCH', 'SEARCH', 'get', 'M-SEARCH', 'X']
STATUSES = [100, 101, 199, 200, 201, 202, 204, 205, 206, 299, 301, 304, 400, 404, 405, 413, 416, 500, 503, 599]
HDR_POOL = [
	('X-Custom', ['a', 'b c', 'ä', '=?x', 'a,b', '1']), ('Accept', ['text/html', '*/*;q=0.5']), ('ETag', ['"abc"', 'W/"x"']),
	('Last-Modified', ['Sun, 06 Nov 1994 08:49:37 GMT']), ('Connection', ['close', 'keep-alive', 'Upgrade', 'Close']),
	('Cookie', ['a=b', 'a=b; c=d']), ('Set-Cookie', ['a=b', 'a=b, c=d', 'a=b; expires=Wed, 09 Jun 2021 10:18:14 GMT, c=d', 'x="1,2", y=3']),
	('WWW-Authenticate', ['Basic realm="x"', 'Basic realm="x", Digest realm="a,b", nonce="1"']),
	('Proxy-Authenticate', ['Basic realm="p"']), ('Server', ['srv/1.0']), ('Host', ['other.example', 'h:81']),
	('Content-Language', ['de', 'en, de']), ('Allow', ['GET']), ('Date', ['Thu, 01 Jan 1970 00:00:00 GMT']), ('Vary', ['*']),
	('Content-Type', ['application/octet-stream', 'text/html; charset=ISO8859-1']), ('User-Agent', ['ua/2']), ('Expires', ['0']),
	('Location', ['/x']), ('X-Forwarded-Host', ['f.example']), ('Content-MD5', ['Q2hlY2s=']), ('Zzz', ['last']), ('Aaa', ['first']),
	('Accept-Ranges', ['none']), ('Content-Range', ['bytes 0-1/2']), ('Trailer', ['X-T']), ('Content-Length', ['7']),
]


def rdata(rng, n):
	r = rng.random()
	if r < 0.4:
		return bytes(rng.randrange(256) for _ in range(n))
	if r < 0.7:
		return bytes(rng.choice(b'abc \r\n0;:') for _ in range(n))
	return bytes([rng.randrange(256)]) * n


def rbody(rng, tier):
	t = rng.choice(['bytes', 'bytearray', 'text', 'list', 'tuple', 'gen', 'bytesio', 'file', 'gen', 'list', 'bytesio'])
	r = rng.random()
	blk = 4096
	if r < 0.12:
		size = 0
	elif r < 0.75:
		size = rng.randint(1, 40)
	elif r < 0.8:
		size = rng.choice([255, 256, 4095])
	else:
		size = rng.choice([blk, blk + 1, 2 * blk, 2 * blk + 7, 3 * blk - 1]) if rng.random() < (0.6 if tier == 'thorough' else 0.25) else rng.randint(41, 300)
	b = {'t': t}
	if t in ('list', 'tuple', 'gen'):
		k = rng.randint(0, 4)
		if size == 0:
			items = [b''] * rng.randint(0, 2)
		else:
			cuts = sorted(rng.randint(0, size) for _ in range(k))
			data = rdata(rng, size)
			items = [data[a:c] for a, c in zip([0] + cuts, cuts + [size])]
		strs = []
		for i, it in enumerate(items):
			s = rng.random() < 0.2
			if s:
				try:
					it.decode('utf-8')
				except UnicodeDecodeError:
					s = False
			strs.append(s)
		b['items'] = [i.hex() for i in items]
		b['strs'] = strs
	elif t == 'text':
		alphabet = 'abc äö€\r\n\U0001f600'
		text = ''.join(rng.choice(alphabet) for _ in range(min(size, 2000)))
		b['items'] = [text.encode('utf-8').hex()]
	else:
		b['items'] = [rdata(rng, size).hex()]
		if t in ('bytesio', 'file'):
			b['pos'] = rng.choice([0, 0, size, rng.randint(0, size), size + 3])
	return b


def rhdrs(rng, kind):
	out = []
	seen = set()
	for _ in range(rng.choice([0, 1, 1, 2, 3, 5])):
		name, vals = rng.choice(HDR_POOL)
		if name in seen:
			continue
		if kind == 'req' and name in ('Accept-Ranges',):
			continue
		seen.add(name)
		v = rng.choice(vals)
		if rng.random() < 0.3:
			name = rng.choice([name.lower(), name.upper(), name])
		out.append([name, v.encode('latin-1').hex()])
	return out


def rops(rng):
	r = rng.random()
	if r < 0.25:
		ops = ['p', 'c']
	elif r < 0.5:
		ops = ['p', 'c', 'p', 'c']
	elif r < 0.6:
		ops = ['p', 'p', 'c', 'c']
	elif r < 0.65:
		ops = ['c']
	else:
		ops = ['p'] + [rng.choice(['p', 'c']) for _ in range(rng.randint(1, 5))]
	out = []
	ts = rng.choice([1000, 784111777, 1790000000])
	for o in ops:
		if o == 'p':
			out.append(['p', ts])
			if rng.random() < 0.5:
				ts += rng.choice([1, 61, 86400])
		else:
			out.append(['c'])
	if rng.random() < 0.4:
		out.insert(0, ['ch', True])
	elif rng.random() < 0.1:
		out.insert(0, ['ch', False])
	if rng.random() < 0.05:
		out.insert(rng.randint(1, len(out)), ['ch', rng.random() < 0.5])
	return out


def rmessage(rng, tier):
	kind = 'resp' if rng.random() < 0.55 else 'req'
	c = {'k': kind, 'version': rng.choice([[1, 1], [1, 1], [1, 1], [1, 0]]), 'hdrs': rhdrs(rng, kind), 'body': rbody(rng, tier),
		'coding': rng.choice([None, None, None, 'gzip', 'deflate']), 'trailer': [], 'ops': rops(rng)}
	if rng.random() < 0.04:
		c['coding'] = 'x-unknown'
	if rng.random() < 0.08:
		c['trailer'] = [['X-T', b'tv'.hex()]] + ([['A-T', b'1'.hex()]] if rng.random() < 0.5 else [])
	if kind == 'req':
		c['method'] = rng.choice(METHODS_REQ)
		c['segs'] = [''] + [rng.choice(['a', 'b c', 'ä', 'x.y', '%41', 'a;b', 'a:b', '']) for _ in range(rng.randint(0, 3))]
		if c['segs'] == [''] or (len(c['segs']) > 1 and c['segs'][1] == ''):
			c['segs'] = ['', 'r'] + c['segs'][2:]
		c['query'] = rng.choice([None, None, [['k', 'v']], [['ü', '€ &'], ['a', '']]])
		c['host'] = rng.choice(['example.com', 'example.com', None, 'exämple.com', '127.0.0.1'])
		if rng.random() < 0.2:
			c['port'] = rng.choice([80, 8080])
	else:
		c['status'] = rng.choice(STATUSES) if rng.random() < 0.6 else rng.choice([200, 200, 404])
		c['reason'] = rng.choice([None, None, None, 'Custom Reason', 'x'])
		c['rmethod'] = rng.choice(['GET', 'GET', 'GET', 'HEAD', 'HEAD', 'POST', 'TRACE'])
	return c


def gen_cases(rng, tier):
	cases = []
	big = tier == 'thorough'
	for n in list(range(0, 300)) + [4095, 4096, 4097, 65535, 65536, 10 ** 6, 2 ** 32, 2 ** 64 + 1, 10 ** 30]:
		cases.append({'k': 'dec', 'n': n})
		cases.append({'k': 'hex', 'n': n})
	for _ in range(2000 if big else 200):
		n = rng.choice([rng.randrange(10 ** 4), rng.randrange(10 ** 9), rng.randrange(16 ** rng.randint(1, 20))])
		cases.append({'k': 'dec', 'n': n})
		cases.append({'k': 'hex', 'n': n})
	for _ in range(3000 if big else 300):
		cases.append({'k': 'hcompose', 'hdrs': rhdrs(rng, 'resp') + rhdrs(rng, 'req')})
	for _ in range(4000 if big else 400):
		cases.append({'k': 'body', 'body': rbody(rng, tier), 'chunked': rng.random() < 0.5, 'coding': rng.choice([None, None, 'gzip', 'deflate']),
			'trailer': [['X-T', b'v'.hex()]] if rng.random() < 0.1 else []})
	# every status x {GET, HEAD} x chunked on/off, one small body
	for code in (range(100, 600) if big else STATUSES):
		for rm in ('GET', 'HEAD'):
			for ch in (False, True):
				cases.append({'k': 'resp', 'version': [1, 1], 'status': code, 'reason': None if code in (200, 204, 304, 404) else 'R', 'rmethod': rm, 'hdrs': [],
					'body': {'t': 'bytes', 'items': [b'hello'.hex()]}, 'coding': None, 'trailer': [],
					'ops': ([['ch', True]] if ch else []) + [['p', 1000], ['c'], ['p', 1000], ['c']]})
	# every body source type x framing x coding, two prepare/compose rounds
	for t in ('bytes', 'bytearray', 'text', 'list', 'tuple', 'gen', 'bytesio', 'file'):
		for ch in (False, True):
			for coding in (None, 'gzip', 'deflate'):
				for kind in ('req', 'resp'):
					items = [b'ab'.hex(), b''.hex(), b'cde'.hex()] if t in ('list', 'tuple', 'gen') else [b'abcde'.hex()]
					c = {'k': kind, 'version': [1, 1], 'hdrs': [], 'body': {'t': t, 'items': items, 'pos': 2}, 'coding': coding, 'trailer': [],
						'ops': ([['ch', True]] if ch else []) + [['p', 1000], ['c'], ['p', 1000], ['c'], ['c']]}
					if kind == 'req':
						c.update(method='POST', segs=['', 'p'], query=None, host='example.com')
					else:
						c.update(status=200, reason=None, rmethod='GET')
					cases.append(c)
	for _ in range(30000 if big else 1500):
		cases.append(rmessage(rng, tier))
	return cases


def observe(c):
	k = c['k']
	if k == 'dec':
		return {'out': str(c['n']).encode('ascii').hex()}
	if k == 'hex':
		return {'out': (b'%x' % c['n']).hex()}
	if k == 'hcompose':
		cr.install()
		cr.REC.reset()
		from httoop.header import Headers
		h = Headers()
		for name, value in c['hdrs']:
			h[name] = bytes.fromhex(value)
		out = bytes(h)
		return {'items': cr.hdr_items(h), 'out': out.hex(), 'tables': {'comp': [], 'lsplit': [[a[0].hex(), a[1].hex(), [x.hex() for x in v]] for a, v in cr.REC.lsplit.items()]}, 'init': {'ce': []}}
	if k == 'body':
		cr.install()
		cr.REC.reset()
		from httoop.messages.body import Body
		keep = []
		try:
			with cr.Clock():
				b = Body(cr._content(c['body'], keep))
				for name, value in c.get('trailer', []):
					b.trailer[name] = bytes.fromhex(value)
				if c.get('coding'):
					b.content_encoding = c['coding']
				b.chunked = c['chunked']
				init = {'chunked': bool(b.chunked), 'codec': cr.codec_id(b), 'ctype': bytes(b.mimetype).hex(), 'trailer': cr.hdr_items(b.trailer), 'ce': []}
				n = len(b)
				out = b''.join(b)
				o = {'init': init, 'len': n, 'out': out.hex(), 'fd': cr.fd_obs(b),
					'tables': {'comp': [[a[0], a[1].hex(), v.hex()] for a, v in cr.REC.comp.items()], 'lsplit': []}}
		finally:
			for fd, name in keep:
				fd.close()
				import os
				os.unlink(name)
		return o
	return cr.run_ops(c)


def coq_case(c, o):
	k = c['k']
	if 'harness_exception' in o:
		return 'CDec 0 []'
	if k == 'dec':
		return 'CDec %s %s' % (N(c['n']), X(bytes.fromhex(o['out'])))
	if k == 'hex':
		return 'CHex %s %s' % (N(c['n']), X(bytes.fromhex(o['out'])))
	if k == 'hcompose':
		return 'CHcompose %s %s %s' % (cr.coq_tables(o), cr.coq_hdrs(o['items']), X(bytes.fromhex(o['out'])))
	if k == 'body':
		return 'CBody %s %s %s %s %s' % (cr.coq_tables(o), cr.coq_body(c, o['init']), N(o['len']), X(bytes.fromhex(o['out'])), cr.coq_fd(o['fd']))
	return cr.coq_case(c, o)


# ---------------------------------------------------------------- the property, stated on the implementation
def dropped(c):
	"""does the library drop the body of this message by design?"""
	if c['k'] == 'req':
		return c['method'] in ('GET', 'HEAD', 'SEARCH')
	s = c['status']
	return s < 200 or s in (204, 205, 304) or c.get('rmethod') == 'HEAD'


def rfc_bodiless(c):
	"""RFC 7230 3.3.3 rule 1: responses to HEAD, 1xx, 204, 304 end after the header section"""
	if c['k'] == 'req':
		return False
	s = c['status']
	return s < 200 or s in (204, 304) or c.get('rmethod') == 'HEAD'


def in_domain(c):
	"""API preconditions of the property: field names are tokens, values free of CR/LF, reason printable"""
	for name, value in c.get('hdrs', []) + c.get('trailer', []):
		v = bytes.fromhex(value)
		if not name or b'\r' in v or b'\n' in v:
			return False
	return True


def oracle(c, o):
	if 'harness_exception' in o:
		return 'harness exception: %s' % o['harness_exception']
	k = c['k']
	if k in ('dec', 'hex', 'hcompose'):
		return None
	if k == 'body':
		content = cr.body_content(c['body'])
		if o['len'] != len(content):
			return 'len(body) is %d, the content has %d octets' % (o['len'], len(content))
		return None
	if not in_domain(c):
		return None
	steps = o['ops']
	if steps and 'raised' in steps[-1]:
		if c.get('coding') == 'x-unknown' and steps[-1]['raised'] == 'InvalidHeader':
			return None
		return 'operation %r raised %s: %s' % (steps[-1]['op'], steps[-1]['raised'], steps[-1].get('msg'))
	content = cr.body_content(c['body'])
	expect = b'' if dropped(c) else content
	prepared = False
	outs, states = [], []
	for op, st in zip(c['ops'], steps):
		if op[0] == 'ch':
			# the caller changes the framing: a new epoch begins, and the message has to be prepared again
			prepared = False
			outs, states = [], []
		elif op[0] == 'p':
			prepared = True
			states.append(tuple(sorted((a, b) for a, b in st['state']['hdrs'] if bytes.fromhex(a) != b'Date')))
			if len(set(states)) > 1:
				return 'preparing the message again changes the header fields (beyond the Date value)'
		elif op[0] == 'c' and prepared:
			data = bytes.fromhex(st['out'])
			try:
				m = cr.read_http1(data, k == 'req', rfc_bodiless(c))
			except cr.Malformed as exc:
				return 'composed output is not a well-framed HTTP/1.x message: %s' % (exc,)
			payload = m['payload']
			if c.get('coding') in ('gzip', 'deflate') and has_coding_header(m):
				try:
					payload = cr.decode_coding(c['coding'], payload)
				except Exception as exc:
					return 'payload does not decode with the announced coding: %s' % (exc,)
			want = b'' if rfc_bodiless(c) else expect
			if payload != want:
				return 'framed payload (%d octets) differs from the content supplied (%d octets)' % (len(payload), len(want))
			outs.append(cr.mask_date(data))
			if len(set(outs)) > 1:
				return 'composing the prepared message again gives different octets (beyond the Date value)'
	# non-destructive: the source still holds the content (unless the library drops the body by design)
	if o.get('final_content') is not None and not (dropped(c) and any(op[0] == 'p' for op in c['ops'])):
		if bytes.fromhex(o['final_content']) != content:
			return 'the body source no longer holds the content after the operations'
		if o['init']['fd'][0] in ('bytesio', 'file') and o.get('final_fd') != o['init']['fd']:
			return 'the position of the body source is not restored: %r became %r' % (o['init']['fd'], o.get('final_fd'))
	return None


def has_coding_header(m):
	return any(n.lower() == b'content-encoding' for n, v in m['fields'])


def classify(c, o, fail):
	k = c['k']
	if k not in ('req', 'resp'):
		return None
	framing_chunked = any(op[0] == 'ch' and op[1] for op in c['ops']) or (k == 'resp' and c.get('coding') in ('gzip', 'deflate'))
	if k == 'resp' and rfc_bodiless(c) and 'octets after the header section' in fail and framing_chunked:
		return 'D29-bodiless-last-chunk'
	if k == 'resp' and c.get('rmethod') == 'HEAD' and ('again' in fail):
		return 'D45-head-second-prepare'
	if k == 'req' and c.get('coding') in ('gzip', 'deflate') and not dropped(c) and ('Content-Length is' in fail):
		return 'D43-request-coding-content-length'
	if k == 'req' and any(n.lower() == 'content-length' for n, v in c.get('hdrs', [])) and ('Content-Length is' in fail or 'without Content-Length' in fail or 'both Content-Length' in fail):
		return 'D46-request-stale-content-length'
	return None


def nontrivial(c, o):
	k = c['k']
	if k in ('dec', 'hex'):
		return (k, len(o.get('out', '')))
	if k == 'hcompose':
		return (k, len(c['hdrs']))
	if k == 'body':
		return (k, c['body']['t'], c['chunked'], c['coding'], min(len(cr.body_content(c['body'])) // 4096, 3))
	if 'ops' not in o:
		return None
	return (k, c['body']['t'], dropped(c), c.get('coding'), len(c['ops']), c.get('status'), c.get('method'), min(len(cr.body_content(c['body'])) // 4096, 3),
		any(op[0] == 'ch' for op in c['ops']), tuple(c['version']))


LEVEL_TEXT = ('Machine-checked Coq theorems about an executable Gallina model of the composer (body sources as a four-constructor state machine, prepare for requests and '
	'responses, header composition, content coding, chunk framing): for every message of the model, every content coder and both code variants, the composed octets '
	'are accepted by an independent Gallina reader of RFC 7230 section 3 with exactly Content-Length octets or a complete chunked body whose payload is the (coded) content, '
	'never both framings, no octets for bodiless responses (repaired variant; refuted with witness for the pinned tree, finding D29); prepare and compose are repeatable '
	'over arbitrary operation sequences for every body-source constructor (induction on the operation list), with the HEAD exception refuted by witness. '
	'The model is tied to /repo on every run: tables regenerated, ~3000 operation sequences replayed inside Coq against the real composer.')
LEVEL_NOTE = ('Trusted: Coq kernel + vm_compute; T1/T2/T3 harness; zlib/gzip, Element.split and the request target are parameters; Python object protocol of '
	'body sources (non-seekable streams, files changing on disk) is outside the model. No axioms (Print Assumptions: closed).')
TECHNIQUE = 'Coq proof by induction over piece lists / operation lists on a Gallina model + vm_compute correspondence against the implementation'

"""C05 -- composed output is a well-framed message whose framing headers tell the truth; composing is
repeatable and non-destructive."""
from harness import composer_rec as cr
from harness.coqfmt import B, L, N, X

ID = 'C05'
PROPS = 'Props/C05.v'
TABLES = ['HeadersT', 'StartLineT', 'ComposerT']
COQ_HEADER = 'From Httoop Require Import Model.Composer Corr.C05.'
COQ_CHECK = 'check'
CORR_VO = 'Corr/C05.vo'
RULE = ('T2: generated API-level requests and responses (all body source types, sizes 0 .. 3 blocks, chunked on/off, coding none/gzip/deflate, '
	'trailers, every status class, HEAD/TRACE, 1.0/1.1, caller-set headers incl. list-valued and priority fields) driven through random sequences of '
	'prepare / chunked-setter / compose on the real composer with a frozen clock; after every operation the header collection in dict order, the type and '
	'position of body.fd and the body chunked flag, and for compose the emitted octets, are compared with the Gallina model evaluated by vm_compute '
	'(content coders, Element.split and the codec lookup instantiated by the recorded tables, T3). Plus str(n)/%x for numbers, bytes(Headers), len/iter of bodies. '
	'Oracle (independent of the model): an RFC 7230 section 3 reader written from the RFC applied to the real output, payload compared with the content '
	'supplied, Date-masked equality of all outputs and header sets of one sequence, source content/position unchanged. '
	'Wave-3 classes (seq cases and directed families): ONE message modified between uses through every public way (body replaced / grown in place, fields, status, method, '
	'request of the response, protocol, framing by composer / header / transfer_encoding / body, trailer, coding, path, host; content object, Body or request shared with a second message) - '
	'after every block of modifications the data is read back, put into a FRESH message, both are driven through the same operations and must agree octet for octet, the live output '
	'must satisfy the property for the content held now, and every segment is replayed on the Gallina model from the read-back state; normalisation forms and look-alikes in text bodies, '
	'text pieces, path and query; lengths 11..8192, 12288, 65535/65536 of content, pieces (chunk-size digits), piece counts, field values, reason, path segment, trailer value '
	'(oracle-only above 1100 octets); every registered status, header field name, content / transfer coding, media-type codec name and method of the tables read from the tree, in three letter cases; '
	'degenerate values of every field prepare() consults, of codings, body, reason, trailer, query. '
	'Wave-4 classes: read-only observers (repr / str / bytes / len / bool / iteration / hash / == != < <= > >= and reflected / copy / deepcopy / attribute reads / in / dict / sorted / format) applied to message, '
	'header collection, Body, composer, status, method, URI, protocol, trailer, the content object, a copy of the Body and a second Body on the same content before the first use and between two uses - '
	'compared with a fresh message built from the data read BEFORE the observation; every public way to set (item bytes / text, setdefault, update, append, parse, dict assignment, merge, set_element) and to remove '
	'(pop, del, clear, dict assignment) each field the framing depends on, and to supply the content (attribute, set, Body(), Body(mimetype), write, encode, iterencode); the media type announced by a caller-set '
	'Content-Type (charsets in which the text has another length, quoted / upper case / duplicated / nested charset parameters, unknown and unencodable charsets) against content supplied as text pieces and '
	'against the charset of the body; URI and field metacharacters and reserved names in path segments, query, field and trailer values, field names resembling the framing names, coding / Connection / Trailer '
	'sets with one invalid member; the request target of every composed request is read against the origin-form grammar (RFC 3986 pchar / query). '
	'non-trivial = distinct (kind, framing, source type, dropped?, coding, #ops) classes')
EXHAUSTIVE = {'quick': False, 'thorough': False}
TRUSTED = [
	'harness/tables/composer.py (T1: block size, safe/dated/TRACE methods, request defaults, bodiless statuses, STATUSES header_to_remove, Allow default, 416 Content-Range literal, closing statuses, Connection literals, header priorities, list-valued fields, D29, D42 and D59 probes)',
	'harness/composer_rec.py (T2/T3: messages built through the public API, frozen time.time, wrappers around GZip.encode / Deflate.encode / Element.split installed in the harness process, canonicalisation of header collections as (name, raw value) lists in dict order)',
	'callees that are parameters of every theorem: content coders (zlib, gzip), Element.split of list-valued fields, codec lookup of a Content-Encoding value',
	'the request target (bytes(uri) inside relative_uri()), the Host value and bytes(Date()) are inputs of the composer model (URI: C10, Date: C15)',
	'the composer model covers Transfer-Encoding values absent / empty / exactly "chunked" and responses to requests without Range header (everything else is outside the model: prepare returns None)',
]
ASSUMPTIONS = [
	'body sources behave as the four-constructor state machine (BytesIO slice semantics, a file does not change on disk, a generator yields a fixed finite list) -- validated in T2 against real BytesIO, lists, generators and temp files',
	'the clock does not change during one compose (gzip member header mtime) -- the harness freezes time.time',
	'caller-set header names are non-empty tokens and values contain no CR/LF (API precondition: Headers does not validate values)',
]

D29 = {'k': 'resp', 'version': [1, 1], 'status': 200, 'reason': None, 'rmethod': 'HEAD', 'hdrs': [], 'body': {'t': 'bytes', 'items': ['68656c6c6f']},
	'coding': None, 'trailer': [], 'ops': [['ch', True], ['p', 1000], ['c']]}
D45 = {'k': 'resp', 'version': [1, 1], 'status': 200, 'reason': None, 'rmethod': 'HEAD', 'hdrs': [], 'body': {'t': 'bytes', 'items': ['68656c6c6f']},
	'coding': None, 'trailer': [], 'ops': [['p', 1000], ['c'], ['p', 1000], ['c']]}
D43 = {'k': 'req', 'version': [1, 1], 'method': 'POST', 'segs': ['', 'a'], 'query': None, 'host': 'example.com', 'hdrs': [],
	'body': {'t': 'bytes', 'items': ['68656c6c6f']}, 'coding': 'gzip', 'trailer': [], 'ops': [['p', 1000], ['c']]}
D46 = {'k': 'req', 'version': [1, 1], 'method': 'GET', 'segs': ['', 'a'], 'query': None, 'host': 'example.com', 'hdrs': [['Content-Length', '37']],
	'body': {'t': 'bytes', 'items': ['68656c6c6f']}, 'coding': None, 'trailer': [], 'ops': [['p', 1000], ['c']]}
WITNESSES = [('D29-bodiless-last-chunk', D29), ('D45-head-second-prepare', D45), ('D43-request-coding-content-length', D43), ('D46-request-stale-content-length', D46)]

METHODS_REQ = ['GET', 'HEAD', 'POST', 'PUT', 'DELETE', 'OPTIONS', 'TRACE', 'PATCH', 'SEARCH', 'get', 'M-SEARCH', 'X']
STATUSES = [100, 101, 199, 200, 201, 202, 204, 205, 206, 299, 301, 304, 400, 404, 405, 413, 416, 500, 503, 599]
HDR_POOL = [
	('X-Custom', ['a', 'b c', 'ä', '=?x', 'a,b', '1']), ('Accept', ['text/html', '*/*;q=0.5']), ('ETag', ['"abc"', 'W/"x"']),
	('Last-Modified', ['Sun, 06 Nov 1994 08:49:37 GMT']), ('Connection', ['close', 'keep-alive', 'Upgrade', 'Close']),
	('Cookie', ['a=b', 'a=b; c=d']), ('Set-Cookie', ['a=b', 'a=b, c=d', 'a=b; expires=Wed, 09 Jun 2021 10:18:14 GMT, c=d', 'x="1,2", y=3']),
	('WWW-Authenticate', ['Basic realm="x"', 'Basic realm="x", Digest realm="a,b", nonce="1"']),
	('Proxy-Authenticate', ['Basic realm="p"']), ('Server', ['srv/1.0']), ('Host', ['other.example', 'h:81']),
	('Content-Language', ['de', 'en, de']), ('Allow', ['GET']), ('Date', ['Thu, 01 Jan 1970 00:00:00 GMT']), ('Vary', ['*']),
	('Content-Type', ['application/octet-stream', 'text/html; charset=ISO8859-1']), ('User-Agent', ['ua/2']), ('Expires', ['0']),
	('Location', ['/x']), ('X-Forwarded-Host', ['f.example']), ('Content-MD5', ['Q2hlY2s=']), ('Zzz', ['last']), ('Aaa', ['first']),
	('Accept-Ranges', ['none']), ('Content-Range', ['bytes 0-1/2']), ('Trailer', ['X-T']), ('Content-Length', ['7']),
]


def rdata(rng, n):
	r = rng.random()
	if r < 0.4:
		return bytes(rng.randrange(256) for _ in range(n))
	if r < 0.7:
		return bytes(rng.choice(b'abc \r\n0;:') for _ in range(n))
	return bytes([rng.randrange(256)]) * n


def rbody(rng, tier):
	t = rng.choice(['bytes', 'bytearray', 'text', 'list', 'tuple', 'gen', 'bytesio', 'file', 'gen', 'list', 'bytesio'])
	r = rng.random()
	blk = 4096
	if r < 0.12:
		size = 0
	elif r < 0.75:
		size = rng.randint(1, 40)
	elif r < 0.8:
		size = rng.choice([255, 256, 4095])
	else:
		size = rng.choice([blk, blk + 1, 2 * blk, 2 * blk + 7, 3 * blk - 1]) if rng.random() < (0.6 if tier == 'thorough' else 0.25) else rng.randint(41, 300)
	b = {'t': t}
	if t in ('list', 'tuple', 'gen'):
		k = rng.randint(0, 4)
		if size == 0:
			items = [b''] * rng.randint(0, 2)
		else:
			cuts = sorted(rng.randint(0, size) for _ in range(k))
			data = rdata(rng, size)
			items = [data[a:c] for a, c in zip([0] + cuts, cuts + [size])]
		strs = []
		for i, it in enumerate(items):
			s = rng.random() < 0.2
			if s:
				try:
					it.decode('utf-8')
				except UnicodeDecodeError:
					s = False
			strs.append(s)
		b['items'] = [i.hex() for i in items]
		b['strs'] = strs
	elif t == 'text':
		alphabet = 'abc äö€\r\n\U0001f600'
		text = ''.join(rng.choice(alphabet) for _ in range(min(size, 2000)))
		b['items'] = [text.encode('utf-8').hex()]
	else:
		b['items'] = [rdata(rng, size).hex()]
		if t in ('bytesio', 'file'):
			b['pos'] = rng.choice([0, 0, size, rng.randint(0, size), size + 3])
	return b


def rhdrs(rng, kind):
	out = []
	seen = set()
	for _ in range(rng.choice([0, 1, 1, 2, 3, 5])):
		name, vals = rng.choice(HDR_POOL)
		if name in seen:
			continue
		if kind == 'req' and name in ('Accept-Ranges',):
			continue
		seen.add(name)
		v = rng.choice(vals)
		if rng.random() < 0.3:
			name = rng.choice([name.lower(), name.upper(), name])
		out.append([name, v.encode('latin-1').hex()])
	return out


def rops(rng):
	r = rng.random()
	if r < 0.25:
		ops = ['p', 'c']
	elif r < 0.5:
		ops = ['p', 'c', 'p', 'c']
	elif r < 0.6:
		ops = ['p', 'p', 'c', 'c']
	elif r < 0.65:
		ops = ['c']
	else:
		ops = ['p'] + [rng.choice(['p', 'c']) for _ in range(rng.randint(1, 5))]
	out = []
	ts = rng.choice([1000, 784111777, 1790000000])
	for o in ops:
		if o == 'p':
			out.append(['p', ts])
			if rng.random() < 0.5:
				ts += rng.choice([1, 61, 86400])
		else:
			out.append(['c'])
	if rng.random() < 0.4:
		out.insert(0, ['ch', True])
	elif rng.random() < 0.1:
		out.insert(0, ['ch', False])
	if rng.random() < 0.05:
		out.insert(rng.randint(1, len(out)), ['ch', rng.random() < 0.5])
	return out


def rmessage(rng, tier):
	kind = 'resp' if rng.random() < 0.55 else 'req'
	c = {'k': kind, 'version': rng.choice([[1, 1], [1, 1], [1, 1], [1, 0]]), 'hdrs': rhdrs(rng, kind), 'body': rbody(rng, tier),
		'coding': rng.choice([None, None, None, 'gzip', 'deflate']), 'trailer': [], 'ops': rops(rng)}
	if rng.random() < 0.04:
		c['coding'] = 'x-unknown'
	if rng.random() < 0.08:
		c['trailer'] = [['X-T', b'tv'.hex()]] + ([['A-T', b'1'.hex()]] if rng.random() < 0.5 else [])
	if kind == 'req':
		c['method'] = rng.choice(METHODS_REQ)
		c['segs'] = [''] + [rng.choice(['a', 'b c', 'ä', 'x.y', '%41', 'a;b', 'a:b', '']) for _ in range(rng.randint(0, 3))]
		if c['segs'] == [''] or (len(c['segs']) > 1 and c['segs'][1] == ''):
			c['segs'] = ['', 'r'] + c['segs'][2:]
		c['query'] = rng.choice([None, None, [['k', 'v']], [['ü', '€ &'], ['a', '']]])
		c['host'] = rng.choice(['example.com', 'example.com', None, 'exämple.com', '127.0.0.1'])
		if rng.random() < 0.2:
			c['port'] = rng.choice([80, 8080])
	else:
		c['status'] = rng.choice(STATUSES) if rng.random() < 0.6 else rng.choice([200, 200, 404])
		c['reason'] = rng.choice([None, None, None, 'Custom Reason', 'x'])
		c['rmethod'] = rng.choice(['GET', 'GET', 'GET', 'HEAD', 'HEAD', 'POST', 'TRACE'])
	return c


def gen_cases(rng, tier):
	cases = []
	big = tier == 'thorough'
	for n in list(range(0, 300)) + [4095, 4096, 4097, 65535, 65536, 10 ** 6, 2 ** 32, 2 ** 64 + 1, 10 ** 30]:
		cases.append({'k': 'dec', 'n': n})
		cases.append({'k': 'hex', 'n': n})
	for _ in range(2000 if big else 200):
		n = rng.choice([rng.randrange(10 ** 4), rng.randrange(10 ** 9), rng.randrange(16 ** rng.randint(1, 20))])
		cases.append({'k': 'dec', 'n': n})
		cases.append({'k': 'hex', 'n': n})
	for _ in range(3000 if big else 300):
		cases.append({'k': 'hcompose', 'hdrs': rhdrs(rng, 'resp') + rhdrs(rng, 'req')})
	for _ in range(4000 if big else 400):
		cases.append({'k': 'body', 'body': rbody(rng, tier), 'chunked': rng.random() < 0.5, 'coding': rng.choice([None, None, 'gzip', 'deflate']),
			'trailer': [['X-T', b'v'.hex()]] if rng.random() < 0.1 else []})
	# every status x {GET, HEAD} x chunked on/off, one small body
	for code in (range(100, 600) if big else STATUSES):
		for rm in ('GET', 'HEAD'):
			for ch in (False, True):
				cases.append({'k': 'resp', 'version': [1, 1], 'status': code, 'reason': None if code in (200, 204, 304, 404) else 'R', 'rmethod': rm, 'hdrs': [],
					'body': {'t': 'bytes', 'items': [b'hello'.hex()]}, 'coding': None, 'trailer': [],
					'ops': ([['ch', True]] if ch else []) + [['p', 1000], ['c'], ['p', 1000], ['c']]})
	# every body source type x framing x coding, two prepare/compose rounds
	for t in ('bytes', 'bytearray', 'text', 'list', 'tuple', 'gen', 'bytesio', 'file'):
		for ch in (False, True):
			for coding in (None, 'gzip', 'deflate'):
				for kind in ('req', 'resp'):
					items = [b'ab'.hex(), b''.hex(), b'cde'.hex()] if t in ('list', 'tuple', 'gen') else [b'abcde'.hex()]
					c = {'k': kind, 'version': [1, 1], 'hdrs': [], 'body': {'t': t, 'items': items, 'pos': 2}, 'coding': coding, 'trailer': [],
						'ops': ([['ch', True]] if ch else []) + [['p', 1000], ['c'], ['p', 1000], ['c'], ['c']]}
					if kind == 'req':
						c.update(method='POST', segs=['', 'p'], query=None, host='example.com')
					else:
						c.update(status=200, reason=None, rmethod='GET')
					cases.append(c)
	for _ in range(30000 if big else 1500):
		cases.append(rmessage(rng, tier))
	cases.extend(gen_classes(rng, tier))
	return cases


def observe(c):
	k = c['k']
	if k == 'dec':
		return {'out': str(c['n']).encode('ascii').hex()}
	if k == 'hex':
		return {'out': (b'%x' % c['n']).hex()}
	if k == 'hcompose':
		cr.install()
		cr.REC.reset()
		from httoop.header import Headers
		h = Headers()
		for name, value in c['hdrs']:
			h[name] = bytes.fromhex(value)
		out = bytes(h)
		return {'items': cr.hdr_items(h), 'out': out.hex(), 'tables': {'comp': [], 'lsplit': [[a[0].hex(), a[1].hex(), [x.hex() for x in v]] for a, v in cr.REC.lsplit.items()]}, 'init': {'ce': []}}
	if k == 'body':
		cr.install()
		cr.REC.reset()
		from httoop.messages.body import Body
		keep = []
		try:
			with cr.Clock():
				b = Body(cr._content(c['body'], keep))
				for name, value in c.get('trailer', []):
					b.trailer[name] = bytes.fromhex(value)
				if c.get('coding'):
					b.content_encoding = c['coding']
				b.chunked = c['chunked']
				init = {'chunked': bool(b.chunked), 'codec': cr.codec_id(b), 'ctype': bytes(b.mimetype).hex(), 'trailer': cr.hdr_items(b.trailer), 'ce': []}
				n = len(b)
				out = b''.join(b)
				o = {'init': init, 'len': n, 'out': out.hex(), 'fd': cr.fd_obs(b),
					'tables': {'comp': [[a[0], a[1].hex(), v.hex()] for a, v in cr.REC.comp.items()], 'lsplit': []}}
		finally:
			for fd, name in keep:
				fd.close()
				import os
				os.unlink(name)
		return o
	if k == 'seq':
		return run_seq(c)
	return cr.run_ops(c)


def coq_case(c, o):
	k = c['k']
	if 'harness_exception' in o:
		return 'CDec 0 []'
	if c.get('nocoq') and k != 'seq':
		return None   # oracle-only: the literal would be too large for a correspondence shard
	if k == 'dec':
		return 'CDec %s %s' % (N(c['n']), X(bytes.fromhex(o['out'])))
	if k == 'hex':
		return 'CHex %s %s' % (N(c['n']), X(bytes.fromhex(o['out'])))
	if k == 'hcompose':
		return 'CHcompose %s %s %s' % (cr.coq_tables(o), cr.coq_hdrs(o['items']), X(bytes.fromhex(o['out'])))
	if k == 'body':
		return 'CBody %s %s %s %s %s' % (cr.coq_tables(o), cr.coq_body(c, o['init']), N(o['len']), X(bytes.fromhex(o['out'])), cr.coq_fd(o['fd']))
	if k == 'seq':
		return coq_seq(c, o)
	return cr.coq_case(c, o)


# ---------------------------------------------------------------- the property, stated on the implementation
def dropped(c):
	"""does the library drop the body of this message by design?"""
	if c['k'] == 'req':
		return c['method'] in ('GET', 'HEAD', 'SEARCH')
	s = c['status']
	return s < 200 or s in (204, 205, 304) or c.get('rmethod') == 'HEAD'


def rfc_bodiless(c):
	"""RFC 7230 3.3.3 rule 1: responses to HEAD, 1xx, 204, 304 end after the header section"""
	if c['k'] == 'req':
		return False
	s = c['status']
	return s < 200 or s in (204, 304) or c.get('rmethod') == 'HEAD'


def in_domain(c):
	"""API preconditions of the property: field names are tokens, values free of CR/LF, reason printable"""
	for name, value in c.get('hdrs', []) + c.get('trailer', []):
		v = bytes.fromhex(value)
		if not name or b'\r' in v or b'\n' in v:
			return False
	return True


def oracle(c, o):
	if 'harness_exception' in o:
		return 'harness exception: %s' % o['harness_exception']
	k = c['k']
	if k == 'hcompose' and c.get('nocoq'):
		# too long for a correspondence shard: the composed header section is read back with the RFC reader instead
		try:
			fields, pos = cr._fields(bytes.fromhex(o['out']), 0)
		except cr.Malformed as exc:
			return 'composed header section is not well formed: %s' % (exc,)
		for name, value in c['hdrs']:
			if (name.encode('ascii'), bytes.fromhex(value)) not in fields:
				return 'field %s (%d octets) is not in the composed header section as it was set' % (name, len(value) // 2)
		return None
	if k in ('dec', 'hex', 'hcompose'):
		return None
	if k == 'seq':
		return oracle_seq(c, o)
	if k == 'body':
		content = cr.body_content(c['body'])
		if o['len'] != len(content):
			return 'len(body) is %d, the content has %d octets' % (o['len'], len(content))
		return None
	if not in_domain(c):
		return None
	steps = o['ops']
	if steps and 'raised' in steps[-1]:
		if c.get('coding') == 'x-unknown' and steps[-1]['raised'] == 'InvalidHeader':
			return None
		return 'operation %r raised %s: %s' % (steps[-1]['op'], steps[-1]['raised'], steps[-1].get('msg'))
	content = cr.body_content(c['body'])
	expect = b'' if dropped(c) else content
	prepared = False
	outs, states = [], []
	for op, st in zip(c['ops'], steps):
		if op[0] == 'ch':
			# the caller changes the framing: a new epoch begins, and the message has to be prepared again
			prepared = False
			outs, states = [], []
		elif op[0] == 'p':
			prepared = True
			states.append(tuple(sorted((a, b) for a, b in st['state']['hdrs'] if bytes.fromhex(a) != b'Date')))
			if len(set(states)) > 1:
				return 'preparing the message again changes the header fields (beyond the Date value)'
		elif op[0] == 'c' and prepared:
			data = bytes.fromhex(st['out'])
			try:
				m = cr.read_http1(data, k == 'req', rfc_bodiless(c))
			except cr.Malformed as exc:
				return 'composed output is not a well-framed HTTP/1.x message: %s' % (exc,)
			if k == 'req':
				bad = target_syntax(m['start'].split(b' ')[1])
				if bad:
					return 'composed output is not a syntactically valid request: %s' % bad
			payload = m['payload']
			if c.get('coding') in ('gzip', 'deflate') and has_coding_header(m):
				try:
					payload = cr.decode_coding(c['coding'], payload)
				except Exception as exc:
					return 'payload does not decode with the announced coding: %s' % (exc,)
			want = b'' if rfc_bodiless(c) else expect
			if payload != want:
				return 'framed payload (%d octets) differs from the content supplied (%d octets)' % (len(payload), len(want))
			outs.append(cr.mask_date(data))
			if len(set(outs)) > 1:
				return 'composing the prepared message again gives different octets (beyond the Date value)'
	# non-destructive: the source still holds the content (unless the library drops the body by design)
	if o.get('final_content') is not None and not (dropped(c) and any(op[0] == 'p' for op in c['ops'])):
		# (text pieces of a list stay text: the harness reads them back as UTF-8, whatever the charset of the body)
		held = cr.body_content(dict(c['body'], charset=None)) if c['body']['t'] in ('list', 'tuple', 'gen') else content
		if bytes.fromhex(o['final_content']) != held:
			return 'the body source no longer holds the content after the operations'
		if o['init']['fd'][0] in ('bytesio', 'file') and o.get('final_fd') != o['init']['fd']:
			return 'the position of the body source is not restored: %r became %r' % (o['init']['fd'], o.get('final_fd'))
	return None


def has_coding_header(m):
	return any(n.lower() == b'content-encoding' for n, v in m['fields'])


def classify(c, o, fail):
	k = c['k']
	if k == 'seq':
		# only the HEAD exception of repeatability can be reached by a sequence (the generator keeps D43 / D46 inputs out)
		heads = c['base'].get('rmethod') == 'HEAD' or any(mu[0] == 'rmethod' and mu[1] == 'HEAD' for seg in c['segs'] for mu in seg['mut'])
		return 'D45-head-second-prepare' if c['base']['k'] == 'resp' and heads and 'again' in fail else None
	if k not in ('req', 'resp'):
		return None
	framing_chunked = any(op[0] == 'ch' and op[1] for op in c['ops']) or (k == 'resp' and c.get('coding') in ('gzip', 'deflate'))
	if k == 'resp' and rfc_bodiless(c) and 'octets after the header section' in fail and framing_chunked:
		return 'D29-bodiless-last-chunk'
	if k == 'resp' and c.get('rmethod') == 'HEAD' and ('again' in fail):
		return 'D45-head-second-prepare'
	if k == 'req' and c.get('coding') in ('gzip', 'deflate') and not dropped(c) and ('Content-Length is' in fail):
		return 'D43-request-coding-content-length'
	if k == 'req' and any(n.lower() == 'content-length' for n, v in c.get('hdrs', [])) and ('Content-Length is' in fail or 'without Content-Length' in fail or 'both Content-Length' in fail):
		return 'D46-request-stale-content-length'
	return None


def nontrivial(c, o):
	k = c['k']
	if k in ('dec', 'hex'):
		return (k, len(o.get('out', '')))
	if k == 'hcompose':
		return (k, len(c['hdrs']))
	if k == 'body':
		return (k, c['body']['t'], c['chunked'], c['coding'], min(len(cr.body_content(c['body'])) // 4096, 3))
	if k == 'seq':
		return (k, c['base']['k'], c['base']['body']['t'], tuple(tuple(mu[0] + ':' + str(mu[-1]) if mu[0] in ('body', 'status', 'method', 'rmethod', 'te', 'proto', 'obs') else mu[0] + ':' + mu[1] if mu[0] in ('hvia', 'hrm') else mu[0] for mu in seg['mut']) for seg in c['segs']),
			tuple(len(seg['ops']) for seg in c['segs']))
	if 'ops' not in o:
		return None
	return (k, c['body']['t'], dropped(c), c.get('coding'), len(c['ops']), c.get('status'), c.get('method'), min(len(cr.body_content(c['body'])) // 4096, 3),
		any(op[0] == 'ch' for op in c['ops']), tuple(c['version']))


LEVEL_TEXT = ('Machine-checked Coq theorems about an executable Gallina model of the composer (body sources as a four-constructor state machine, prepare for requests and '
	'responses, header composition, content coding, chunk framing): for every message of the model, every content coder and both code variants, the composed octets '
	'are accepted by an independent Gallina reader of RFC 7230 section 3 with exactly Content-Length octets or a complete chunked body whose payload is the (coded) content, '
	'never both framings, no octets for bodiless responses (repaired variant; refuted with witness for the pinned tree, finding D29); for a message object whose Body still carries '
	'the content codec of an earlier use (finding D59) the repaired variant needs no precondition, the variant as found is refuted by witness; prepare and compose are repeatable '
	'over arbitrary operation sequences for every body-source constructor (induction on the operation list), with the HEAD exception refuted by witness. '
	'The model is tied to /repo on every run: tables regenerated, ~3000 operation sequences replayed inside Coq against the real composer.')
LEVEL_NOTE = ('Trusted: Coq kernel + vm_compute; T1/T2/T3 harness; zlib/gzip, Element.split and the request target are parameters; Python object protocol of '
	'body sources (non-seekable streams, files changing on disk) is outside the model. No axioms (Print Assumptions: closed).')
TECHNIQUE = 'Coq proof by induction over piece lists / operation lists on a Gallina model + vm_compute correspondence against the implementation'


# ================================================================ the six classes of DESIGN.md section 8
# (1) statefulness: 'seq' cases.  ONE message object (and its composer) is used several times and modified between the uses through every public
#     way (body replaced / grown in place, fields set / removed / appended, status, method, request of the response, protocol, framing through the
#     composer, the header, the transfer_encoding property and the body, trailer, content coding, path, host; the content object or the Body shared
#     with a second message that is serialised in between).  After each block of modifications the observable data of the object is read back and
#     the SAME data is put into a FRESH message: both are driven through the same prepare / compose operations and must give the same header
#     collections and the same octets (a value cached inside an object or a class shows up here), and the live output must satisfy the property
#     for the content the message holds NOW.  Every segment is also a correspondence case of the Gallina model (which has no hidden state).
# (2) Unicode normalisation forms and look-alikes in the text positions of this property: text bodies and text pieces of list / generator bodies
#     (the payload must be the UTF-8 octets of the text, code point for code point), path segments and query of the request target (validity).
# (3) lengths at and around limits: content length, piece length (chunk-size digits), number of pieces, field value, reason phrase, path segment,
#     trailer value.
# (4) registries read from the tree at run time: every registered status, every header field name of HEADER in three letter cases, every
#     content-coding / transfer-coding name in three letter cases, every method of the safe / idempotent tables in three letter cases.
# (5) degenerate values in every field prepare() consults and in the body.
# (6) independent re-encoding of RECEIVED data: not applicable, this property has no receiving side (C04 feeds the composed octets to the parser).
#     What carries over - the same data handed over by the caller in another spelling (other letter case, optional white space, constructor
#     arguments instead of attributes, another public way to the same modification) - is part of (1), (4) and (5).

import io as _io

UNI = ['e\u0301', '\u00e9', '\u212b', '\u00c5', 'A\u030a', '\u2126', '\u03a9', '\u212a', '\u1112\u1161\u11ab', '\ud55c', '\ufa10', '\u585a', '\uf900',
	'\U0001f600', '\U00020000', '\U0002f800', '\ufb01', '\u1e9b\u0323', '\u0958', '\u00a0', '\u2028', '\ufeff', '\u0130', '\u00df', '\u01c4']
LIMITS = [11, 12, 75, 76, 255, 256, 1023, 1024, 4095, 4096, 4097, 8190, 8191, 8192, 12288, 65535, 65536]
# Content-Encoding is not in the pool of the RANDOM header modifications (a caller-set field on a request, or a second list element, is a matter of D43 / of the
# refusable spellings).  Its removal after a coded use is generated systematically instead (gen_classes, 'stale coding'): after a response was prepared with
# Content-Encoding: gzip, removing the FIELD alone and preparing again sent the gzip-coded body (the coding stayed on the Body), without announcing it and,
# with Content-Length framing, under the length of the uncoded content - finding D59, repaired (corpus/C05/D59-*.json); ['coding', None] clears both.
SEQ_HDRS = [('X-Custom', ['a', 'b c', '1']), ('Connection', ['close', 'keep-alive']), ('ETag', ['"abc"']), ('Last-Modified', ['Sun, 06 Nov 1994 08:49:37 GMT']),
	('Content-Type', ['application/octet-stream', 'text/html']), ('Cookie', ['a=b']), ('Set-Cookie', ['a=b', 'a=b, c=d']), ('Trailer', ['X-T']),
	('Date', ['Thu, 01 Jan 1970 00:00:00 GMT']), ('Allow', ['GET']), ('Accept-Ranges', ['none', 'bytes']), ('User-Agent', ['ua/2']), ('Accept', ['text/html']),
	('Host', ['other.example']), ('Vary', ['*']), ('Content-Length', ['7', '0'])]


def sym_init(base):
	st = {'k': base['k'], 'content': cr.body_content(base['body']), 'body': dict(base['body']), 'attached': True, 'ce': None, 'te': None, 'dropped_now': False}
	for name, value in base.get('hdrs', []):
		sym_hdr(st, name, bytes.fromhex(value))
	if base.get('coding'):
		st['ce'] = base['coding'].encode('ascii')
	if base['k'] == 'req':
		st['method'] = base['method']
	else:
		st['status'] = base['status']
		st['rmethod'] = base.get('rmethod', 'GET')
	return st


def sym_hdr(st, name, value):
	if name.lower() == 'content-encoding':
		st['ce'] = value
	if name.lower() == 'transfer-encoding':
		st['te'] = value


def sym_mut(st, mu):
	"""what a modification means for the data the message holds (independent of the implementation)"""
	t = mu[0]
	if t == 'body':
		st['body'] = dict(mu[1])
		st['content'] = cr.body_content(mu[1])
		st['attached'] = True
		if mu[2] == 'iterencode':
			# Body.iterencode hands the pieces to the codec of the body's media type: a generator of encoded pieces
			st['body'] = {'t': 'gen', 'items': [x.hex() for x in cr.body_items(mu[1])], 'strs': [False] * len(mu[1]['items'])}
	elif t == 'grow':
		st['content'] += bytes.fromhex(mu[1])
		b = st['body']
		if b['t'] == 'list':
			b['items'] = list(b['items']) + [mu[1]]
			b['strs'] = list(b.get('strs') or [False] * (len(b['items']) - 1)) + [False]
		else:
			b['items'] = [st['content'].hex()]
	elif t == 'status':
		st['status'] = mu[1]
	elif t == 'method':
		st['method'] = mu[1]
	elif t == 'rmethod':
		st['rmethod'] = mu[1]
	elif t in ('hset', 'happend'):
		sym_hdr(st, mu[1], bytes.fromhex(mu[2]))
	elif t in ('hpop', 'hdel'):
		sym_hdr(st, mu[1], None)
	elif t == 'coding':
		st['ce'] = mu[1].encode('ascii') if mu[1] else None
	elif t == 'te':
		st['te'] = None   # exactly 'chunked' or absent
	elif t == 'hvia':
		sym_hdr(st, mu[2], bytes.fromhex(mu[3]))
	elif t == 'hrm':
		if mu[1] in ('clear', 'set-empty'):
			st['ce'] = st['te'] = None
		else:
			sym_hdr(st, mu[2], None)
	# 'obs' (a read-only observer): nothing changes


def sym_prepare(st):
	if st['k'] == 'req' and st['content'] and not dropped(st):
		st['cl_written'] = True
	if dropped(st):
		st['content'] = b''
		st['body'] = {'t': 'bytes', 'items': []}
		st['attached'] = False
		st['dropped_now'] = True


def _snap_body(body, st):
	from types import GeneratorType
	fd = body.fd
	if isinstance(fd, _io.BytesIO):
		return {'t': 'bytesio', 'items': [fd.getvalue().hex()], 'pos': fd.tell()}
	if isinstance(fd, (list, tuple)):
		return {'t': 'list' if isinstance(fd, list) else 'tuple', 'items': [(x if isinstance(x, bytes) else x.encode('utf-8')).hex() for x in fd], 'strs': [not isinstance(x, bytes) for x in fd]}
	if isinstance(fd, GeneratorType) or type(fd) is type(iter([])):
		# a generator cannot be looked into: it is the one the harness made from the items of the last body assignment, not yet run
		if st['body']['t'] != 'gen':
			raise ValueError('unexpected generator source')
		return {'t': 'gen', 'items': list(st['body']['items']), 'strs': list(st['body'].get('strs') or [])}
	if hasattr(fd, 'fileno'):
		pos = fd.tell()
		fd.seek(0)
		data = fd.read()
		fd.seek(pos)
		return {'t': 'file', 'items': [data.hex()], 'pos': pos}
	raise ValueError('unexpected source %s' % type(fd).__name__)


def _snapshot(m, c, st, uri):
	"""the observable data of the message, read through the public attributes"""
	ce = m.body.content_encoding
	snap = {'k': st['k'], 'version': [m.protocol.major, m.protocol.minor], 'hdrs': cr.hdr_items(m.headers), 'body': _snap_body(m.body, st), 'chunked': bool(m.body.chunked),
		'coding': bytes(ce).hex() if ce else None, 'ctype': bytes(m.body.mimetype).hex(), 'trailer': cr.hdr_items(m.body.trailer)}
	if st['k'] == 'req':
		snap['method'] = bytes(m.method).decode('latin-1')
		snap['uri'] = dict(uri)
	else:
		snap['status'] = int(m.status)
		snap['reason'] = m.status.reason
		snap['rmethod'] = bytes(c.request.method).decode('latin-1')
	return snap


def _fresh(snap, keep):
	"""a new message holding the data of the snapshot, built through the public API"""
	from httoop import Request, Response
	from httoop.semantic.request import ComposedRequest
	from httoop.semantic.response import ComposedResponse
	if snap['k'] == 'req':
		m = Request(snap['method'], '/')
		m.protocol = tuple(snap['version'])
		u, uri = m.uri, snap['uri']
		if uri.get('host'):
			u.scheme = uri.get('scheme') or 'http'
			u.host = uri['host']
			if uri.get('port'):
				u.port = uri['port']
		u.path_segments = uri['segs']
		if uri.get('query') is not None:
			u.query = [tuple(p) for p in uri['query']]
		c = ComposedRequest(m)
	else:
		m = Response()
		m.protocol = tuple(snap['version'])
		m.status = (snap['status'], snap['reason'])
		c = ComposedResponse(m, Request(snap['rmethod'], '/'))
	for name, value in snap['hdrs']:
		m.headers[bytes.fromhex(name).decode('latin-1')] = bytes.fromhex(value)
	m.body = cr._content(snap['body'], keep)
	m.body.mimetype = bytes.fromhex(snap['ctype'])
	if snap['coding']:
		m.body.content_encoding = bytes.fromhex(snap['coding'])
	m.body.chunked = snap['chunked']
	for name, value in snap['trailer']:
		m.body.trailer[bytes.fromhex(name).decode('latin-1')] = bytes.fromhex(value)
	return m, c


def _init_obs(m, c, k):
	from httoop.header import Headers
	init = {'hdrs': cr.hdr_items(m.headers), 'chunked': bool(m.body.chunked), 'ctype': bytes(m.body.mimetype).hex(),
		'codec': cr.codec_id(m.body), 'trailer': cr.hdr_items(m.body.trailer), 'fd': cr.fd_obs(m.body)}
	if k == 'req':
		init['target'] = cr.request_target(m).hex()
		init['host'] = bytes(Headers.formatvalue(m.uri.host)).hex() if m.uri.host else None
		init['startline_method'] = bytes(m.method).hex()
	else:
		init['code'] = int(m.status)
		init['reason'] = m.status.reason.encode('ascii').hex()
	init['ce'] = [[v, cr.ce_id(bytes.fromhex(v))] for k_, v in init['hdrs'] if bytes.fromhex(k_) == b'Content-Encoding']
	return init


def _steps(m, c, ops, clock):
	"""the operation loop of composer_rec.run_ops on a message that exists already"""
	steps = []
	for op in ops:
		try:
			if op[0] == 'p':
				clock.now = float(op[1])
				try:
					c.prepare()
				finally:
					clock.now = cr.COMPOSE_CLOCK
				steps.append({'state': {'hdrs': cr.hdr_items(m.headers), 'fd': cr.fd_obs(m.body), 'chunked': bool(m.body.chunked)}, 'now': cr.date_of(float(op[1])).hex()})
			elif op[0] == 'ch':
				c.chunked = bool(op[1])
				steps.append({'state': {'hdrs': cr.hdr_items(m.headers), 'fd': cr.fd_obs(m.body), 'chunked': bool(m.body.chunked)}})
			elif op[0] == 'c':
				out = b''.join(c)
				steps.append({'out': out.hex(), 'fd': cr.fd_obs(m.body)})
			else:
				raise ValueError(op)
		except Exception as exc:
			steps.append({'raised': type(exc).__name__, 'msg': str(exc)[:120], 'op': op[0]})
			break
	return steps


def _apply(m, c, mu, uri, keep, others):
	from httoop import Request, Response
	from httoop.messages.body import Body
	from httoop.semantic.request import ComposedRequest
	from httoop.semantic.response import ComposedResponse
	from httoop.status import Status
	t = mu[0]
	if t == 'body':
		obj = cr._content(mu[1], keep)
		if mu[2] == 'attr':
			m.body = obj
		elif mu[2] == 'set':
			m.body.set(obj)
		elif mu[2] == 'write':
			m.body = None
			m.body.write(obj)
		elif mu[2] in ('encode', 'iterencode'):
			# the codec of the body's media type (text/plain by default) produces the octets, in the charset of the body
			m.body = None
			if mu[1].get('charset'):
				m.body.encoding = mu[1]['charset']
			getattr(m.body, mu[2])(obj)
		elif mu[2] == 'ctor-mime':
			m.body = Body(obj, mimetype='text/plain; charset=%s' % mu[1]['charset'])
		else:
			m.body = Body(obj)
	elif t == 'grow':
		data = bytes.fromhex(mu[1])
		fd = m.body.fd   # the object the caller handed over and still holds
		if isinstance(fd, list):
			fd.append(data)
		elif isinstance(fd, _io.BytesIO):
			pos = fd.tell()
			fd.seek(0, 2)
			fd.write(data)
			fd.seek(pos)
		elif hasattr(fd, 'fileno'):
			with open(fd.name, 'ab') as w:
				w.write(data)
		else:
			raise ValueError('grow: %s' % type(fd).__name__)
	elif t == 'hset':
		m.headers[mu[1]] = bytes.fromhex(mu[2])
	elif t == 'hpop':
		m.headers.pop(mu[1], None)
	elif t == 'hdel':
		if mu[1] in m.headers:
			del m.headers[mu[1]]
	elif t == 'happend':
		m.headers.append(mu[1], bytes.fromhex(mu[2]))
	elif t == 'hvia':
		_hvia(m, mu[1], mu[2], bytes.fromhex(mu[3]))
	elif t == 'hrm':
		_hrm(m, mu[1], mu[2])
	elif t == 'obs':
		_observe(m, c, mu[1], mu[2])
	elif t == 'status':
		code, reason, how = mu[1], mu[2], mu[3]
		if how == 'int':
			m.status = code
		elif how == 'tuple':
			m.status = (code, reason or 'R')
		elif how == 'code':
			m.status.code = code
		elif how == 'str':
			m.status = '%d %s' % (code, reason or 'R')
		else:
			m.status = Status(code)
	elif t == 'method':
		if mu[2] == 'attr':
			m.method = mu[1]
		elif mu[2] == 'set':
			m.method.set(mu[1])
		else:
			m.method.parse(mu[1].encode('ascii'))
	elif t == 'rmethod':
		if mu[2] == 'attr':
			c.request.method = mu[1]
		else:
			c.request = Request(mu[1], '/')
	elif t == 'proto':
		if mu[2] == 'tuple':
			m.protocol = tuple(mu[1])
		elif mu[2] == 'str':
			m.protocol = 'HTTP/%d.%d' % tuple(mu[1])
		else:
			m.protocol = b'HTTP/%d.%d' % tuple(mu[1])
	elif t == 'te':
		flag, how = mu[1], mu[2]
		if how == 'composer':
			c.chunked = flag
		elif how == 'header':
			if flag:
				m.headers['Transfer-Encoding'] = 'chunked'
			else:
				m.headers.pop('Transfer-Encoding', None)
		elif how == 'teprop':
			c.transfer_encoding = b'chunked' if flag else None
		else:
			m.body.chunked = flag
	elif t == 'trailer':
		m.body.trailer[mu[1]] = bytes.fromhex(mu[2])
	elif t == 'trailer-pop':
		m.body.trailer.pop(mu[1], None)
	elif t == 'coding':
		# the complete public way: the field of the message and the coding of the body
		if mu[1]:
			m.headers['Content-Encoding'] = mu[1]
		else:
			m.headers.pop('Content-Encoding', None)
			m.body.content_encoding = None
	elif t == 'path':
		m.uri.path_segments = mu[1]
		uri['segs'] = mu[1]
	elif t == 'host':
		m.uri.host = mu[1]
		uri['host'] = mu[1]
	elif t == 'other':
		spec = mu[1]
		if spec['kind'] == 'req':
			m2 = Request('POST', '/o')
			c2 = ComposedRequest(m2)
		else:
			m2 = Response()
			c2 = ComposedResponse(m2, c.request if spec['share'] == 'request' else Request('GET', '/'))
		if spec['share'] == 'content':
			m2.body = m.body.fd
		elif spec['share'] == 'bodyobj':
			m2.body = m.body
		if spec.get('chunked'):
			c2.chunked = True
		c2.prepare()
		others.append(b''.join(c2).hex())
	else:
		raise ValueError(mu)


def run_seq(case):
	cr.install()
	base = case['base']
	keep = []
	obs = {'segs': []}
	st = sym_init(base)
	uri = {k: base.get(k) for k in ('segs', 'query', 'host', 'port', 'scheme')}
	try:
		with cr.Clock() as clock:
			m, c = cr.build(dict(base, ops=[]), keep)
			for seg in case['segs']:
				so = {'others': []}
				obs['segs'].append(so)
				snap0 = None
				try:
					for mu in seg['mut']:
						if mu[0] == 'obs' and snap0 is None:
							snap0 = _snapshot(m, c, st, uri)   # the data BEFORE anything was observed: what the fresh, never observed message is built from
						_apply(m, c, mu, uri, keep, so['others'])
						sym_mut(st, mu)
				except Exception as exc:
					so['mut_raised'] = '%s: %s (%r)' % (type(exc).__name__, str(exc)[:120], mu)
					break
				cr.REC.reset()
				so['snap'] = _snapshot(m, c, st, uri)
				so['init'] = _init_obs(m, c, st['k'])
				so['live'] = _steps(m, c, seg['ops'], clock)
				so['tables'] = {
					'comp': [[k[0], k[1].hex(), v.hex()] for k, v in cr.REC.comp.items()],
					'lsplit': [[k[0].hex(), k[1].hex(), [x.hex() for x in v]] for k, v in cr.REC.lsplit.items()],
				}
				try:
					fd = m.body.fd
					if isinstance(fd, (list, tuple)):
						so['final_content'] = b''.join(x if isinstance(x, bytes) else x.encode('utf-8') for x in fd).hex()
					elif hasattr(fd, 'read') and hasattr(fd, 'seek'):
						pos = fd.tell()
						fd.seek(0)
						so['final_content'] = fd.read().hex()
						fd.seek(pos)
					else:
						so['final_content'] = None
				except Exception:
					so['final_content'] = None
				so['final_fd'] = cr.fd_obs(m.body)
				# the same data in a fresh object, the same operations
				try:
					m2, c2 = _fresh(snap0 or so['snap'], keep)
					so['fresh'] = _steps(m2, c2, seg['ops'], clock)
				except Exception as exc:
					so['fresh_raised'] = '%s: %s' % (type(exc).__name__, str(exc)[:120])
				if any('raised' in s for s in so['live']):
					break
				for op in seg['ops']:
					if op[0] == 'p':
						sym_prepare(st)
	finally:
		for fd, name in keep:
			try:
				fd.close()
			except Exception:
				pass
			try:
				os.unlink(name)
			except OSError:
				pass
	return obs


import os  # noqa: E402


def _te_in_model(hdrs):
	"""the composer model covers Transfer-Encoding absent / empty / exactly 'chunked' and Content-Encoding values with a non-empty element (for an
	empty one - '', ' ', ';' - the library neither looks a codec up nor refuses; the model would refuse): everything else is oracle-only"""
	for k, v in hdrs:
		if bytes.fromhex(k) == b'Transfer-Encoding' and bytes.fromhex(v) not in (b'', b'chunked'):
			return False
		if bytes.fromhex(k) == b'Content-Encoding' and not bytes.fromhex(v).split(b';')[0].strip(b' \t'):
			return False
	return True


def coq_seq(c, o):
	"""one correspondence case per segment: the model starts from the data read back from the live object"""
	if c.get('nocoq'):
		return None
	terms = []
	for seg, so in zip(c['segs'], o.get('segs', [])):
		if 'live' not in so or not _te_in_model(so['init']['hdrs']) or seg.get('nocoq'):
			continue
		snap = so['snap']
		pc = {'k': snap['k'], 'version': snap['version'], 'body': snap['body'], 'rmethod': snap.get('rmethod', 'GET'), 'ops': seg['ops']}
		term = cr.coq_case(pc, {'init': so['init'], 'ops': so['live'], 'tables': so['tables']})
		if len(term) <= 12000:
			terms.append(term)
	return terms or None


def announced_codings(m):
	"""the content codings a recipient has to undo, read from the composed octets: names are case-insensitive (RFC 7231 3.1.2.1), parameters and
	empty list elements are ignored"""
	out = []
	for n, v in m['fields']:
		if n.lower() == b'content-encoding':
			for x in v.split(b','):
				x = x.split(b';')[0].strip(b' \t').lower()
				if x:
					out.append(x.decode('latin-1'))
	return out


def undo_codings(m):
	payload = m['payload']
	for name in reversed(announced_codings(m)):
		if name in ('gzip', 'x-gzip'):
			payload = cr.decode_coding('gzip', payload)
		elif name == 'deflate':
			payload = cr.decode_coding('deflate', payload)
		elif name != 'identity':
			raise ValueError('%r is not a content coding this reader knows (gzip, x-gzip, deflate, identity)' % name)
	return payload


def coding_refusable(value, names):
	"""may prepare() refuse this caller-set coding field with InvalidHeader?  Yes unless it is, read independently, the plain lower-case spelling of
	codings the library implements (other letter cases are refused by the tree as found: reported as an observation, not as a failure)"""
	if value is None:
		return False
	toks = [x.split(b';')[0].strip(b' \t') for x in value.split(b',')]
	toks = [x for x in toks if x]
	return not all(x in names for x in toks) or len(toks) > 1 or b'"' in value or (b',' in value and b'chunked' not in names)


def _state_key(state, observed):
	"""what is compared between the used / observed message and the fresh one.  An observer may have walked a generator, which the library then
	keeps as the list of its pieces (by design, same content): for observed segments the kinds 'gen' and 'list' of the source are not told apart"""
	if not observed:
		return state
	fd = state['fd']
	return dict(state, fd=['list'] if fd and fd[0] == 'gen' else fd)


def oracle_seq(c, o):
	base = c['base']
	if not in_domain(base):
		return None
	st = sym_init(base)
	k = base['k']
	for n, (seg, so) in enumerate(zip(c['segs'], o['segs'])):
		if 'mut_raised' in so:
			return 'segment %d: modifying the message through its public API raised %s' % (n, so['mut_raised'])
		others = list(so['others'])
		for mu in seg['mut']:
			if mu[0] == 'other':
				# a second message that shares the content object / the Body / the request with the first, serialised at this point
				spec, out2 = mu[1], others.pop(0)
				nobody = spec['share'] == 'request' and k == 'resp' and st.get('rmethod') == 'HEAD'
				try:
					m2 = cr.read_http1(bytes.fromhex(out2), spec['kind'] == 'req', nobody)
				except cr.Malformed as exc:
					return 'segment %d: a second message sharing the %s is not well framed: %s' % (n, spec['share'], exc)
				want2 = st['content'] if spec['share'] in ('content', 'bodyobj') else b''
				if m2['payload'] != want2:
					return 'segment %d: a second message sharing the %s carries %d octets, the content has %d' % (n, spec['share'], len(m2['payload']), len(want2))
			sym_mut(st, mu)
		live = so['live']
		observed = any(mu[0] == 'obs' for mu in seg['mut'])
		if 'fresh_raised' in so:
			return 'harness exception: building the fresh message: %s' % so['fresh_raised']
		fresh = so['fresh']
		st['dropped_now'] = False
		prepared = False
		outs, states = [], []
		for op, a, b in zip(seg['ops'], live, fresh):
			what = {'p': 'prepare()', 'c': 'serialising', 'ch': 'the chunked setter'}[op[0]]
			if ('raised' in a) != ('raised' in b) or a.get('raised') != b.get('raised'):
				return 'segment %d: %s on the message used before %s, on a fresh message with the same data %s' % (n, what,
					'raised ' + a['raised'] if 'raised' in a else 'succeeded', 'raised ' + b['raised'] if 'raised' in b else 'succeeded')
			if 'raised' in a:
				if a['raised'] == 'InvalidHeader' and (coding_refusable(st['ce'], (b'gzip', b'deflate')) or coding_refusable(st['te'], (b'chunked',))):
					return None
				return 'segment %d: operation %r raised %s: %s' % (n, a['op'], a['raised'], a.get('msg'))
			if op[0] == 'ch':
				prepared = False
				outs, states = [], []
			if op[0] in ('p', 'ch'):
				if _state_key(a['state'], observed) != _state_key(b['state'], observed):
					return 'segment %d: after %s the message used before differs from a fresh message with the same data: %r versus %r' % (n, what,
						[(bytes.fromhex(x), bytes.fromhex(y)) for x, y in a['state']['hdrs']], [(bytes.fromhex(x), bytes.fromhex(y)) for x, y in b['state']['hdrs']])
			if op[0] == 'p':
				sym_prepare(st)
				prepared = True
				states.append(tuple(sorted((x, y) for x, y in a['state']['hdrs'] if bytes.fromhex(x) != b'Date')))
				if len(set(states)) > 1:
					return 'segment %d: preparing the message again changes the header fields (beyond the Date value)' % n
			elif op[0] == 'c':
				if a['out'] != b['out']:
					return 'segment %d: the message used before serialises to other octets than a fresh message with the same data: %r versus %r' % (n,
						bytes.fromhex(a['out'])[:300], bytes.fromhex(b['out'])[:300])
				if not prepared:
					continue
				data = bytes.fromhex(a['out'])
				try:
					m = cr.read_http1(data, k == 'req', rfc_bodiless(st))
				except cr.Malformed as exc:
					return 'segment %d: composed output is not a well-framed HTTP/1.x message: %s' % (n, exc)
				if k == 'req':
					bad = target_syntax(m['start'].split(b' ')[1])
					if bad:
						return 'segment %d: composed output is not a syntactically valid request: %s' % (n, bad)
				try:
					payload = undo_codings(m)
				except Exception as exc:
					return 'segment %d: payload does not decode with the announced coding: %s' % (n, exc)
				want = b'' if rfc_bodiless(st) else st['content']
				if payload != want:
					return 'segment %d: framed payload (%d octets) differs from the content the message holds (%d octets)' % (n, len(payload), len(want))
				outs.append(cr.mask_date(data))
				if len(set(outs)) > 1:
					return 'segment %d: composing the prepared message again gives different octets (beyond the Date value)' % n
		if len(live) < len(seg['ops']):
			return 'harness exception: operations missing'
		if so.get('final_content') is not None:
			if bytes.fromhex(so['final_content']) != st['content']:
				return 'segment %d: the body source no longer holds the content after the operations' % n
			if not st['dropped_now'] and so['init']['fd'][0] in ('bytesio', 'file') and so.get('final_fd') != so['init']['fd']:
				return 'segment %d: the position of the body source is not restored: %r became %r' % (n, so['init']['fd'], so.get('final_fd'))
	return None


# ---------------------------------------------------------------- generators of the classes
def _small_body(rng, tier):
	for _ in range(20):
		b = rbody(rng, tier)
		if len(cr.body_content(b)) <= 120:
			return b
	return {'t': 'bytes', 'items': [b'hello'.hex()]}


def _seq_base(rng, tier, kind=None):
	base = rmessage(rng, tier)
	if kind and base['k'] != kind:
		return _seq_base(rng, tier, kind)
	del base['ops']
	base['body'] = _small_body(rng, tier)
	base['trailer'] = []
	if base['k'] == 'req':
		# D43 (no content coding in ComposedRequest.prepare) and D46 (caller-set Content-Length of a request) are known findings of single uses: kept out
		base['coding'] = None
		base['hdrs'] = [h for h in base['hdrs'] if h[0].lower() != 'content-length']
	elif base['coding'] == 'x-unknown':
		base['coding'] = None
	return base


def _seq_ops(rng, st, ts):
	head = st['k'] == 'resp' and st.get('rmethod') == 'HEAD'   # D45: a response to HEAD is prepared once per segment
	r = rng.random()
	if r < 0.45:
		ops = [['p', ts], ['c']]
	elif r < 0.6:
		ops = [['p', ts], ['c'], ['c']]
	elif r < 0.75 and not head:
		ops = [['p', ts], ['c'], ['p', ts + rng.choice([0, 1, 86400])], ['c']]
	elif r < 0.85:
		ops = [['ch', rng.random() < 0.5], ['p', ts], ['c']]
	elif r < 0.92:
		ops = [['c']]
	else:
		ops = [['p', ts], ['c'], ['ch', rng.random() < 0.5], ['p', ts], ['c']] if not head else [['p', ts], ['c']]
	return ops


def _seq_mut(rng, tier, st):
	k = st['k']
	kinds = ['body', 'body', 'body', 'hset', 'hset', 'hpop', 'happend', 'te', 'te', 'trailer', 'proto', 'other', 'other']
	if st['attached'] and st['body']['t'] in ('list', 'bytesio', 'file'):
		kinds += ['grow'] * 4
	if k == 'req':
		kinds += ['method', 'method', 'path', 'host']
	else:
		kinds += ['status', 'status', 'status', 'rmethod', 'rmethod', 'coding', 'coding']
	t = rng.choice(kinds)
	# Kept out (D46 reached through a sequence, reported): a request that was prepared with content keeps the Content-Length of that prepare when
	# its content becomes empty or its method one without body afterwards (prepare never removes the field).
	stale = k == 'req' and st.get('cl_written')
	if t == 'body':
		for _ in range(50):
			b = _small_body(rng, tier)
			if not stale or cr.body_content(b):
				break
		else:
			b = {'t': 'bytes', 'items': [b'hello'.hex()]}
		return ['body', b, rng.choice(['attr', 'attr', 'set', 'bodyobj'])]
	if t == 'grow':
		return ['grow', rdata(rng, rng.choice([1, 1, 2, 7, 30])).hex()]
	if t in ('hset', 'hpop', 'happend'):
		pool = [h for h in SEQ_HDRS if not (k == 'req' and h[0] in ('Content-Length', 'Accept-Ranges'))]
		name, vals = rng.choice(pool)
		name = rng.choice([name, name, name.lower(), name.upper()])
		if t == 'hpop':
			return [rng.choice(['hpop', 'hdel']), name]
		return [t, name, rng.choice(vals).encode('latin-1').hex()]
	if t == 'te':
		return ['te', rng.random() < 0.5, rng.choice(['composer', 'header', 'teprop', 'body'])]
	if t == 'trailer':
		return rng.choice([['trailer', 'X-T', b'tv'.hex()], ['trailer', 'x-t', b''.hex()], ['trailer-pop', 'X-T']])
	if t == 'proto':
		return ['proto', rng.choice([[1, 0], [1, 1]]), rng.choice(['tuple', 'str', 'bytes'])]
	if t == 'other':
		share = rng.choice(['content', 'bodyobj'] + (['request'] if k == 'resp' else []))
		if share == 'content' and st['body']['t'] == 'gen':
			share = 'bodyobj'   # a Python generator handed to two consumers is the caller's problem; the Body around it is shared instead
		if st['body']['t'] == 'gen':
			return ['proto', [1, 1], 'tuple']   # ... and a second Body on the same generator likewise
		return ['other', {'share': share, 'kind': 'resp' if share == 'request' else rng.choice(['req', 'resp']), 'chunked': rng.random() < 0.5}]
	if t == 'method':
		return ['method', rng.choice([x for x in METHODS_REQ if not (stale and x in ('GET', 'HEAD', 'SEARCH'))]), rng.choice(['attr', 'set', 'parse'])]
	if t == 'path':
		return ['path', ['', rng.choice(['a', 'b c', 'ä', 'x.y'])]]
	if t == 'host':
		return ['host', rng.choice(['example.com', 'other.example', '127.0.0.1'])]
	if t == 'status':
		return ['status', rng.choice(STATUSES), rng.choice([None, 'Custom Reason']), rng.choice(['int', 'tuple', 'code', 'str', 'obj'])]
	if t == 'rmethod':
		return ['rmethod', rng.choice(['GET', 'HEAD', 'HEAD', 'POST', 'TRACE']), rng.choice(['attr', 'new'])]
	if t == 'coding':
		return ['coding', rng.choice([None, 'gzip', 'deflate'])]
	raise ValueError(t)


def rseq(rng, tier, kind=None):
	base = _seq_base(rng, tier, kind)
	st = sym_init(base)
	ts = rng.choice([1000, 784111777, 1790000000])
	segs = []
	for i in range(rng.choice([2, 2, 3, 3, 4])):
		mut = []
		if i > 0 or rng.random() < 0.2:
			for _ in range(rng.choice([1, 1, 1, 2, 3])):
				mu = _seq_mut(rng, tier, st)
				sym_mut(st, mu)
				mut.append(mu)
		ops = _seq_ops(rng, st, ts)
		for op in ops:
			if op[0] == 'p':
				sym_prepare(st)
		segs.append({'mut': mut, 'ops': ops})
		if rng.random() < 0.5:
			ts += rng.choice([1, 61, 86400])
	return {'k': 'seq', 'base': base, 'segs': segs}


def _msg(kind, body, chunked=False, ops=None, **kw):
	c = {'k': kind, 'version': [1, 1], 'hdrs': [], 'body': body, 'coding': None, 'trailer': [],
		'ops': ([['ch', True]] if chunked else []) + (ops or [['p', 1000], ['c'], ['p', 1000], ['c']])}
	if kind == 'req':
		c.update(method='POST', segs=['', 'p'], query=None, host='example.com')
	else:
		c.update(status=200, reason=None, rmethod='GET')
	c.update(kw)
	return c


def _base(kind, body=None, **kw):
	c = _msg(kind, body or {'t': 'bytes', 'items': [b'hello'.hex()]}, **kw)
	del c['ops']
	return c


def _one(kind, mut, chunked=False, ops=None, **kw):
	"""a message modified once through the header API / attributes, then prepared and composed twice"""
	nocoq = kw.pop('nocoq', False)
	c = {'k': 'seq', 'base': _base(kind, **kw), 'segs': [{'mut': mut, 'ops': ([['ch', True]] if chunked else []) + (ops or [['p', 1000], ['c'], ['c']])}]}
	if nocoq:
		c['nocoq'] = True
	return c


def _cases3(name):
	out = []
	for v in (name, name.upper(), name.lower(), name.title()):
		if v not in out:
			out.append(v)
	return out[:3]


REG_VALUES = {'content-length': '5', 'transfer-encoding': 'chunked', 'content-encoding': 'gzip', 'connection': 'close', 'trailer': 'X-T', 'host': 'h.example',
	'date': 'Thu, 01 Jan 1970 00:00:00 GMT', 'etag': '"x"', 'last-modified': 'Sun, 06 Nov 1994 08:49:37 GMT', 'content-type': 'text/html', 'allow': 'GET',
	'accept-ranges': 'bytes', 'range': 'bytes=0-1', 'set-cookie': 'a=b', 'www-authenticate': 'Basic realm="x"', 'proxy-authenticate': 'Basic realm="p"',
	'expect': '100-continue', 'te': 'trailers', 'upgrade': 'h2c', 'http2-settings': 'AAMAAABk', 'if-modified-since': 'Sun, 06 Nov 1994 08:49:37 GMT',
	'expires': 'Thu, 01 Jan 1970 00:00:00 GMT', 'cookie': 'a=b', 'content-range': 'bytes 0-1/2', 'retry-after': '120', 'max-forwards': '3', 'age': '1'}
DEGENERATE = ['', ' ', ',', ', ,', ';', '"', '"a', 'a,,b', '=', ' x ', '\t', ';;', 'a;', '""']
DEGENERATE_FIELDS = ['Connection', 'Content-Type', 'Trailer', 'Host', 'Allow', 'Etag', 'Last-Modified', 'Accept-Ranges', 'Content-Length', 'Date', 'User-Agent', 'Accept',
	'Cookie', 'Set-Cookie', 'Www-Authenticate', 'Content-Range', 'Vary', 'Expect', 'Upgrade', 'Te']


def registries():
	"""the tables the composer consults, read from the tree under test at run time"""
	from httoop.header.element import HEADER
	from httoop.header.messaging import ContentEncoding, TransferEncoding
	from httoop.messages.method import Method
	from httoop.status import STATUSES as REG
	from httoop.codecs import CODECS as MEDIA
	return {'media': sorted(MEDIA), 'status': sorted(s for s in REG if isinstance(s, int) and 100 <= s <= 599), 'header': sorted(dict.keys(HEADER)),
		'ce': sorted(ContentEncoding.CODECS.items(), key=lambda kv: kv[0]), 'te': sorted(TransferEncoding.CODECS.items(), key=lambda kv: kv[0]),
		'method': sorted(set(Method.safe_methods) | set(Method.idempotent_methods))}


def gen_classes(rng, tier):
	big = tier == 'thorough'
	cases = []
	hello = {'t': 'bytes', 'items': [b'hello'.hex()]}

	# (1) statefulness: random modification sequences, plus every single modification kind x every public way on a fixed message
	for _ in range(12000 if big else 450):
		cases.append(rseq(rng, tier))
	two = [['p', 1000], ['c']]
	for kind in ('req', 'resp'):
		singles = [['body', {'t': t, 'items': [b'wxyz123'.hex()], 'pos': 3}, how] for t in ('bytes', 'text', 'list', 'gen', 'bytesio', 'file') for how in ('attr', 'set', 'bodyobj')]
		singles += [['body', {'t': 'bytes', 'items': []}, 'attr'], ['hset', 'X-Custom', b'v'.hex()], ['te', True, 'composer'], ['te', True, 'header'], ['te', True, 'teprop'], ['te', True, 'body'],
			['trailer', 'X-T', b'v'.hex()], ['proto', [1, 0], 'tuple'], ['proto', [1, 0], 'str'], ['proto', [1, 0], 'bytes']]
		if kind == 'req':
			singles += [['method', mth, how] for mth in ('GET', 'HEAD', 'PUT', 'TRACE') for how in ('attr', 'set', 'parse')] + [['path', ['', 'q']], ['host', 'other.example']]
		else:
			singles += [['status', code, None, how] for code in (100, 204, 205, 304, 404, 416) for how in ('int', 'tuple', 'code', 'str', 'obj')]
			singles += [['rmethod', mth, how] for mth in ('HEAD', 'TRACE') for how in ('attr', 'new')] + [['coding', 'gzip'], ['coding', 'deflate']]
		for mu in singles:
			# (a request whose content disappears starts chunked, so that no Content-Length was written before: D46, see _seq_mut)
			first = [['ch', True]] + two if kind == 'req' and ((mu[0] == 'method' and mu[1] in ('GET', 'HEAD')) or (mu[0] == 'body' and not mu[1]['items'])) else two
			for t in (('bytes', 'file') if mu[0] in ('te', 'status', 'method', 'rmethod') else ('bytes',)):
				cases.append({'k': 'seq', 'base': _base(kind, {'t': t, 'items': [b'hello'.hex()]}), 'segs': [{'mut': [], 'ops': first}, {'mut': [mu], 'ops': two}, {'mut': [], 'ops': two}]})
		# finding D59 (repaired): a response was prepared and composed with a content coding; then the FIELD alone is taken away (pop / del, three letter
		# cases), with or without new content, keeping the chunked framing of the coded use or going back to Content-Length; prepared and composed again
		if kind == 'resp':
			for ci, coding in enumerate(('gzip', 'deflate')):
				for ti, t in enumerate(('bytes', 'list', 'file', 'gen')):
					for mi, mu in enumerate((['hpop', 'Content-Encoding'], ['hdel', 'content-encoding'], ['hpop', 'CONTENT-ENCODING'])):
						for second in (None, {'t': ('bytes', 'tuple', 'bytesio')[mi], 'items': [b'second'.hex()], 'pos': 1}):
							for back in (False, True):
								if not big and (ci + ti + mi + back + (second is None)) % 2:
									continue
								mut = [mu] + ([['body', second, ('attr', 'set', 'bodyobj')[ti % 3]]] if second else []) + ([['te', False, ('composer', 'header', 'teprop', 'body')[(ti + mi) % 4]]] if back else [])
								cases.append({'k': 'seq', 'base': _base('resp', {'t': t, 'items': [b'first'.hex()]}, coding=coding, status=(200, 404)[mi % 2]),
									'segs': [{'mut': [], 'ops': two}, {'mut': mut, 'ops': two}, {'mut': [], 'ops': two + [['c']]}]})
			for coding in ('gzip', 'deflate'):   # the shortest form
				cases.append({'k': 'seq', 'base': _base('resp', {'t': 'bytes', 'items': [b'first'.hex()]}, coding=coding),
					'segs': [{'mut': [], 'ops': two}, {'mut': [['hpop', 'Content-Encoding'], ['te', False, 'composer']], 'ops': two}]})
		# the source the caller still holds grows between two uses; a second message shares the content / the Body / the request
		for t in ('list', 'bytesio', 'file'):
			for ch in (False, True):
				cases.append({'k': 'seq', 'base': _base(kind, {'t': t, 'items': [b'hello'.hex()], 'pos': 2}), 'segs': [{'mut': [], 'ops': ([['ch', True]] if ch else []) + two},
					{'mut': [['grow', b' world'.hex()]], 'ops': two}, {'mut': [['grow', b'!'.hex()], ['grow', b'?'.hex()]], 'ops': two + two}]})
		for t in ('bytes', 'list', 'tuple', 'bytesio', 'file'):
			for share in ('content', 'bodyobj') + (('request',) if kind == 'resp' else ()):
				for k2 in ('req', 'resp'):
					cases.append({'k': 'seq', 'base': _base(kind, {'t': t, 'items': [b'hello'.hex()], 'pos': 1}), 'segs': [{'mut': [['other', {'share': share, 'kind': 'resp' if share == 'request' else k2, 'chunked': k2 == 'req'}]], 'ops': two},
						{'mut': [['other', {'share': share, 'kind': 'resp' if share == 'request' else k2, 'chunked': k2 != 'req'}]], 'ops': two}]})
	# two different messages of one class after each other (a result kept on the class rather than on the object): sizes differ, same everything else
	for n in (1, 2, 3, 10, 11, 100):
		for t in ('bytes', 'list', 'file'):
			cases.append(_msg('resp', {'t': t, 'items': [(b'x' * n).hex()]}))
			cases.append(_msg('req', {'t': t, 'items': [(b'y' * n).hex()]}, chunked=n % 2 == 0))

	# (2) normalisation forms and look-alikes: text body, text pieces, path and query
	for i, u in enumerate(UNI):
		for text in (u, 'a' + u + 'b' + u):
			h = text.encode('utf-8').hex()
			cases.append(_msg('resp', {'t': 'text', 'items': [h]}, chunked=i % 2 == 0))
			cases.append(_msg('req', {'t': 'list', 'items': [b'x'.hex(), h, h], 'strs': [False, True, True]}, chunked=i % 2 == 1))
		cases.append(_msg('resp', {'t': 'gen', 'items': [u.encode('utf-8').hex(), b''.hex(), u.encode('utf-8').hex()], 'strs': [True, False, True]}, chunked=i % 3 == 0, coding=[None, 'gzip', 'deflate'][i % 3]))
		cases.append(_msg('req', {'t': 'tuple', 'items': [u.encode('utf-8').hex()], 'strs': [True]}, segs=['', u, 'x' + u], query=[[u, u]], method='PUT'))
		cases.append({'k': 'body', 'body': {'t': 'text', 'items': [(u * 3).encode('utf-8').hex()]}, 'chunked': i % 2 == 0, 'coding': None, 'trailer': []})
	alltext = ''.join(UNI)
	cases.append(_msg('resp', {'t': 'text', 'items': [alltext.encode('utf-8').hex()]}))
	cases.append(_msg('req', {'t': 'text', 'items': [alltext.encode('utf-8').hex()]}, chunked=True))

	# (3) lengths at and around limits
	types = ['bytes', 'list', 'bytesio', 'file', 'gen', 'text', 'tuple', 'bytearray']
	for i, n in enumerate(LIMITS):
		if n > 20000 and not big and i % 1:
			continue
		data = (bytes(range(256)) * (n // 256 + 1))[:n] if n % 2 else b'a' * n
		for j in range(3):
			t = types[(i + 3 * j) % len(types)]
			if t == 'text':
				data_t = b'a' * n
			else:
				data_t = data
			kind = 'resp' if (i + j) % 2 else 'req'
			cases.append(_msg(kind, {'t': t, 'items': [data_t.hex()], 'pos': n if j == 1 else 0}, chunked=(i + j) % 3 != 0, ops=[['p', 1000], ['c'], ['c']], nocoq=n > 1100))
		if n <= 8192:
			v = (b'v' * n).hex()
			cases.append({'k': 'hcompose', 'hdrs': [['X-Custom', v], ['Set-Cookie', (b'a=' + b'c' * (n - 2)).hex()]], 'nocoq': n > 1100})
			cases.append(_one('resp' if i % 2 else 'req', [['hset', 'X-Custom', v]], nocoq=n > 1100))
			cases.append(_one('req' if i % 2 else 'resp', [['path' if i % 2 else 'trailer'] + ([['', 's' * n]] if i % 2 else ['X-T', v])], chunked=True, nocoq=n > 1100))
		if n <= 1024:
			cases.append(_msg('resp', hello, reason='r' * n, status=[200, 404, 299][i % 3], ops=[['p', 1000], ['c']]))
		if n in (255, 256, 1023, 1024):
			for t in ('list', 'gen'):
				cases.append(_msg('req' if n % 2 else 'resp', {'t': t, 'items': [b'z'.hex()] * n}, chunked=True, ops=[['p', 1000], ['c'], ['c']], nocoq=True))
	for n in (9, 10, 15, 16, 17, 255, 256, 4095, 4096, 65535, 65536):   # the number of hex digits of a chunk-size changes
		cases.append(_msg('resp', {'t': 'list', 'items': [(b'p' * n).hex(), b'q'.hex()]}, chunked=True, ops=[['p', 1000], ['c']], nocoq=n > 1100))
		cases.append({'k': 'body', 'body': {'t': 'gen', 'items': [(b'p' * n).hex()]}, 'chunked': True, 'coding': None, 'trailer': [], 'nocoq': n > 1100})

	# (4) registries, read from the tree
	reg = registries()
	for code in reg['status']:
		if code in STATUSES and not big:
			continue   # the pool above has them
		for rm, ch in (('GET', False), ('GET', True), ('HEAD', False)):
			cases.append(_msg('resp', hello, chunked=ch, status=code, reason=None, rmethod=rm))
	for i, name in enumerate(reg['header']):
		value = REG_VALUES.get(name.lower(), 'x')
		for j, spelled in enumerate(_cases3(name)):
			kind = 'resp' if (i + j) % 2 else 'req'
			if name.lower() == 'content-encoding':
				kind = 'resp'   # a request is not coded by prepare (D43)
			cases.append(_one(kind, [['hset', spelled, value.encode('latin-1').hex()]], ops=[['p', 1000], ['c']]))
	for table, field in (('ce', 'Content-Encoding'), ('te', 'Transfer-Encoding')):
		for name, codec in reg[table]:
			# Kept out (reported): a name registered with NotImplementedError (identity, compress, br, exi, pack200-gzip) makes serialising fail with
			# AttributeError; a caller-set Transfer-Encoding naming any coding but chunked (gzip, deflate, identity, compress; also 'gzip, chunked',
			# 'chunked, chunked') is sent as set - together with Content-Length when chunked is not in it - and no transfer coding is applied.
			if codec is NotImplementedError or (table == 'te' and name != 'chunked'):
				continue
			for spelled in _cases3(name) + [' ' + name, name + ' ', name + ';q=1' if table == 'ce' else ',' + name, name.upper() + ' ']:
				for kind in (('resp',) if table == 'ce' else ('req', 'resp')):
					cases.append(_one(kind, [['hset', field, spelled.encode('latin-1').hex()]], ops=[['p', 1000], ['c'], ['p', 1000], ['c']]))
	# a registered media type is not a content coding: refused (InvalidHeader), never run as a coding
	for name in reg['media']:
		for spelled in _cases3(name)[:2]:
			cases.append(_one('resp', [['hset', 'Content-Encoding', spelled.encode('latin-1').hex()]], ops=[['p', 1000], ['c']]))
	for name in reg['method']:
		for spelled in _cases3(name):
			for ch in (False, True):
				cases.append(_msg('req', hello, chunked=ch, method=spelled))

	# (5) degenerate values: in every field prepare() looks at, in the coding fields, in the body, the reason phrase, the trailer, the query
	for i, name in enumerate(DEGENERATE_FIELDS):
		for j, v in enumerate(DEGENERATE):
			kind = 'resp' if (i + j) % 2 else 'req'
			if name in ('Accept-Ranges', 'Allow', 'Content-Range', 'Set-Cookie', 'Www-Authenticate', 'Etag', 'Last-Modified', 'Content-Length'):
				kind = 'resp'
			cases.append(_one(kind, [['hset', name, v.encode('latin-1').hex()]], ops=[['p', 1000], ['c']], **({'status': 405} if name == 'Allow' else {})))
	for v in ['', ' ', ',', ', ,', 'chunked,', ',chunked', ' chunked ', 'chunked ,', '\tchunked']:
		for kind in ('req', 'resp'):
			cases.append(_one(kind, [['hset', 'Transfer-Encoding', v.encode('latin-1').hex()]]))
	for v in ['', ' ', ',', 'gzip,', ',gzip', ' gzip ', '"gzip', '"gzip"', 'gzip;', ';', 'gzip;q']:
		cases.append(_one('resp', [['hset', 'Content-Encoding', v.encode('latin-1').hex()]]))
	for items, t, strs in (([], 'list', []), ([''], 'list', [True]), (['', ''], 'gen', [False, True]), ([], 'gen', []), ([' '], 'text', None), (['\r\n'], 'bytes', None), (['0\r\n\r\n'], 'bytes', None),
			(['\r\n\r\n'], 'list', [True]), (['HTTP/1.1 200 OK\r\n\r\n'], 'bytesio', None), (['5\r\nhello\r\n0\r\n\r\n'], 'file', None), (['\x00'], 'bytes', None), ([' ', '', '\t'], 'tuple', [True, True, False])):
		body = {'t': t, 'items': [x.encode('latin-1').hex() for x in items]}
		if strs is not None:
			body['strs'] = strs
		for kind in ('req', 'resp'):
			for ch in (False, True):
				cases.append(_msg(kind, dict(body), chunked=ch))
	for reason in ('', ' ', 'a  b', '\t', ' x ', '-'):
		cases.append(_msg('resp', hello, reason=reason, status=200))
		cases.append(_msg('resp', hello, reason=reason, status=299, chunked=True))
	for tr in ([['X-T', '']], [['X-T', b' '.hex()]], [['X-T', b','.hex()]], [['x-t', b'"'.hex()], ['A', b''.hex()]]):
		cases.append(_msg('resp', hello, chunked=True, trailer=tr))
		cases.append(_msg('req', hello, chunked=True, trailer=tr))
	for q in ([], [['', '']], [['', 'v']], [['k', '']], [['&', '=']], [[' ', ' ']]):
		cases.append(_msg('req', hello, query=q))
	cases.extend(gen_classes4(rng, tier))
	return cases


# ================================================================ the classes of the fourth wave (DESIGN.md section 8, classes 7 - 9)
# (7) read-only observers.  repr / str / bytes / len / bool / iteration / hash / every comparison operator (also reflected) / copy / deepcopy / every public
#     attribute / in / dict / sorted / format applied to the message, its header collection, its Body, the composer, status, method, URI, protocol, the request
#     of the response, the trailer, the content object the caller handed over, a copy.copy of the Body and a second Body made from it (objects that share state
#     with the message) - BEFORE the message is used, and between two uses.  The data of the message is read BEFORE the first observer and put into a
#     fresh message that is never observed: both are driven through the same operations and must agree in every header collection and every octet; the live
#     output must satisfy the property for the content supplied.  (An observer that raises is still an observer: the exception is swallowed.)
# (8) every member of an operator family: every public way to set a field (item assignment of bytes / of text, setdefault, update, append, parse, set_element,
#     merge, assignment of a dict) and to remove it (pop with and without default, del, clear, assignment of an empty dict) for every field the framing
#     depends on; every public way to supply the content (attribute, Body.set, Body(...), Body(..., mimetype), write, encode, iterencode); every comparison
#     operator among the observers; both composer classes everywhere.
# (9) metacharacters and reserved names: the media type ANNOUNCED by a caller-set Content-Type field (charset and other parameters, quoted, upper case,
#     'charset' inside another parameter's value, unknown / unencodable charsets) against content supplied as TEXT pieces, which are encoded while the body is
#     iterated, i.e. after the length was computed (the length and the octets must come from the same encoding, on the first prepare and on every later one);
#     ':' '/' '?' '#' '@' '=' '&' ';' ',' '%' '"' and white space inside path segments, query names and values, field values and trailer values;
#     field names that contain or resemble the framing names; sets with one invalid member (Content-Encoding, Connection, Trailer).
#     The request target of every composed request is now also read against the origin-form grammar of RFC 7230 section 5.3.1 / RFC 3986 section 3.3, 3.4.

import copy as _copy

META = [':', '/', '?', '#', '@', '=', '&', ';', ',', '%', '"', ' ', '+', '\\', '<', '%2', '%zz', '%2f', '%00', '..', '*']
RESERVED_NAMES = ['_charset_', 'charset', 'q', 'boundary', 'filename', 'realm', 'uri', 'bytes', 'chunked', 'gzip', 'close', 'Content-Length', 'Transfer-Encoding: chunked']
NONASCII = ['grüße', 'ééé €', 'плохо', '日本語', 'áßÿ', 'héllo']
ANNOUNCED = ['text/html; charset=ISO-8859-1', 'text/plain; charset=windows-1252', 'text/plain;charset=utf-16', 'TEXT/PLAIN; CHARSET=UTF-16LE', 'text/plain; charset="iso-8859-15"',
	'application/json; charset=utf-32', 'text/plain; charset=us-ascii', 'text/plain; charset=koi8-r', 'text/plain; charset=shift_jis', 'text/plain; charset=UTF-8', 'text/plain',
	'text/plain; charset=x-unknown', 'application/octet-stream', 'text/plain; charset=latin1', 'application/xml; charset=utf-7', 'text/plain; charset=cp437']
ANNOUNCED_META = ['text/plain; x=charset; y="; charset=UTF-16"', 'multipart/form-data; boundary="a;charset=UTF-16"', 'text/plain; _charset_=UTF-16', 'text/plain; q=0.5; charset=ISO-8859-1',
	'text/plain; boundary=charset', 'charset', 'text/plain; charset', 'text/plain; charset=', 'text/plain; charset=,', 'text/plain; charset=UTF-16, text/html', 'text/plain; charset=ISO-8859-1; charset=UTF-8',
	'text/plain; charset=UTF-8; charset=ISO-8859-1', 'text/plain ; charset = ISO-8859-1', '; charset=ISO-8859-1', 'text/plain; filename="a.txt"; charset=utf-16be', '*/*; charset=ISO-8859-1']


def _hvia(m, way, name, value):
	h = m.headers
	if way == 'item-bytes':
		h[name] = value
	elif way == 'item-text':
		h[name] = value.decode('latin-1')
	elif way == 'setdefault':
		h.setdefault(name, value)
	elif way == 'update':
		h.update({name: value})
	elif way == 'append':
		h.append(name, value)
	elif way == 'parse':
		h.parse(name.encode('ascii') + b': ' + value)
	elif way == 'assign':
		d = dict((k, bytes(v)) for k, v in dict.items(h))
		d[name] = value
		m.headers = d
	elif way == 'merge':
		h.merge({name: value})
	elif way == 'set_element':
		main, _, params = value.decode('latin-1').partition(';')
		pairs = dict((k.strip(), v.strip().strip('"')) for k, _, v in (p.partition('=') for p in params.split(';') if p.strip()))
		if pairs:
			h.set_element(name, main.strip(), pairs)
		else:
			h.set_element(name, main.strip())
	else:
		raise ValueError(way)


HVIA_WAYS = ['item-bytes', 'item-text', 'setdefault', 'update', 'append', 'parse', 'assign', 'merge', 'set_element']


def _hrm(m, way, name):
	h = m.headers
	if way == 'pop':
		h.pop(name)
	elif way == 'pop-default':
		h.pop(name, None)
	elif way == 'del':
		del h[name]
	elif way == 'clear':
		h.clear()
	elif way == 'set-empty':
		m.headers = {}
	elif way == 'assign-without':
		m.headers = dict((k, bytes(v)) for k, v in dict.items(h) if k.lower() != name.lower())
	else:
		raise ValueError(way)


HRM_WAYS = ['pop', 'pop-default', 'del', 'clear', 'set-empty', 'assign-without']
FRAMING_NAMES = ['Content-Length', 'Transfer-Encoding', 'Content-Encoding', 'Content-Type', 'Connection', 'Trailer', 'Host', 'Date', 'Accept-Ranges', 'X-Absent']


def _attrs(o):
	for n in dir(o):
		if not n.startswith('_'):
			v = getattr(o, n)
			if not callable(v):
				repr(v)


def _next_all(o):
	for _ in range(100000):
		try:
			next(o)
		except StopIteration:
			return


def _hget(h):
	for n in FRAMING_NAMES:
		for f in (lambda: h[n], lambda: h.get(n), lambda: h.getbytes(n), lambda: h.element(n), lambda: h.elements(n), lambda: h.values(n), lambda: h.get_element(n), lambda: h.get_element(n, 'chunked')):
			try:
				f()
			except Exception:
				pass
	list(h.items()), list(h.keys()), list(h.values())


OBSERVERS = {
	'repr': repr, 'str': str, 'bytes': bytes, 'len': len, 'bool': bool, 'hash': hash, 'int': int, 'tuple': tuple, 'dict': dict, 'sorted': sorted, 'format': format,
	'iter': lambda o: list(iter(o)), 'iter2': lambda o: (list(iter(o)), list(iter(o))), 'join': lambda o: b''.join(o), 'compose': lambda o: o.compose(), 'next-all': _next_all,
	'unicode': lambda o: o.__unicode__(), 'tell': lambda o: o.tell(), 'attrs': _attrs, 'get': _hget, 'copy': _copy.copy, 'deepcopy': _copy.deepcopy,
	'in': lambda o: [(n in o, n.encode('ascii') in o) for n in FRAMING_NAMES + ['x']],
	'eq-self': lambda o: o == o, 'ne-self': lambda o: o != o, 'eq-bytes': lambda o: (o == b'hello', b'hello' == o), 'eq-text': lambda o: (o == 'hello', 'hello' == o),
	'eq-other': lambda o: (o == None, o == 200, o == (1, 1), o == {}, o == [], o == type(o)()),  # noqa: E711
	'ne': lambda o: (o != b'hello', b'hello' != o, o != 'hello', o != None, o != 200, o != (1, 1), o != {}),  # noqa: E711
	'getvalue': lambda o: o.getvalue(), 'conditions': lambda o: list(o.range_conditions()),
}
for _name, _f in (('lt', lambda a, b: a < b), ('le', lambda a, b: a <= b), ('gt', lambda a, b: a > b), ('ge', lambda a, b: a >= b)):
	def _cmp(o, _f=_f):
		for other in (b'hello', 'hello', 200, (1, 1), o, 404.0):
			for x, y in ((o, other), (other, o)):   # the operator and its reflected form
				try:
					_f(x, y)
				except Exception:
					pass
	OBSERVERS[_name] = _cmp

_COMMON = ['repr', 'str', 'bytes', 'hash', 'eq-self', 'ne-self', 'eq-bytes', 'eq-text', 'eq-other', 'ne', 'lt', 'le', 'gt', 'ge', 'copy', 'deepcopy', 'attrs', 'format', 'bool', 'unicode']
OBS_TARGETS = {
	'm': _COMMON + ['compose'],
	'h': _COMMON + ['len', 'iter', 'sorted', 'dict', 'in', 'get', 'compose'],
	'b': _COMMON + ['len', 'iter', 'iter2', 'join', 'compose', 'next-all', 'in', 'tell', 'sorted'],
	'c': ['repr', 'attrs', 'copy', 'deepcopy', 'eq-self', 'hash', 'bool', 'conditions'],
	's': _COMMON + ['int'],       # the status of a response / the method of a request
	'u': _COMMON + ['tuple', 'dict'],   # the URI of a request / the request of a response
	'v': _COMMON + ['tuple', 'iter', 'int'],
	'tr': ['repr', 'bytes', 'bool', 'len', 'iter', 'attrs', 'copy', 'eq-other'],
	'fd': ['repr', 'len', 'iter', 'getvalue', 'copy', 'in', 'sorted', 'tell', 'bool', 'eq-other', 'hash'],
	'bcopy': ['bytes', 'len', 'iter', 'bool', 'repr', 'str', 'eq-bytes', 'next-all'],
	'bwrap': ['bytes', 'len', 'iter', 'bool', 'repr', 'str', 'eq-bytes', 'next-all'],
}


def _observe(m, c, target, name):
	from types import GeneratorType
	from httoop.messages.body import Body
	try:
		if target == 'm':
			o = m
		elif target == 'h':
			o = m.headers
		elif target == 'b':
			o = m.body
		elif target == 'c':
			o = c
		elif target == 's':
			o = m.status if hasattr(m, 'status') else m.method
		elif target == 'u':
			o = m.uri if hasattr(m, 'uri') else c.request
		elif target == 'v':
			o = m.protocol
		elif target == 'tr':
			o = m.body.trailer
		elif target == 'fd':
			o = m.body.fd   # the object the caller handed over (or the buffer the library made of it)
			if isinstance(o, GeneratorType) or type(o) is type(iter([])) or (hasattr(o, 'fileno') and name in ('iter', 'sorted', 'in', 'copy')):
				# running the caller's generator / reading the caller's file through its own interface is a use, not an observation
				name = 'repr'
		elif target in ('bcopy', 'bwrap'):
			fd = m.body.fd
			if isinstance(fd, GeneratorType) or type(fd) is type(iter([])):
				# two Body objects around ONE generator: whichever is iterated first runs it (and keeps the pieces for itself).  A generator handed to two
				# consumers is the caller's problem (see 'other' in _seq_mut): the second Body is made and looked at, not iterated
				name = 'repr'
			o = _copy.copy(m.body) if target == 'bcopy' else Body(m.body)
		else:
			raise ValueError(target)
		OBSERVERS[name](o)
	except Exception:
		pass


def target_syntax(target):
	"""origin-form of RFC 7230 section 5.3.1 read with RFC 3986: 1*( "/" *pchar ) [ "?" *( pchar / "/" / "?" ) ]; None = fine.
	(other forms - '*', absolute-form - do not start with a slash and are not generated here)"""
	if not target.startswith(b'/'):
		return None
	pchar = set(b"abcdefghijklmnopqrstuvwxyzABCDEFGHIJKLMNOPQRSTUVWXYZ0123456789-._~!$&'()*+,;=:@")
	path, q, query = target.partition(b'?')
	for part, extra, what in ((path, b'/', 'path'), (query, b'/?', 'query')):
		i = 0
		while i < len(part):
			ch = part[i]
			if ch == 0x25:
				if len(part) < i + 3 or any(x not in cr.HEXDIG for x in part[i + 1:i + 3]):
					return 'the %s of the request target %r has a %% that is not followed by two hex digits' % (what, target[:80])
				i += 3
				continue
			if ch not in pchar and ch not in extra:
				return 'the %s of the request target %r contains the octet %r, which is not allowed there (RFC 3986)' % (what, target[:80], bytes([ch]))
			i += 1
	return None


def _hx(text, charset='utf-8'):
	return text.encode(charset).hex()


def _text_shapes(text):
	"""content given as TEXT: one str, and str pieces of lists / tuples / generators (alone, repeated, mixed with octet pieces and empty pieces)"""
	h = _hx(text)
	return [{'t': 'text', 'items': [h]},
		{'t': 'list', 'items': [h, _hx('!')], 'strs': [True, True]},
		{'t': 'gen', 'items': [h], 'strs': [True]},
		{'t': 'tuple', 'items': [b'\xff\xfe'.hex(), h, ''], 'strs': [False, True, False]},
		{'t': 'list', 'items': [h, h, h], 'strs': [True, True, True]},
		{'t': 'gen', 'items': [h, b'\r\n'.hex(), h], 'strs': [True, False, True]}]


def gen_classes4(rng, tier):
	big = tier == 'thorough'
	cases = []
	two = [['p', 1000], ['c']]
	four = two + two
	ctype = lambda v: [['Content-Type', v.encode('latin-1').hex()]]   # noqa: E731

	# (9a) the announced media type against content supplied as text: Content-Length framing everywhere, chunked for one case in three
	for i, v in enumerate(ANNOUNCED):
		for j, shape in enumerate(_text_shapes(NONASCII[i % len(NONASCII)])):
			for kind in ('resp', 'req'):
				cases.append(_msg(kind, dict(shape), hdrs=ctype(v), ops=four))
				if (i + j) % 3 == 0 or big:
					cases.append(_msg(kind, dict(shape), chunked=True, hdrs=ctype(v), ops=four))
		if i % 4 == 0:
			for coding in ('gzip', 'deflate'):
				cases.append(_msg('resp', _text_shapes(NONASCII[i % len(NONASCII)])[1], hdrs=ctype(v), coding=coding, ops=four))
	# (the shortest form: one text piece of one character, announced in a charset with one octet per character)
	cases.append(_msg('resp', {'t': 'list', 'items': [_hx('\xe9')], 'strs': [True]}, hdrs=ctype('a/b;charset=latin1'), ops=two))
	for i, v in enumerate(ANNOUNCED_META):
		shapes = _text_shapes(NONASCII[(i + 1) % len(NONASCII)])
		for j, shape in enumerate(shapes if big else (shapes[1 + i % 2], shapes[2 + i % 4])):
			for kind in ('resp', 'req'):
				cases.append(_msg(kind, dict(shape), hdrs=ctype(v), ops=four))
	# long text: more than one block, and the length of the two encodings differs by thousands
	for v in ('text/plain; charset=ISO-8859-1', 'text/plain; charset=utf-16'):
		for t, n in (('list', 5000), ('gen', 2048), ('text', 4096)):
			body = {'t': t, 'items': [_hx('\xe9' * n)]}
			if t != 'text':
				body['strs'] = [True]
			cases.append(_msg('resp', body, hdrs=ctype(v), ops=four, nocoq=True))
	# the charset of the BODY (Body.encoding, what text is encoded in) set by the caller, with and without an announced one that agrees / differs
	for i, (cs, text) in enumerate((('ISO-8859-1', 'grüße'), ('utf-16', 'héllo'), ('cp1251', 'плохо'), ('shift_jis', '日本語'))):
		for j, v in enumerate((None, 'text/plain; charset=%s' % cs, 'text/plain; charset=UTF-8', 'text/plain; charset=utf-32', 'application/octet-stream')):
			for n, shape in enumerate(_text_shapes(text)[:3]):
				kind = 'resp' if (i + j + n) % 2 else 'req'
				cases.append(_msg(kind, dict(shape, charset=cs), chunked=(i + j + n) % 5 == 0, hdrs=ctype(v) if v else [], ops=four))
	# ... and the field appears / changes / disappears between two uses of one message (every way to set and to remove it: see 8)
	for i, v in enumerate(ANNOUNCED[:8] + ANNOUNCED_META[:4]):
		for j, shape in enumerate(_text_shapes(NONASCII[i % len(NONASCII)])[1:4]):
			kind = 'resp' if (i + j) % 3 else 'req'
			way, rm = HVIA_WAYS[(i + j) % 6], HRM_WAYS[(i + j) % 3]
			cases.append({'k': 'seq', 'base': _base(kind, dict(shape)), 'segs': [{'mut': [], 'ops': two}, {'mut': [['hvia', way, 'Content-Type', v.encode('latin-1').hex()]], 'ops': four},
				{'mut': [['hrm', rm, 'Content-Type']], 'ops': two}]})
			cases.append(_one(kind, [['hvia', way, 'Content-Type', v.encode('latin-1').hex()]], body=dict(shape), ops=four))

	# (8) every way to set / remove each field the framing depends on
	text_list = {'t': 'list', 'items': [_hx('grüße'), b' \xff'.hex()], 'strs': [True, False]}
	fields = [('Transfer-Encoding', 'chunked'), ('Content-Encoding', 'gzip'), ('Content-Encoding', 'deflate'), ('Content-Type', 'text/plain; charset=ISO-8859-1'),
		('Content-Length', '3'), ('Connection', 'close'), ('Trailer', 'X-T'), ('Host', 'h.example'), ('Accept-Ranges', 'bytes'), ('Date', 'Thu, 01 Jan 1970 00:00:00 GMT')]
	for i, (name, value) in enumerate(fields):
		for j, way in enumerate(HVIA_WAYS):
			for kind in ('resp', 'req'):
				if kind == 'req' and name in ('Content-Encoding', 'Content-Length', 'Accept-Ranges'):
					continue   # D43 / D46: caller-set coding and length of a request
				if way == 'set_element' and name in ('Date', 'Host', 'Content-Length'):
					continue
				spelled = (name, name.lower(), name.upper())[(i + j) % 3]
				body = dict(text_list) if (i + j) % 2 else {'t': ('bytesio', 'file', 'gen')[j % 3], 'items': [b'hello world'.hex()], 'pos': 4}
				cases.append(_one(kind, [['hvia', way, spelled, value.encode('latin-1').hex()]], body=body, ops=four))
	for i, (name, value) in enumerate(fields[:7]):
		for j, way in enumerate(HRM_WAYS):
			for kind in ('resp', 'req'):
				if kind == 'req' and name in ('Content-Encoding', 'Content-Length'):
					continue
				spelled = (name, name.lower(), name.upper())[(i + j) % 3]
				first = [['hvia', HVIA_WAYS[(i + j) % len(HVIA_WAYS[:7])], name, value.encode('latin-1').hex()]]
				body = dict(text_list) if (i + j) % 2 == 0 else {'t': ('bytes', 'file', 'list')[j % 3], 'items': [b'hello world'.hex()]}
				# (a request that was prepared with Content-Length framing keeps the field: D46 through a sequence - its second use stays non-empty, so the length is rewritten)
				cases.append({'k': 'seq', 'base': _base(kind, body), 'segs': [{'mut': first, 'ops': two}, {'mut': [['hrm', way, spelled]], 'ops': four}]})
	# every way to supply the content
	for kind in ('resp', 'req'):
		for ch in (False, True):
			ways = [({'t': 'bytes', 'items': [b'written \xff'.hex()]}, 'write'), ({'t': 'text', 'items': [_hx('grüße €')]}, 'encode'),
				({'t': 'text', 'items': [_hx('grüße')], 'charset': 'ISO-8859-1'}, 'encode'), ({'t': 'text', 'items': [_hx('héllo')], 'charset': 'utf-16'}, 'ctor-mime'),
				({'t': 'list', 'items': [_hx('grüße'), _hx(' €')], 'strs': [True, True]}, 'iterencode'),
				({'t': 'list', 'items': [_hx('grüße'), _hx('ÿ')], 'strs': [True, True], 'charset': 'ISO-8859-1'}, 'iterencode')]
			for body, how in ways:
				cases.append({'k': 'seq', 'base': _base(kind), 'segs': [{'mut': [['body', body, how]], 'ops': ([['ch', True]] if ch else []) + four}]})
				cases.append({'k': 'seq', 'base': _base(kind, hdrs=ctype('text/plain; charset=windows-1252')), 'segs': [{'mut': [], 'ops': two}, {'mut': [['body', body, how]], 'ops': ([['ch', ch]]) + four}]})

	# (7) read-only observers: before the first use, and between two uses
	bodies = [{'t': 'list', 'items': [_hx('grüße'), b'\xff'.hex(), ''], 'strs': [True, False, False]}, {'t': 'gen', 'items': [_hx('héllo'), b'!'.hex()], 'strs': [True, False]},
		{'t': 'bytesio', 'items': [b'hello world'.hex()], 'pos': 4}, {'t': 'file', 'items': [b'hello file'.hex()], 'pos': 3}, {'t': 'bytes', 'items': [b'hello'.hex()]},
		{'t': 'text', 'items': [_hx('grüße')]}, {'t': 'tuple', 'items': [b'ab'.hex(), b'cd'.hex()]}, {'t': 'gen', 'items': []}]
	n = 0
	walkers = ('len', 'bool', 'iter', 'iter2', 'join', 'compose', 'next-all', 'bytes', 'str', 'eq-bytes', 'in', 'sorted', 'copy', 'deepcopy', 'unicode', 'format')
	for target in sorted(OBS_TARGETS):
		for name in OBS_TARGETS[target]:
			for ki, kind in enumerate(('resp', 'req')):
				n += 1
				if target in ('m', 'v', 'tr') and not big and ((n - 1) // 2 + ki) % 2:
					continue   # the same class for both kinds of message: alternate
				if target == 'b' and (big or name in walkers):
					picks = bodies[:4]   # what walks the content: every kind of source
				elif target in ('fd', 'bcopy', 'bwrap'):
					picks = [bodies[n % 4], bodies[(n + 1 + ki) % 4]]
				else:
					picks = [bodies[n % len(bodies)]]
				for bi, body in enumerate(picks):
					framing = (n + bi) % 3
					kw = {'coding': 'gzip'} if framing == 2 and kind == 'resp' else {}
					ops = ([['ch', True]] if framing == 1 else []) + four
					if ((n - 1) // 4 + ki + bi) % 2 or big:
						cases.append({'k': 'seq', 'base': _base(kind, dict(body), **kw), 'segs': [{'mut': [['obs', target, name]], 'ops': ops}]})
					if not ((n - 1) // 4 + ki + bi) % 2 or big:
						cases.append({'k': 'seq', 'base': _base(kind, dict(body), **kw), 'segs': [{'mut': [], 'ops': ops[:-2]}, {'mut': [['obs', target, name]], 'ops': two + [['c']]}]})
	# random sequences (class 1) with observers after the modifications of every segment
	allobs = [(t, nm) for t in sorted(OBS_TARGETS) for nm in OBS_TARGETS[t]]
	for _ in range(4000 if big else 120):
		c = rseq(rng, tier)
		for seg in c['segs']:
			for _ in range(rng.choice([0, 1, 1, 2, 4])):
				seg['mut'].append(['obs'] + list(rng.choice(allobs)))
		cases.append(c)

	# (9b) metacharacters of the neighbouring components in path segments, query names and values (the target must stay ONE valid origin-form target)
	for i, ch in enumerate(META):
		cases.append(_msg('req', {'t': 'bytes', 'items': [b'hello'.hex()]}, chunked=i % 2 == 0, segs=['', 'a' + ch + 'b', ch], query=[['k' + ch, 'v' + ch + 'w'], [ch, ch]], ops=four))
		cases.append(_msg('req', {'t': 'bytes', 'items': [b'hello'.hex()]}, segs=['', ch + ch, 'x'], query=[[ch + ch, '']], method='PUT', ops=two))
	for i, name in enumerate(RESERVED_NAMES):
		cases.append(_msg('req', {'t': 'list', 'items': [_hx('grüße')], 'strs': [True]}, chunked=i % 2 == 1, segs=['', name], query=[[name, 'UTF-16'], ['x', name]], ops=four))
	# (9c) ... in field values and trailer values; names that contain or resemble the framing names
	for i, ch in enumerate(META + RESERVED_NAMES):
		v = ('a' + ch + 'b').encode('latin-1').hex()
		for kind in ('resp', 'req'):
			cases.append(_msg(kind, {'t': 'bytes', 'items': [b'hello'.hex()]}, chunked=(i % 2 == 0) == (kind == 'resp'), hdrs=[['X-Custom', v], ['Cookie' if kind == 'req' else 'Set-Cookie', v]],
				trailer=[['X-T', v]] if (i % 2 == 0) == (kind == 'resp') else [], ops=four))
	for i, name in enumerate(['X-Content-Length', 'Content-Length-X', 'Content-Lengt', 'Transfer-Encoding-X', 'X-Transfer-Encoding', 'Chunked', 'Content-Encodin', 'Content-Encoding-X', 'Charset', 'Boundary', 'Q', 'Bytes',
			'Content-Typ', 'Content-Type-X', 'Trailers', 'Connection-X', 'Te', 'Content_Length', 'Content.Length', 'Transfer_Encoding']):
		for kind in ('resp', 'req'):
			v = ('chunked', '99', 'gzip', 'text/plain; charset=utf-16', 'close')[i % 5]
			cases.append(_one(kind, [['hset', name, v.encode('ascii').hex()]], body={'t': 'list', 'items': [_hx('grüße')], 'strs': [True]}, chunked=i % 3 == 0, ops=four))
	# (9d) sets with one invalid member: the whole field is refused (InvalidHeader) or the message is framed correctly - never a coded / unframed half
	for v in ('gzip, x-unknown', 'x-unknown, gzip', 'gzip, deflate', 'gzip, identity', 'deflate;q=1, gzip', 'gzip, ', 'gzip, "', 'gzip, gzip', 'identity, gzip', 'gzip; x-unknown', 'gzip x-unknown', 'gzip,\tdeflate'):
		cases.append(_one('resp', [['hset', 'Content-Encoding', v.encode('latin-1').hex()]], ops=four))
	for name, vals in (('Connection', ['close, x-unknown', 'x-unknown, close', 'close, ', 'close; q=1', 'keep-alive, close', 'Transfer-Encoding', 'Content-Length, close']),
			('Trailer', ['X-T, Content-Length', 'Content-Length', 'X-T, ', 'X-T, Transfer-Encoding', 'x-t,X-T'])):
		for i, v in enumerate(vals):
			for kind in ('resp', 'req'):
				cases.append(_one(kind, [['hset', name, v.encode('latin-1').hex()]], chunked=(i % 2 == 0), ops=four, **({'trailer': [['X-T', b'tv'.hex()]]} if name == 'Trailer' else {})))
	return cases

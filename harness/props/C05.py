"""C05 -- composed output is a well-framed message whose framing headers tell the truth; composing is
repeatable and non-destructive."""
from harness import composer_rec as cr
from harness.coqfmt import B, L, N, X

ID = 'C05'
PROPS = 'Props/C05.v'
TABLES = ['HeadersT', 'StartLineT', 'ComposerT']
COQ_HEADER = 'From Httoop Require Import Model.Composer Corr.C05.'
COQ_CHECK = 'check'
CORR_VO = 'Corr/C05.vo'
RULE = ('T2: generated API-level requests and responses (all body source types, sizes 0 .. 3 blocks, chunked on/off, coding none/gzip/deflate, '
	'trailers, every status class, HEAD/TRACE, 1.0/1.1, caller-set headers incl. list-valued and priority fields) driven through random sequences of '
	'prepare / chunked-setter / compose on the real composer with a frozen clock; after every operation the header collection in dict order, the type and '
	'position of body.fd and the body chunked flag, and for compose the emitted octets, are compared with the Gallina model evaluated by vm_compute '
	'(content coders, Element.split and the codec lookup instantiated by the recorded tables, T3). Plus str(n)/%x for numbers, bytes(Headers), len/iter of bodies. '
	'Oracle (independent of the model): an RFC 7230 section 3 reader written from the RFC applied to the real output, payload compared with the content '
	'supplied, Date-masked equality of all outputs and header sets of one sequence, source content/position unchanged. '
	'Wave-3 classes (seq cases and directed families): ONE message modified between uses through every public way (body replaced / grown in place, fields, status, method, '
	'request of the response, protocol, framing by composer / header / transfer_encoding / body, trailer, coding, path, host; content object, Body or request shared with a second message) - '
	'after every block of modifications the data is read back, put into a FRESH message, both are driven through the same operations and must agree octet for octet, the live output '
	'must satisfy the property for the content held now, and every segment is replayed on the Gallina model from the read-back state; normalisation forms and look-alikes in text bodies, '
	'text pieces, path and query; lengths 11..8192, 12288, 65535/65536 of content, pieces (chunk-size digits), piece counts, field values, reason, path segment, trailer value '
	'(oracle-only above 1100 octets); every registered status, header field name, content / transfer coding, media-type codec name and method of the tables read from the tree, in three letter cases; '
	'degenerate values of every field prepare() consults, of codings, body, reason, trailer, query. '
	'Wave-4 classes: read-only observers (repr / str / bytes / len / bool / iteration / hash / == != < <= > >= and reflected / copy / deepcopy / attribute reads / in / dict / sorted / format) applied to message, '
	'header collection, Body, composer, status, method, URI, protocol, trailer, the content object, a copy of the Body and a second Body on the same content before the first use and between two uses - '
	'compared with a fresh message built from the data read BEFORE the observation; every public way to set (item bytes / text, setdefault, update, append, parse, dict assignment, merge, set_element) and to remove '
	'(pop, del, clear, dict assignment) each field the framing depends on, and to supply the content (attribute, set, Body(), Body(mimetype), write, encode, iterencode); the media type announced by a caller-set '
	'Content-Type (charsets in which the text has another length, quoted / upper case / duplicated / nested charset parameters, unknown and unencodable charsets) against content supplied as text pieces and '
	'against the charset of the body; URI and field metacharacters and reserved names in path segments, query, field and trailer values, field names resembling the framing names, coding / Connection / Trailer '
	'sets with one invalid member; the request target of every composed request is read against the origin-form grammar (RFC 3986 pchar / query). '
	'Wave-5 classes: REFUSED calls (closed file / closed BytesIO / not iterable / unencodable text as content through attribute, set, Body(), encode, write; invalid status, method, protocol, URI, field name, mapping; '
	'prepare() with an unknown coding; a serialisation abandoned half way or broken by a piece that is not bytes) before the first use and between two uses of a message - compared with a fresh message built from the data read '
	'BEFORE the call, and what is sent afterwards must be what was sent before, framing fields still true; a second message built from the parts of the first (constructor, attributes, Body(body), content object, Headers(headers), deepcopy, URI, request) '
	'and modified, prepared, serialised - the first goes on like a fresh one; two messages from the same caller-owned argument objects (dict / OrderedDict / Headers / pairs; list / BytesIO / file / dict / deque) - arguments unchanged, second like fresh (kind args); '
	'content as subclasses of bytes / str / list / tuple / BytesIO, dict, OrderedDict, dict views, deque, set, object with __iter__, iter(list), generator expression / function, r+b file, SpooledTemporaryFile; field values as bytearray / memoryview, names as bytes, '
	'collections as OrderedDict / Headers; status / method as bytes; target as str / bytes / URI / tuple / dict, query as list / tuple / iterator / generator / map / chain; the charset of the body through Body(mimetype=str / bytes / quoted), body.encoding, body.mimetype '
	'(UTF-16 / -LE / -BE, UTF-32, ISO8859-1, cp1252, koi8-r, shift_jis, utf-7, utf-8-sig, iso8859-15, cp437) before and after the content, with text, text pieces and mixed pieces; content, charset, coding, framing, trailer, announced type, status / method in every order; '
	'pieces unsorted / duplicated / reverse-sorted; pieces found by search whose deflate stream ends in HT LF VT FF CR SP NUL or contains CR LF, whose CRC-32 does, pieces beginning / ending in those octets, text whose UTF-16 / UTF-32 octets do; '
	'lengths 2^k, 2^k +- 1 (k = 9 .. 16) as size of a file, of a buffer, as sum of pieces, as one chunk. '
	'non-trivial = distinct (kind, framing, source type, dropped?, coding, #ops) classes')
EXHAUSTIVE = {'quick': False, 'thorough': False}
TRUSTED = [
	'harness/tables/composer.py (T1: block size, safe/dated/TRACE methods, request defaults, bodiless statuses, STATUSES header_to_remove, Allow default, 416 Content-Range literal, closing statuses, Connection literals, header priorities, list-valued fields, D29, D42 and D59 probes)',
	'harness/composer_rec.py (T2/T3: messages built through the public API, frozen time.time, wrappers around GZip.encode / Deflate.encode / Element.split installed in the harness process, canonicalisation of header collections as (name, raw value) lists in dict order)',
	'callees that are parameters of every theorem: content coders (zlib, gzip), Element.split of list-valued fields, codec lookup of a Content-Encoding value',
	'the request target (bytes(uri) inside relative_uri()), the Host value and bytes(Date()) are inputs of the composer model (URI: C10, Date: C15)',
	'the composer model covers Transfer-Encoding values absent / empty / exactly "chunked" and responses to requests without Range header (everything else is outside the model: prepare returns None)',
]
ASSUMPTIONS = [
	'body sources behave as the four-constructor state machine (BytesIO slice semantics, a file does not change on disk, a generator yields a fixed finite list) -- validated in T2 against real BytesIO, lists, generators and temp files',
	'the clock does not change during one compose (gzip member header mtime) -- the harness freezes time.time',
	'caller-set header names are non-empty tokens and values contain no CR/LF (API precondition: Headers does not validate values)',
]

D29 = {'k': 'resp', 'version': [1, 1], 'status': 200, 'reason': None, 'rmethod': 'HEAD', 'hdrs': [], 'body': {'t': 'bytes', 'items': ['68656c6c6f']},
	'coding': None, 'trailer': [], 'ops': [['ch', True], ['p', 1000], ['c']]}
D45 = {'k': 'resp', 'version': [1, 1], 'status': 200, 'reason': None, 'rmethod': 'HEAD', 'hdrs': [], 'body': {'t': 'bytes', 'items': ['68656c6c6f']},
	'coding': None, 'trailer': [], 'ops': [['p', 1000], ['c'], ['p', 1000], ['c']]}
D43 = {'k': 'req', 'version': [1, 1], 'method': 'POST', 'segs': ['', 'a'], 'query': None, 'host': 'example.com', 'hdrs': [],
	'body': {'t': 'bytes', 'items': ['68656c6c6f']}, 'coding': 'gzip', 'trailer': [], 'ops': [['p', 1000], ['c']]}
D46 = {'k': 'req', 'version': [1, 1], 'method': 'GET', 'segs': ['', 'a'], 'query': None, 'host': 'example.com', 'hdrs': [['Content-Length', '37']],
	'body': {'t': 'bytes', 'items': ['68656c6c6f']}, 'coding': None, 'trailer': [], 'ops': [['p', 1000], ['c']]}
WITNESSES = [('D29-bodiless-last-chunk', D29), ('D45-head-second-prepare', D45), ('D43-request-coding-content-length', D43), ('D46-request-stale-content-length', D46)]

METHODS_REQ = ['GET', 'HEAD', 'POST', 'PUT', 'DELETE', 'OPTIONS', 'TRACE', 'PATCH', 'SEARCH', 'get', 'M-SEARCH', 'X']
STATUSES = [100, 101, 199, 200, 201, 202, 204, 205, 206, 299, 301, 304, 400, 404, 405, 413, 416, 500, 503, 599]
HDR_POOL = [
	('X-Custom', ['a', 'b c', 'ä', '=?x', 'a,b', '1']), ('Accept', ['text/html', '*/*;q=0.5']), ('ETag', ['"abc"', 'W/"x"']),
	('Last-Modified', ['Sun, 06 Nov 1994 08:49:37 GMT']), ('Connection', ['close', 'keep-alive', 'Upgrade', 'Close']),
	('Cookie', ['a=b', 'a=b; c=d']), ('Set-Cookie', ['a=b', 'a=b, c=d', 'a=b; expires=Wed, 09 Jun 2021 10:18:14 GMT, c=d', 'x="1,2", y=3']),
	('WWW-Authenticate', ['Basic realm="x"', 'Basic realm="x", Digest realm="a,b", nonce="1"']),
	('Proxy-Authenticate', ['Basic realm="p"']), ('Server', ['srv/1.0']), ('Host', ['other.example', 'h:81']),
	('Content-Language', ['de', 'en, de']), ('Allow', ['GET']), ('Date', ['Thu, 01 Jan 1970 00:00:00 GMT']), ('Vary', ['*']),
	('Content-Type', ['application/octet-stream', 'text/html; charset=ISO8859-1']), ('User-Agent', ['ua/2']), ('Expires', ['0']),
	('Location', ['/x']), ('X-Forwarded-Host', ['f.example']), ('Content-MD5', ['Q2hlY2s=']), ('Zzz', ['last']), ('Aaa', ['first']),
	('Accept-Ranges', ['none']), ('Content-Range', ['bytes 0-1/2']), ('Trailer', ['X-T']), ('Content-Length', ['7']),
]


def rdata(rng, n):
	r = rng.random()
	if r < 0.4:
		return bytes(rng.randrange(256) for _ in range(n))
	if r < 0.7:
		return bytes(rng.choice(b'abc \r\n0;:') for _ in range(n))
	return bytes([rng.randrange(256)]) * n


def rbody(rng, tier):
	t = rng.choice(['bytes', 'bytearray', 'text', 'list', 'tuple', 'gen', 'bytesio', 'file', 'gen', 'list', 'bytesio'])
	r = rng.random()
	blk = 4096
	if r < 0.12:
		size = 0
	elif r < 0.75:
		size = rng.randint(1, 40)
	elif r < 0.8:
		size = rng.choice([255, 256, 4095])
	else:
		size = rng.choice([blk, blk + 1, 2 * blk, 2 * blk + 7, 3 * blk - 1]) if rng.random() < (0.6 if tier == 'thorough' else 0.25) else rng.randint(41, 300)
	b = {'t': t}
	if t in ('list', 'tuple', 'gen'):
		k = rng.randint(0, 4)
		if size == 0:
			items = [b''] * rng.randint(0, 2)
		else:
			cuts = sorted(rng.randint(0, size) for _ in range(k))
			data = rdata(rng, size)
			items = [data[a:c] for a, c in zip([0] + cuts, cuts + [size])]
		strs = []
		for i, it in enumerate(items):
			s = rng.random() < 0.2
			if s:
				try:
					it.decode('utf-8')
				except UnicodeDecodeError:
					s = False
			strs.append(s)
		b['items'] = [i.hex() for i in items]
		b['strs'] = strs
	elif t == 'text':
		alphabet = 'abc äö€\r\n\U0001f600'
		text = ''.join(rng.choice(alphabet) for _ in range(min(size, 2000)))
		b['items'] = [text.encode('utf-8').hex()]
	else:
		b['items'] = [rdata(rng, size).hex()]
		if t in ('bytesio', 'file'):
			b['pos'] = rng.choice([0, 0, size, rng.randint(0, size), size + 3])
	return b


def rhdrs(rng, kind):
	out = []
	seen = set()
	for _ in range(rng.choice([0, 1, 1, 2, 3, 5])):
		name, vals = rng.choice(HDR_POOL)
		if name in seen:
			continue
		if kind == 'req' and name in ('Accept-Ranges',):
			continue
		seen.add(name)
		v = rng.choice(vals)
		if rng.random() < 0.3:
			name = rng.choice([name.lower(), name.upper(), name])
		out.append([name, v.encode('latin-1').hex()])
	return out


def rops(rng):
	r = rng.random()
	if r < 0.25:
		ops = ['p', 'c']
	elif r < 0.5:
		ops = ['p', 'c', 'p', 'c']
	elif r < 0.6:
		ops = ['p', 'p', 'c', 'c']
	elif r < 0.65:
		ops = ['c']
	else:
		ops = ['p'] + [rng.choice(['p', 'c']) for _ in range(rng.randint(1, 5))]
	out = []
	ts = rng.choice([1000, 784111777, 1790000000])
	for o in ops:
		if o == 'p':
			out.append(['p', ts])
			if rng.random() < 0.5:
				ts += rng.choice([1, 61, 86400])
		else:
			out.append(['c'])
	if rng.random() < 0.4:
		out.insert(0, ['ch', True])
	elif rng.random() < 0.1:
		out.insert(0, ['ch', False])
	if rng.random() < 0.05:
		out.insert(rng.randint(1, len(out)), ['ch', rng.random() < 0.5])
	return out


def rmessage(rng, tier):
	kind = 'resp' if rng.random() < 0.55 else 'req'
	c = {'k': kind, 'version': rng.choice([[1, 1], [1, 1], [1, 1], [1, 0]]), 'hdrs': rhdrs(rng, kind), 'body': rbody(rng, tier),
		'coding': rng.choice([None, None, None, 'gzip', 'deflate']), 'trailer': [], 'ops': rops(rng)}
	if rng.random() < 0.04:
		c['coding'] = 'x-unknown'
	if rng.random() < 0.08:
		c['trailer'] = [['X-T', b'tv'.hex()]] + ([['A-T', b'1'.hex()]] if rng.random() < 0.5 else [])
	if kind == 'req':
		c['method'] = rng.choice(METHODS_REQ)
		c['segs'] = [''] + [rng.choice(['a', 'b c', 'ä', 'x.y', '%41', 'a;b', 'a:b', '']) for _ in range(rng.randint(0, 3))]
		if c['segs'] == [''] or (len(c['segs']) > 1 and c['segs'][1] == ''):
			c['segs'] = ['', 'r'] + c['segs'][2:]
		c['query'] = rng.choice([None, None, [['k', 'v']], [['ü', '€ &'], ['a', '']]])
		c['host'] = rng.choice(['example.com', 'example.com', None, 'exämple.com', '127.0.0.1'])
		if rng.random() < 0.2:
			c['port'] = rng.choice([80, 8080])
	else:
		c['status'] = rng.choice(STATUSES) if rng.random() < 0.6 else rng.choice([200, 200, 404])
		c['reason'] = rng.choice([None, None, None, 'Custom Reason', 'x'])
		c['rmethod'] = rng.choice(['GET', 'GET', 'GET', 'HEAD', 'HEAD', 'POST', 'TRACE'])
	return c


def gen_cases(rng, tier):
	cases = []
	big = tier == 'thorough'
	for n in list(range(0, 300)) + [4095, 4096, 4097, 65535, 65536, 10 ** 6, 2 ** 32, 2 ** 64 + 1, 10 ** 30]:
		cases.append({'k': 'dec', 'n': n})
		cases.append({'k': 'hex', 'n': n})
	for _ in range(2000 if big else 200):
		n = rng.choice([rng.randrange(10 ** 4), rng.randrange(10 ** 9), rng.randrange(16 ** rng.randint(1, 20))])
		cases.append({'k': 'dec', 'n': n})
		cases.append({'k': 'hex', 'n': n})
	for _ in range(3000 if big else 300):
		cases.append({'k': 'hcompose', 'hdrs': rhdrs(rng, 'resp') + rhdrs(rng, 'req')})
	for _ in range(4000 if big else 400):
		cases.append({'k': 'body', 'body': rbody(rng, tier), 'chunked': rng.random() < 0.5, 'coding': rng.choice([None, None, 'gzip', 'deflate']),
			'trailer': [['X-T', b'v'.hex()]] if rng.random() < 0.1 else []})
	# every status x {GET, HEAD} x chunked on/off, one small body
	for code in (range(100, 600) if big else STATUSES):
		for rm in ('GET', 'HEAD'):
			for ch in (False, True):
				cases.append({'k': 'resp', 'version': [1, 1], 'status': code, 'reason': None if code in (200, 204, 304, 404) else 'R', 'rmethod': rm, 'hdrs': [],
					'body': {'t': 'bytes', 'items': [b'hello'.hex()]}, 'coding': None, 'trailer': [],
					'ops': ([['ch', True]] if ch else []) + [['p', 1000], ['c'], ['p', 1000], ['c']]})
	# every body source type x framing x coding, two prepare/compose rounds
	for t in ('bytes', 'bytearray', 'text', 'list', 'tuple', 'gen', 'bytesio', 'file'):
		for ch in (False, True):
			for coding in (None, 'gzip', 'deflate'):
				for kind in ('req', 'resp'):
					items = [b'ab'.hex(), b''.hex(), b'cde'.hex()] if t in ('list', 'tuple', 'gen') else [b'abcde'.hex()]
					c = {'k': kind, 'version': [1, 1], 'hdrs': [], 'body': {'t': t, 'items': items, 'pos': 2}, 'coding': coding, 'trailer': [],
						'ops': ([['ch', True]] if ch else []) + [['p', 1000], ['c'], ['p', 1000], ['c'], ['c']]}
					if kind == 'req':
						c.update(method='POST', segs=['', 'p'], query=None, host='example.com')
					else:
						c.update(status=200, reason=None, rmethod='GET')
					cases.append(c)
	for _ in range(30000 if big else 1500):
		cases.append(rmessage(rng, tier))
	cases.extend(gen_classes(rng, tier))
	return cases


def observe(c):
	k = c['k']
	if k == 'dec':
		return {'out': str(c['n']).encode('ascii').hex()}
	if k == 'hex':
		return {'out': (b'%x' % c['n']).hex()}
	if k == 'hcompose':
		cr.install()
		cr.REC.reset()
		from httoop.header import Headers
		h = Headers()
		for name, value in c['hdrs']:
			h[name] = bytes.fromhex(value)
		out = bytes(h)
		return {'items': cr.hdr_items(h), 'out': out.hex(), 'tables': {'comp': [], 'lsplit': [[a[0].hex(), a[1].hex(), [x.hex() for x in v]] for a, v in cr.REC.lsplit.items()]}, 'init': {'ce': []}}
	if k == 'body':
		cr.install()
		cr.REC.reset()
		from httoop.messages.body import Body
		keep = []
		try:
			with cr.Clock():
				b = Body(_content5(c['body'], keep))
				for name, value in c.get('trailer', []):
					b.trailer[name] = bytes.fromhex(value)
				if c.get('coding'):
					b.content_encoding = c['coding']
				b.chunked = c['chunked']
				init = {'chunked': bool(b.chunked), 'codec': cr.codec_id(b), 'ctype': bytes(b.mimetype).hex(), 'trailer': cr.hdr_items(b.trailer), 'ce': []}
				n = len(b)
				out = b''.join(b)
				o = {'init': init, 'len': n, 'out': out.hex(), 'fd': _fd_obs(b),
					'tables': {'comp': [[a[0], a[1].hex(), v.hex()] for a, v in cr.REC.comp.items()], 'lsplit': []}}
		finally:
			for fd, name in keep:
				fd.close()
				import os
				os.unlink(name)
		return o
	if k == 'seq':
		return run_seq(c)
	if k == 'args':
		return run_args(c)
	return cr.run_ops(c)


def coq_case(c, o):
	k = c['k']
	if 'harness_exception' in o:
		return 'CDec 0 []'
	if c.get('nocoq') and k != 'seq':
		return None   # oracle-only: the literal would be too large for a correspondence shard
	if k == 'dec':
		return 'CDec %s %s' % (N(c['n']), X(bytes.fromhex(o['out'])))
	if k == 'hex':
		return 'CHex %s %s' % (N(c['n']), X(bytes.fromhex(o['out'])))
	if k == 'hcompose':
		return 'CHcompose %s %s %s' % (cr.coq_tables(o), cr.coq_hdrs(o['items']), X(bytes.fromhex(o['out'])))
	if k == 'body':
		return 'CBody %s %s %s %s %s' % (cr.coq_tables(o), cr.coq_body(c, o['init']), N(o['len']), X(bytes.fromhex(o['out'])), cr.coq_fd(o['fd']))
	if k == 'seq':
		return coq_seq(c, o)
	if k == 'args':
		return None   # oracle-only: three objects and their argument objects, nothing the model says anything about
	return cr.coq_case(c, o)


# ---------------------------------------------------------------- the property, stated on the implementation
def dropped(c):
	"""does the library drop the body of this message by design?"""
	if c['k'] == 'req':
		return c['method'] in ('GET', 'HEAD', 'SEARCH')
	s = c['status']
	return s < 200 or s in (204, 205, 304) or c.get('rmethod') == 'HEAD'


def rfc_bodiless(c):
	"""RFC 7230 3.3.3 rule 1: responses to HEAD, 1xx, 204, 304 end after the header section"""
	if c['k'] == 'req':
		return False
	s = c['status']
	return s < 200 or s in (204, 304) or c.get('rmethod') == 'HEAD'


def in_domain(c):
	"""API preconditions of the property: field names are tokens, values free of CR/LF, reason printable"""
	for name, value in c.get('hdrs', []) + c.get('trailer', []):
		v = bytes.fromhex(value)
		if not name or b'\r' in v or b'\n' in v:
			return False
	return True


def oracle(c, o):
	if 'harness_exception' in o:
		return 'harness exception: %s' % o['harness_exception']
	k = c['k']
	if k == 'hcompose' and c.get('nocoq'):
		# too long for a correspondence shard: the composed header section is read back with the RFC reader instead
		try:
			fields, pos = cr._fields(bytes.fromhex(o['out']), 0)
		except cr.Malformed as exc:
			return 'composed header section is not well formed: %s' % (exc,)
		for name, value in c['hdrs']:
			if (name.encode('ascii'), bytes.fromhex(value)) not in fields:
				return 'field %s (%d octets) is not in the composed header section as it was set' % (name, len(value) // 2)
		return None
	if k in ('dec', 'hex', 'hcompose'):
		return None
	if k == 'seq':
		return oracle_seq(c, o)
	if k == 'args':
		return oracle_args(c, o)
	if k == 'body':
		content = cr.body_content(c['body'])
		if o['len'] != len(content):
			return 'len(body) is %d, the content has %d octets' % (o['len'], len(content))
		return None
	if not in_domain(c):
		return None
	steps = o['ops']
	if steps and 'raised' in steps[-1]:
		if c.get('coding') == 'x-unknown' and steps[-1]['raised'] == 'InvalidHeader':
			return None
		return 'operation %r raised %s: %s' % (steps[-1]['op'], steps[-1]['raised'], steps[-1].get('msg'))
	content = cr.body_content(c['body'])
	expect = b'' if dropped(c) else content
	prepared = False
	outs, states = [], []
	for op, st in zip(c['ops'], steps):
		if op[0] == 'ch':
			# the caller changes the framing: a new epoch begins, and the message has to be prepared again
			prepared = False
			outs, states = [], []
		elif op[0] == 'p':
			prepared = True
			states.append(tuple(sorted((a, b) for a, b in st['state']['hdrs'] if bytes.fromhex(a) != b'Date')))
			if len(set(states)) > 1:
				return 'preparing the message again changes the header fields (beyond the Date value)'
		elif op[0] == 'c' and prepared:
			data = bytes.fromhex(st['out'])
			try:
				m = cr.read_http1(data, k == 'req', rfc_bodiless(c))
			except cr.Malformed as exc:
				return 'composed output is not a well-framed HTTP/1.x message: %s' % (exc,)
			if k == 'req':
				bad = target_syntax(m['start'].split(b' ')[1])
				if bad:
					return 'composed output is not a syntactically valid request: %s' % bad
			payload = m['payload']
			if c.get('coding') in ('gzip', 'deflate') and has_coding_header(m):
				try:
					payload = cr.decode_coding(c['coding'], payload)
				except Exception as exc:
					return 'payload does not decode with the announced coding: %s' % (exc,)
			want = b'' if rfc_bodiless(c) else expect
			if payload != want:
				return 'framed payload (%d octets) differs from the content supplied (%d octets)' % (len(payload), len(want))
			outs.append(cr.mask_date(data))
			if len(set(outs)) > 1:
				return 'composing the prepared message again gives different octets (beyond the Date value)'
	# non-destructive: the source still holds the content (unless the library drops the body by design)
	if o.get('final_content') is not None and not (dropped(c) and any(op[0] == 'p' for op in c['ops'])):
		# (text pieces of a list stay text: the harness reads them back as UTF-8, whatever the charset of the body)
		held = cr.body_content(dict(c['body'], charset=None)) if c['body']['t'] in ('list', 'tuple', 'gen') else content
		if bytes.fromhex(o['final_content']) != held:
			return 'the body source no longer holds the content after the operations'
		if o['init']['fd'][0] in ('bytesio', 'file') and o.get('final_fd') != o['init']['fd']:
			return 'the position of the body source is not restored: %r became %r' % (o['init']['fd'], o.get('final_fd'))
	return None


def has_coding_header(m):
	return any(n.lower() == b'content-encoding' for n, v in m['fields'])


def classify(c, o, fail):
	k = c['k']
	if k == 'seq':
		# only the HEAD exception of repeatability can be reached by a sequence (the generator keeps D43 / D46 inputs out)
		heads = c['base'].get('rmethod') == 'HEAD' or any(mu[0] == 'rmethod' and mu[1] == 'HEAD' for seg in c['segs'] for mu in seg['mut'])
		return 'D45-head-second-prepare' if c['base']['k'] == 'resp' and heads and 'again' in fail else None
	if k not in ('req', 'resp'):
		return None
	framing_chunked = any(op[0] == 'ch' and op[1] for op in c['ops']) or (k == 'resp' and c.get('coding') in ('gzip', 'deflate'))
	if k == 'resp' and rfc_bodiless(c) and 'octets after the header section' in fail and framing_chunked:
		return 'D29-bodiless-last-chunk'
	if k == 'resp' and c.get('rmethod') == 'HEAD' and ('again' in fail):
		return 'D45-head-second-prepare'
	if k == 'req' and c.get('coding') in ('gzip', 'deflate') and not dropped(c) and ('Content-Length is' in fail):
		return 'D43-request-coding-content-length'
	if k == 'req' and any(n.lower() == 'content-length' for n, v in c.get('hdrs', [])) and ('Content-Length is' in fail or 'without Content-Length' in fail or 'both Content-Length' in fail):
		return 'D46-request-stale-content-length'
	return None


def nontrivial(c, o):
	k = c['k']
	if k in ('dec', 'hex'):
		return (k, len(o.get('out', '')))
	if k == 'hcompose':
		return (k, len(c['hdrs']))
	if k == 'body':
		return (k, c['body']['t'], c['body'].get('py'), c['chunked'], c['coding'], min(len(cr.body_content(c['body'])) // 4096, 3))
	if k == 'args':
		return (k, c['kind'], c['htype'], c['body']['t'], c['body'].get('py'), c['chunked'])
	if k == 'seq':
		return (k, c['base']['k'], c['base']['body']['t'], tuple(tuple(mu[0] + ':' + str(mu[-1]) if mu[0] in ('body', 'status', 'method', 'rmethod', 'te', 'proto', 'obs', 'refuse', 'charset', 'target') else mu[0] + ':' + mu[1] + ':' + mu[2] if mu[0] == 'alias' else mu[0] + ':' + mu[1] if mu[0] in ('hvia', 'hrm') else mu[0] for mu in seg['mut']) for seg in c['segs']),
			tuple(len(seg['ops']) for seg in c['segs']))
	if 'ops' not in o:
		return None
	return (k, c['body']['t'], dropped(c), c.get('coding'), len(c['ops']), c.get('status'), c.get('method'), min(len(cr.body_content(c['body'])) // 4096, 3),
		any(op[0] == 'ch' for op in c['ops']), tuple(c['version']))


LEVEL_TEXT = ('Machine-checked Coq theorems about an executable Gallina model of the composer (body sources as a four-constructor state machine, prepare for requests and '
	'responses, header composition, content coding, chunk framing): for every message of the model, every content coder and both code variants, the composed octets '
	'are accepted by an independent Gallina reader of RFC 7230 section 3 with exactly Content-Length octets or a complete chunked body whose payload is the (coded) content, '
	'never both framings, no octets for bodiless responses (repaired variant; refuted with witness for the pinned tree, finding D29); for a message object whose Body still carries '
	'the content codec of an earlier use (finding D59) the repaired variant needs no precondition, the variant as found is refuted by witness; prepare and compose are repeatable '
	'over arbitrary operation sequences for every body-source constructor (induction on the operation list), with the HEAD exception refuted by witness. '
	'The model is tied to /repo on every run: tables regenerated, ~3000 operation sequences replayed inside Coq against the real composer.')
LEVEL_NOTE = ('Trusted: Coq kernel + vm_compute; T1/T2/T3 harness; zlib/gzip, Element.split and the request target are parameters; Python object protocol of '
	'body sources (non-seekable streams, files changing on disk) is outside the model. No axioms (Print Assumptions: closed).')
TECHNIQUE = 'Coq proof by induction over piece lists / operation lists on a Gallina model + vm_compute correspondence against the implementation'


# ================================================================ the six classes of DESIGN.md section 8
# (1) statefulness: 'seq' cases.  ONE message object (and its composer) is used several times and modified between the uses through every public
#     way (body replaced / grown in place, fields set / removed / appended, status, method, request of the response, protocol, framing through the
#     composer, the header, the transfer_encoding property and the body, trailer, content coding, path, host; the content object or the Body shared
#     with a second message that is serialised in between).  After each block of modifications the observable data of the object is read back and
#     the SAME data is put into a FRESH message: both are driven through the same prepare / compose operations and must give the same header
#     collections and the same octets (a value cached inside an object or a class shows up here), and the live output must satisfy the property
#     for the content the message holds NOW.  Every segment is also a correspondence case of the Gallina model (which has no hidden state).
# (2) Unicode normalisation forms and look-alikes in the text positions of this property: text bodies and text pieces of list / generator bodies
#     (the payload must be the UTF-8 octets of the text, code point for code point), path segments and query of the request target (validity).
# (3) lengths at and around limits: content length, piece length (chunk-size digits), number of pieces, field value, reason phrase, path segment,
#     trailer value.
# (4) registries read from the tree at run time: every registered status, every header field name of HEADER in three letter cases, every
#     content-coding / transfer-coding name in three letter cases, every method of the safe / idempotent tables in three letter cases.
# (5) degenerate values in every field prepare() consults and in the body.
# (6) independent re-encoding of RECEIVED data: not applicable, this property has no receiving side (C04 feeds the composed octets to the parser).
#     What carries over - the same data handed over by the caller in another spelling (other letter case, optional white space, constructor
#     arguments instead of attributes, another public way to the same modification) - is part of (1), (4) and (5).

import io as _io

UNI = ['e\u0301', '\u00e9', '\u212b', '\u00c5', 'A\u030a', '\u2126', '\u03a9', '\u212a', '\u1112\u1161\u11ab', '\ud55c', '\ufa10', '\u585a', '\uf900',
	'\U0001f600', '\U00020000', '\U0002f800', '\ufb01', '\u1e9b\u0323', '\u0958', '\u00a0', '\u2028', '\ufeff', '\u0130', '\u00df', '\u01c4']
LIMITS = [11, 12, 75, 76, 255, 256, 1023, 1024, 4095, 4096, 4097, 8190, 8191, 8192, 12288, 65535, 65536]
# Content-Encoding is not in the pool of the RANDOM header modifications (a caller-set field on a request, or a second list element, is a matter of D43 / of the
# refusable spellings).  Its removal after a coded use is generated systematically instead (gen_classes, 'stale coding'): after a response was prepared with
# Content-Encoding: gzip, removing the FIELD alone and preparing again sent the gzip-coded body (the coding stayed on the Body), without announcing it and,
# with Content-Length framing, under the length of the uncoded content - finding D59, repaired (corpus/C05/D59-*.json); ['coding', None] clears both.
SEQ_HDRS = [('X-Custom', ['a', 'b c', '1']), ('Connection', ['close', 'keep-alive']), ('ETag', ['"abc"']), ('Last-Modified', ['Sun, 06 Nov 1994 08:49:37 GMT']),
	('Content-Type', ['application/octet-stream', 'text/html']), ('Cookie', ['a=b']), ('Set-Cookie', ['a=b', 'a=b, c=d']), ('Trailer', ['X-T']),
	('Date', ['Thu, 01 Jan 1970 00:00:00 GMT']), ('Allow', ['GET']), ('Accept-Ranges', ['none', 'bytes']), ('User-Agent', ['ua/2']), ('Accept', ['text/html']),
	('Host', ['other.example']), ('Vary', ['*']), ('Content-Length', ['7', '0'])]


def sym_init(base):
	st = {'k': base['k'], 'content': cr.body_content(base['body']), 'body': dict(base['body']), 'attached': True, 'ce': None, 'te': None, 'dropped_now': False}
	for name, value in base.get('hdrs', []):
		sym_hdr(st, name, bytes.fromhex(value))
	if base.get('coding'):
		st['ce'] = base['coding'].encode('ascii')
	if base['k'] == 'req':
		st['method'] = base['method']
	else:
		st['status'] = base['status']
		st['rmethod'] = base.get('rmethod', 'GET')
	return st


def sym_hdr(st, name, value):
	if name.lower() == 'content-encoding':
		st['ce'] = value
	if name.lower() == 'transfer-encoding':
		st['te'] = value


def sym_mut(st, mu):
	"""what a modification means for the data the message holds (independent of the implementation)"""
	t = mu[0]
	if t == 'body':
		st['body'] = dict(mu[1])
		st['content'] = cr.body_content(mu[1])
		st['attached'] = True
		if mu[2] == 'attr-then-charset' and mu[1]['t'] == 'text':
			# text is turned into octets when it is assigned, in the charset the body has THEN (UTF-8 here); the charset named afterwards describes them wrongly, but framing is about octets
			st['content'] = cr.body_content(dict(mu[1], charset=None))
			st['body'] = {'t': 'bytes', 'items': [st['content'].hex()]}
		if mu[2] == 'iterencode':
			# Body.iterencode hands the pieces to the codec of the body's media type: a generator of encoded pieces
			st['body'] = {'t': 'gen', 'items': [x.hex() for x in cr.body_items(mu[1])], 'strs': [False] * len(mu[1]['items'])}
	elif t == 'grow':
		st['content'] += bytes.fromhex(mu[1])
		b = st['body']
		if b['t'] == 'list':
			b['items'] = list(b['items']) + [mu[1]]
			b['strs'] = list(b.get('strs') or [False] * (len(b['items']) - 1)) + [False]
		else:
			b['items'] = [st['content'].hex()]
	elif t == 'status':
		st['status'] = mu[1]
	elif t == 'method':
		st['method'] = mu[1]
	elif t == 'rmethod':
		st['rmethod'] = mu[1]
	elif t in ('hset', 'happend'):
		sym_hdr(st, mu[1], bytes.fromhex(mu[2]))
	elif t in ('hpop', 'hdel'):
		sym_hdr(st, mu[1], None)
	elif t == 'coding':
		st['ce'] = mu[1].encode('ascii') if mu[1] else None
	elif t == 'te':
		st['te'] = None   # exactly 'chunked' or absent
	elif t == 'hvia':
		sym_hdr(st, mu[2], bytes.fromhex(mu[3]))
	elif t == 'hrm':
		if mu[1] in ('clear', 'set-empty'):
			st['ce'] = st['te'] = None
		else:
			sym_hdr(st, mu[2], None)
	elif t == 'charset':
		# the charset of the body changes: octets that exist already stay as they are, TEXT pieces of a list / tuple / generator go out in the new charset
		b = st['body']
		if b['t'] == 'text':
			st['body'] = {'t': 'bytes', 'items': [st['content'].hex()]}
		elif any(b.get('strs') or []):
			b['charset'] = mu[1]
			st['content'] = cr.body_content(b)
	# 'obs' (a read-only observer), 'refuse' (a call the library refuses with an exception), 'alias' (another object built from the parts of this one and
	# modified), 'target' (the request target in another argument type): nothing changes for the content


def sym_prepare(st):
	if st['k'] == 'req' and st['content'] and not dropped(st):
		st['cl_written'] = True
	if dropped(st):
		st['content'] = b''
		st['body'] = {'t': 'bytes', 'items': []}
		st['attached'] = False
		st['dropped_now'] = True


def _snap_body(body, st):
	from types import GeneratorType
	fd = body.fd
	if isinstance(fd, _io.BytesIO):
		return {'t': 'bytesio', 'items': [fd.getvalue().hex()], 'pos': fd.tell()}
	py = st['body'].get('py')
	if py in REITERABLE and not isinstance(fd, (list, tuple, _io.BytesIO)) and not hasattr(fd, 'read'):
		# a re-iterable container of the caller (dict, OrderedDict, dict view, deque, set, an object with __iter__): read through iteration, rebuilt as the same kind
		pieces = list(fd)
		return {'t': 'list', 'py': py, 'items': [(x if isinstance(x, bytes) else x.encode('utf-8')).hex() for x in pieces], 'strs': [not isinstance(x, bytes) for x in pieces]}
	if isinstance(fd, (list, tuple)):
		snap = {'t': 'list' if isinstance(fd, list) else 'tuple', 'items': [(x if isinstance(x, bytes) else x.encode('utf-8')).hex() for x in fd], 'strs': [not isinstance(x, bytes) for x in fd]}
		if py in ('list-sub', 'tuple-sub') and type(fd) not in (list, tuple):
			snap['py'] = py
		return snap
	if isinstance(fd, GeneratorType) or type(fd) is type(iter([])) or (py in ONESHOT_D64 and hasattr(fd, '__next__') and not hasattr(fd, 'read')):
		# a generator cannot be looked into: it is the one the harness made from the items of the last body assignment, not yet run
		if st['body']['t'] != 'gen':
			raise ValueError('unexpected generator source')
		snap = {'t': 'gen', 'items': list(st['body']['items']), 'strs': list(st['body'].get('strs') or [])}
		if py:
			snap['py'] = py
		return snap
	if hasattr(fd, 'fileno'):
		pos = fd.tell()
		fd.seek(0)
		data = fd.read()
		fd.seek(pos)
		return {'t': 'file', 'items': [data.hex()], 'pos': pos}
	raise ValueError('unexpected source %s' % type(fd).__name__)


def _snapshot(m, c, st, uri):
	"""the observable data of the message, read through the public attributes"""
	ce = m.body.content_encoding
	snap = {'k': st['k'], 'version': [m.protocol.major, m.protocol.minor], 'hdrs': cr.hdr_items(m.headers), 'body': _snap_body(m.body, st), 'chunked': bool(m.body.chunked),
		'coding': bytes(ce).hex() if ce else None, 'ctype': bytes(m.body.mimetype).hex(), 'trailer': cr.hdr_items(m.body.trailer)}
	if any(snap['body'].get('strs') or []):
		# text pieces go out in the charset the body has when they are sent (the model gets the octets)
		try:
			import codecs
			if codecs.lookup(m.body.encoding).name != 'utf-8':
				snap['body']['charset'] = m.body.encoding
		except LookupError:
			pass
	if st['k'] == 'req':
		snap['method'] = bytes(m.method).decode('latin-1')
		snap['uri'] = dict(uri)
	else:
		snap['status'] = int(m.status)
		snap['reason'] = m.status.reason
		snap['rmethod'] = bytes(c.request.method).decode('latin-1')
	return snap


def _fresh(snap, keep):
	"""a new message holding the data of the snapshot, built through the public API"""
	from httoop import Request, Response
	from httoop.semantic.request import ComposedRequest
	from httoop.semantic.response import ComposedResponse
	if snap['k'] == 'req':
		m = Request(snap['method'], '/')
		m.protocol = tuple(snap['version'])
		u, uri = m.uri, snap['uri']
		if uri.get('host'):
			u.scheme = uri.get('scheme') or 'http'
			u.host = uri['host']
			if uri.get('port'):
				u.port = uri['port']
		u.path_segments = uri['segs']
		if uri.get('query') is not None:
			u.query = [tuple(p) for p in uri['query']]
		c = ComposedRequest(m)
	else:
		m = Response()
		m.protocol = tuple(snap['version'])
		m.status = (snap['status'], snap['reason'])
		c = ComposedResponse(m, Request(snap['rmethod'], '/'))
	for name, value in snap['hdrs']:
		m.headers[bytes.fromhex(name).decode('latin-1')] = bytes.fromhex(value)
	m.body = _content5(snap['body'], keep)
	m.body.mimetype = bytes.fromhex(snap['ctype'])
	if snap['coding']:
		m.body.content_encoding = bytes.fromhex(snap['coding'])
	m.body.chunked = snap['chunked']
	for name, value in snap['trailer']:
		m.body.trailer[bytes.fromhex(name).decode('latin-1')] = bytes.fromhex(value)
	return m, c


def _init_obs(m, c, k):
	from httoop.header import Headers
	init = {'hdrs': cr.hdr_items(m.headers), 'chunked': bool(m.body.chunked), 'ctype': bytes(m.body.mimetype).hex(),
		'codec': cr.codec_id(m.body), 'trailer': cr.hdr_items(m.body.trailer), 'fd': _fd_obs(m.body)}
	if k == 'req':
		init['target'] = cr.request_target(m).hex()
		init['host'] = bytes(Headers.formatvalue(m.uri.host)).hex() if m.uri.host else None
		init['startline_method'] = bytes(m.method).hex()
	else:
		init['code'] = int(m.status)
		init['reason'] = m.status.reason.encode('ascii').hex()
	init['ce'] = [[v, cr.ce_id(bytes.fromhex(v))] for k_, v in init['hdrs'] if bytes.fromhex(k_) == b'Content-Encoding']
	return init


def _steps(m, c, ops, clock):
	"""the operation loop of composer_rec.run_ops on a message that exists already"""
	steps = []
	for op in ops:
		try:
			if op[0] == 'p':
				clock.now = float(op[1])
				try:
					c.prepare()
				finally:
					clock.now = cr.COMPOSE_CLOCK
				steps.append({'state': {'hdrs': cr.hdr_items(m.headers), 'fd': _fd_obs(m.body), 'chunked': bool(m.body.chunked)}, 'now': cr.date_of(float(op[1])).hex()})
			elif op[0] == 'ch':
				c.chunked = bool(op[1])
				steps.append({'state': {'hdrs': cr.hdr_items(m.headers), 'fd': _fd_obs(m.body), 'chunked': bool(m.body.chunked)}})
			elif op[0] == 'c':
				out = b''.join(c)
				steps.append({'out': out.hex(), 'fd': _fd_obs(m.body)})
			else:
				raise ValueError(op)
		except Exception as exc:
			steps.append({'raised': type(exc).__name__, 'msg': str(exc)[:120], 'op': op[0]})
			break
	return steps


def _apply(m, c, mu, uri, keep, others, so=None):
	from httoop import Request, Response
	from httoop.messages.body import Body
	from httoop.semantic.request import ComposedRequest
	from httoop.semantic.response import ComposedResponse
	from httoop.status import Status
	t = mu[0]
	if t == 'body':
		obj = _content5(mu[1], keep)
		if mu[2] in BODY_HOWS5:
			_body_how5(m, mu[1], mu[2], obj)
		elif mu[2] == 'attr':
			m.body = obj
		elif mu[2] == 'set':
			m.body.set(obj)
		elif mu[2] == 'write':
			m.body = None
			m.body.write(obj)
		elif mu[2] in ('encode', 'iterencode'):
			# the codec of the body's media type (text/plain by default) produces the octets, in the charset of the body
			m.body = None
			if mu[1].get('charset'):
				m.body.encoding = mu[1]['charset']
			getattr(m.body, mu[2])(obj)
		elif mu[2] == 'ctor-mime':
			m.body = Body(obj, mimetype='text/plain; charset=%s' % mu[1]['charset'])
		else:
			m.body = Body(obj)
	elif t == 'grow':
		data = bytes.fromhex(mu[1])
		fd = m.body.fd   # the object the caller handed over and still holds
		if isinstance(fd, list):
			fd.append(data)
		elif isinstance(fd, _io.BytesIO):
			pos = fd.tell()
			fd.seek(0, 2)
			fd.write(data)
			fd.seek(pos)
		elif hasattr(fd, 'fileno'):
			with open(fd.name, 'ab') as w:
				w.write(data)
		else:
			raise ValueError('grow: %s' % type(fd).__name__)
	elif t == 'hset':
		m.headers[mu[1]] = bytes.fromhex(mu[2])
	elif t == 'hpop':
		m.headers.pop(mu[1], None)
	elif t == 'hdel':
		if mu[1] in m.headers:
			del m.headers[mu[1]]
	elif t == 'happend':
		m.headers.append(mu[1], bytes.fromhex(mu[2]))
	elif t == 'hvia':
		_hvia(m, mu[1], mu[2], bytes.fromhex(mu[3]))
	elif t == 'hrm':
		_hrm(m, mu[1], mu[2])
	elif t == 'obs':
		_observe(m, c, mu[1], mu[2])
	elif t == 'refuse':
		so.setdefault('refused', []).append([mu[1], _refuse(m, c, mu[1])])
	elif t == 'alias':
		_alias(m, c, mu[1], mu[2], so)
	elif t == 'charset':
		if mu[2] == 'encoding':
			m.body.encoding = mu[1]
		elif mu[2] == 'mimetype-bytes':
			m.body.mimetype = b'text/plain; charset=' + mu[1].encode('ascii')
		else:
			m.body.mimetype = 'text/plain; charset=%s' % mu[1]
	elif t == 'target':
		_target5(m, mu[1], mu[2], uri)
	elif t == 'status':
		code, reason, how = mu[1], mu[2], mu[3]
		if how == 'int':
			m.status = code
		elif how == 'tuple':
			m.status = (code, reason or 'R')
		elif how == 'code':
			m.status.code = code
		elif how == 'str':
			m.status = '%d %s' % (code, reason or 'R')
		elif how == 'bytes':
			m.status = b'%d %s' % (code, (reason or 'R').encode('ascii'))
		else:
			m.status = Status(code)
	elif t == 'method':
		if mu[2] == 'attr':
			m.method = mu[1]
		elif mu[2] == 'attr-bytes':
			m.method = mu[1].encode('ascii')
		elif mu[2] == 'set':
			m.method.set(mu[1])
		else:
			m.method.parse(mu[1].encode('ascii'))
	elif t == 'rmethod':
		if mu[2] == 'attr':
			c.request.method = mu[1]
		else:
			c.request = Request(mu[1], '/')
	elif t == 'proto':
		if mu[2] == 'tuple':
			m.protocol = tuple(mu[1])
		elif mu[2] == 'str':
			m.protocol = 'HTTP/%d.%d' % tuple(mu[1])
		else:
			m.protocol = b'HTTP/%d.%d' % tuple(mu[1])
	elif t == 'te':
		flag, how = mu[1], mu[2]
		if how == 'composer':
			c.chunked = flag
		elif how == 'header':
			if flag:
				m.headers['Transfer-Encoding'] = 'chunked'
			else:
				m.headers.pop('Transfer-Encoding', None)
		elif how == 'teprop':
			c.transfer_encoding = b'chunked' if flag else None
		else:
			m.body.chunked = flag
	elif t == 'trailer':
		m.body.trailer[mu[1]] = bytes.fromhex(mu[2])
	elif t == 'trailer-pop':
		m.body.trailer.pop(mu[1], None)
	elif t == 'coding':
		# the complete public way: the field of the message and the coding of the body
		if mu[1]:
			m.headers['Content-Encoding'] = mu[1]
		else:
			m.headers.pop('Content-Encoding', None)
			m.body.content_encoding = None
	elif t == 'path':
		m.uri.path_segments = mu[1]
		uri['segs'] = mu[1]
	elif t == 'host':
		m.uri.host = mu[1]
		uri['host'] = mu[1]
	elif t == 'other':
		spec = mu[1]
		if spec['kind'] == 'req':
			m2 = Request('POST', '/o')
			c2 = ComposedRequest(m2)
		else:
			m2 = Response()
			c2 = ComposedResponse(m2, c.request if spec['share'] == 'request' else Request('GET', '/'))
		if spec['share'] == 'content':
			m2.body = m.body.fd
		elif spec['share'] == 'bodyobj':
			m2.body = m.body
		if spec.get('chunked'):
			c2.chunked = True
		c2.prepare()
		others.append(b''.join(c2).hex())
	else:
		raise ValueError(mu)


def run_seq(case):
	cr.install()
	base = case['base']
	keep = []
	obs = {'segs': []}
	st = sym_init(base)
	uri = {k: base.get(k) for k in ('segs', 'query', 'host', 'port', 'scheme')}
	try:
		with cr.Clock() as clock:
			m, c = cr.build(dict(base, ops=[]), keep)
			c = _knobs(case, m, c)
			for seg in case['segs']:
				so = {'others': []}
				obs['segs'].append(so)
				snap0 = None
				try:
					for mu in seg['mut']:
						if mu[0] in ('obs', 'refuse', 'alias') and snap0 is None:
							# the data BEFORE anything was observed (before the refused call, before a second object was built from the parts of this one):
							# what the fresh message - never observed, never subjected to the failed call, never used as a source of parts - is built from
							snap0 = _snapshot(m, c, st, uri)
						_apply(m, c, mu, uri, keep, so['others'], so)
						sym_mut(st, mu)
				except Exception as exc:
					so['mut_raised'] = '%s: %s (%r)' % (type(exc).__name__, str(exc)[:120], mu)
					break
				cr.REC.reset()
				so['snap'] = _snapshot(m, c, st, uri)
				so['init'] = _init_obs(m, c, st['k'])
				so['live'] = _steps(m, c, seg['ops'], clock)
				so['tables'] = {
					'comp': [[k[0], k[1].hex(), v.hex()] for k, v in cr.REC.comp.items()],
					'lsplit': [[k[0].hex(), k[1].hex(), [x.hex() for x in v]] for k, v in cr.REC.lsplit.items()],
				}
				try:
					fd = m.body.fd
					if isinstance(fd, (list, tuple)):
						so['final_content'] = b''.join(x if isinstance(x, bytes) else x.encode('utf-8') for x in fd).hex()
					elif hasattr(fd, 'read') and hasattr(fd, 'seek'):
						pos = fd.tell()
						fd.seek(0)
						so['final_content'] = fd.read().hex()
						fd.seek(pos)
					elif st['body'].get('py') in REITERABLE and hasattr(fd, '__iter__') and not hasattr(fd, '__next__'):
						# a re-iterable container of the caller (dict, deque, ...): it still holds the pieces, in their order
						so['final_content'] = b''.join(x if isinstance(x, bytes) else x.encode('utf-8') for x in fd).hex()
					else:
						so['final_content'] = None
				except Exception:
					so['final_content'] = None
				so['final_fd'] = _fd_obs(m.body)
				# the same data in a fresh object, the same operations
				try:
					m2, c2 = _fresh(snap0 or so['snap'], keep)
					c2 = _knobs(case, m2, c2)
					so['fresh'] = _steps(m2, c2, seg['ops'], clock)
				except Exception as exc:
					so['fresh_raised'] = '%s: %s' % (type(exc).__name__, str(exc)[:120])
				if any('raised' in s for s in so['live']):
					break
				for op in seg['ops']:
					if op[0] == 'p':
						sym_prepare(st)
	finally:
		for fd, name in keep:
			try:
				fd.close()
			except Exception:
				pass
			try:
				os.unlink(name)
			except OSError:
				pass
	return obs


import os  # noqa: E402


def _te_in_model(hdrs):
	"""the composer model covers Transfer-Encoding absent / empty / exactly 'chunked' and Content-Encoding values with a non-empty element (for an
	empty one - '', ' ', ';' - the library neither looks a codec up nor refuses; the model would refuse): everything else is oracle-only"""
	for k, v in hdrs:
		if bytes.fromhex(k) == b'Transfer-Encoding' and bytes.fromhex(v) not in (b'', b'chunked'):
			return False
		if bytes.fromhex(k) == b'Content-Encoding' and not bytes.fromhex(v).split(b';')[0].strip(b' \t'):
			return False
	return True


def coq_seq(c, o):
	"""one correspondence case per segment: the model starts from the data read back from the live object"""
	if c.get('nocoq'):
		return None
	terms = []
	for seg, so in zip(c['segs'], o.get('segs', [])):
		if 'live' not in so or not _te_in_model(so['init']['hdrs']) or seg.get('nocoq'):
			continue
		snap = so['snap']
		pc = {'k': snap['k'], 'version': snap['version'], 'body': snap['body'], 'rmethod': snap.get('rmethod', 'GET'), 'ops': seg['ops']}
		term = cr.coq_case(pc, {'init': so['init'], 'ops': so['live'], 'tables': so['tables']})
		if len(term) <= 12000:
			terms.append(term)
	return terms or None


def announced_codings(m):
	"""the content codings a recipient has to undo, read from the composed octets: names are case-insensitive (RFC 7231 3.1.2.1), parameters and
	empty list elements are ignored"""
	out = []
	for n, v in m['fields']:
		if n.lower() == b'content-encoding':
			for x in v.split(b','):
				x = x.split(b';')[0].strip(b' \t').lower()
				if x:
					out.append(x.decode('latin-1'))
	return out


def undo_codings(m):
	payload = m['payload']
	for name in reversed(announced_codings(m)):
		if name in ('gzip', 'x-gzip'):
			payload = cr.decode_coding('gzip', payload)
		elif name == 'deflate':
			payload = cr.decode_coding('deflate', payload)
		elif name != 'identity':
			raise ValueError('%r is not a content coding this reader knows (gzip, x-gzip, deflate, identity)' % name)
	return payload


def coding_refusable(value, names):
	"""may prepare() refuse this caller-set coding field with InvalidHeader?  Yes unless it is, read independently, the plain lower-case spelling of
	codings the library implements (other letter cases are refused by the tree as found: reported as an observation, not as a failure)"""
	if value is None:
		return False
	toks = [x.split(b';')[0].strip(b' \t') for x in value.split(b',')]
	toks = [x for x in toks if x]
	return not all(x in names for x in toks) or len(toks) > 1 or b'"' in value or (b',' in value and b'chunked' not in names)


def _state_key(state, observed):
	"""what is compared between the used / observed message and the fresh one.  An observer may have walked a generator, which the library then
	keeps as the list of its pieces (by design, same content): for observed segments the kinds 'gen' and 'list' of the source are not told apart"""
	if not observed:
		return state
	fd = state['fd']
	return dict(state, fd=['list'] if fd and fd[0] == 'gen' else fd)


def oracle_seq(c, o):
	base = c['base']
	if not in_domain(base):
		return None
	st = sym_init(base)
	k = base['k']
	prepared = False
	outs, states = [], []
	for n, (seg, so) in enumerate(zip(c['segs'], o['segs'])):
		if 'mut_raised' in so:
			return 'segment %d: modifying the message through its public API raised %s' % (n, so['mut_raised'])
		others = list(so['others'])
		for mu in seg['mut']:
			if mu[0] == 'other':
				# a second message that shares the content object / the Body / the request with the first, serialised at this point
				spec, out2 = mu[1], others.pop(0)
				nobody = spec['share'] == 'request' and k == 'resp' and st.get('rmethod') == 'HEAD'
				try:
					m2 = cr.read_http1(bytes.fromhex(out2), spec['kind'] == 'req', nobody)
				except cr.Malformed as exc:
					return 'segment %d: a second message sharing the %s is not well framed: %s' % (n, spec['share'], exc)
				want2 = st['content'] if spec['share'] in ('content', 'bodyobj') else b''
				if m2['payload'] != want2:
					return 'segment %d: a second message sharing the %s carries %d octets, the content has %d' % (n, spec['share'], len(m2['payload']), len(want2))
			sym_mut(st, mu)
		for name, raised in so.get('refused', []):
			if raised is None:
				return 'segment %d: %s was accepted (%s): the library has to refuse it with an exception and leave the message as it was' % (n, name, REFUSALS[name][1])
		if so.get('alias_failed'):
			return 'segment %d: %s' % (n, so['alias_failed'])
		live = so['live']
		observed = any(mu[0] == 'obs' for mu in seg['mut'])
		if 'fresh_raised' in so:
			return 'harness exception: building the fresh message: %s' % so['fresh_raised']
		fresh = so['fresh']
		st['dropped_now'] = False
		# Between two uses only REFUSED calls were made (each raised), or other objects were built from the parts of this one: the message is what it
		# was - still prepared, and what it is serialised to now has to be what it was serialised to before.  (Not for responses to HEAD: D45.)
		carry = bool(seg['mut']) and all(mu[0] in ('refuse', 'alias') for mu in seg['mut']) and not (k == 'resp' and st.get('rmethod') == 'HEAD')
		if not carry:
			prepared = False
			outs, states = [], []
		for op, a, b in zip(seg['ops'], live, fresh):
			what = {'p': 'prepare()', 'c': 'serialising', 'ch': 'the chunked setter'}[op[0]]
			if ('raised' in a) != ('raised' in b) or a.get('raised') != b.get('raised'):
				return 'segment %d: %s on the message used before %s, on a fresh message with the same data %s' % (n, what,
					'raised ' + a['raised'] if 'raised' in a else 'succeeded', 'raised ' + b['raised'] if 'raised' in b else 'succeeded')
			if 'raised' in a:
				if a['raised'] == 'InvalidHeader' and (coding_refusable(st['ce'], (b'gzip', b'deflate')) or coding_refusable(st['te'], (b'chunked',))):
					return None
				return 'segment %d: operation %r raised %s: %s' % (n, a['op'], a['raised'], a.get('msg'))
			if op[0] == 'ch':
				prepared = False
				outs, states = [], []
			if op[0] in ('p', 'ch'):
				if _state_key(a['state'], observed) != _state_key(b['state'], observed):
					return 'segment %d: after %s the message used before differs from a fresh message with the same data: %r versus %r' % (n, what,
						[(bytes.fromhex(x), bytes.fromhex(y)) for x, y in a['state']['hdrs']], [(bytes.fromhex(x), bytes.fromhex(y)) for x, y in b['state']['hdrs']])
			if op[0] == 'p':
				sym_prepare(st)
				prepared = True
				states.append(tuple(sorted((x, y) for x, y in a['state']['hdrs'] if bytes.fromhex(x) != b'Date')))
				if len(set(states)) > 1:
					return 'segment %d: preparing the message again changes the header fields (beyond the Date value)' % n
			elif op[0] == 'c':
				differs = None
				if a['out'] != b['out']:
					differs = 'segment %d: the message used before serialises to other octets than a fresh message with the same data: %r versus %r' % (n,
						bytes.fromhex(a['out'])[:300], bytes.fromhex(b['out'])[:300])
					if not (carry and prepared):
						return differs
					# (after nothing but refused calls the message is still the prepared message it was: what the property says about its octets comes first)
				if not prepared:
					continue
				data = bytes.fromhex(a['out'])
				try:
					m = cr.read_http1(data, k == 'req', rfc_bodiless(st))
				except cr.Malformed as exc:
					return 'segment %d: composed output is not a well-framed HTTP/1.x message: %s' % (n, exc)
				if k == 'req':
					bad = target_syntax(m['start'].split(b' ')[1])
					if bad:
						return 'segment %d: composed output is not a syntactically valid request: %s' % (n, bad)
				try:
					payload = undo_codings(m)
				except Exception as exc:
					return 'segment %d: payload does not decode with the announced coding: %s' % (n, exc)
				want = b'' if rfc_bodiless(st) else st['content']
				if payload != want:
					return 'segment %d: framed payload (%d octets) differs from the content the message holds (%d octets)' % (n, len(payload), len(want))
				if c.get('useragent') and (b'User-Agent', c['useragent'].encode('ascii')) not in m['fields']:
					return 'segment %d: the User-Agent configured on the composer class (%r) is not the one sent' % (n, c['useragent'])
				outs.append(cr.mask_date(data))
				if len(set(outs)) > 1:
					return 'segment %d: composing the prepared message again gives different octets (beyond the Date value)' % n
				if differs:
					return differs
		if len(live) < len(seg['ops']):
			return 'harness exception: operations missing'
		if so.get('final_content') is not None:
			held = st['content']
			if st['body'].get('charset') and st['body']['t'] in ('list', 'tuple', 'gen') and any(st['body'].get('strs') or []):
				held = cr.body_content(dict(st['body'], charset=None))   # (text pieces of a list stay text: the harness reads them back as UTF-8, whatever the charset of the body)
			if bytes.fromhex(so['final_content']) != held:
				return 'segment %d: the body source no longer holds the content after the operations' % n
			if not st['dropped_now'] and so['init']['fd'][0] in ('bytesio', 'file') and so.get('final_fd') != so['init']['fd']:
				return 'segment %d: the position of the body source is not restored: %r became %r' % (n, so['init']['fd'], so.get('final_fd'))
	return None


# ---------------------------------------------------------------- generators of the classes
def _small_body(rng, tier):
	for _ in range(20):
		b = rbody(rng, tier)
		if len(cr.body_content(b)) <= 120:
			return b
	return {'t': 'bytes', 'items': [b'hello'.hex()]}


def _seq_base(rng, tier, kind=None):
	base = rmessage(rng, tier)
	if kind and base['k'] != kind:
		return _seq_base(rng, tier, kind)
	del base['ops']
	base['body'] = _small_body(rng, tier)
	base['trailer'] = []
	if base['k'] == 'req':
		# D43 (no content coding in ComposedRequest.prepare) and D46 (caller-set Content-Length of a request) are known findings of single uses: kept out
		base['coding'] = None
		base['hdrs'] = [h for h in base['hdrs'] if h[0].lower() != 'content-length']
	elif base['coding'] == 'x-unknown':
		base['coding'] = None
	return base


def _seq_ops(rng, st, ts):
	head = st['k'] == 'resp' and st.get('rmethod') == 'HEAD'   # D45: a response to HEAD is prepared once per segment
	r = rng.random()
	if r < 0.45:
		ops = [['p', ts], ['c']]
	elif r < 0.6:
		ops = [['p', ts], ['c'], ['c']]
	elif r < 0.75 and not head:
		ops = [['p', ts], ['c'], ['p', ts + rng.choice([0, 1, 86400])], ['c']]
	elif r < 0.85:
		ops = [['ch', rng.random() < 0.5], ['p', ts], ['c']]
	elif r < 0.92:
		ops = [['c']]
	else:
		ops = [['p', ts], ['c'], ['ch', rng.random() < 0.5], ['p', ts], ['c']] if not head else [['p', ts], ['c']]
	return ops


def _seq_mut(rng, tier, st):
	k = st['k']
	kinds = ['body', 'body', 'body', 'hset', 'hset', 'hpop', 'happend', 'te', 'te', 'trailer', 'proto', 'other', 'other']
	if st['attached'] and st['body']['t'] in ('list', 'bytesio', 'file'):
		kinds += ['grow'] * 4
	if k == 'req':
		kinds += ['method', 'method', 'path', 'host']
	else:
		kinds += ['status', 'status', 'status', 'rmethod', 'rmethod', 'coding', 'coding']
	t = rng.choice(kinds)
	# Kept out (D46 reached through a sequence, reported): a request that was prepared with content keeps the Content-Length of that prepare when
	# its content becomes empty or its method one without body afterwards (prepare never removes the field).
	stale = k == 'req' and st.get('cl_written')
	if t == 'body':
		for _ in range(50):
			b = _small_body(rng, tier)
			if not stale or cr.body_content(b):
				break
		else:
			b = {'t': 'bytes', 'items': [b'hello'.hex()]}
		return ['body', b, rng.choice(['attr', 'attr', 'set', 'bodyobj'])]
	if t == 'grow':
		return ['grow', rdata(rng, rng.choice([1, 1, 2, 7, 30])).hex()]
	if t in ('hset', 'hpop', 'happend'):
		pool = [h for h in SEQ_HDRS if not (k == 'req' and h[0] in ('Content-Length', 'Accept-Ranges'))]
		name, vals = rng.choice(pool)
		name = rng.choice([name, name, name.lower(), name.upper()])
		if t == 'hpop':
			return [rng.choice(['hpop', 'hdel']), name]
		return [t, name, rng.choice(vals).encode('latin-1').hex()]
	if t == 'te':
		return ['te', rng.random() < 0.5, rng.choice(['composer', 'header', 'teprop', 'body'])]
	if t == 'trailer':
		return rng.choice([['trailer', 'X-T', b'tv'.hex()], ['trailer', 'x-t', b''.hex()], ['trailer-pop', 'X-T']])
	if t == 'proto':
		return ['proto', rng.choice([[1, 0], [1, 1]]), rng.choice(['tuple', 'str', 'bytes'])]
	if t == 'other':
		share = rng.choice(['content', 'bodyobj'] + (['request'] if k == 'resp' else []))
		if share == 'content' and st['body']['t'] == 'gen':
			share = 'bodyobj'   # a Python generator handed to two consumers is the caller's problem; the Body around it is shared instead
		if st['body']['t'] == 'gen':
			return ['proto', [1, 1], 'tuple']   # ... and a second Body on the same generator likewise
		return ['other', {'share': share, 'kind': 'resp' if share == 'request' else rng.choice(['req', 'resp']), 'chunked': rng.random() < 0.5}]
	if t == 'method':
		return ['method', rng.choice([x for x in METHODS_REQ if not (stale and x in ('GET', 'HEAD', 'SEARCH'))]), rng.choice(['attr', 'set', 'parse'])]
	if t == 'path':
		return ['path', ['', rng.choice(['a', 'b c', 'ä', 'x.y'])]]
	if t == 'host':
		return ['host', rng.choice(['example.com', 'other.example', '127.0.0.1'])]
	if t == 'status':
		return ['status', rng.choice(STATUSES), rng.choice([None, 'Custom Reason']), rng.choice(['int', 'tuple', 'code', 'str', 'obj'])]
	if t == 'rmethod':
		return ['rmethod', rng.choice(['GET', 'HEAD', 'HEAD', 'POST', 'TRACE']), rng.choice(['attr', 'new'])]
	if t == 'coding':
		return ['coding', rng.choice([None, 'gzip', 'deflate'])]
	raise ValueError(t)


def rseq(rng, tier, kind=None):
	base = _seq_base(rng, tier, kind)
	st = sym_init(base)
	ts = rng.choice([1000, 784111777, 1790000000])
	segs = []
	for i in range(rng.choice([2, 2, 3, 3, 4])):
		mut = []
		if i > 0 or rng.random() < 0.2:
			for _ in range(rng.choice([1, 1, 1, 2, 3])):
				mu = _seq_mut(rng, tier, st)
				sym_mut(st, mu)
				mut.append(mu)
		ops = _seq_ops(rng, st, ts)
		for op in ops:
			if op[0] == 'p':
				sym_prepare(st)
		segs.append({'mut': mut, 'ops': ops})
		if rng.random() < 0.5:
			ts += rng.choice([1, 61, 86400])
	return {'k': 'seq', 'base': base, 'segs': segs}


def _msg(kind, body, chunked=False, ops=None, **kw):
	c = {'k': kind, 'version': [1, 1], 'hdrs': [], 'body': body, 'coding': None, 'trailer': [],
		'ops': ([['ch', True]] if chunked else []) + (ops or [['p', 1000], ['c'], ['p', 1000], ['c']])}
	if kind == 'req':
		c.update(method='POST', segs=['', 'p'], query=None, host='example.com')
	else:
		c.update(status=200, reason=None, rmethod='GET')
	c.update(kw)
	return c


def _base(kind, body=None, **kw):
	c = _msg(kind, body or {'t': 'bytes', 'items': [b'hello'.hex()]}, **kw)
	del c['ops']
	return c


def _one(kind, mut, chunked=False, ops=None, **kw):
	"""a message modified once through the header API / attributes, then prepared and composed twice"""
	nocoq = kw.pop('nocoq', False)
	c = {'k': 'seq', 'base': _base(kind, **kw), 'segs': [{'mut': mut, 'ops': ([['ch', True]] if chunked else []) + (ops or [['p', 1000], ['c'], ['c']])}]}
	if nocoq:
		c['nocoq'] = True
	return c


def _cases3(name):
	out = []
	for v in (name, name.upper(), name.lower(), name.title()):
		if v not in out:
			out.append(v)
	return out[:3]


REG_VALUES = {'content-length': '5', 'transfer-encoding': 'chunked', 'content-encoding': 'gzip', 'connection': 'close', 'trailer': 'X-T', 'host': 'h.example',
	'date': 'Thu, 01 Jan 1970 00:00:00 GMT', 'etag': '"x"', 'last-modified': 'Sun, 06 Nov 1994 08:49:37 GMT', 'content-type': 'text/html', 'allow': 'GET',
	'accept-ranges': 'bytes', 'range': 'bytes=0-1', 'set-cookie': 'a=b', 'www-authenticate': 'Basic realm="x"', 'proxy-authenticate': 'Basic realm="p"',
	'expect': '100-continue', 'te': 'trailers', 'upgrade': 'h2c', 'http2-settings': 'AAMAAABk', 'if-modified-since': 'Sun, 06 Nov 1994 08:49:37 GMT',
	'expires': 'Thu, 01 Jan 1970 00:00:00 GMT', 'cookie': 'a=b', 'content-range': 'bytes 0-1/2', 'retry-after': '120', 'max-forwards': '3', 'age': '1'}
DEGENERATE = ['', ' ', ',', ', ,', ';', '"', '"a', 'a,,b', '=', ' x ', '\t', ';;', 'a;', '""']
DEGENERATE_FIELDS = ['Connection', 'Content-Type', 'Trailer', 'Host', 'Allow', 'Etag', 'Last-Modified', 'Accept-Ranges', 'Content-Length', 'Date', 'User-Agent', 'Accept',
	'Cookie', 'Set-Cookie', 'Www-Authenticate', 'Content-Range', 'Vary', 'Expect', 'Upgrade', 'Te']


def registries():
	"""the tables the composer consults, read from the tree under test at run time"""
	from httoop.header.element import HEADER
	from httoop.header.messaging import ContentEncoding, TransferEncoding
	from httoop.messages.method import Method
	from httoop.status import STATUSES as REG
	from httoop.codecs import CODECS as MEDIA
	return {'media': sorted(MEDIA), 'status': sorted(s for s in REG if isinstance(s, int) and 100 <= s <= 599), 'header': sorted(dict.keys(HEADER)),
		'ce': sorted(ContentEncoding.CODECS.items(), key=lambda kv: kv[0]), 'te': sorted(TransferEncoding.CODECS.items(), key=lambda kv: kv[0]),
		'method': sorted(set(Method.safe_methods) | set(Method.idempotent_methods))}


def gen_classes(rng, tier):
	big = tier == 'thorough'
	cases = []
	hello = {'t': 'bytes', 'items': [b'hello'.hex()]}

	# (1) statefulness: random modification sequences, plus every single modification kind x every public way on a fixed message
	for _ in range(12000 if big else 450):
		cases.append(rseq(rng, tier))
	two = [['p', 1000], ['c']]
	for kind in ('req', 'resp'):
		singles = [['body', {'t': t, 'items': [b'wxyz123'.hex()], 'pos': 3}, how] for t in ('bytes', 'text', 'list', 'gen', 'bytesio', 'file') for how in ('attr', 'set', 'bodyobj')]
		singles += [['body', {'t': 'bytes', 'items': []}, 'attr'], ['hset', 'X-Custom', b'v'.hex()], ['te', True, 'composer'], ['te', True, 'header'], ['te', True, 'teprop'], ['te', True, 'body'],
			['trailer', 'X-T', b'v'.hex()], ['proto', [1, 0], 'tuple'], ['proto', [1, 0], 'str'], ['proto', [1, 0], 'bytes']]
		if kind == 'req':
			singles += [['method', mth, how] for mth in ('GET', 'HEAD', 'PUT', 'TRACE') for how in ('attr', 'set', 'parse')] + [['path', ['', 'q']], ['host', 'other.example']]
		else:
			singles += [['status', code, None, how] for code in (100, 204, 205, 304, 404, 416) for how in ('int', 'tuple', 'code', 'str', 'obj')]
			singles += [['rmethod', mth, how] for mth in ('HEAD', 'TRACE') for how in ('attr', 'new')] + [['coding', 'gzip'], ['coding', 'deflate']]
		for mu in singles:
			# (a request whose content disappears starts chunked, so that no Content-Length was written before: D46, see _seq_mut)
			first = [['ch', True]] + two if kind == 'req' and ((mu[0] == 'method' and mu[1] in ('GET', 'HEAD')) or (mu[0] == 'body' and not mu[1]['items'])) else two
			for t in (('bytes', 'file') if mu[0] in ('te', 'status', 'method', 'rmethod') else ('bytes',)):
				cases.append({'k': 'seq', 'base': _base(kind, {'t': t, 'items': [b'hello'.hex()]}), 'segs': [{'mut': [], 'ops': first}, {'mut': [mu], 'ops': two}, {'mut': [], 'ops': two}]})
		# finding D59 (repaired): a response was prepared and composed with a content coding; then the FIELD alone is taken away (pop / del, three letter
		# cases), with or without new content, keeping the chunked framing of the coded use or going back to Content-Length; prepared and composed again
		if kind == 'resp':
			for ci, coding in enumerate(('gzip', 'deflate')):
				for ti, t in enumerate(('bytes', 'list', 'file', 'gen')):
					for mi, mu in enumerate((['hpop', 'Content-Encoding'], ['hdel', 'content-encoding'], ['hpop', 'CONTENT-ENCODING'])):
						for second in (None, {'t': ('bytes', 'tuple', 'bytesio')[mi], 'items': [b'second'.hex()], 'pos': 1}):
							for back in (False, True):
								if not big and (ci + ti + mi + back + (second is None)) % 2:
									continue
								mut = [mu] + ([['body', second, ('attr', 'set', 'bodyobj')[ti % 3]]] if second else []) + ([['te', False, ('composer', 'header', 'teprop', 'body')[(ti + mi) % 4]]] if back else [])
								cases.append({'k': 'seq', 'base': _base('resp', {'t': t, 'items': [b'first'.hex()]}, coding=coding, status=(200, 404)[mi % 2]),
									'segs': [{'mut': [], 'ops': two}, {'mut': mut, 'ops': two}, {'mut': [], 'ops': two + [['c']]}]})
			for coding in ('gzip', 'deflate'):   # the shortest form
				cases.append({'k': 'seq', 'base': _base('resp', {'t': 'bytes', 'items': [b'first'.hex()]}, coding=coding),
					'segs': [{'mut': [], 'ops': two}, {'mut': [['hpop', 'Content-Encoding'], ['te', False, 'composer']], 'ops': two}]})
		# the source the caller still holds grows between two uses; a second message shares the content / the Body / the request
		for t in ('list', 'bytesio', 'file'):
			for ch in (False, True):
				cases.append({'k': 'seq', 'base': _base(kind, {'t': t, 'items': [b'hello'.hex()], 'pos': 2}), 'segs': [{'mut': [], 'ops': ([['ch', True]] if ch else []) + two},
					{'mut': [['grow', b' world'.hex()]], 'ops': two}, {'mut': [['grow', b'!'.hex()], ['grow', b'?'.hex()]], 'ops': two + two}]})
		for t in ('bytes', 'list', 'tuple', 'bytesio', 'file'):
			for share in ('content', 'bodyobj') + (('request',) if kind == 'resp' else ()):
				for k2 in ('req', 'resp'):
					cases.append({'k': 'seq', 'base': _base(kind, {'t': t, 'items': [b'hello'.hex()], 'pos': 1}), 'segs': [{'mut': [['other', {'share': share, 'kind': 'resp' if share == 'request' else k2, 'chunked': k2 == 'req'}]], 'ops': two},
						{'mut': [['other', {'share': share, 'kind': 'resp' if share == 'request' else k2, 'chunked': k2 != 'req'}]], 'ops': two}]})
	# two different messages of one class after each other (a result kept on the class rather than on the object): sizes differ, same everything else
	for n in (1, 2, 3, 10, 11, 100):
		for t in ('bytes', 'list', 'file'):
			cases.append(_msg('resp', {'t': t, 'items': [(b'x' * n).hex()]}))
			cases.append(_msg('req', {'t': t, 'items': [(b'y' * n).hex()]}, chunked=n % 2 == 0))

	# (2) normalisation forms and look-alikes: text body, text pieces, path and query
	for i, u in enumerate(UNI):
		for text in (u, 'a' + u + 'b' + u):
			h = text.encode('utf-8').hex()
			cases.append(_msg('resp', {'t': 'text', 'items': [h]}, chunked=i % 2 == 0))
			cases.append(_msg('req', {'t': 'list', 'items': [b'x'.hex(), h, h], 'strs': [False, True, True]}, chunked=i % 2 == 1))
		cases.append(_msg('resp', {'t': 'gen', 'items': [u.encode('utf-8').hex(), b''.hex(), u.encode('utf-8').hex()], 'strs': [True, False, True]}, chunked=i % 3 == 0, coding=[None, 'gzip', 'deflate'][i % 3]))
		cases.append(_msg('req', {'t': 'tuple', 'items': [u.encode('utf-8').hex()], 'strs': [True]}, segs=['', u, 'x' + u], query=[[u, u]], method='PUT'))
		cases.append({'k': 'body', 'body': {'t': 'text', 'items': [(u * 3).encode('utf-8').hex()]}, 'chunked': i % 2 == 0, 'coding': None, 'trailer': []})
	alltext = ''.join(UNI)
	cases.append(_msg('resp', {'t': 'text', 'items': [alltext.encode('utf-8').hex()]}))
	cases.append(_msg('req', {'t': 'text', 'items': [alltext.encode('utf-8').hex()]}, chunked=True))

	# (3) lengths at and around limits
	types = ['bytes', 'list', 'bytesio', 'file', 'gen', 'text', 'tuple', 'bytearray']
	for i, n in enumerate(LIMITS):
		if n > 20000 and not big and i % 1:
			continue
		data = (bytes(range(256)) * (n // 256 + 1))[:n] if n % 2 else b'a' * n
		for j in range(3):
			t = types[(i + 3 * j) % len(types)]
			if t == 'text':
				data_t = b'a' * n
			else:
				data_t = data
			kind = 'resp' if (i + j) % 2 else 'req'
			cases.append(_msg(kind, {'t': t, 'items': [data_t.hex()], 'pos': n if j == 1 else 0}, chunked=(i + j) % 3 != 0, ops=[['p', 1000], ['c'], ['c']], nocoq=n > 1100))
		if n <= 8192:
			v = (b'v' * n).hex()
			cases.append({'k': 'hcompose', 'hdrs': [['X-Custom', v], ['Set-Cookie', (b'a=' + b'c' * (n - 2)).hex()]], 'nocoq': n > 1100})
			cases.append(_one('resp' if i % 2 else 'req', [['hset', 'X-Custom', v]], nocoq=n > 1100))
			cases.append(_one('req' if i % 2 else 'resp', [['path' if i % 2 else 'trailer'] + ([['', 's' * n]] if i % 2 else ['X-T', v])], chunked=True, nocoq=n > 1100))
		if n <= 1024:
			cases.append(_msg('resp', hello, reason='r' * n, status=[200, 404, 299][i % 3], ops=[['p', 1000], ['c']]))
		if n in (255, 256, 1023, 1024):
			for t in ('list', 'gen'):
				cases.append(_msg('req' if n % 2 else 'resp', {'t': t, 'items': [b'z'.hex()] * n}, chunked=True, ops=[['p', 1000], ['c'], ['c']], nocoq=True))
	for n in (9, 10, 15, 16, 17, 255, 256, 4095, 4096, 65535, 65536):   # the number of hex digits of a chunk-size changes
		cases.append(_msg('resp', {'t': 'list', 'items': [(b'p' * n).hex(), b'q'.hex()]}, chunked=True, ops=[['p', 1000], ['c']], nocoq=n > 1100))
		cases.append({'k': 'body', 'body': {'t': 'gen', 'items': [(b'p' * n).hex()]}, 'chunked': True, 'coding': None, 'trailer': [], 'nocoq': n > 1100})

	# (4) registries, read from the tree
	reg = registries()
	for code in reg['status']:
		if code in STATUSES and not big:
			continue   # the pool above has them
		for rm, ch in (('GET', False), ('GET', True), ('HEAD', False)):
			cases.append(_msg('resp', hello, chunked=ch, status=code, reason=None, rmethod=rm))
	for i, name in enumerate(reg['header']):
		value = REG_VALUES.get(name.lower(), 'x')
		for j, spelled in enumerate(_cases3(name)):
			kind = 'resp' if (i + j) % 2 else 'req'
			if name.lower() == 'content-encoding':
				kind = 'resp'   # a request is not coded by prepare (D43)
			cases.append(_one(kind, [['hset', spelled, value.encode('latin-1').hex()]], ops=[['p', 1000], ['c']]))
	for table, field in (('ce', 'Content-Encoding'), ('te', 'Transfer-Encoding')):
		for name, codec in reg[table]:
			# Kept out (reported): a name registered with NotImplementedError (identity, compress, br, exi, pack200-gzip) makes serialising fail with
			# AttributeError; a caller-set Transfer-Encoding naming any coding but chunked (gzip, deflate, identity, compress; also 'gzip, chunked',
			# 'chunked, chunked') is sent as set - together with Content-Length when chunked is not in it - and no transfer coding is applied.
			if codec is NotImplementedError or (table == 'te' and name != 'chunked'):
				continue
			for spelled in _cases3(name) + [' ' + name, name + ' ', name + ';q=1' if table == 'ce' else ',' + name, name.upper() + ' ']:
				for kind in (('resp',) if table == 'ce' else ('req', 'resp')):
					cases.append(_one(kind, [['hset', field, spelled.encode('latin-1').hex()]], ops=[['p', 1000], ['c'], ['p', 1000], ['c']]))
	# a registered media type is not a content coding: refused (InvalidHeader), never run as a coding
	for name in reg['media']:
		for spelled in _cases3(name)[:2]:
			cases.append(_one('resp', [['hset', 'Content-Encoding', spelled.encode('latin-1').hex()]], ops=[['p', 1000], ['c']]))
	for name in reg['method']:
		for spelled in _cases3(name):
			for ch in (False, True):
				cases.append(_msg('req', hello, chunked=ch, method=spelled))

	# (5) degenerate values: in every field prepare() looks at, in the coding fields, in the body, the reason phrase, the trailer, the query
	for i, name in enumerate(DEGENERATE_FIELDS):
		for j, v in enumerate(DEGENERATE):
			kind = 'resp' if (i + j) % 2 else 'req'
			if name in ('Accept-Ranges', 'Allow', 'Content-Range', 'Set-Cookie', 'Www-Authenticate', 'Etag', 'Last-Modified', 'Content-Length'):
				kind = 'resp'
			cases.append(_one(kind, [['hset', name, v.encode('latin-1').hex()]], ops=[['p', 1000], ['c']], **({'status': 405} if name == 'Allow' else {})))
	for v in ['', ' ', ',', ', ,', 'chunked,', ',chunked', ' chunked ', 'chunked ,', '\tchunked']:
		for kind in ('req', 'resp'):
			cases.append(_one(kind, [['hset', 'Transfer-Encoding', v.encode('latin-1').hex()]]))
	for v in ['', ' ', ',', 'gzip,', ',gzip', ' gzip ', '"gzip', '"gzip"', 'gzip;', ';', 'gzip;q']:
		cases.append(_one('resp', [['hset', 'Content-Encoding', v.encode('latin-1').hex()]]))
	for items, t, strs in (([], 'list', []), ([''], 'list', [True]), (['', ''], 'gen', [False, True]), ([], 'gen', []), ([' '], 'text', None), (['\r\n'], 'bytes', None), (['0\r\n\r\n'], 'bytes', None),
			(['\r\n\r\n'], 'list', [True]), (['HTTP/1.1 200 OK\r\n\r\n'], 'bytesio', None), (['5\r\nhello\r\n0\r\n\r\n'], 'file', None), (['\x00'], 'bytes', None), ([' ', '', '\t'], 'tuple', [True, True, False])):
		body = {'t': t, 'items': [x.encode('latin-1').hex() for x in items]}
		if strs is not None:
			body['strs'] = strs
		for kind in ('req', 'resp'):
			for ch in (False, True):
				cases.append(_msg(kind, dict(body), chunked=ch))
	for reason in ('', ' ', 'a  b', '\t', ' x ', '-'):
		cases.append(_msg('resp', hello, reason=reason, status=200))
		cases.append(_msg('resp', hello, reason=reason, status=299, chunked=True))
	for tr in ([['X-T', '']], [['X-T', b' '.hex()]], [['X-T', b','.hex()]], [['x-t', b'"'.hex()], ['A', b''.hex()]]):
		cases.append(_msg('resp', hello, chunked=True, trailer=tr))
		cases.append(_msg('req', hello, chunked=True, trailer=tr))
	for q in ([], [['', '']], [['', 'v']], [['k', '']], [['&', '=']], [[' ', ' ']]):
		cases.append(_msg('req', hello, query=q))
	cases.extend(gen_classes4(rng, tier))
	cases.extend(gen_classes5(rng, tier))
	return cases


# ================================================================ the classes of the fourth wave (DESIGN.md section 8, classes 7 - 9)
# (7) read-only observers.  repr / str / bytes / len / bool / iteration / hash / every comparison operator (also reflected) / copy / deepcopy / every public
#     attribute / in / dict / sorted / format applied to the message, its header collection, its Body, the composer, status, method, URI, protocol, the request
#     of the response, the trailer, the content object the caller handed over, a copy.copy of the Body and a second Body made from it (objects that share state
#     with the message) - BEFORE the message is used, and between two uses.  The data of the message is read BEFORE the first observer and put into a
#     fresh message that is never observed: both are driven through the same operations and must agree in every header collection and every octet; the live
#     output must satisfy the property for the content supplied.  (An observer that raises is still an observer: the exception is swallowed.)
# (8) every member of an operator family: every public way to set a field (item assignment of bytes / of text, setdefault, update, append, parse, set_element,
#     merge, assignment of a dict) and to remove it (pop with and without default, del, clear, assignment of an empty dict) for every field the framing
#     depends on; every public way to supply the content (attribute, Body.set, Body(...), Body(..., mimetype), write, encode, iterencode); every comparison
#     operator among the observers; both composer classes everywhere.
# (9) metacharacters and reserved names: the media type ANNOUNCED by a caller-set Content-Type field (charset and other parameters, quoted, upper case,
#     'charset' inside another parameter's value, unknown / unencodable charsets) against content supplied as TEXT pieces, which are encoded while the body is
#     iterated, i.e. after the length was computed (the length and the octets must come from the same encoding, on the first prepare and on every later one);
#     ':' '/' '?' '#' '@' '=' '&' ';' ',' '%' '"' and white space inside path segments, query names and values, field values and trailer values;
#     field names that contain or resemble the framing names; sets with one invalid member (Content-Encoding, Connection, Trailer).
#     The request target of every composed request is now also read against the origin-form grammar of RFC 7230 section 5.3.1 / RFC 3986 section 3.3, 3.4.

import copy as _copy

META = [':', '/', '?', '#', '@', '=', '&', ';', ',', '%', '"', ' ', '+', '\\', '<', '%2', '%zz', '%2f', '%00', '..', '*']
RESERVED_NAMES = ['_charset_', 'charset', 'q', 'boundary', 'filename', 'realm', 'uri', 'bytes', 'chunked', 'gzip', 'close', 'Content-Length', 'Transfer-Encoding: chunked']
NONASCII = ['grüße', 'ééé €', 'плохо', '日本語', 'áßÿ', 'héllo']
ANNOUNCED = ['text/html; charset=ISO-8859-1', 'text/plain; charset=windows-1252', 'text/plain;charset=utf-16', 'TEXT/PLAIN; CHARSET=UTF-16LE', 'text/plain; charset="iso-8859-15"',
	'application/json; charset=utf-32', 'text/plain; charset=us-ascii', 'text/plain; charset=koi8-r', 'text/plain; charset=shift_jis', 'text/plain; charset=UTF-8', 'text/plain',
	'text/plain; charset=x-unknown', 'application/octet-stream', 'text/plain; charset=latin1', 'application/xml; charset=utf-7', 'text/plain; charset=cp437']
ANNOUNCED_META = ['text/plain; x=charset; y="; charset=UTF-16"', 'multipart/form-data; boundary="a;charset=UTF-16"', 'text/plain; _charset_=UTF-16', 'text/plain; q=0.5; charset=ISO-8859-1',
	'text/plain; boundary=charset', 'charset', 'text/plain; charset', 'text/plain; charset=', 'text/plain; charset=,', 'text/plain; charset=UTF-16, text/html', 'text/plain; charset=ISO-8859-1; charset=UTF-8',
	'text/plain; charset=UTF-8; charset=ISO-8859-1', 'text/plain ; charset = ISO-8859-1', '; charset=ISO-8859-1', 'text/plain; filename="a.txt"; charset=utf-16be', '*/*; charset=ISO-8859-1']


def _hvia(m, way, name, value):
	h = m.headers
	if way == 'item-bytes':
		h[name] = value
	elif way == 'item-text':
		h[name] = value.decode('latin-1')
	elif way == 'setdefault':
		h.setdefault(name, value)
	elif way == 'update':
		h.update({name: value})
	elif way == 'append':
		h.append(name, value)
	elif way == 'parse':
		h.parse(name.encode('ascii') + b': ' + value)
	elif way == 'assign':
		d = dict((k, bytes(v)) for k, v in dict.items(h))
		d[name] = value
		m.headers = d
	elif way == 'merge':
		h.merge({name: value})
	elif way == 'set_element':
		main, _, params = value.decode('latin-1').partition(';')
		pairs = dict((k.strip(), v.strip().strip('"')) for k, _, v in (p.partition('=') for p in params.split(';') if p.strip()))
		if pairs:
			h.set_element(name, main.strip(), pairs)
		else:
			h.set_element(name, main.strip())
	elif way in HVIA_WAYS5:
		_hvia5(m, way, name, value)
	else:
		raise ValueError(way)


HVIA_WAYS = ['item-bytes', 'item-text', 'setdefault', 'update', 'append', 'parse', 'assign', 'merge', 'set_element']


def _hrm(m, way, name):
	h = m.headers
	if way == 'pop':
		h.pop(name)
	elif way == 'pop-default':
		h.pop(name, None)
	elif way == 'del':
		del h[name]
	elif way == 'clear':
		h.clear()
	elif way == 'set-empty':
		m.headers = {}
	elif way == 'assign-without':
		m.headers = dict((k, bytes(v)) for k, v in dict.items(h) if k.lower() != name.lower())
	else:
		raise ValueError(way)


HRM_WAYS = ['pop', 'pop-default', 'del', 'clear', 'set-empty', 'assign-without']
FRAMING_NAMES = ['Content-Length', 'Transfer-Encoding', 'Content-Encoding', 'Content-Type', 'Connection', 'Trailer', 'Host', 'Date', 'Accept-Ranges', 'X-Absent']


def _attrs(o):
	for n in dir(o):
		if not n.startswith('_'):
			v = getattr(o, n)
			if not callable(v):
				repr(v)


def _next_all(o):
	for _ in range(100000):
		try:
			next(o)
		except StopIteration:
			return


def _hget(h):
	for n in FRAMING_NAMES:
		for f in (lambda: h[n], lambda: h.get(n), lambda: h.getbytes(n), lambda: h.element(n), lambda: h.elements(n), lambda: h.values(n), lambda: h.get_element(n), lambda: h.get_element(n, 'chunked')):
			try:
				f()
			except Exception:
				pass
	list(h.items()), list(h.keys()), list(h.values())


OBSERVERS = {
	'repr': repr, 'str': str, 'bytes': bytes, 'len': len, 'bool': bool, 'hash': hash, 'int': int, 'tuple': tuple, 'dict': dict, 'sorted': sorted, 'format': format,
	'iter': lambda o: list(iter(o)), 'iter2': lambda o: (list(iter(o)), list(iter(o))), 'join': lambda o: b''.join(o), 'compose': lambda o: o.compose(), 'next-all': _next_all,
	'unicode': lambda o: o.__unicode__(), 'tell': lambda o: o.tell(), 'attrs': _attrs, 'get': _hget, 'copy': _copy.copy, 'deepcopy': _copy.deepcopy,
	'in': lambda o: [(n in o, n.encode('ascii') in o) for n in FRAMING_NAMES + ['x']],
	'eq-self': lambda o: o == o, 'ne-self': lambda o: o != o, 'eq-bytes': lambda o: (o == b'hello', b'hello' == o), 'eq-text': lambda o: (o == 'hello', 'hello' == o),
	'eq-other': lambda o: (o == None, o == 200, o == (1, 1), o == {}, o == [], o == type(o)()),  # noqa: E711
	'ne': lambda o: (o != b'hello', b'hello' != o, o != 'hello', o != None, o != 200, o != (1, 1), o != {}),  # noqa: E711
	'getvalue': lambda o: o.getvalue(), 'conditions': lambda o: list(o.range_conditions()),
}
for _name, _f in (('lt', lambda a, b: a < b), ('le', lambda a, b: a <= b), ('gt', lambda a, b: a > b), ('ge', lambda a, b: a >= b)):
	def _cmp(o, _f=_f):
		for other in (b'hello', 'hello', 200, (1, 1), o, 404.0):
			for x, y in ((o, other), (other, o)):   # the operator and its reflected form
				try:
					_f(x, y)
				except Exception:
					pass
	OBSERVERS[_name] = _cmp

_COMMON = ['repr', 'str', 'bytes', 'hash', 'eq-self', 'ne-self', 'eq-bytes', 'eq-text', 'eq-other', 'ne', 'lt', 'le', 'gt', 'ge', 'copy', 'deepcopy', 'attrs', 'format', 'bool', 'unicode']
OBS_TARGETS = {
	'm': _COMMON + ['compose'],
	'h': _COMMON + ['len', 'iter', 'sorted', 'dict', 'in', 'get', 'compose'],
	'b': _COMMON + ['len', 'iter', 'iter2', 'join', 'compose', 'next-all', 'in', 'tell', 'sorted'],
	'c': ['repr', 'attrs', 'copy', 'deepcopy', 'eq-self', 'hash', 'bool', 'conditions'],
	's': _COMMON + ['int'],       # the status of a response / the method of a request
	'u': _COMMON + ['tuple', 'dict'],   # the URI of a request / the request of a response
	'v': _COMMON + ['tuple', 'iter', 'int'],
	'tr': ['repr', 'bytes', 'bool', 'len', 'iter', 'attrs', 'copy', 'eq-other'],
	'fd': ['repr', 'len', 'iter', 'getvalue', 'copy', 'in', 'sorted', 'tell', 'bool', 'eq-other', 'hash'],
	'bcopy': ['bytes', 'len', 'iter', 'bool', 'repr', 'str', 'eq-bytes', 'next-all'],
	'bwrap': ['bytes', 'len', 'iter', 'bool', 'repr', 'str', 'eq-bytes', 'next-all'],
}


def _observe(m, c, target, name):
	from types import GeneratorType
	from httoop.messages.body import Body
	try:
		if target == 'm':
			o = m
		elif target == 'h':
			o = m.headers
		elif target == 'b':
			o = m.body
		elif target == 'c':
			o = c
		elif target == 's':
			o = m.status if hasattr(m, 'status') else m.method
		elif target == 'u':
			o = m.uri if hasattr(m, 'uri') else c.request
		elif target == 'v':
			o = m.protocol
		elif target == 'tr':
			o = m.body.trailer
		elif target == 'fd':
			o = m.body.fd   # the object the caller handed over (or the buffer the library made of it)
			if isinstance(o, GeneratorType) or type(o) is type(iter([])) or (hasattr(o, 'fileno') and name in ('iter', 'sorted', 'in', 'copy')):
				# running the caller's generator / reading the caller's file through its own interface is a use, not an observation
				name = 'repr'
		elif target in ('bcopy', 'bwrap'):
			fd = m.body.fd
			if isinstance(fd, GeneratorType) or type(fd) is type(iter([])):
				# two Body objects around ONE generator: whichever is iterated first runs it (and keeps the pieces for itself).  A generator handed to two
				# consumers is the caller's problem (see 'other' in _seq_mut): the second Body is made and looked at, not iterated
				name = 'repr'
			o = _copy.copy(m.body) if target == 'bcopy' else Body(m.body)
		else:
			raise ValueError(target)
		OBSERVERS[name](o)
	except Exception:
		pass


def target_syntax(target):
	"""origin-form of RFC 7230 section 5.3.1 read with RFC 3986: 1*( "/" *pchar ) [ "?" *( pchar / "/" / "?" ) ]; None = fine.
	(other forms - '*', absolute-form - do not start with a slash and are not generated here)"""
	if not target.startswith(b'/'):
		return None
	pchar = set(b"abcdefghijklmnopqrstuvwxyzABCDEFGHIJKLMNOPQRSTUVWXYZ0123456789-._~!$&'()*+,;=:@")
	path, q, query = target.partition(b'?')
	for part, extra, what in ((path, b'/', 'path'), (query, b'/?', 'query')):
		i = 0
		while i < len(part):
			ch = part[i]
			if ch == 0x25:
				if len(part) < i + 3 or any(x not in cr.HEXDIG for x in part[i + 1:i + 3]):
					return 'the %s of the request target %r has a %% that is not followed by two hex digits' % (what, target[:80])
				i += 3
				continue
			if ch not in pchar and ch not in extra:
				return 'the %s of the request target %r contains the octet %r, which is not allowed there (RFC 3986)' % (what, target[:80], bytes([ch]))
			i += 1
	return None


def _hx(text, charset='utf-8'):
	return text.encode(charset).hex()


def _text_shapes(text):
	"""content given as TEXT: one str, and str pieces of lists / tuples / generators (alone, repeated, mixed with octet pieces and empty pieces)"""
	h = _hx(text)
	return [{'t': 'text', 'items': [h]},
		{'t': 'list', 'items': [h, _hx('!')], 'strs': [True, True]},
		{'t': 'gen', 'items': [h], 'strs': [True]},
		{'t': 'tuple', 'items': [b'\xff\xfe'.hex(), h, ''], 'strs': [False, True, False]},
		{'t': 'list', 'items': [h, h, h], 'strs': [True, True, True]},
		{'t': 'gen', 'items': [h, b'\r\n'.hex(), h], 'strs': [True, False, True]}]


def gen_classes4(rng, tier):
	big = tier == 'thorough'
	cases = []
	two = [['p', 1000], ['c']]
	four = two + two
	ctype = lambda v: [['Content-Type', v.encode('latin-1').hex()]]   # noqa: E731

	# (9a) the announced media type against content supplied as text: Content-Length framing everywhere, chunked for one case in three
	for i, v in enumerate(ANNOUNCED):
		for j, shape in enumerate(_text_shapes(NONASCII[i % len(NONASCII)])):
			for kind in ('resp', 'req'):
				cases.append(_msg(kind, dict(shape), hdrs=ctype(v), ops=four))
				if (i + j) % 3 == 0 or big:
					cases.append(_msg(kind, dict(shape), chunked=True, hdrs=ctype(v), ops=four))
		if i % 4 == 0:
			for coding in ('gzip', 'deflate'):
				cases.append(_msg('resp', _text_shapes(NONASCII[i % len(NONASCII)])[1], hdrs=ctype(v), coding=coding, ops=four))
	# (the shortest form: one text piece of one character, announced in a charset with one octet per character)
	cases.append(_msg('resp', {'t': 'list', 'items': [_hx('\xe9')], 'strs': [True]}, hdrs=ctype('a/b;charset=latin1'), ops=two))
	for i, v in enumerate(ANNOUNCED_META):
		shapes = _text_shapes(NONASCII[(i + 1) % len(NONASCII)])
		for j, shape in enumerate(shapes if big else (shapes[1 + i % 2], shapes[2 + i % 4])):
			for kind in ('resp', 'req'):
				cases.append(_msg(kind, dict(shape), hdrs=ctype(v), ops=four))
	# long text: more than one block, and the length of the two encodings differs by thousands
	for v in ('text/plain; charset=ISO-8859-1', 'text/plain; charset=utf-16'):
		for t, n in (('list', 5000), ('gen', 2048), ('text', 4096)):
			body = {'t': t, 'items': [_hx('\xe9' * n)]}
			if t != 'text':
				body['strs'] = [True]
			cases.append(_msg('resp', body, hdrs=ctype(v), ops=four, nocoq=True))
	# the charset of the BODY (Body.encoding, what text is encoded in) set by the caller, with and without an announced one that agrees / differs
	for i, (cs, text) in enumerate((('ISO-8859-1', 'grüße'), ('utf-16', 'héllo'), ('cp1251', 'плохо'), ('shift_jis', '日本語'))):
		for j, v in enumerate((None, 'text/plain; charset=%s' % cs, 'text/plain; charset=UTF-8', 'text/plain; charset=utf-32', 'application/octet-stream')):
			for n, shape in enumerate(_text_shapes(text)[:3]):
				kind = 'resp' if (i + j + n) % 2 else 'req'
				cases.append(_msg(kind, dict(shape, charset=cs), chunked=(i + j + n) % 5 == 0, hdrs=ctype(v) if v else [], ops=four))
	# ... and the field appears / changes / disappears between two uses of one message (every way to set and to remove it: see 8)
	for i, v in enumerate(ANNOUNCED[:8] + ANNOUNCED_META[:4]):
		for j, shape in enumerate(_text_shapes(NONASCII[i % len(NONASCII)])[1:4]):
			kind = 'resp' if (i + j) % 3 else 'req'
			way, rm = HVIA_WAYS[(i + j) % 6], HRM_WAYS[(i + j) % 3]
			cases.append({'k': 'seq', 'base': _base(kind, dict(shape)), 'segs': [{'mut': [], 'ops': two}, {'mut': [['hvia', way, 'Content-Type', v.encode('latin-1').hex()]], 'ops': four},
				{'mut': [['hrm', rm, 'Content-Type']], 'ops': two}]})
			cases.append(_one(kind, [['hvia', way, 'Content-Type', v.encode('latin-1').hex()]], body=dict(shape), ops=four))

	# (8) every way to set / remove each field the framing depends on
	text_list = {'t': 'list', 'items': [_hx('grüße'), b' \xff'.hex()], 'strs': [True, False]}
	fields = [('Transfer-Encoding', 'chunked'), ('Content-Encoding', 'gzip'), ('Content-Encoding', 'deflate'), ('Content-Type', 'text/plain; charset=ISO-8859-1'),
		('Content-Length', '3'), ('Connection', 'close'), ('Trailer', 'X-T'), ('Host', 'h.example'), ('Accept-Ranges', 'bytes'), ('Date', 'Thu, 01 Jan 1970 00:00:00 GMT')]
	for i, (name, value) in enumerate(fields):
		for j, way in enumerate(HVIA_WAYS):
			for kind in ('resp', 'req'):
				if kind == 'req' and name in ('Content-Encoding', 'Content-Length', 'Accept-Ranges'):
					continue   # D43 / D46: caller-set coding and length of a request
				if way == 'set_element' and name in ('Date', 'Host', 'Content-Length'):
					continue
				spelled = (name, name.lower(), name.upper())[(i + j) % 3]
				body = dict(text_list) if (i + j) % 2 else {'t': ('bytesio', 'file', 'gen')[j % 3], 'items': [b'hello world'.hex()], 'pos': 4}
				cases.append(_one(kind, [['hvia', way, spelled, value.encode('latin-1').hex()]], body=body, ops=four))
	for i, (name, value) in enumerate(fields[:7]):
		for j, way in enumerate(HRM_WAYS):
			for kind in ('resp', 'req'):
				if kind == 'req' and name in ('Content-Encoding', 'Content-Length'):
					continue
				spelled = (name, name.lower(), name.upper())[(i + j) % 3]
				first = [['hvia', HVIA_WAYS[(i + j) % len(HVIA_WAYS[:7])], name, value.encode('latin-1').hex()]]
				body = dict(text_list) if (i + j) % 2 == 0 else {'t': ('bytes', 'file', 'list')[j % 3], 'items': [b'hello world'.hex()]}
				# (a request that was prepared with Content-Length framing keeps the field: D46 through a sequence - its second use stays non-empty, so the length is rewritten)
				cases.append({'k': 'seq', 'base': _base(kind, body), 'segs': [{'mut': first, 'ops': two}, {'mut': [['hrm', way, spelled]], 'ops': four}]})
	# every way to supply the content
	for kind in ('resp', 'req'):
		for ch in (False, True):
			ways = [({'t': 'bytes', 'items': [b'written \xff'.hex()]}, 'write'), ({'t': 'text', 'items': [_hx('grüße €')]}, 'encode'),
				({'t': 'text', 'items': [_hx('grüße')], 'charset': 'ISO-8859-1'}, 'encode'), ({'t': 'text', 'items': [_hx('héllo')], 'charset': 'utf-16'}, 'ctor-mime'),
				({'t': 'list', 'items': [_hx('grüße'), _hx(' €')], 'strs': [True, True]}, 'iterencode'),
				({'t': 'list', 'items': [_hx('grüße'), _hx('ÿ')], 'strs': [True, True], 'charset': 'ISO-8859-1'}, 'iterencode')]
			for body, how in ways:
				cases.append({'k': 'seq', 'base': _base(kind), 'segs': [{'mut': [['body', body, how]], 'ops': ([['ch', True]] if ch else []) + four}]})
				cases.append({'k': 'seq', 'base': _base(kind, hdrs=ctype('text/plain; charset=windows-1252')), 'segs': [{'mut': [], 'ops': two}, {'mut': [['body', body, how]], 'ops': ([['ch', ch]]) + four}]})

	# (7) read-only observers: before the first use, and between two uses
	bodies = [{'t': 'list', 'items': [_hx('grüße'), b'\xff'.hex(), ''], 'strs': [True, False, False]}, {'t': 'gen', 'items': [_hx('héllo'), b'!'.hex()], 'strs': [True, False]},
		{'t': 'bytesio', 'items': [b'hello world'.hex()], 'pos': 4}, {'t': 'file', 'items': [b'hello file'.hex()], 'pos': 3}, {'t': 'bytes', 'items': [b'hello'.hex()]},
		{'t': 'text', 'items': [_hx('grüße')]}, {'t': 'tuple', 'items': [b'ab'.hex(), b'cd'.hex()]}, {'t': 'gen', 'items': []}]
	n = 0
	walkers = ('len', 'bool', 'iter', 'iter2', 'join', 'compose', 'next-all', 'bytes', 'str', 'eq-bytes', 'in', 'sorted', 'copy', 'deepcopy', 'unicode', 'format')
	for target in sorted(OBS_TARGETS):
		for name in OBS_TARGETS[target]:
			for ki, kind in enumerate(('resp', 'req')):
				n += 1
				if target in ('m', 'v', 'tr') and not big and ((n - 1) // 2 + ki) % 2:
					continue   # the same class for both kinds of message: alternate
				if target == 'b' and (big or name in walkers):
					picks = bodies[:4]   # what walks the content: every kind of source
				elif target in ('fd', 'bcopy', 'bwrap'):
					picks = [bodies[n % 4], bodies[(n + 1 + ki) % 4]]
				else:
					picks = [bodies[n % len(bodies)]]
				for bi, body in enumerate(picks):
					framing = (n + bi) % 3
					kw = {'coding': 'gzip'} if framing == 2 and kind == 'resp' else {}
					ops = ([['ch', True]] if framing == 1 else []) + four
					if ((n - 1) // 4 + ki + bi) % 2 or big:
						cases.append({'k': 'seq', 'base': _base(kind, dict(body), **kw), 'segs': [{'mut': [['obs', target, name]], 'ops': ops}]})
					if not ((n - 1) // 4 + ki + bi) % 2 or big:
						cases.append({'k': 'seq', 'base': _base(kind, dict(body), **kw), 'segs': [{'mut': [], 'ops': ops[:-2]}, {'mut': [['obs', target, name]], 'ops': two + [['c']]}]})
	# random sequences (class 1) with observers after the modifications of every segment
	allobs = [(t, nm) for t in sorted(OBS_TARGETS) for nm in OBS_TARGETS[t]]
	for _ in range(4000 if big else 120):
		c = rseq(rng, tier)
		for seg in c['segs']:
			for _ in range(rng.choice([0, 1, 1, 2, 4])):
				seg['mut'].append(['obs'] + list(rng.choice(allobs)))
		cases.append(c)

	# (9b) metacharacters of the neighbouring components in path segments, query names and values (the target must stay ONE valid origin-form target)
	for i, ch in enumerate(META):
		cases.append(_msg('req', {'t': 'bytes', 'items': [b'hello'.hex()]}, chunked=i % 2 == 0, segs=['', 'a' + ch + 'b', ch], query=[['k' + ch, 'v' + ch + 'w'], [ch, ch]], ops=four))
		cases.append(_msg('req', {'t': 'bytes', 'items': [b'hello'.hex()]}, segs=['', ch + ch, 'x'], query=[[ch + ch, '']], method='PUT', ops=two))
	for i, name in enumerate(RESERVED_NAMES):
		cases.append(_msg('req', {'t': 'list', 'items': [_hx('grüße')], 'strs': [True]}, chunked=i % 2 == 1, segs=['', name], query=[[name, 'UTF-16'], ['x', name]], ops=four))
	# (9c) ... in field values and trailer values; names that contain or resemble the framing names
	for i, ch in enumerate(META + RESERVED_NAMES):
		v = ('a' + ch + 'b').encode('latin-1').hex()
		for kind in ('resp', 'req'):
			cases.append(_msg(kind, {'t': 'bytes', 'items': [b'hello'.hex()]}, chunked=(i % 2 == 0) == (kind == 'resp'), hdrs=[['X-Custom', v], ['Cookie' if kind == 'req' else 'Set-Cookie', v]],
				trailer=[['X-T', v]] if (i % 2 == 0) == (kind == 'resp') else [], ops=four))
	for i, name in enumerate(['X-Content-Length', 'Content-Length-X', 'Content-Lengt', 'Transfer-Encoding-X', 'X-Transfer-Encoding', 'Chunked', 'Content-Encodin', 'Content-Encoding-X', 'Charset', 'Boundary', 'Q', 'Bytes',
			'Content-Typ', 'Content-Type-X', 'Trailers', 'Connection-X', 'Te', 'Content_Length', 'Content.Length', 'Transfer_Encoding']):
		for kind in ('resp', 'req'):
			v = ('chunked', '99', 'gzip', 'text/plain; charset=utf-16', 'close')[i % 5]
			cases.append(_one(kind, [['hset', name, v.encode('ascii').hex()]], body={'t': 'list', 'items': [_hx('grüße')], 'strs': [True]}, chunked=i % 3 == 0, ops=four))
	# (9d) sets with one invalid member: the whole field is refused (InvalidHeader) or the message is framed correctly - never a coded / unframed half
	for v in ('gzip, x-unknown', 'x-unknown, gzip', 'gzip, deflate', 'gzip, identity', 'deflate;q=1, gzip', 'gzip, ', 'gzip, "', 'gzip, gzip', 'identity, gzip', 'gzip; x-unknown', 'gzip x-unknown', 'gzip,\tdeflate'):
		cases.append(_one('resp', [['hset', 'Content-Encoding', v.encode('latin-1').hex()]], ops=four))
	for name, vals in (('Connection', ['close, x-unknown', 'x-unknown, close', 'close, ', 'close; q=1', 'keep-alive, close', 'Transfer-Encoding', 'Content-Length, close']),
			('Trailer', ['X-T, Content-Length', 'Content-Length', 'X-T, ', 'X-T, Transfer-Encoding', 'x-t,X-T'])):
		for i, v in enumerate(vals):
			for kind in ('resp', 'req'):
				cases.append(_one(kind, [['hset', name, v.encode('latin-1').hex()]], chunked=(i % 2 == 0), ops=four, **({'trailer': [['X-T', b'tv'.hex()]]} if name == 'Trailer' else {})))
	return cases


# ================================================================ the classes of the fifth wave (DESIGN.md section 8, classes 10 - 17)
# (10) aliasing.  A second message B is built from the parts of the first (constructor arguments, attribute assignment, Body(A.body), A's content object,
#      Headers(A.headers), deepcopy, the URI, the request of a response), then B is modified through every public way, prepared and serialised: A must go on
#      exactly like a message built from the data read from A BEFORE B existed ('alias' modification of a seq case).  Two messages built one after the other
#      from the SAME caller-owned argument objects (a dict / OrderedDict / Headers / list of pairs, a list / BytesIO / file / dict ...): the argument objects
#      are unchanged after the first message was modified, prepared and serialised, and the second message serialises like a fresh one (kind 'args').
# (11) argument types.  The content as bytes / bytearray / str and subclasses of bytes, str, list, tuple, BytesIO; dict, OrderedDict, dict views, deque,
#      set, an object with __iter__ (re-iterable); iter(list), generator expression, generator function (one-shot); real files opened r+b, SpooledTemporaryFile;
#      header values as bytearray / memoryview, names as bytes, collections as OrderedDict / Headers / dict with bytes keys; status as bytes;
#      method as bytes; the request target as str / bytes / URI / tuple / dict, the query as list / tuple / iterator / generator / map / chain / list of lists.
#      The payload must be the pieces in iteration order (dict insertion order), and the octets those of a fresh message built the canonical way.
# (12) refused operations.  A call the library refuses with an exception (closed file, closed BytesIO, content that is not iterable, text the charset of the
#      body cannot encode, status / method / protocol / URI / field name that is not one, a mapping that is none, prepare() with an unknown coding, a
#      serialisation that is abandoned half way or breaks on a piece that is not bytes) - before the first use and between two uses, for every kind of body
#      source and both framings.  The exception is handled (swallowed); the message must go on like a message on which the call was never made (fresh
#      message from the data read BEFORE the call), and - nothing having changed - what it is serialised to afterwards must be what it was serialised
#      to before, with the framing fields still telling the truth.
# (13) configuration knobs: the charset of the body selected through Body(content, mimetype=...) (str / bytes / quoted), body.encoding, body.mimetype - UTF-16,
#      UTF-16LE/BE, UTF-32, ISO8859-1, cp1252, koi8-r, shift_jis, utf-7, utf-8-sig - with non-ASCII text as str, as text pieces and mixed with octet pieces;
#      ComposedRequest.USER_AGENT on a subclass.
# (14) order: pieces of list / tuple / generator / deque / dict bodies unsorted, with duplicates, reverse-sorted, with empty pieces in between: the payload (and
#      the chunk sequence) is the pieces in the caller's order.  (The order of header FIELDS never reaches the wire: bytes(Headers) sorts them.)
# (15) order of API calls: content, charset, content coding, framing (four ways), trailer, announced Content-Type, status / method - in every order.
#      (Responses to conditional range requests are outside the composer model and the subject of C19 / C20.)
# (16) value-dependent branches: hundreds of cheap multi-piece contents found by direct search - pieces whose deflate stream ends in a white space octet
#      (zlib.adler32(piece) & 0xff in HT LF VT FF CR SP) or NUL, whose gzip member / CRC contains CR LF, pieces that begin / end with white space, NUL, CR LF,
#      text whose UTF-16 / UTF-32 form contains or ends in 0x0A / 0x0D / 0x20 / 0x00 octets.
# (17) lengths 2^k and 2^k +- 1 for k = 9 .. 16 as content of every kind of source, as a single piece, as file content behind a non-zero position.

import collections as _collections
import itertools as _itertools
import tempfile as _tempfile
import zlib as _zlib

REITERABLE = ('dict', 'odict', 'dictkeys', 'dictvalues', 'deque', 'set1', 'frozenset1', 'reiter', 'list-sub', 'tuple-sub')
ONESHOT = ('iterlist', 'genexpr', 'genfunc', 'zipgen')
# Finding D64 (repaired in 73ea79c, generated on every run): one-shot iterators that are neither a generator nor a list iterator - iter(tuple), map(...),
# itertools.chain(...), filter(...), reversed(list), iter(dict), iter(deque), islice, starmap over zip(...), an iterator class with __iter__ / __next__ - were accepted
# by Body.set, but Body did not know them as generators: the first walk (len(body) in prepare(), or bool(body)) exhausted them and nothing was kept.  Response +
# body map(bytes, [b'ab', b'cd']) -> 'Content-Length: 4' followed by no octets; with chunked framing a complete but EMPTY chunked body.  They are sources of
# kind 'gen' (model: SGen) like the four above, in the framing / repeatability / refused-call / aliasing scenarios.
ONESHOT_D64 = ('itertuple', 'map', 'chain', 'filter', 'reversed', 'starmap-zip', 'islice', 'iterdict', 'iterdeque', 'iterclass')
# Still kept out (observations, refusals without octets): memoryview content (and bytearray / memoryview PIECES) is accepted at assignment and refused only by
# prepare() / len() (TypeError); io.StringIO / io.BufferedReader / io.TextIOWrapper content (the class docstring names StringIO) is accepted and prepare() raises
# io.UnsupportedOperation from fileno().


class _IterClass(object):
	"""a user-defined one-shot iterator"""

	def __init__(self, pieces):
		self.pieces = list(pieces)
		self.i = 0

	def __iter__(self):
		return self

	def __next__(self):
		if self.i >= len(self.pieces):
			raise StopIteration
		self.i += 1
		return self.pieces[self.i - 1]


class _ReIter(object):
	def __init__(self, pieces):
		self.pieces = pieces

	def __iter__(self):
		return iter(list(self.pieces))


class _ListSub(list):
	pass


class _TupleSub(tuple):
	pass


class _BytesSub(bytes):
	pass


class _StrSub(str):
	pass


class _BytesIOSub(_io.BytesIO):
	pass


def _genfunc(objs):
	for x in objs:
		yield x


def _content5(body, keep):
	"""composer_rec._content plus the Python variants of a source ('py'); 't' stays the kind of source the model and the bookkeeping know"""
	py = body.get('py')
	if not py:
		return cr._content(body, keep)
	items = [bytes.fromhex(x) for x in body.get('items', [])]
	strs = body.get('strs') or [False] * len(items)
	objs = [(x.decode('utf-8') if s else x) for x, s in zip(items, strs)]
	data = b''.join(items)
	pos = body.get('pos', 0)
	if py == 'bytes-sub':
		return _BytesSub(data)
	if py == 'str-sub':
		return _StrSub(data.decode('utf-8'))
	if py == 'dict':
		return dict((x, i) for i, x in enumerate(objs))
	if py == 'odict':
		return _collections.OrderedDict((x, i) for i, x in enumerate(objs))
	if py == 'dictkeys':
		return dict((x, i) for i, x in enumerate(objs)).keys()
	if py == 'dictvalues':
		return dict((i, x) for i, x in enumerate(objs)).values()
	if py == 'deque':
		return _collections.deque(objs)
	if py == 'set1':
		return set(objs)
	if py == 'frozenset1':
		return frozenset(objs)
	if py == 'reiter':
		return _ReIter(objs)
	if py == 'list-sub':
		return _ListSub(objs)
	if py == 'tuple-sub':
		return _TupleSub(objs)
	if py == 'iterlist':
		return iter(objs)
	if py == 'genexpr':
		return (x for x in objs)
	if py == 'genfunc':
		return _genfunc(objs)
	if py == 'zipgen':
		return (x for x, _ in zip(objs, range(len(objs))))
	if py == 'itertuple':
		return iter(tuple(objs))
	if py == 'map':
		return map(lambda x: x, objs)
	if py == 'chain':
		return _itertools.chain(objs[:1], objs[1:])
	if py == 'filter':
		return filter(lambda x: True, objs)
	if py == 'reversed':
		return reversed(objs[::-1])
	if py == 'starmap-zip':
		return _itertools.starmap(lambda x, i: x, zip(objs, range(len(objs))))
	if py == 'islice':
		return _itertools.islice(objs + [b'never sent'], len(objs))
	if py == 'iterdict':
		return iter(dict((x, i) for i, x in enumerate(objs)))   # (keys: distinct pieces)
	if py == 'iterdeque':
		return iter(_collections.deque(objs))
	if py == 'iterclass':
		return _IterClass(objs)
	if py == 'bytesio-sub':
		fd = _BytesIOSub(data)
		fd.seek(pos)
		return fd
	if py == 'file-rw':
		tmp = _tempfile.NamedTemporaryFile(prefix='verif-c05-', delete=False)
		tmp.write(data)
		tmp.close()
		fd = open(tmp.name, 'r+b')
		fd.seek(pos)
		keep.append((fd, tmp.name))
		return fd
	if py == 'spooled':
		fd = _tempfile.SpooledTemporaryFile(max_size=1 << 22)
		fd.write(data)
		fd.seek(pos)
		tmp = _tempfile.NamedTemporaryFile(prefix='verif-c05-', delete=False)   # (only so that the clean-up has a name to remove)
		tmp.close()
		keep.append((fd, tmp.name))
		return fd
	raise ValueError(py)


def _fd_obs(body):
	"""composer_rec.fd_obs; a re-iterable container that is neither list nor tuple counts as what it is for the composer: a list of pieces"""
	o = cr.fd_obs(body)
	fd = body.fd
	if o[0].startswith('other:') and hasattr(fd, '__iter__') and not hasattr(fd, 'read') and not hasattr(fd, '__next__'):
		return ['list']
	if o[0].startswith('other:') and hasattr(fd, '__next__') and not hasattr(fd, 'read'):
		return ['gen']   # a one-shot iterator that is not a generator (map, chain, ...): for the composer what a generator is
	return o


BODY_HOWS5 = ('enc-then-attr', 'mime-then-attr', 'mimeb-then-set', 'attr-then-charset', 'ctor-mime-bytes', 'ctor-mime-quoted', 'ctor-mime-html')


def _body_how5(m, spec, how, obj):
	"""the charset of the body selected through every knob, before or after the content is handed over"""
	from httoop.messages.body import Body
	cs = spec['charset']
	if how == 'enc-then-attr':
		m.body.encoding = cs
		m.body = obj
	elif how == 'mime-then-attr':
		m.body.mimetype = 'text/plain; charset=%s' % cs
		m.body = obj
	elif how == 'mimeb-then-set':
		m.body.mimetype = b'text/plain; charset=' + cs.encode('ascii')
		m.body.set(obj)
	elif how == 'attr-then-charset':
		m.body = obj
		m.body.encoding = cs
	elif how == 'ctor-mime-bytes':
		m.body = Body(obj, mimetype=b'text/plain; charset=' + cs.encode('ascii'))
	elif how == 'ctor-mime-quoted':
		m.body = Body(obj, mimetype='text/plain; charset="%s"' % cs)
	elif how == 'ctor-mime-html':
		m.body = Body(obj, mimetype='text/html;charset=%s' % cs.upper())
	else:
		raise ValueError(how)


HVIA_WAYS5 = ['item-bytearray', 'item-memoryview', 'name-bytes', 'update-odict', 'update-headers', 'assign-odict', 'assign-headers', 'assign-bytes-keys', 'setdefault-name-bytes']


def _hvia5(m, way, name, value):
	from httoop.header import Headers
	h = m.headers
	if way == 'item-bytearray':
		h[name] = bytearray(value)
	elif way == 'item-memoryview':
		h[name] = memoryview(value)
	elif way == 'name-bytes':
		h[name.encode('ascii')] = value
	elif way == 'update-odict':
		h.update(_collections.OrderedDict([(name, value)]))
	elif way == 'update-headers':
		h.update(Headers({name: value}))
	elif way == 'setdefault-name-bytes':
		h.pop(name, None)
		h.setdefault(name.encode('ascii'), value)
	elif way in ('assign-odict', 'assign-headers', 'assign-bytes-keys'):
		pairs = [(k, bytes(v)) for k, v in dict.items(h) if k.lower() != name.lower()] + [(name, value)]
		if way == 'assign-odict':
			m.headers = _collections.OrderedDict(pairs)
		elif way == 'assign-headers':
			m.headers = Headers(dict(pairs))
		else:
			m.headers = dict((k.encode('ascii'), v) for k, v in pairs)
	else:
		raise ValueError(way)


def _target5(m, spec, how, uri):
	"""the request target / the query handed over in another argument type (unreserved characters only: the text form is unambiguous)"""
	from httoop.uri import URI
	pairs = [tuple(p) for p in spec['query']]
	if how.startswith('q-'):
		v = {'q-list': lambda: list(pairs), 'q-tuple': lambda: tuple(pairs), 'q-iter': lambda: iter(pairs), 'q-gen': lambda: (p for p in pairs), 'q-map': lambda: map(tuple, pairs),
			'q-chain': lambda: _itertools.chain(pairs[:1], pairs[1:]), 'q-lists': lambda: [list(p) for p in pairs]}[how]()
		m.uri.query = v
		uri['query'] = [list(p) for p in spec['query']]
		return
	text = 'http://%s%s?%s' % (spec['host'], '/'.join(spec['segs']), '&'.join('%s=%s' % p for p in pairs))
	if how == 'str':
		m.uri = text
	elif how == 'bytes':
		m.uri = text.encode('ascii')
	elif how == 'uriobj':
		m.uri = URI(text)
	elif how == 'tuple':
		m.uri = URI(text).tuple
	elif how == 'dict':
		m.uri = URI(text).dict
	else:
		raise ValueError(how)
	uri.update(segs=list(spec['segs']), query=[list(p) for p in spec['query']], host=spec['host'], scheme='http', port=None)


# ---------------------------------------------------------------- (12) calls the library has to refuse
class _Marker(Exception):
	"""raised by the harness itself at the end of an operation that is abandoned rather than refused, or that does not apply to this kind of source"""


def _closed_file():
	f = _tempfile.TemporaryFile()
	f.write(b'gone')
	f.close()
	return f


def _closed_bytesio():
	b = _io.BytesIO(b'gone')
	b.close()
	return b


class _StrOnly(object):
	def __str__(self):
		return 'content'

	def __bytes__(self):
		return b'content'


def _unencodable(m):
	"""text the charset of the body cannot encode: U+20AC for the single-octet Western charsets, a lone surrogate for everything else"""
	import codecs
	try:
		name = codecs.lookup(m.body.encoding).name
	except LookupError:
		name = ''
	return '\u20ac 5' if name in ('iso8859-1', 'ascii', 'koi8-r', 'iso8859-2') else 'a\ud800b'


def _r_write(value):
	def f(m, c):
		if not hasattr(m.body.fd, 'write'):
			raise _Marker('no file interface')   # (Body.write on a list / generator source is a silent no-op)
		m.body.write(value)
	return f


def _r_prepare_with(name):
	def f(m, c):
		old = m.headers.getbytes(name)
		m.headers[name] = b'x-unknown'
		try:
			c.prepare()
		finally:
			if old is None:
				m.headers.pop(name, None)
			else:
				m.headers[name] = old
	return f


def _r_abandon(n):
	def f(m, c):
		from types import GeneratorType
		fd = m.body.fd
		if n > 1 and (isinstance(fd, GeneratorType) or type(fd) is type(iter([])) or (hasattr(fd, '__next__') and not hasattr(fd, 'read'))):
			raise _Marker('a generator that was run half way is gone: the caller\'s object, nothing the library could restore')
		it = iter(c)
		for _ in range(n):
			next(it)
		it.close()
		raise _Marker('abandoned')
	return f


def _r_bad_piece(m, c):
	fd = m.body.fd
	if type(fd) is not list:
		raise _Marker('not a list source')
	fd.append(5)
	try:
		b''.join(c)
	finally:
		fd.pop()


def _setbody(f):
	return lambda m, c: setattr(m, 'body', f(m))


def _body_ctor(f):
	def g(m, c):
		from httoop.messages.body import Body
		m.body = Body(*f(m))
	return g


# name -> (applies to, why the call cannot be carried out, the call, directed only?)
REFUSALS = {
	'body = closed file': ('any', 'a closed file cannot be read', _setbody(lambda m: _closed_file()), False),
	'body = closed BytesIO': ('any', 'a closed buffer cannot be read', _setbody(lambda m: _closed_bytesio()), False),
	'body = 42': ('any', 'an integer is not content', _setbody(lambda m: 42), False),
	'body = 1.5': ('any', 'a float is not content', _setbody(lambda m: 1.5), False),
	'body = True': ('any', 'a bool is not content', _setbody(lambda m: True), False),
	'body = object with __str__': ('any', 'an object that is neither text, octets, file nor iterable is not content', _setbody(lambda m: _StrOnly()), False),
	'body = unencodable text': ('any', 'the charset of the body cannot encode the text', _setbody(_unencodable), False),
	'body.set(closed file)': ('any', 'a closed file cannot be read', lambda m, c: m.body.set(_closed_file()), False),
	'body.set(closed BytesIO)': ('any', 'a closed buffer cannot be read', lambda m, c: m.body.set(_closed_bytesio()), False),
	'body.set(42)': ('any', 'an integer is not content', lambda m, c: m.body.set(42), False),
	'body.set(unencodable text)': ('any', 'the charset of the body cannot encode the text', lambda m, c: m.body.set(_unencodable(m)), False),
	'body = Body(42)': ('any', 'an integer is not content', _body_ctor(lambda m: (42,)), False),
	'body = Body(closed BytesIO)': ('any', 'a closed buffer cannot be read', _body_ctor(lambda m: (_closed_bytesio(),)), False),
	'body = Body(closed file)': ('any', 'a closed file cannot be read', _body_ctor(lambda m: (_closed_file(),)), False),
	'body = Body(text, mimetype whose charset cannot encode it)': ('any', 'ISO-8859-1 cannot encode U+20AC', _body_ctor(lambda m: ('\u20ac 5', 'text/plain; charset=ISO-8859-1')), False),
	'body.encode(unencodable text)': ('any', 'the charset of the body cannot encode the text', lambda m, c: m.body.encode(_unencodable(m)), False),
	'body.encode(42)': ('any', 'an integer is not text', lambda m, c: m.body.encode(42), False),
	'body.write(text)': ('any', 'a binary file does not take text', _r_write('text'), False),
	'body.write(42)': ('any', 'a file does not take an integer', _r_write(42), False),
	'serialisation with a piece that is not bytes': ('any', 'an integer piece cannot be sent', _r_bad_piece, False),
	'serialisation abandoned after the header section': ('any', 'the consumer stopped reading', _r_abandon(1), False),
	'serialisation abandoned after the first piece of the body': ('any', 'the consumer stopped reading', _r_abandon(2), False),
	'prepare() with Transfer-Encoding: x-unknown': ('any', 'x-unknown is no transfer coding', _r_prepare_with('Transfer-Encoding'), True),
	'prepare() with Content-Encoding: x-unknown': ('resp', 'x-unknown is no content coding', _r_prepare_with('Content-Encoding'), True),
	'status = 99': ('resp', 'a status code has three digits', lambda m, c: setattr(m, 'status', 99), False),
	'status = 1000': ('resp', 'a status code has three digits', lambda m, c: setattr(m, 'status', 1000), False),
	'status = "abc"': ('resp', 'a status is a number and a reason', lambda m, c: setattr(m, 'status', 'abc'), False),
	'status = b"20x OK"': ('resp', 'a status code is a number', lambda m, c: setattr(m, 'status', b'20x OK'), False),
	'status = None': ('resp', 'None is no status', lambda m, c: setattr(m, 'status', None), False),
	'status = (200,)': ('resp', 'a status tuple has two members', lambda m, c: setattr(m, 'status', (200,)), False),
	'status.code = "x"': ('resp', 'a status code is a number', lambda m, c: setattr(m.status, 'code', 'x'), False),
	'status.parse(b"20x OK")': ('resp', 'a status code is a number', lambda m, c: m.status.parse(b'20x OK'), False),
	'method = "BAD METHOD"': ('req', 'a method is a token', lambda m, c: setattr(m, 'method', 'BAD METHOD'), False),
	'method = ""': ('req', 'a method is a token', lambda m, c: setattr(m, 'method', ''), False),
	'method = 42': ('req', 'a method is a token', lambda m, c: setattr(m, 'method', 42), False),
	'method.parse(b"G T")': ('req', 'a method is a token', lambda m, c: m.method.parse(b'G T'), False),
	'protocol = "HTTP/x.y"': ('any', 'a version is two numbers', lambda m, c: setattr(m, 'protocol', 'HTTP/x.y'), False),
	'protocol = (1,)': ('any', 'a version is two numbers', lambda m, c: setattr(m, 'protocol', (1,)), False),
	'protocol = 42': ('any', 'a version is two numbers', lambda m, c: setattr(m, 'protocol', 42), False),
	'protocol.parse(b"HTTX/1.1")': ('any', 'the protocol name is HTTP', lambda m, c: m.protocol.parse(b'HTTX/1.1'), False),
	'uri = "http://[::1/x"': ('req', 'an unterminated IP literal is no URI', lambda m, c: setattr(m, 'uri', 'http://[::1/x'), False),
	'uri = 42': ('req', 'an integer is no URI', lambda m, c: setattr(m, 'uri', 42), False),
	'uri.port = "x"': ('req', 'a port is a number', lambda m, c: setattr(m.uri, 'port', 'x'), False),
	'uri.port = 99999': ('req', 'a port is below 65536', lambda m, c: setattr(m.uri, 'port', 99999), False),
	'uri.parse(b"http://exa mple/ a")': ('req', 'a URI contains no space', lambda m, c: m.uri.parse(b'http://exa mple/ a'), False),
	'uri.path = 42': ('req', 'an integer is no path', lambda m, c: setattr(m.uri, 'path', 42), False),
	'uri.query = 42': ('req', 'an integer is no query', lambda m, c: setattr(m.uri, 'query', 42), False),
	'uri.query = "a=b"': ('req', 'a query is a sequence of pairs', lambda m, c: setattr(m.uri, 'query', 'a=b'), False),
	'headers.update(42)': ('any', 'an integer is no mapping', lambda m, c: m.headers.update(42), False),
	'headers.update(list of pairs)': ('any', 'a list is no mapping', lambda m, c: m.headers.update([('X-A', '1'), ('b',)]), False),
	'del headers[absent]': ('any', 'the field is not there', lambda m, c: m.headers.__delitem__('X-Absent'), False),
	'headers.set_element(name, value, 42)': ('any', 'parameters are a mapping', lambda m, c: m.headers.set_element('Content-Type', 'text/plain', 42), False),
	'headers["Bad Name"] = x': ('any', 'a field name is a token', lambda m, c: m.headers.__setitem__('Bad Name', 'x'), False),
	'headers["Content-Length:"] = 3': ('any', 'a field name is a token', lambda m, c: m.headers.__setitem__('Content-Length:', '3'), False),
	'headers.append("Transfer-Encoding\\r\\n", chunked)': ('any', 'a field name is a token', lambda m, c: m.headers.append('Transfer-Encoding\r\n', 'chunked'), False),
	'headers.setdefault("Bad Name")': ('any', 'a field name is a token', lambda m, c: m.headers.setdefault('Bad Name', 'x'), False),
	'headers.parse(b"Bad Name: x")': ('any', 'a field name is a token', lambda m, c: m.headers.parse(b'Bad Name: x'), False),
	'headers.parse(b"no colon")': ('any', 'a field line has a colon', lambda m, c: m.headers.parse(b'no colon'), False),
	'trailer["Bad Name"] = x': ('any', 'a field name is a token', lambda m, c: m.body.trailer.__setitem__('Bad Name', 'x'), False),
}
# Kept out (refused with an exception, but the object is NOT left as it was - observations on the clean tree, reported):
#  * message.headers = <anything that is not a mapping> (42, a list of pairs): Headers.set clears the collection BEFORE update() raises AttributeError - the whole header
#    section is gone, framing fields included; a prepared message then goes out without Content-Length / Transfer-Encoding in front of its body.  The same
#    clear-then-update makes  message.headers = message.headers  empty the collection.
#  * headers.parse(b'X-A: 1\r\nno colon'): the lines before the malformed one stay in the collection.
#  * body.transfer_encoding = 'x-unknown' / body.content_encoding = 'x-unknown': InvalidHeader is raised after the value was stored in the Body's own header
#    collection; for the transfer coding every later serialisation raises InvalidHeader (until prepare() overwrites it), for the content coding the attribute
#    can no longer be read.  (The second happens inside the refused prepare() with Content-Encoding: x-unknown above too, which is why that one is always
#    followed by a successful prepare().)
#  * Body.set resets body.data (the decoded object kept by decode() / encode()) before it looks at the content: gone after a refused assignment; not part of what is sent.


def _refuse(m, c, name):
	try:
		REFUSALS[name][2](m, c)
	except Exception as exc:
		return type(exc).__name__
	return None


# ---------------------------------------------------------------- (10) a second object built from the parts of the first
ALIAS_WAYS = ['ctor', 'attrs', 'body-of-body', 'body-fd', 'headers-copy', 'deepcopy', 'uri-or-request', 'body-attr-of-body']


def _alias(m, c, way, mode, so):
	"""build B from the parts of A = m (way), modify B through every public way, prepare and serialise it (mode 'use'), or only modify it (mode 'touch').
	Not touched: the content object itself and the trailer collection, which Body.set(Body) shares by design resp. as found (reported)."""
	from httoop import Request, Response
	from httoop.header import Headers
	from httoop.messages.body import Body
	from httoop.semantic.request import ComposedRequest
	from httoop.semantic.response import ComposedResponse
	from httoop.uri import URI
	is_req = hasattr(m, 'uri')
	try:
		if way == 'ctor':
			b = Request(bytes(m.method), m.uri, m.headers, m.body, m.protocol) if is_req else Response(int(m.status), m.headers, m.body, m.protocol)   # (Response(<Status>) raises TypeError, although the docstring names Status)
		elif way == 'attrs':
			b = Request() if is_req else Response()
			b.headers = m.headers
			b.body = m.body
			b.protocol = m.protocol
			if is_req:
				b.method = bytes(m.method)
				b.uri = m.uri
			else:
				b.status = m.status
		elif way == 'deepcopy':
			b = _copy.deepcopy(m)
		else:
			b = Request('POST', 'http://b.example/b') if is_req else Response(201)
			if way == 'body-of-body':
				b.body = Body(m.body)
			elif way == 'body-attr-of-body':
				b.body.set(m.body)
			elif way == 'body-fd':
				b.body = m.body.fd
			elif way == 'headers-copy':
				b.headers = Headers(m.headers)
				b.headers.update(m.headers)
				b.headers.merge(m.headers)
			elif way == 'uri-or-request':
				if is_req:
					b.uri = URI(m.uri)
					b.uri = m.uri
					b.uri.set(m.uri.tuple)
			else:
				raise ValueError(way)
		if is_req:
			cb = ComposedRequest(b)
		else:
			cb = ComposedResponse(b, c.request if way == 'uri-or-request' else Request(bytes(c.request.method), '/'))
		b.headers['X-Custom'] = 'changed'
		b.headers['X-New'] = '1'
		b.headers.pop('Content-Length', None)
		b.headers.append('Connection', 'close')
		b.headers.setdefault('Trailer', 'X-B')
		b.body.mimetype = 'text/html; charset=utf-16'
		b.body.content_encoding = 'deflate'
		b.body.chunked = not b.body.chunked
		if mode == 'use':
			cb.prepare()
			b''.join(cb)
			cb.chunked = not cb.chunked
			cb.prepare()
			b''.join(cb)
		b.body.set(b'other content')
		b.protocol = (1, 0)
		if is_req:
			b.method = 'PUT'
			b.uri.path = '/changed'
			b.uri.host = 'changed.example'
			b.uri.port = 8081
			b.uri.query = [('c', 'd')]
		else:
			b.status = 404
		if mode == 'use':
			cb.prepare()
			b''.join(cb)
		b.headers.clear()
		b.body = None
	except Exception as exc:
		so['alias_failed'] = 'building a second message from the parts of the first (%s) and using it raised %s: %s' % (way, type(exc).__name__, str(exc)[:120])


# ---------------------------------------------------------------- (10) two messages from the same argument objects
def _hdr_arg(htype, hdrs):
	from httoop.header import Headers
	pairs = [(n, bytes.fromhex(v) if i % 2 else bytes.fromhex(v).decode('latin-1')) for i, (n, v) in enumerate(hdrs)]
	if htype == 'dict':
		return dict(pairs)
	if htype == 'odict':
		return _collections.OrderedDict(pairs)
	if htype == 'headers':
		return Headers(dict(pairs))
	if htype == 'bytes-keys':
		return dict((n.encode('ascii'), v) for n, v in pairs)
	if htype == 'pairs':
		return list(pairs)
	if htype == 'none':
		return None
	raise ValueError(htype)


def _arg_state(hd, content):
	from types import GeneratorType
	if hd is None:
		h = None
	else:
		h = [[repr(k), repr(bytes(v) if isinstance(v, (bytes, bytearray)) else v)] for k, v in (dict.items(hd) if isinstance(hd, dict) else list(hd))]
	if isinstance(content, (bytes, str, bytearray)):
		b = repr(content)
	elif isinstance(content, _io.BytesIO):
		b = [content.getvalue().hex(), content.tell()]
	elif hasattr(content, 'fileno'):
		pos = content.tell()
		content.seek(0)
		b = [content.read().hex(), pos]
		content.seek(pos)
	elif isinstance(content, GeneratorType) or hasattr(content, '__next__'):
		b = 'one-shot'
	else:
		b = [repr(x) for x in (content.items() if isinstance(content, dict) else content)]
	return [h, b]


def run_args(case):
	from httoop import Request, Response
	from httoop.semantic.request import ComposedRequest
	from httoop.semantic.response import ComposedResponse
	cr.install()
	keep = []
	o = {}

	def make(hd, content):
		if case['kind'] == 'req':
			m = Request('POST', 'http://example.com/p', hd, content, (1, 1))
			return m, ComposedRequest(m)
		m = Response(None, hd, content, (1, 1))
		return m, ComposedResponse(m, Request('GET', '/'))

	def use(m, c):
		if case['chunked']:
			c.chunked = True
		c.prepare()
		a = b''.join(c)
		c.prepare()
		return [a.hex(), b''.join(c).hex()]
	try:
		with cr.Clock():
			hd = _hdr_arg(case['htype'], case['hdrs'])
			content = _content5(case['body'], keep)
			o['before'] = _arg_state(hd, content)
			m1, c1 = make(hd, content)
			o['first'] = use(m1, c1)
			# the first message is modified through its own interface, prepared and serialised again, then emptied
			m1.headers['X-Custom'] = 'changed'
			m1.headers['X-New'] = '1'
			m1.headers.pop('Content-Length', None)
			m1.body.mimetype = 'text/html; charset=utf-16'
			c1.chunked = not case['chunked']
			m1.protocol = (1, 0)
			c1.prepare()
			b''.join(c1)
			m1.body.set(b'other content')
			m1.headers.clear()
			o['mid'] = _arg_state(hd, content)
			m2, c2 = make(hd, content)
			o['second'] = use(m2, c2)
			o['after'] = _arg_state(hd, content)
			m3, c3 = make(_hdr_arg(case['htype'], case['hdrs']), _content5(case['body'], keep))
			o['fresh'] = use(m3, c3)
	except Exception as exc:
		o['raised'] = '%s: %s' % (type(exc).__name__, str(exc)[:160])
	finally:
		for fd, name in keep:
			try:
				fd.close()
			except Exception:
				pass
			try:
				os.unlink(name)
			except OSError:
				pass
	return o


def oracle_args(c, o):
	if 'raised' in o:
		return 'two messages built from the same argument objects: %s' % o['raised']
	if o['mid'] != o['before'] or o['after'] != o['before']:
		return 'the argument objects handed to the constructor were modified: %r became %r / %r' % (o['before'], o['mid'], o['after'])
	content = cr.body_content(c['body'])
	for which in ('first', 'second', 'fresh'):
		outs = [bytes.fromhex(x) for x in o[which]]
		for data in outs:
			try:
				m = cr.read_http1(data, c['kind'] == 'req', False)
			except cr.Malformed as exc:
				return 'the %s message built from the argument objects is not well framed: %s' % (which, exc)
			if m['payload'] != content:
				return 'the %s message built from the argument objects carries %d octets, the content has %d' % (which, len(m['payload']), len(content))
		if cr.mask_date(outs[0]) != cr.mask_date(outs[1]):
			return 'the %s message built from the argument objects: composing again gives different octets' % which
	if o['second'] != o['fresh']:
		return 'a second message built from the same argument objects as a first one (which was modified, prepared and serialised) differs from a message built from fresh copies: %r versus %r' % (
			bytes.fromhex(o['second'][0])[:300], bytes.fromhex(o['fresh'][0])[:300])
	if o['first'] != o['fresh']:
		return 'harness exception: the first message differs from the fresh one'
	return None


# ---------------------------------------------------------------- generators of the fifth wave
WS_OCTETS = b'\t\n\x0b\x0c\r \x00'
CHARSETS5 = [('utf-16', 'gr\xfc\xdfe \u20ac'), ('utf-16-le', 'h\xe9llo \u010a\u0120'), ('utf-16-be', '\u0a0d\u200a\u0d0a'), ('utf-32', '\xe9\xe9\xe9 \u20ac'), ('ISO8859-1', 'gr\xfc\xdfe \xff'),
	('cp1252', '\u20ac 5 \u201cq\u201d'), ('koi8-r', '\u043f\u043b\u043e\u0445\u043e'), ('shift_jis', '\u65e5\u672c\u8a9e'), ('utf-7', 'h\xe9llo+\u20ac'), ('utf-8-sig', 'h\xe9llo'),
	('iso8859-15', '\u20ac\u0160'), ('cp437', '\xe9\u2591')]


def _search_pieces(rng, n, pred, lengths=(1, 2, 3, 5, 8, 13, 40)):
	"""n short pieces for which pred holds, found by trying random octet strings"""
	out = []
	tries = 0
	while len(out) < n and tries < 200000:
		tries += 1
		p = bytes(rng.randrange(256) for _ in range(rng.choice(lengths)))
		if pred(p):
			out.append(p)
	return out


def _rseq_refuse(rng, tier, names):
	c = rseq(rng, tier)
	kind = c['base']['k']
	mine = [n for n in names if REFUSALS[n][0] in ('any', kind) and not REFUSALS[n][3]]
	for seg in c['segs']:
		for _ in range(rng.choice([0, 1, 1, 2, 3])):
			seg['mut'].append(['refuse', rng.choice(mine)])
	if rng.random() < 0.5:
		# ... and once more between two uses with nothing else in between: what is sent afterwards is what was sent before
		seg = c['segs'][-1]
		c['segs'].append({'mut': [['refuse', rng.choice(mine)] for _ in range(rng.choice([1, 1, 2]))], 'ops': [['c']] if rng.random() < 0.5 else [op for op in seg['ops'] if op[0] != 'ch'][:2]})
	return c


def gen_classes5(rng, tier):
	big = tier == 'thorough'
	cases = []
	two = [['p', 1000], ['c']]
	four = two + two
	hello = {'t': 'bytes', 'items': [b'hello'.hex()]}

	# (12) refused calls: before the first use and between two uses, every kind of source, both framings
	sources = [{'t': 'bytes', 'items': [b'hello world'.hex()]}, {'t': 'list', 'items': [_hx('gr\xfc\xdfe'), b' \xff'.hex(), b''.hex()], 'strs': [True, False, False]},
		{'t': 'bytesio', 'items': [b'hello world'.hex()], 'pos': 4}, {'t': 'file', 'items': [b'hello file'.hex()], 'pos': 3}, {'t': 'gen', 'items': [_hx('h\xe9llo'), b'!'.hex()], 'strs': [True, False]},
		{'t': 'text', 'items': [_hx('gr\xfc\xdfe')], 'charset': 'ISO-8859-1'}, {'t': 'tuple', 'items': [b'ab'.hex(), b'cd'.hex()]}]
	names = sorted(REFUSALS)
	n = 0
	for name in names:
		applies, _why, _f, directed = REFUSALS[name]
		about_body = name.startswith(('body', 'serialisation'))
		for ki, kind in enumerate(('resp', 'req')):
			if applies not in ('any', kind):
				continue
			picks = range(len(sources)) if about_body or big else [(n + ki) % len(sources), (n + 3 + 2 * ki) % len(sources)]
			for bi in picks:
				n += 1
				body = dict(sources[bi])
				ch = (n + bi) % 2 == 0
				first = ([['ch', True]] if ch else []) + two
				mut = [['refuse', name]]
				pattern = (n // 2) % 4 if not directed else 1
				kw = {}
				if (n // 3) % 5 == 0 and kind == 'resp' and 'Encoding' not in name:
					kw['coding'] = 'gzip'   # (a coded response is framed by chunks: the carried-over state includes the codec on the Body)
				base = _base(kind, body, **kw)
				if pattern == 0:
					segs = [{'mut': [], 'ops': first}, {'mut': mut, 'ops': [['c']]}, {'mut': [], 'ops': two}]
				elif pattern == 1:
					segs = [{'mut': [], 'ops': first}, {'mut': mut, 'ops': two + [['c']]}]
				elif pattern == 2:
					segs = [{'mut': mut, 'ops': first + two}]
				else:
					segs = [{'mut': [], 'ops': first}, {'mut': mut + [['refuse', names[(n * 7) % len(names)]]] if not REFUSALS[names[(n * 7) % len(names)]][3] and REFUSALS[names[(n * 7) % len(names)]][0] in ('any', kind) else mut, 'ops': [['c'], ['c']]},
						{'mut': mut, 'ops': two}]
				cases.append({'k': 'seq', 'base': base, 'segs': segs})
	# the shortest forms: a prepared message, the assignment of a closed file is refused, the message is serialised
	for kind in ('resp', 'req'):
		for ch in (False, True):
			cases.append({'k': 'seq', 'base': _base(kind, dict(hello)), 'segs': [{'mut': [], 'ops': ([['ch', True]] if ch else []) + two}, {'mut': [['refuse', 'body = closed file']], 'ops': [['c']]}]})
	for _ in range(3000 if big else 110):
		cases.append(_rseq_refuse(rng, tier, names))

	# (10) a second message built from the parts of the first; two messages from the same argument objects
	n = 0
	for way in ALIAS_WAYS:
		for ki, kind in enumerate(('resp', 'req')):
			for bi, body in enumerate(sources[:4] + [sources[6]]):
				n += 1
				if way == 'deepcopy' and body['t'] == 'file':
					continue   # a file object cannot be copied
				if not big and (n + ki) % 2 and way not in ('ctor', 'attrs'):
					continue
				ch = (n + bi) % 2 == 0
				first = ([['ch', True]] if ch else []) + two
				mode = 'use' if n % 3 else 'touch'
				if n % 2:
					segs = [{'mut': [], 'ops': first}, {'mut': [['alias', way, mode]], 'ops': [['c']]}, {'mut': [], 'ops': two}]
				else:
					segs = [{'mut': [['alias', way, mode]], 'ops': first + two}, {'mut': [['alias', ALIAS_WAYS[(n + 1) % 5], 'use']], 'ops': two}]
				cases.append({'k': 'seq', 'base': _base(kind, dict(body), hdrs=[['X-Custom', b'a'.hex()], ['Connection', b'keep-alive'.hex()]], trailer=[['X-T', b'tv'.hex()]] if ch else []), 'segs': segs})
	arg_bodies = [{'t': 'list', 'items': [b'hel'.hex(), b''.hex(), b'lo'.hex(), b'hel'.hex()]}, {'t': 'bytesio', 'items': [b'hello world'.hex()], 'pos': 4}, {'t': 'file', 'items': [b'hello file'.hex()], 'pos': 3},
		{'t': 'bytes', 'items': [b'hello'.hex()]}, {'t': 'text', 'items': [_hx('gr\xfc\xdfe')]}, {'t': 'list', 'py': 'odict', 'items': [b'z'.hex(), b'a'.hex(), b'm'.hex()]},
		{'t': 'list', 'py': 'deque', 'items': [b'b'.hex(), b'a'.hex(), b'b'.hex()]}, {'t': 'bytearray', 'items': [b'hello'.hex()]}, {'t': 'tuple', 'items': [_hx('\xe9'), b'x'.hex()], 'strs': [True, False]}]
	arg_hdrs = [[['X-Custom', b'a'.hex()], ['content-length', b'99'.hex()], ['Connection', b'close'.hex()]], [['Zzz', b'last'.hex()], ['Aaa', b'first'.hex()], ['Transfer-Encoding', b'chunked'.hex()]],
		[['Content-Type', b'text/html; charset=ISO8859-1'.hex()], ['Set-Cookie', b'a=b'.hex()]], []]
	n = 0
	for htype in ('dict', 'odict', 'headers', 'bytes-keys', 'pairs', 'none'):
		for bi, body in enumerate(arg_bodies):
			for kind in ('resp', 'req'):
				n += 1
				if not big and n % 2 and htype not in ('dict', 'headers'):
					continue
				hd = arg_hdrs[(n + bi) % len(arg_hdrs)]
				if kind == 'req':
					hd = [h for h in hd if h[0].lower() not in ('content-length', 'set-cookie')]   # (D46: a caller-set Content-Length of a request)
				cases.append({'k': 'args', 'kind': kind, 'htype': htype, 'hdrs': [] if htype == 'none' else hd, 'body': dict(body), 'chunked': (n + bi) % 3 == 0})

	# (11) the content in every type the constructor and the setter take
	pieces = [b'zz', b'a', b'', b'mm\r\n', b'0']
	variants = [('bytes', 'bytes-sub'), ('text', 'str-sub'), ('list', 'dict'), ('list', 'odict'), ('list', 'dictkeys'), ('list', 'dictvalues'), ('list', 'deque'), ('list', 'set1'), ('list', 'frozenset1'),
		('list', 'reiter'), ('list', 'list-sub'), ('tuple', 'tuple-sub'), ('gen', 'iterlist'), ('gen', 'genexpr'), ('gen', 'genfunc'), ('gen', 'zipgen'), ('bytesio', 'bytesio-sub'), ('file', 'file-rw'), ('file', 'spooled')]
	variants += [('gen', py) for py in ONESHOT_D64]   # D64
	n = 0
	for t, py in variants:
		if t in ('bytes', 'text', 'bytesio', 'file'):
			items, strs = [_hx('gr\xfc\xdfe \u20ac')], None
		elif py in ('set1', 'frozenset1'):
			items, strs = [b'only one piece'.hex()], None
		elif py in ('dict', 'odict', 'dictkeys', 'iterdict'):
			items, strs = [x.hex() for x in pieces if x] + [_hx('\xe9')], [False] * 4 + [True]   # keys: distinct, in insertion order
		else:
			items, strs = [x.hex() for x in pieces] + [pieces[0].hex(), _hx('\xe9')], [False] * 6 + [True]
		body = {'t': t, 'py': py, 'items': items, 'pos': 3}
		if strs:
			body['strs'] = strs
		for kind in ('resp', 'req'):
			for ch in (False, True):
				n += 1
				how = ('attr', 'set', 'bodyobj')[n % 3]
				segs = [{'mut': [['body', dict(body), how]], 'ops': ([['ch', True]] if ch else []) + four}]
				if n % 2:
					segs = [{'mut': [], 'ops': two}] + segs + [{'mut': [], 'ops': two}]
				cases.append({'k': 'seq', 'base': _base(kind), 'segs': segs})
		cases.append({'k': 'body', 'body': dict(body), 'chunked': n % 2 == 0, 'coding': [None, 'gzip', 'deflate'][n % 3], 'trailer': []})
		if t in ('list', 'gen'):
			cases.append({'k': 'seq', 'base': _base('resp', coding='deflate'), 'segs': [{'mut': [['body', dict(body), 'attr']], 'ops': four}]})
	# D64: the one-shot iterators in the refused-call and aliasing scenarios (the source is assigned, then the call is refused before the first use / between two
	# uses; a second message is built from the parts after the first use), and the shortest forms
	d64_refusals = ['body = closed file', 'body.set(42)', 'body = unencodable text', 'serialisation abandoned after the header section', 'status = 99', 'method = "BAD METHOD"',
		'headers["Bad Name"] = x', 'prepare() with Transfer-Encoding: x-unknown', 'body = Body(closed BytesIO)', 'body.encode(42)']
	n = 0
	for pi, py in enumerate(ONESHOT_D64):
		items = [x.hex() for x in (b'ab', b'cd', b'', b'\r\n0')] + [_hx('\xe9')]
		spec = {'t': 'gen', 'py': py, 'items': items, 'strs': [False] * 4 + [True]}
		for ki, kind in enumerate(('resp', 'req')):
			for ch in (False, True):
				n += 1
				first = ([['ch', True]] if ch else []) + two
				name = d64_refusals[(n + pi) % len(d64_refusals)]
				if REFUSALS[name][0] not in ('any', kind):
					name = 'body = closed file'
				assign = ['body', dict(spec), ('attr', 'set', 'bodyobj')[n % 3]]
				if n % 2:
					segs = [{'mut': [assign, ['refuse', name]], 'ops': first}, {'mut': [['refuse', d64_refusals[n % 3]]], 'ops': [['c']]}, {'mut': [], 'ops': two}]
				else:
					segs = [{'mut': [assign], 'ops': first}, {'mut': [['refuse', name]], 'ops': two + [['c']]}]
				cases.append({'k': 'seq', 'base': _base(kind), 'segs': segs})
				if ch == (pi % 2 == 0):
					cases.append({'k': 'seq', 'base': _base(kind), 'segs': [{'mut': [assign], 'ops': first}, {'mut': [['alias', ALIAS_WAYS[(n + pi) % len(ALIAS_WAYS)] if (n + pi) % len(ALIAS_WAYS) != 5 else 'ctor', 'use']], 'ops': [['c']]}, {'mut': [], 'ops': two}]})
		short = {'t': 'gen', 'py': py, 'items': [b'ab'.hex(), b'cd'.hex()] if py != 'iterdict' else [b'ab'.hex(), b'cd'.hex()]}
		cases.append({'k': 'seq', 'base': _base('resp'), 'segs': [{'mut': [['body', short, 'attr']], 'ops': two}]})
		cases.append({'k': 'seq', 'base': _base('req'), 'segs': [{'mut': [['body', dict(short), 'attr']], 'ops': [['ch', True]] + two}]})
		cases.append({'k': 'seq', 'base': _base('resp', coding=('gzip', 'deflate')[pi % 2]), 'segs': [{'mut': [['body', dict(short), 'set']], 'ops': four}]})
	# ... the fields the framing depends on through the remaining argument types
	fields = [('Transfer-Encoding', 'chunked'), ('Content-Encoding', 'gzip'), ('Content-Type', 'text/plain; charset=ISO-8859-1'), ('Content-Length', '3'), ('Connection', 'close'), ('Trailer', 'X-T')]
	text_list = {'t': 'list', 'items': [_hx('gr\xfc\xdfe'), b' \xff'.hex()], 'strs': [True, False]}
	for i, (name, value) in enumerate(fields):
		for j, way in enumerate(HVIA_WAYS5):
			for kind in ('resp', 'req'):
				if kind == 'req' and name in ('Content-Encoding', 'Content-Length'):
					continue   # D43 / D46
				if not big and (i + j + (kind == 'req')) % 2:
					continue
				spelled = (name, name.lower(), name.upper())[(i + j) % 3]
				body = dict(text_list) if (i + j) % 2 else {'t': ('bytesio', 'file', 'gen')[j % 3], 'items': [b'hello world'.hex()], 'pos': 4}
				cases.append(_one(kind, [['hvia', way, spelled, value.encode('latin-1').hex()]], body=body, ops=four))
	# ... status, method, request target and query
	for i, how in enumerate(('bytes',)):
		for code in (204, 304, 404, 200):
			cases.append({'k': 'seq', 'base': _base('resp', dict(hello)), 'segs': [{'mut': [], 'ops': two}, {'mut': [['status', code, 'Custom Reason', how]], 'ops': four}]})
	for mth in ('PUT', 'TRACE', 'M-SEARCH'):
		cases.append({'k': 'seq', 'base': _base('req', dict(hello)), 'segs': [{'mut': [], 'ops': two}, {'mut': [['method', mth, 'attr-bytes']], 'ops': four}]})
	spec = {'host': 'other.example', 'segs': ['', 'b', 'a', 'b'], 'query': [['z', '1'], ['a', '2'], ['z', '3'], ['m', '']]}
	for i, how in enumerate(('str', 'bytes', 'uriobj', 'tuple', 'dict', 'q-list', 'q-tuple', 'q-iter', 'q-gen', 'q-map', 'q-chain', 'q-lists')):
		cases.append({'k': 'seq', 'base': _base('req', dict(hello), port=8080 if i % 2 else None), 'segs': [{'mut': [['target', spec, how]], 'ops': ([['ch', True]] if i % 2 else []) + four}]})
		cases.append({'k': 'seq', 'base': _base('req', dict(text_list)), 'segs': [{'mut': [], 'ops': two}, {'mut': [['target', spec, how]], 'ops': two}]})

	# (13) + (15) the charset of the body through every knob, before and after the content
	n = 0
	for ci, (cs, text) in enumerate(CHARSETS5):
		shapes = _text_shapes(text)
		for hi, how in enumerate(BODY_HOWS5 + ('encode', 'iterencode', 'ctor-mime')):
			for si in ((ci + hi) % 6, (ci + 2 * hi + 3) % 6) if not big else range(6):
				shape = shapes[si]
				if how == 'encode' and shape['t'] != 'text':
					continue
				if how == 'iterencode' and (shape['t'] == 'text' or not all(shape.get('strs') or [False])):
					continue
				# (every text piece is encoded on its own - a BOM / a shift sequence per piece: that is what handing over text pieces means, and what body_items computes)
				n += 1
				kind = 'resp' if n % 2 else 'req'
				ch = n % 3 == 0
				spec5 = dict(shape, charset=cs)
				segs = [{'mut': [['body', spec5, how]], 'ops': ([['ch', True]] if ch else []) + four}]
				if n % 4 == 0:
					segs = [{'mut': [], 'ops': two}] + segs
				cases.append({'k': 'seq', 'base': _base(kind), 'segs': segs, 'nocoq': n % 2 == 0})
	# the same operations in every order the API allows
	steps_resp = {'B': None, 'C': ['charset', 'ISO8859-1', 'encoding'], 'E': ['coding', 'gzip'], 'T': ['te', True, 'composer'], 'R': ['trailer', 'X-T', b'tv'.hex()],
		'H': ['hset', 'Content-Type', b'text/html; charset=utf-16'.hex()], 'S': ['status', 404, None, 'int']}
	steps_req = {'B': None, 'C': ['charset', 'koi8-r', 'mimetype'], 'T': ['te', True, 'body'], 'R': ['trailer', 'X-T', b'tv'.hex()], 'H': ['hset', 'Content-Type', b'text/html; charset=utf-16'.hex()],
		'M': ['method', 'PUT', 'attr'], 'U': ['te', True, 'header']}
	n = 0
	for kind, steps, text in (('resp', steps_resp, 'gr\xfc\xdfe'), ('req', steps_req, '\u043f\u043b\u043e\u0445\u043e')):
		keys = sorted(steps)
		perms = list(_itertools.permutations(keys, 4)) + list(_itertools.permutations(keys, len(keys)))
		rng.shuffle(perms)
		for perm in perms[:(400 if big else 55)]:
			n += 1
			if 'B' not in perm:
				perm = perm + ('B',)
			shape = _text_shapes(text)[n % 6]
			cs = steps['C'][1]
			mut = []
			for key in perm:
				if key == 'B':
					# text is encoded when it is assigned, text pieces when they are sent: the charset in force at that moment
					before = 'C' in perm and perm.index('C') < perm.index('B')
					mut.append(['body', dict(shape, charset=cs if (before or (shape['t'] != 'text' and 'C' in perm)) else None), ('attr', 'set')[n % 2]])
				elif key == 'T' and 'E' in perm:
					continue   # a coded response is chunked anyway
				else:
					mut.append(list(steps[key]))
			cases.append({'k': 'seq', 'base': _base(kind), 'segs': [{'mut': mut, 'ops': four}]})
	# a knob on a subclass of the composer
	cases.append({'k': 'seq', 'base': _base('req', dict(hello)), 'segs': [{'mut': [], 'ops': four}], 'useragent': 'verif/5 (x; y)', 'nocoq': True})

	# (14) the caller's order of pieces
	orders = [[b'b', b'a', b'c'], [b'c', b'b', b'a'], [b'a', b'a', b'a'], [b'b', b'a', b'b', b'a'], [b'z', b'', b'a', b'', b'z'], [b'10', b'9', b'1', b'0'], [b'\r\n', b'0', b'\r\n', b'\r\n']]
	for i, order in enumerate(orders):
		for j, t in enumerate(('list', 'tuple', 'gen')):
			kind = 'resp' if (i + j) % 2 else 'req'
			cases.append(_msg(kind, {'t': t, 'items': [x.hex() for x in order]}, chunked=(i + j) % 3 != 0, coding=('deflate' if kind == 'resp' and i % 3 == 0 else None)))
		cases.append({'k': 'seq', 'base': _base('resp' if i % 2 else 'req'), 'segs': [{'mut': [['body', {'t': 'list', 'py': ('deque', 'reiter', 'dictvalues')[i % 3], 'items': [x.hex() for x in order]}, 'attr']], 'ops': [['ch', True]] + four}]})

	# (16) contents found by direct search: the coded form of a piece ends in / contains white space, NUL, CR LF
	def ends_ws(coder):
		return lambda p: coder(p)[-1:] in (b'\t', b'\n', b'\x0b', b'\x0c', b'\r', b' ')
	deflate = _zlib.compress
	finds = {
		'deflate-ends-ws': _search_pieces(rng, 600 if big else 150, lambda p: (_zlib.adler32(p) & 0xff) in b'\t\n\x0b\x0c\r '),
		'deflate-ends-nul': _search_pieces(rng, 100 if big else 24, lambda p: (_zlib.adler32(p) & 0xff) == 0),
		'deflate-has-crlf': _search_pieces(rng, 100 if big else 24, lambda p: b'\r\n' in deflate(p) or deflate(p).endswith(b'\r')),
		'crc-ws': _search_pieces(rng, 200 if big else 48, lambda p: (_zlib.crc32(p) & 0xff) in b'\t\n\x0b\x0c\r ' or (_zlib.crc32(p) >> 24) in b'\t\n\x0b\x0c\r '),
		'crc-crlf': _search_pieces(rng, 40 if big else 12, lambda p: b'\r\n' in _zlib.crc32(p).to_bytes(4, 'little')),
	}
	n = 0
	for what, found in sorted(finds.items()):
		coding = 'deflate' if what.startswith('deflate') else 'gzip'
		for i in range(0, len(found) - 2, 3):
			n += 1
			group = found[i:i + 3]
			t = ('list', 'gen', 'tuple', 'list')[n % 4]
			body = {'t': t, 'items': [x.hex() for x in group]}
			# (a coded response; for one in four the pieces go out uncoded in chunks, where the chunk data ends in the octets searched for)
			if n % 4 == 0:
				cases.append(_msg('req', body, chunked=True, ops=two, nocoq=n % 8 != 0))
			else:
				cases.append(_msg('resp', body, coding=coding, ops=two, nocoq=n % 5 != 0))
		for p in found[:6]:   # ... and alone, from every kind of source that is cut into blocks rather than pieces
			n += 1
			cases.append(_msg('resp', {'t': ('bytes', 'bytesio', 'file', 'text')[n % 4] if all(x < 0x80 for x in p) else ('bytes', 'bytesio', 'file')[n % 3], 'items': [p.hex()]}, coding=coding, ops=two, nocoq=n % 3 != 0))
	edges = [b'\t', b'\n', b'\x0b', b'\x0c', b'\r', b' ', b'\x00', b'\r\n', b'\r\n\r\n', b'0\r\n\r\n', b' \t', b'\x00\x00']
	for i, e in enumerate(edges):
		for j, (a, b) in enumerate(((e, b'x'), (b'x', e), (e, e), (e + b'x' + e, b'y'))):
			kind = 'resp' if (i + j) % 2 else 'req'
			t = ('list', 'gen', 'tuple')[(i + j) % 3]
			cases.append(_msg(kind, {'t': t, 'items': [a.hex(), b.hex()]}, chunked=j % 2 == 0, ops=two, coding=('gzip', 'deflate')[j // 2] if kind == 'resp' and i % 4 == 0 else None))
		cases.append(_msg('resp' if i % 2 else 'req', {'t': ('bytes', 'bytesio', 'file')[i % 3], 'items': [(e + b'body' + e).hex()]}, chunked=i % 2 == 0, ops=two))
	# text whose octets in the charset of the body contain / end in 0x0A 0x0D 0x20 0x00
	for i, (cs, text) in enumerate((('utf-16-be', '\u0120'), ('utf-16-be', '\u010a\u010d'), ('utf-16-le', '\u2000'), ('utf-16-le', '\u0a00\u0d00'), ('utf-16-be', '\u0d0a'), ('utf-16-le', '\u0a0d'),
			('utf-32-be', '\u0120'), ('utf-32-le', ' '), ('utf-16-le', 'a'), ('utf-16-be', 'a\n'), ('cp1252', '\xa0'), ('ISO8859-1', '\x85\xa0'))):
		for j, shape in enumerate(_text_shapes(text)[:3]):
			kind = 'resp' if (i + j) % 2 else 'req'
			cases.append(_msg(kind, dict(shape, charset=cs), chunked=(i + j) % 3 == 0, ops=two))

	# (17) 2^k and 2^k +- 1 for k = 9 .. 16, through each of the three ways a length is computed (size of a file, size of a buffer, sum of the pieces)
	n = 0
	for k in range(9, 17):
		for d in (-1, 0, 1):
			size = 2 ** k + d
			n += 1
			data = (bytes(range(256)) * (size // 256 + 1))[:size] if n % 2 else b'a' * size
			for j, t in enumerate(('file', 'bytesio', 'list')):
				kind = 'resp' if (n + j) % 2 else 'req'
				items = [data.hex()] if t != 'list' else [data[:size // 3].hex(), data[size // 3:].hex()]
				cases.append(_msg(kind, {'t': t if (n + j) % 4 else {'file': 'file', 'bytesio': 'bytes', 'list': 'gen'}[t], 'items': items, 'pos': (size // 2, size, 0)[j]}, ops=[['p', 1000], ['c'], ['c']], nocoq=size > 1100))
			# one piece of exactly that length in a chunk; a coded response whose blocks are coded one by one
			cases.append(_msg('req' if n % 2 else 'resp', {'t': ('list', 'tuple', 'gen')[n % 3], 'items': [(b'p' * size).hex(), b'q'.hex()]}, chunked=True, ops=two, nocoq=size > 1100))
			if size <= 16385 and d == 0 or big:
				cases.append(_msg('resp', {'t': ('file', 'bytesio')[n % 2], 'items': [data.hex()], 'pos': 1}, coding=('gzip', 'deflate')[n % 2], ops=two, nocoq=True))
	return cases


def _knobs(case, m, c):
	"""configuration on a subclass of the composer (class attribute)"""
	if case.get('useragent') and hasattr(m, 'uri'):
		return type('ConfiguredRequest', (type(c),), {'USER_AGENT': case['useragent']})(m)
	return c

"""C12 -- reference resolution (URI.join) agrees with RFC 3986 section 5.2.2 after normalisation."""
from harness.coqfmt import L
from harness import uri_norm_util as U

ID = 'C12'
PROPS = 'Props/C12.v'
TABLES = ['UriNormT']
COQ_HEADER = 'From Httoop Require Import Lib.Bytes Lib.Variant Gen.UriNormT Model.UriPath Model.UriNorm Corr.C12.'
COQ_CHECK = 'check'
CORR_VO = 'Corr/C12.vo'
RULE = ('T2: URI.join evaluated by the Gallina model (vm_compute; the reference enters as the slots of URI(ref)) and by the implementation: normalised '
	'http/https/ftp/unknown-scheme bases (no path, "/", trailing slash, with query, user info, explicit port, IPv6 host) and some non-normalised ones x '
	'references: the RFC 5.4 examples, scheme-qualified, network-path, absolute-path, all relative paths of <= 3 segments (4 on three bases) over '
	'{"", ".", "..", g, h} with and without query, query-only, fragment-only, empty, random longer ones; the Coq transcription of RFC 5.2.2 against the '
	'expected results printed in RFC 3986 section 5.4 and against an independent Python transcription. Oracle: join(base, ref) compared component by component with '
	'the Python transcription of 5.2.2 (Appendix B parse) followed by case/port/slash normalisation written independently of the implementation. '
	'Added input classes: decorated dot segments (".;x", "..;", ";..", "..%20", ".%2f" ... over 20 marks) in every position of every reference shape and in the base path; '
	'percent-encoded octets (reserved, unreserved, UTF-8 of NFC/NFD/compatibility/astral characters) in fragment, query, path, user info and host of fragment-only, query-only, '
	'relative, absolute-path, network-path and scheme-qualified references and of the base (the oracle decodes with its own RFC 3986 2.1 decoder; a query with "%" or "+" is '
	'expected in the spelling URI.parse gives it); every join repeated with the reference as str, URI object, tuple and keywords (same result, arguments neither returned nor '
	'modified); degenerate and re-encoded references; every scheme of URI.SCHEMES read at run time as base and reference scheme; lengths 11..65536 (> 4200 oracle-only); '
	'kind seq: one base object joined several times, modified through every public setter and replaced by its own results, against a fresh object built from the same components. '
	'Fourth-wave classes: the delimiters and reserved names of the other components (: / ? # @ ; , = & " //, scheme names, port numbers, whole URIs, urn:..., hh:mm) inside query and '
	'fragment of every reference shape (query-only, fragment-only, one-segment, ";x", ".", "..", relative, absolute-path, network-path, scheme-qualified) and of the base, inside user info, '
	'and ":" inside path segments where a scheme or an authority precedes it (a ":" in the path of a reference without scheme and authority is refused by URI.parse: finding D49 of the unchanged '
	'tree, kept out); read-only observers (repr str bytes hash bool len iter in dict sorted format copy deepcopy == != <= every public attribute) on the base and on the reference object before '
	'join, the base built through every construction path (class of the registry, tuple, dict, copy, copy.copy/deepcopy), against the RFC result and a fresh unobserved base; the result is also '
	'compared with == and != (both orders) against a URI built from the expected components. '
	'Fifth-wave classes: references made of the parts of the base itself (its path as absolute / relative / re-encoded reference with and without query and fragment, its last segment, query, '
	'authority, scheme, the whole base) against bases with and without query; query pairs unsorted / reverse sorted / duplicated, in the reference and inherited from the base, for every reference shape and every '
	'scheme class of the registry, order of segments and ";" parameters; white space, NUL, CR LF, Unicode spaces and "=" padding as percent-encoded data at the edges of segments, fragment, user info and query; '
	'lengths 2^k and 2^k +- 1 for k = 9..16 in every position; the base built by attribute assignment in every order, partly through the constructor, and from str / bytes and str subclasses / OrderedDict / reversed dict / '
	'partial dict / namedtuple / positional arguments; every such join repeated with the reference as bytes and str subclass, namedtuple, OrderedDict, reversed and partial dict, partial keywords, positional arguments, '
	'URI subclass object, object assembled attribute by attribute (same result required) and as bytearray, memoryview, list, iterator, generator, map, chain, object with __str__ (same result or TypeError, nothing else); '
	'aliasing: result, base, reference object and argument dict changed in every public way one after the other, the others stay what they were; kind chain: each result is the base of the next reference, against RFC 5.2.2 '
	'applied step by step; kind refuse: references the parser refuses, arguments the constructor refuses, setters that refuse their value, between joins on one base object - the object is unchanged and the next join is the '
	'RFC result and that of an object that never saw a refusal; kind knob: URI.encoding assigned on the class (ISO8859-1, cp1252, koi8-r, latin1) and given by a registered subclass, non-ASCII octets in every component - '
	'the text of the result is the RFC result read in that charset, the composed octets are those of the RFC result. '
	'non-trivial = distinct (base, reference) whose result differs from the base')
EXHAUSTIVE = {'quick': True, 'thorough': True}
TRUSTED = ['harness/tables/urinorm.py (T1: URI.SCHEMES -> PORT, URI.PORT, normalize() probe)',
	'harness/props/C12.py + harness/uri_norm_util.py + coq/Corr/C12.v (T2; URI(ref) is parsed by the implementation and enters the model as its eight slots - '
	'URI.parse belongs to the component property; text compared through UTF-8 octets; str.lower passed as a table for non-ASCII strings)',
	'harness/uri_norm_util.py: Python transcription of RFC 3986 5.2.2-5.2.4 and Appendix B (cross-checked against the RFC section 5.4 examples on every run)']
ASSUMPTIONS = ['str.lower is idempotent (Section hypothesis)', 'ports are None or integers 1..65535']

BASE = U.RFC54_BASE
WITNESSES = [
	('D20a-empty-segment-before-dotdot', {'k': 'join', 'base': BASE, 'ref': 'g//..'}),
	('D20b-empty-authority-host', {'k': 'join', 'base': BASE, 'ref': '///g'}),
	('D20b-empty-authority-host', {'k': 'join', 'base': BASE, 'ref': '//'}),
	('D20c-empty-query', {'k': 'join', 'base': BASE, 'ref': '?'}),
	('D20d-scheme-ref-hostless-dots', {'k': 'join', 'base': BASE, 'ref': 'g:x/../y'}),
	('D20d-scheme-ref-hostless-dots', {'k': 'join', 'base': BASE, 'ref': 'g:/../y'}),
	('D20d-scheme-ref-hostless-dots', {'k': 'join', 'base': BASE, 'ref': 'g:.'}),
	('D20e-separator-only-query', {'k': 'join', 'base': BASE, 'ref': '?&', 'nocoq': True}),
	('D20f-colon-in-relative-path', {'k': 'join', 'base': BASE, 'ref': './a:b', 'nocoq': True}),
]

BASES = ['http://a/b/c/d;p?q', 'http://a', 'http://a/', 'http://a/b/', 'http://a/b?q', 'https://a:8/x/y/', 'ftp://u:p@h/a/b', 'http://h:8080/x',
	'x-y://h/p/q', 'http://[::1]/a/b/c', 'https://example.com/a.b/..c/d', 'http://a/b/c/d/e/f']
BASES4 = ['http://a/b/c/d;p?q', 'http://a', 'http://a/b/']
ODD_BASES = [  # outside the property's domain (not normalised / not absolute / with fragment): correspondence only
	{'text': 'http://a/b/c/d;p?q#frag'}, {'text': 'HTTP://A/b/../c/./d'}, {'text': '/b/c/d'}, {'text': 'b/c'}, {'text': 'http://a/b//c/d'},
	{'cls': 'URI', 't': ['HTTP', '', '', 'H', None, '/b/c', 'q', '']}, {'cls': 'HTTP', 't': ['', '', '', 'h', None, '/b/c', '', '']},
	{'cls': 'URI', 't': ['http', 'u', 'p', 'BÜCHER.de', 80, '/b/c/', '', 'f']}, {'text': 'mailto:a@b'}, {'text': ''},
]
RSEGS = ['', '.', '..', 'g', 'h']
SPECIAL_REFS = ['', '?', '#', '?y', '#s', '?y#s', '?#', 'g?', 'g#', '//o', '//o/p/../q', '//O:80/', '//o:81', '//u:p@o:81/x?y#z', '//:81/x', '//u@/x', '//', '///', '///g', '//?y',
	'//o?y', '//o#s', '//o/..', '//o/../x', '/x/./y', '/', '/..', '/../..', '/.', 'http://z/a/../b', 'HTTP://Z/a/../b', 'HTTP://A/b', 'https://z', 'https://z:443/', 'http://z:80',
	'ftp://z/x//y', 'g:h', 'g:', 'g:x/../y', 'g:x/..', 'g:../y', 'g:./y', 'g:x/./y', 'g:/x/../y', 'g:/../y', 'g://h/x/../y', 'g://h/../y', 'g://h', 'g:x/y/../z',
	'g:x/../../y', 'http:g', 'http:', 'mailto:a@b', 'g;x=1/../y', 'g;x=1/./y', 'g?y/./x', 'g?y/../x', 'g#s/./x', 'g#s/../x', 'g//..', 'g//h', 'g/..//h', '..//..', './/..', '/g//..',
	'g/', './', '../', '..', '.', '...', '.../..', '.g', 'g.', '..g', 'g..', './../g', './g/.', 'x-y://O/..', 'X-Y://O/a']


def gen_cases(rng, tier):
	big = tier == 'thorough'
	cases = []
	for ref, want in U.RFC54:
		cases.append({'k': 'rfc54', 'ref': ref, 'want': want})
	refs = list(SPECIAL_REFS) + [r for r, _ in U.RFC54]
	refs3, refs4 = [], []
	for k in range(1, 5):
		for w in U.words(RSEGS, k):
			r = '/'.join(w)
			(refs3 if k <= (4 if big else 3) else refs4).extend([r, '/' + r, r + '?y'])
	seen = set()
	for b in BASES:
		for r in refs + refs3 + (refs4 if b in BASES4 else []):
			if (b, r) not in seen:
				seen.add((b, r))
				cases.append({'k': 'join', 'base': b, 'ref': r})
	for b in ODD_BASES:
		for r in refs + (refs3 if big else refs3[::7]):
			cases.append({'k': 'join', 'base': b, 'ref': r})
	alpha = RSEGS + ['..', '.', 'g', 'i;x', 'j.k', '...']
	for _ in range(20000 if big else 2500):
		b = rng.choice(BASES)
		r = U.rpath(rng, 1, 9, alpha)
		if rng.random() < 0.3:
			r = '/' + r
		if rng.random() < 0.1:
			r = '//' + rng.choice(['o', 'O:80', 'u@o', '']) + ('/' + r if not r.startswith('/') else r)
		if rng.random() < 0.08:
			r = rng.choice(['g:', 'http:', 'HTTPS://Z', 'x-y://o']) + r
		r += rng.choice(['', '', '', '?y', '?', '#s', '?y=1&z=2#s'])
		cases.append({'k': 'join', 'base': b, 'ref': r})
	# the Coq transcription of 5.2.2 against the Python one, on bases of every shape (with/without authority, rootless, empty path)
	rb = ['http://a/b/c/d;p?q', 'http://a', 'http:', 'http:b/c', 'http:/b/c', '//a/b', '/b/c/', 'b', '', 'http://a?q', 'http://a/b/../c/./d']
	for _ in range(8000 if big else 1200):
		b = rng.choice(rb)
		r = rng.choice(['', '', '/', '//o', '//', 'g:', 'g://o/']) + U.rpath(rng, 0, 6, alpha) + rng.choice(['', '', '?y', '?', '#s', '#'])
		cases.append({'k': 'resolve', 'base': b, 'ref': r})
	for b in rb:
		for r in refs:
			cases.append({'k': 'resolve', 'base': b, 'ref': r})
	cases.extend(gen_classes(rng, tier))
	cases.extend(gen_wave4(rng, tier))
	cases.extend(gen_wave5(rng, tier))
	return cases


# ---------------------------------------------------------------- input classes added after the seeded rounds
# (decorated dot segments, percent-encoded octets in every component of every reference shape, the reference given
# as bytes / str / URI / tuple / keywords, base objects reused and modified between joins, Unicode forms, lengths,
# the scheme registry of the tree, degenerate references, re-encoded references)

UNI = ['e\u0301', '\u00e9', '\u212b', '\u00c5', 'A\u030a', '\u2126', '\u03a9', '\u212a', '\u1112\u1161\u11ab', '\ud55c', '\uf900', '\u8c48', '\U0001d400', '\U00010400', '\ufb01']
MARKS = [';', ',', '=', '!', '~', '_', '-', '$', '&', "'", '(', ')', '*', '+', '@', '%20', '%3B', '%2f', '%00', '%C3%A4']
LIMITS = [11, 12, 75, 76, 255, 256, 1023, 1024, 4095, 4096]
LIMITS_BIG = [8190, 8191, 8192, 65535, 65536]
COQ_MAX = 4200
ENC = ['%20', '%23', '%3F', '%3f', '%2F', '%2f', '%25', '%C3%A4', '%c3%a4', '%7e', '%7E', '%41', '%3B', '%40', '%3A', '%26', '%3D', '%2B', '%22', '%00', '%E2%84%AB', 'e%CC%81', '%F0%9D%90%80']
DEGEN_REFS = [';', ';;', ';/..', ';/../;', '/;', '/;/', '..;', '.;', ';..', ';.', '?;', '#/', '#?', '##', '?#?', '#%23', '?%3F', '?%26', '?%3D%3D', '//o;x', '//@o', '//o:', '//u:@o', '//:@o',
	'//o:/', '//o?', '//o#', '//o/?#', "'", '"', '%', '%%', '%zz', '%2', '%25', ',', '=', '&', '!', '*', '~', '_', '-', '$', '(', ')', '+', '@', 'g,h', 'g=h/..', "g'/.", '/%', '/%zz/..', 'g/%', '?%', '#%', '#%zz', '?%zz',
	'g?/..', 'g#/..', 'g?..', 'g#..', '?..', '#..', '?.', '#.', '?/', '/?/', '/#/', '//o?/..', '//o#/..', './?', '../#', './', '././', '../..', '../../', '../../../../../../..', './././././.', '/./././.', '/../../../..',
	'g/h/../../../..', 'g/./h/./..', '%20', '%20/..', '../%20', 'g%20h', '/%20', '//o/%20', '?%20', '#%20', '+', '?+', '#+', '?a+b', '?a%2Bb', '?a=%26', '?%C3%A4=%C3%B6', '?e%CC%81', '#e%CC%81', '#%C3%A9']


COLON_PATH_REFS = ['./a:b', '/a:b', 'g/a:b', '/wiki/Special:Search', './this:that', '../x:y', 'g/./h:1', '/a:b?q#f']
SEP_ONLY_REFS = ['?&', '?&&', '?=', '?=&=', 'g?&', '/g?=', '//o/p?&', '?&#s']
# Kept apart from DEGEN_REFS: a query made only of form separators ('?&', '?&&', '?=', '?=&=') is known finding D20e of the unchanged tree.
# URI.parse re-encodes every query through the form-urlencoded codec, which turns '&', '&&', '=' into the empty query and '=&=' into '&';
# an empty query is then indistinguishable from an undefined one (known finding D20c), so join(b'http://a/b?q', b'?&') keeps '?q' (RFC: 'http://a/b?&').


def unq(text, charset='utf-8'):
	"""percent-decoding written from RFC 3986 section 2.1 (a '%' not followed by two hex digits stays); the octets are text in
	`charset` (UTF-8 unless the configuration knob URI.encoding says otherwise)"""
	raw = text.encode('utf-8')
	out = bytearray()
	i = 0
	hexd = b'0123456789abcdefABCDEF'
	while i < len(raw):
		if raw[i] == 0x25 and i + 2 < len(raw) + 0 and len(raw) - i >= 3 and raw[i + 1] in hexd and raw[i + 2] in hexd:
			out.append(int(raw[i + 1:i + 3], 16))
			i += 3
		else:
			out.append(raw[i])
			i += 1
	return bytes(out).decode(charset)


def _enc_some(rng, text, p=0.3):
	"""the same text with some unreserved characters (never a dot) percent-encoded, random hex case"""
	out = []
	i = 0
	while i < len(text):
		ch = text[i]
		if ch == '%':
			out.append(text[i:i + 3])
			i += 3
			continue
		if (ch.isalnum() and ch.isascii() or ch in '-_~') and rng.random() < p:
			out.append(('%%%02x' if rng.random() < 0.5 else '%%%02X') % ord(ch))
		else:
			out.append(ch)
		i += 1
	return ''.join(out)


def _decorated():
	out = []
	for d in ('.', '..'):
		for m in MARKS:
			out.extend([d + m, d + m + 'x', m + d])
	return out


def _registry():
	C = U.classes()
	return [((k.decode('ascii') if isinstance(k, bytes) else k), cls.__name__, cls.PORT) for k, cls in sorted(C['URI'].SCHEMES.items())]


def _alt_case(s):
	return ''.join(ch.upper() if i % 2 else ch.lower() for i, ch in enumerate(s))


def gen_classes(rng, tier):
	big = tier == 'thorough'
	mul = 5 if big else 1
	cases = []
	seen = set()

	def add(b, r, **kw):
		if (repr(b), r) in seen:
			return
		seen.add((repr(b), r))
		c = {'k': 'join', 'base': b, 'ref': r}
		c.update(kw)
		cases.append(c)
	# -- (5)/(C12-7) segments that only look like dot segments, in every position of every reference shape
	for seg in _decorated():
		for tpl in ('%s', '%s/g', 'g/%s', 'g/%s/h', '/p/%s/q', '/%s', '//o/p/%s/q', '//o/%s', 'z://o/p/%s', '../%s', './%s/..', '%s?y#s'):
			if tpl.startswith('%s') and seg[0] in '@':
				continue
			add(BASE, tpl % seg)
		add('http://a/b/', 'g/%s' % seg)
		add('http://a', '%s/g' % seg)
		add('http://a/b/%s/d' % seg, '../g')     # ... and in the base path
		add('http://a/b/%s/d' % seg, '.')
	# -- (C12-8) percent-encoded octets in every component of every reference shape (fragment-only, query-only, empty path, relative,
	#    absolute-path, network-path, scheme-qualified); Unicode forms as UTF-8 octets (2); bases that carry them
	encb = ['http://a/b/c/d;p?q', 'http://a/b%20c/d%2Fe/f?q%20r', 'http://u%40v:p%3aw@a/%C3%A4/e%CC%81/', 'http://a']
	for e in ENC:
		for tpl in ('#%s', '#a%sb', '?%s', '?a%sb=c', '?y#%s', '%s', 'g%sh', 'g/%s', '%s/../g', 'g;%s', '/%s', '/g/%s/', '//o/%s', '//u%s:p%s@o/x', '//o?%s', '//o#%s', 'z://o/%s#%s', 'z://u%s@o', 'g?y#%s', '/g#%s', '../g?%s#%s', '.#%s', '..?%s'):
			r = tpl.replace('%s', e)
			if e == '%00' and '?' in r:
				continue   # a control character in the query is refused by the parser (component property)
			for b in encb[:2] if not big else encb:
				add(b, r)
		add(encb[2], '#' + e)
		add(encb[2], 'g' + e)
		if e != '%00':   # a control character in the query is refused by the parser (component property)
			add(encb[3], '?' + e)
	for u in UNI:
		e = ''.join('%%%02X' % x for x in u.encode('utf-8'))
		for tpl in ('#%s', '?%s=%s', 'g/%s', '/%s/..', '//u%s@o/%s', 'z://o/%s?%s#%s', '%s'):
			add(rng.choice(encb), tpl.replace('%s', e))
	# -- (5) degenerate references
	for r in DEGEN_REFS:
		for b in (BASE, 'http://a', 'http://a/b/?q%20r'):
			add(b, r)
	# a query made only of form separators (known finding D20e): oracle-only, the join model takes the parsed slots as given
	for r in SEP_ONLY_REFS:
		for b in (BASE, 'http://a', 'http://a/b/?q%20r'):
			cases.append({'k': 'join', 'base': b, 'ref': r, 'nocoq': True})
	# a ':' in the path of a reference without scheme and authority (known finding D20f; root cause D49 of C04): oracle-only
	for r in COLON_PATH_REFS:
		for b in (BASE, 'http://a', 'http://a/b/?q%20r'):
			cases.append({'k': 'join', 'base': b, 'ref': r, 'nocoq': True})
	# -- (6) references of the existing classes, re-encoded (unreserved characters percent-encoded): same result
	alpha = RSEGS + ['..', '.', 'g', 'i;x', 'j.k', '...', 'g~h', 'k-l_m']
	for _ in range(800 * mul):
		r = U.rpath(rng, 1, 6, alpha)
		r = rng.choice(['', '', '/', '//o/', '//O:80/', 'z://u@o/', 'HTTP://Z/']) + _enc_some(rng, r + rng.choice(['', '', '?y', '?y=1&z=2', '#s', '?y#frag']))
		add(rng.choice(BASES), r)
	# -- (4) every scheme of the registry of the tree: as base scheme and as reference scheme, several letter cases, default ports
	for name, clsname, port in _registry():
		b = '%s://a/b/c/d;p?q' % name
		for r in ('g', '../g', '/g', '//o', '//o:%d/x' % port, '//o:%d' % (port + 1), '?y', '#s', '', '%s:g' % name, '%s://z/a/../b' % name.upper(), '%s://Z:%d/' % (_alt_case(name), port),
				'%s://z:%d' % (name, port + 1), '%s:' % name.title(), '%s:/x/y' % name):
			add(b, r)
			add(BASE, r)
		add({'text': '%s://A/b/c' % name.upper()}, '../g')   # out of the domain (not normalised): correspondence only
		add({'text': '%s://a:%d/b/c' % (name, port)}, '//o/x')
	# -- (3) lengths at and around limits in every position of the reference and of the base
	for n in LIMITS + LIMITS_BIG:
		nocoq = n > COQ_MAX
		refs = ['g' * n, '../' * (n // 3) + 'g', 'g/' * (n // 2), './' * (n // 2), 'g/../' * (n // 5) + 'h', '?' + 'y' * n, '#' + 's' * n, '/' + 'g' * n, '//' + 'o' * min(n, 63) + '/' + 'p' * n,
			'//' + 'u' * n + '@o', 'z' * min(n, 4096) + '://o/x', ';' * n, 'g;' + 'x' * n + '/..', '%41' * (n // 3), '#' + '%20' * (n // 3)]
		if n > 4096 and not big:
			refs = refs[:7]
		for r in refs:
			add(BASE, r, nocoq=nocoq)
		add('http://a/' + 'b/' * (n // 2), '../' * (n // 4) + 'g', nocoq=nocoq)
		add('http://a/' + 'b' * n, 'g', nocoq=nocoq)
		add('http://a/b?' + 'q' * n, '#s', nocoq=nocoq)
	# -- (1) one base object used for several joins and modified between them through every public way; a result used as the next base
	for n in range(500 * mul):
		ops = []
		for _i in range(rng.randint(2, 5)):
			r = rng.random()
			if r < 0.6:
				ref = rng.choice(['', '', '/', '//o/', 'z://o/']) + U.rpath(rng, 0, 4, alpha + ['..;x', 'g%20h', '%2f']) + rng.choice(['', '', '?y', '#s', '#a%20b', '?y%20z'])
				ops.append(['join', ref, rng.choice(['bytes', 'bytes', 'str', 'obj', 'tuple', 'dict'])])
			elif r < 0.7:
				ops.append(['chain'])   # the last result becomes the base object
			elif r < 0.8:
				ops.append(['use', rng.choice(['normalize', 'eq', 'compose', 'abspath'])])
			else:
				f = rng.choice(['scheme', 'username', 'password', 'host', 'port', 'path', 'query_string', 'fragment', 'path_segments', 'tuple', 'parse'])
				v = {'scheme': rng.choice(['http', 'https', 'ftp', 'x-y', 'HTTP']), 'username': rng.choice(['', 'u', 'e\u0301']), 'password': rng.choice(['', 'p']), 'host': rng.choice(['h', 'H', 'o.example', '[::1]']),
					'port': rng.choice([None, '', 80, 8080, '443']), 'path': rng.choice(['', '/', '/x/y', '/x/y/', '/x/../y', '/a%2fb/c']), 'query_string': rng.choice(['', 'q', 'a=b']), 'fragment': rng.choice(['', 'f', 'a b']),
					'path_segments': ['', rng.choice(['a', 'a/b', '..']), rng.choice(['', 'c'])], 'tuple': ['http', '', '', 'n', None, rng.choice(['/t/u', '/t/']), '', ''],
					'parse': rng.choice(['http://m/v/w?x', 'https://m:444/v/', 'ftp://m'])}[f]
				ops.append(['set', f, v])
		if not any(o[0] == 'join' for o in ops):
			ops.append(['join', 'g', 'bytes'])
		cases.append({'k': 'seq', 'base': rng.choice(BASES), 'ops': ops})
	return cases


# ---------------------------------------------------------------- fourth wave of input classes
# (9) metacharacters / reserved names of one component inside a neighbouring one, (7) read-only observers before join,
# (8) every construction path of the base and every comparison of the result.  Appended after everything else so that the
# random stream of the earlier generators is unchanged.
#
# Kept out (finding D49 of the unchanged tree, recorded under C04): a ':' in the PATH of a reference that has neither scheme nor
# authority ('/a:b', './a:b', 'g/a:b', 'g;x:y', '/wiki/Special:Search').  URI.parse takes the text before the first ':' of an
# authority-less URI as the scheme, finds '/' or ';' in it and raises InvalidURI, so join() raises instead of returning
# 'http://a/b/c/a:b'.  A ':' in query, fragment, user info, or in a path behind a scheme or an authority is covered below.

QMETA = ['a:b', 't=12:30', ':', '::', 'next=http://x/y', 'urn:isbn:1', 'k:v&l:w', '/', '/../x', 'a/./b', '//x', '?', 'a?b', '??', 'a?b:c', '@', 'u@h', 'u:p@h:81', ';', 'a;b', ',', 'a,b:c',
	'x=1&y=2', 'x=a:b&y=c/d', ':80', 'http:', 'http://H:80/a/../b', 'HTTP', 'https', 'uri', 'q', 'a:b:c', "':'", '!:$', '(:)', '*:', '-._~:', '::1', 'g:h', '..:', '.:.']
# spelled differently by URI.parse (form-urlencoded re-encoding of the query, the component property's business): expected in that spelling ('qany')
QMETA_RESPELLED = ['a"b', '":"', 'next=http://x/y?z=1', 'a=b=c:d', 'a[0]:1', 'a|b:c', '{a:b}', '^:`', 'a:b&&c:d', '=a:b', 'a:b=']
FMETA = ['sec:2', 'urn:isbn:1', ':', '::', 'a:b/c', '/', '/../x', 'a/./b', '//x', '?', '?q=1', 'a?b:c', '@', 'u:p@h:81', ';', ',', '=', '&', 'x=1&y=2:3', '"', 'a"b:c', '#', 'a#b', '#:', 'a:#b',
	'http://H:80/a/../b', 'HTTP:', 'https', '%3A', '%23:', 'a%3ab:c', "!$&'()*+,;=:@/?", 't=12:30', '..:', '.:.', 'g:h', '[a:b]', '{a:b}', '|:^`']
QTPLS = ['?%s', '?%s#s', 'g?%s', 'g?%s#s', ';x?%s', '.?%s', '..?%s', 'g/?%s', './g?%s', '../g?%s', 'g/h?%s', '/g?%s', '/?%s', '//o?%s', '//o/p?%s#s', '//u:p@o:81/x?%s', 'z://o/p?%s', 'z://o?%s', 'g:h?%s', 'HTTP://B:80/x?%s#s']
FTPLS = ['#%s', '?y#%s', 'g#%s', 'g?y#%s', ';x#%s', '.#%s', '..#%s', 'g/#%s', './g#%s', '../g#%s', '/g#%s', '/#%s', '//o#%s', '//o/p?y#%s', 'z://o/p#%s', 'g:h#%s', 'HTTP://B:80/x#%s']
META_BASES = [BASE, 'http://a', 'https://u:p@a:8/x/y/?k=a:b/c?d@e', 'http://a/b/?t=12:30']
PATH_META_REFS = ['g@h', 'u@h/x', '@', 'a=b&c', 'g,h', 'g"h', '"', 'a;b=c,d', "!$&'()*+,;=@", '//o/a:b', '//o/a:b/../c:d', '//o/:', '//o/..:/x', '//o/.:/x', '//o/:../x', '//o/a:b?c:d#e:f', '//o:81/a:80/b',
	'z://o/a:b', 'z://o/a:b/..', 'g:h:i', 'g:h:i?j:k', 'http://o:81/a:80/b', 'HTTP://O:80/a:b/./c', '//u:p:w@o/x', '//u%40v@o/', '//u;x=1,y@o/', '//u:p%3Aw@o', '//u@v@o/x', '//:p@o', '//u:@o:81', '//o/p@q', '//o?u@v', '//o#u@v',
	'http', 'https', 'ftp', 'HTTP/g', 'http/../g', 'http/./https', '?http', '#https', '//http', '//http:81', '//HTTP:8080/http', '//https/?http#ftp', 'http:/g', 'HTTP:/G', 'x-y:/g', 'g?y=http&z=80', '80', '80/443', '443?80#21']
COLON_BASES = ['http://a/b:c/d:e', 'http://a/:/x', 'http://a/b:c/', 'http://u:p:w@a/b;x:y/c?k:v', 'x-y://h/p:q/r']
OBSERVERS = ['repr', 'str', 'bytes', 'hash', 'bool', 'len', 'iter', 'in', 'dict', 'sorted', 'format', 'copy', 'deepcopy', 'eq', 'ne', 'eqtext', 'netext', 'le', 'ge',
	'attrs', 'tupleattr', 'dictattr', 'segments', 'query', 'hostname', 'portattr', 'composeiter', 'joinself']
BHOWS = [None, 'copy', 'retuple', 'redict', 'copycopy', 'deepcopy', 'setfrom', 'class', 'otherclass', 'kwargs']


def _pre(rng):
	return [[rng.choice(OBSERVERS), rng.choice(['self', 'self', 'copy', 'copycopy'])] for _ in range(rng.randint(1, 4))]


def gen_wave4(rng, tier):
	big = tier == 'thorough'
	mul = 5 if big else 1
	cases = []
	seen = set()

	def add(b, r, **kw):
		key = (b, r, repr(sorted(kw.items())))
		if key in seen:
			return
		seen.add(key)
		c = {'k': 'join', 'base': b, 'ref': r}
		c.update(kw)
		cases.append(c)
	# -- (9) the delimiters of the other components inside query and fragment, for every shape of reference
	for bi, b in enumerate(META_BASES):
		for qi, q in enumerate(QMETA):
			for ti, tpl in enumerate(QTPLS):
				if bi < 2 or big or (qi + ti) % 4 == bi:
					add(b, tpl % q)
		for q in QMETA_RESPELLED:
			for ti, tpl in enumerate(QTPLS):
				if bi == 0 or big or ti % 4 == bi:
					add(b, tpl % q, qany=True)
		for fi, f in enumerate(FMETA):
			for ti, tpl in enumerate(FTPLS):
				if bi < 2 or big or (fi + ti) % 4 == bi:
					add(b, tpl % f)
	#    ... in user info and path (a ':' in the path only behind a scheme or an authority, see D49 above), reserved names as data
	for r in PATH_META_REFS:
		for b in META_BASES:
			add(b, r)
		for suffix in ('?a:b', '#a:b', '?next=http://x/y#sec:2'):
			if '?' not in r and '#' not in r:
				add(BASE, r + suffix)
	#    ... and in the base: the path, query and user info of the base carry them, the reference does not
	for b in COLON_BASES + META_BASES[2:]:
		for r in ('', 'g', './g', '../g', '..', '.', '/g', '//o', '?y', '#s', 'g?y#s', '?a:b', '#a:b', ';x', 'z://o/', 'g;x=1/../y'):
			add(b, r)
	# random combinations: meta query and fragment on random relative paths
	alpha = RSEGS + ['..', '.', 'g', 'i;x', 'j.k', 'g@h', 'a=b,c']
	for _ in range(500 * mul):
		r = rng.choice(['', '', '', '/', '//o/', '//u:p:w@O:80/', 'z://o/', 'HTTP://Z/']) + U.rpath(rng, 0, 4, alpha)
		if rng.random() < 0.7:
			r += '?' + rng.choice(QMETA)
		if rng.random() < 0.6:
			r += '#' + rng.choice(FMETA)
		add(rng.choice(BASES + META_BASES + COLON_BASES), r)
	# -- (7) read-only observers on the base (and on the reference object) before join; (8) the base built through every construction path
	pool = [c['ref'] for c in cases if not c.get('qany')] + SPECIAL_REFS + DEGEN_REFS + [r for r, _ in U.RFC54]
	for n in range(700 * mul):
		kw = {}
		if n % 3 != 1:
			kw['pre'] = _pre(rng)
		if n % 3 != 0:
			kw['bhow'] = rng.choice(BHOWS[1:])
		add(rng.choice(BASES + META_BASES[2:] + COLON_BASES), rng.choice(pool), **kw)
	for how in BHOWS[1:]:
		for r in ('g', '../g', '?a:b', '#a:b', '//o/x', 'z://o/', ''):
			add(BASE, r, bhow=how)
	# observers interleaved with joins and modifications of one base object
	alpha2 = RSEGS + ['..', '.', 'g', 'i;x', 'j.k', '...', 'g~h', 'k-l_m', '..;x', 'g%20h', '%2f']
	for n in range(350 * mul):
		ops = []
		for _i in range(rng.randint(3, 7)):
			r = rng.random()
			if r < 0.4:
				ref = rng.choice(['', '', '/', '//o/', 'z://o/']) + U.rpath(rng, 0, 4, alpha2) + rng.choice(['', '', '?y', '#s', '?a:b', '#a:b', '?t=12:30#sec:2'])
				ops.append(['join', ref, rng.choice(['bytes', 'bytes', 'str', 'obj', 'tuple', 'dict'])])
			elif r < 0.85:
				ops.append(['obs'] + _pre(rng)[0])
			elif r < 0.92:
				ops.append(['chain'])
			else:
				ops.append(['set', 'path', rng.choice(['', '/', '/x/y', '/x/y/', '/a:b/c'])])
		ops.append(['join', rng.choice(['g', '../g', '?a:b', '#a:b']), rng.choice(['bytes', 'obj'])])
		cases.append({'k': 'seq', 'base': rng.choice(BASES + COLON_BASES), 'ops': ops})
	return cases


# ---------------------------------------------------------------- fifth wave of input classes
# (10) aliasing, (11) argument types of join() and of the constructors, (12) refused operations, (13) the URI.encoding knob,
# (14) order of query pairs / segments / parameters, (15) order of API calls and references built from the parts of the base itself,
# (16) white space / NUL / CR LF / '=' padding octets at the edges of every component, (17) lengths 2^k and 2^k +- 1 (k = 9..16).
# Appended after everything else so that the random stream of the earlier generators is unchanged.
#
# Kept out (observations on the unchanged tree that belong to the component property, not to reference resolution; reported, not hidden):
#  * URI.tuple = / URI.dict = / URI.parse() are not atomic: when a LATER component is refused (port 99999, a non-string path, an
#    invalid IP literal on a URI-class object) the earlier components (scheme, user info, host) are already overwritten.  The refused
#    operations generated below are the ones that are refused before anything is assigned, and every refused join().  On an object of the
#    plain class URI, parse()/set() of ANY text with a ':' assigns the scheme (the text before the first ':') before the text is validated
#    (URI(b'x-y://h/p').set(b'http://[zz]/p') raises InvalidURI and leaves an HTTP object with scheme 'http'): refused texts carry no ':'.
#  * a reference OBJECT of another scheme class without scheme (HTTPS(b'//o/x')) carries that class's default port into the result
#    (http://o:443/x); reference objects are built with the class URI(...) picks.
#  * URI.encoding = 'UTF-16' cannot parse any URI (the percent-decoder output is decoded as UTF-16); a subclass with its own encoding
#    cannot join a reference that carries octets of that encoding (join() parses the reference with the plain URI class): the knob is
#    exercised on the class URI itself (ISO8859-1, cp1252, koi8-r, latin1) and on a registered subclass with ASCII-only references.

QORDER = ['z=2&y=1', 'b&a', 'b=1&a=2', 't=2&t=1', 't=2&t=1&s', 'page=2&lang=de', 'z=26&a=1&m=13', 'sort=name&dir=asc&dir=desc&a=0', 'c=3&b=2&a=1', 'a=1&c=3&b=2', 'a=2&a=1&a=3',
	'B=1&a=2&A=3&b=4', '10=x&9=y&1=z', 'k=b&k=a&k=b', 'z&y&x&w', 'zz&z&zzz', 'y=1&z=2&x=3', 'q=uri&page=2', 'id=7&id=3&id=5&id=3', 'b;a', 'b,a', 'b/a&a/b', 'z:1&a:2', 'b=2&a', 'b&a=1']
QORDER_RESPELLED = ['b=&a=', 'b&a&', '&b&a', 'b&&a', 'z=%32&y=%31', 'b+c&a+b']   # URI.parse spells them its own way ('qany'); the order of the pairs stays
ORDER_BASES = ['http://a/b/c/d?page=2&lang=de', 'http://a/?z=26&a=1&m=13', 'https://example.org/x/?sort=name&dir=asc&dir=desc&a=0', 'http://example.org:8080?b&a', 'ftp://h/p?b=1&a=2', 'x-y://h/p/?z&y&x']
ORDER_REFS = ['', '#s', '#', 'g', './', '..', '?y', '?b&a', '?a&b', '//o', '//o?z&y', '/p', ';x', '../g#s', 'g?z=2&y=1#s', '#b&a', '#z=2&y=1', 'z/y/x', 'b/a', 'c/b/a/../..', 'g;b=1;a=2', 'g;z;y/h;b;a?n&m#l&k',
	'//z:y@o/b/a?b&a', 'z://y/x/w?v&u#t&s', 'HTTP://B/b/a?b=1&a=2', 'https://z/?z=2&y=1']
OWN_BASES = ['http://a/b?q', 'http://a/?q', 'http://a?q', 'http://a/b/?k=v', 'https://example.org:8443/x/y/z?k=v', 'http://a/b/c/d/?q=1', 'https://example.org/x/?k=v&l=w', 'http://a/b', 'http://a/b/', 'ftp://u:p@h/a/b?x',
	'x-y://h/p/q?r', 'http://[::1]/a/b/c?d', 'http://a/b%20c/d%2Fe/f?q%20r', 'http://a/b;p=1/c;q?r;s', 'http://a/b.c/d..e?f', 'http://a/g/g/g?g', 'http://h/h?h']
WS_OCT = ['%09', '%0A', '%0B', '%0C', '%0D', '%20', '%00', '%0D%0A', '%1C', '%1D', '%1E', '%1F', '%7F', '%C2%85', '%C2%A0', '%E1%9A%80', '%E2%80%80', '%E2%80%8B', '%E2%80%A8', '%E2%80%A9', '%E3%80%80', '%EF%BB%BF', '%3D', '%3D%3D']
WS_TPLS = ['%s', '%sg', 'g%s', 'g/%s', '%s/g', 'g%s/h', 'g/%sh', '../%s', 'g/%s/..', '%s/..', '/%s', '/g%s', '/%sg/', '//o/%s', '//o/g%s/', '#%s', '#%sx', '#x%s', 'g#x%sy', '//u%s@o/', '//u:%sp@o/', '//u:p%s@o', 'z://o/%s#%s', 'g;%s', 'g;x=%s/h']
WS_QUERY_OCT = ['%20', '%C2%A0', '%E3%80%80', '%3D', '%3D%3D', '+', '%2B', 'YQ==', 'YWI=', '=', '==']
WS_QTPLS = ['?%s', '?a%s', '?%sa=b', '?a=b%s', 'g?a=%s#s', '/g?x=1&y=%s', '//o?%s']
WS_BASES = [BASE, 'http://a/b%20/c%0A/?q']
LIMITS5 = [511, 512, 513, 1025, 2047, 2048, 2049, 4097, 8193, 16383, 16384, 16385, 32767, 32768, 32769, 65537]
SLOTNAMES = ['scheme', 'username', 'password', 'host', 'port', 'path', 'query_string', 'fragment']
REFUSED_REFS = ['http://[zz]/', '//h:99999/', '//h:-1/', '//h:x/', 'a b', 'g\x00', 'g\n', ' g', 'g ', '\t', 'g%ff', '#%ff', '?%ff', '?%00', '?a=%0A', '1*://x', '//h h/', '//[::1/', '//[v1.x/', '//1.2.3.256/', '//h%ff/', '//xn--zz/', '\u00e4', 'g/\u00e4',
	'//h\u00e4/', '#\u20ac', '?\u00e4', '//u%ff@h/', '//u:%c3@h', 'g%c3', 'g%c3%28', '%e4', '//h:65536', '//h:99999999999999999999/', '//[1::2::3]/', '//256.1.1.1', '//h"/', '//<h>/', 'z^z://h', 'z z:g', '{}', 'g|h', 'g\\h', '//h\\x/', '^', '`']
REFUSED_ARGS = [{'type': 'bytearray'}, {'type': 'memoryview'}, {'type': 'list'}, {'type': 'iter'}, {'type': 'gen'}, {'type': 'map'}, {'type': 'chain'}, {'type': 'strobj'}, {'type': 'int'}, {'type': 'float'}, {'type': 'set'}, {'type': 'object'},
	{'tuple': ['', '', '', '', 99999, '/x', '', '']}, {'tuple': ['', '', '', '', 'x', '/x', '', '']}, {'tuple': [1, 2]}, {'tuple': ['', '', '', '', None, 5, '', '']}, {'tuple': ['', '', '', '', None, '/x', '', '', '']}, {'tuple': [5, '', '', '', None, '/x', '', '']},
	{'tuple': ['', '', '', 5, None, '/x', '', '']}, {'dict': {'port': 70000}}, {'dict': {'path': 5}}, {'dict': {'scheme': 5}}, {'dict': {'fragment': 1.5}}, {'dict': {'port': 'http'}}, {'dict': {'host': ['h']}}]
# setters that refuse their value before anything is assigned (see the note above for those that do not)
REFUSED_SETS = [['port', 99999], ['port', -1], ['port', 'x'], ['port', '65536'], ['path', 5], ['fragment', 5.0], ['host', ['h']], ['scheme', 5], ['query_string', ['a']], ['username', 7], ['password', 8], ['tuple', [1, 2]],
	['tuple', [''] * 9], ['dict', 5], ['query', 5], ['query', [['a']]], ['query', [['a', 5]]], ['path_segments', 5], ['path_segments', ['', 5]], ['parse', 'a b'], ['parse', '/x/%ff'], ['parsestr', 'http://x/'], ['set', ['a']],
	['setbytes', 'a b'], ['setbytes', '//h%ff/p'], ['setbytes', 'g%ff']]
KNOB_ENCODINGS = ['ISO8859-1', 'cp1252', 'koi8-r', 'latin1']
KNOB_OCT = ['%E4', '%F6%FC', '%DF', '%C0%FF', '%A4', '%e4', '%E4%20%E4', '%C3%A4']   # defined in every charset above; %C3%A4 is two characters there
KNOB_TPLS = ['g%s', '../%s', './%s/h', '/%s', '/x/%s/', '#%s', 'g#a%sb', '?k=%s', 'g?%s=v&a=%s', '//o/%s', '//u%s:p%s@o/%s', 'z://o/%s#%s', '%s/../%s', '..?b=%s&a=%s#%s', '']
KNOB_BASES = ['http://a/b/%E4/d?q', 'http://a/b/c/d;p?q', 'http://u%F6@a/%DF/?k=%FC&a=%E4', 'https://a:8/%A4%A4/x']
CHAIN_SEGS = ['g', 'h', '..', '.', 'i;x', 'j.k', 'g', '..']


def _own_refs(rng, base):
	"""references made of the parts of the base itself"""
	s, a, p, q, _f = U.parse5(base)
	last = p.rsplit('/', 1)[-1]
	refs = ['', '#s', '/', '/#s']
	if p:
		refs += [p, p + '#s', p + '#', p + '?y', p + '?y#s', p + '/', p + '/#s', p + '/..', p + '/.', p + '/../' + last, '/.' + p, _enc_some(rng, p, 0.5), _enc_some(rng, p, 0.5) + '#s']
		if p != '/':
			refs += [p.rstrip('/'), p.rstrip('/') + '#s']
	if last:
		refs += [last, last + '#s', './' + last, './' + last + '#s', last + '?y', '../' + last, last + '/', last + '/..']
	if q:
		refs += ['?' + q, '?' + q + '#s', 'g?' + q, '#' + q, '?' + q + '&' + q, '?y&' + q]
		if p:
			refs += [p + '?' + q, p + '?' + q + '#s', p + '#' + q]
		if last:
			refs += [last + '?' + q]
	refs += ['//' + a, '//' + a + p, '//' + a + p + '#s', '//' + a + '#s', '//' + a.upper() + p, s + '://' + a + p, s + '://' + a + p + '#s', s.upper() + '://' + a.upper() + p, base, base + '#s', s + ':', s + ':' + (p or '/'),
		s + ':g', s.upper() + ':' + (p or '/') + '#s', s, a.replace(':', '%3A').replace('@', '%40').replace('[', '').replace(']', ''), s + '/' + s, '//' + s, '#' + s, '?' + s]
	if q:
		refs += ['//' + a + p + '?' + q, '//' + a + '?' + q]
	return refs


def _perm(rng):
	p = list(SLOTNAMES)
	rng.shuffle(p)
	return p


def gen_wave5(rng, tier):
	big = tier == 'thorough'
	mul = 5 if big else 1
	cases = []
	seen = set()

	def add(b, r, **kw):
		key = (b, r, repr(sorted(kw.items())))
		if key in seen:
			return
		seen.add(key)
		c = {'k': 'join', 'base': b, 'ref': r, 'w5': len(cases) % 6}   # which sixth of the argument types of (11) this case goes through
		if len(cases) % 16 == 0 and not kw.get('nocoq'):
			c['al'] = 1   # (10) aliasing observations
		c.update(kw)
		cases.append(c)
	# -- (15)/(C12-13) references made of the parts of the base itself: its path (absolute, relative, re-encoded, with and without query / fragment),
	#    its last segment, its query, its authority, its scheme, the whole base - against bases with and without query
	for b in OWN_BASES + (BASES + META_BASES[1:] if big else BASES[1:4] + META_BASES[2:]):
		for r in _own_refs(rng, b):
			add(b, r)
	# -- (14)/(C12-15) order: query pairs unsorted / reverse sorted / with duplicates, from the reference and inherited from the base, for every shape
	#    of reference and every scheme class of the registry; order of path segments, of ';' parameters, of '&' inside the fragment
	for bi, b in enumerate([BASE, 'http://a', ORDER_BASES[0], ORDER_BASES[4]]):
		for qi, q in enumerate(QORDER):
			for ti, tpl in enumerate(QTPLS):
				if big or (bi == 0 and (qi + ti) % 3 == 0) or (qi + ti) % 5 == bi + 1:
					add(b, tpl % q)
		for qi, q in enumerate(QORDER_RESPELLED):
			for ti, tpl in enumerate(QTPLS):
				if big or (bi == 0 and (qi + ti) % 2 == 0) or (qi + ti) % 5 == bi + 1:
					add(b, tpl % q, qany=True)
	for b in ORDER_BASES:
		for r in ORDER_REFS + ['?' + q for q in QORDER[:8]]:
			add(b, r)
	for name, clsname, port in _registry():
		for r in ('', '#s', 'g?z&y', '?z=2&y=1', '//o/p?c=3&b=2&a=1#b&a', '%s://o:%d/?t=2&t=1' % (name.upper(), port), '../?b=1&a=2'):
			add('%s://a/b/c?b=1&a=2' % name, r)
	# -- (16) white space, NUL, CR LF, separators and '=' padding as DATA at the edges of every component (hundreds of cheap references)
	for oi, e in enumerate(WS_OCT):
		for ti, tpl in enumerate(WS_TPLS):
			for bi, b in enumerate(WS_BASES):
				if big or (bi == 0 and (oi + ti) % 2 == 0) or (bi == 1 and (oi + ti) % 5 == 1):
					add(b, tpl.replace('%s', e))
	for e in WS_QUERY_OCT:
		for tpl in WS_QTPLS:
			if set(U.parse5(tpl.replace('%s', e))[3]) <= set('&='):
				continue   # a query of form separators only: known finding D20e, see SEP_ONLY_REFS
			add(BASE, tpl.replace('%s', e), qany=True)
			if big:
				add(WS_BASES[1], tpl.replace('%s', e), qany=True)
	for b in ('http://a/b%20', 'http://a/%20b/c', 'http://a/b/%0D%0A', 'http://a/b/c%09/', 'http://u%20:%20p@a/%00/x%00', 'http://a/%C2%A0/%E3%80%80/d', 'http://a/b/YQ%3D%3D'):
		for r in ('', 'g', '.', '..', '../g', './g%20', '/g', '?y', '#%20', '#s', '%20', '%0A/..', 'g/../..'):
			add(b, r)
	pieces = WS_OCT + ['g', 'h', 'x', '.', '..', 'a=b', ';', 'YQ']
	for _ in range(150 * mul):
		seg = lambda: ''.join(rng.choice(pieces) for _i in range(rng.randint(1, 3)))
		r = rng.choice(['', '', '/', '//o/', 'z://o/', '../', './']) + '/'.join(seg() for _i in range(rng.randint(1, 3)))
		if rng.random() < 0.3:
			r += '?' + rng.choice(QORDER)
		if rng.random() < 0.5:
			r += '#' + seg()
		add(rng.choice(WS_BASES + BASES[:4]), r)
	# -- (17) lengths 2^k and 2^k +- 1 (k = 9..16) that the earlier limit list does not have, in every length-carrying position
	for n in LIMITS5:
		nocoq = n > COQ_MAX
		refs = ['g' * n, '?' + 'y' * n, '#' + 's' * n, 'g/' * (n // 2) + 'g' * (n % 2), '../' * (n // 3) + 'g' * (n % 3), '/' + 'g' * (n - 1), '%41' * (n // 3) + 'A' * (n % 3), '#' + '%C3%A4' * (n // 6) + 's' * (n % 6),
			'//' + 'u' * n + '@o/x', 'g;' + 'x' * (n - 2), '?' + '&'.join(['b=1', 'a=2'] * (n // 8)) + '&' * 0 + 'c' * (n % 8), 'g?' + 'y' * n + '#' + 's' * n]
		bases = [('http://a/' + 'b' * (n - 1), '../g'), ('http://a/' + 'b/' * (n // 2), '../g?z&y'), ('http://a/b?' + 'q' * n, '#s'), ('http://a/b?' + '&'.join(['b=1', 'a=2'] * (n // 8)), ''),
			('http://a/' + 'b' * (n - 1) + '?q', '/' + 'b' * (n - 1))]
		if n > 4096 and not big:   # the quick tier rotates the positions over the nine longest lengths
			refs = [refs[n % 3]] + refs[(n % 5) + 3:(n % 5) + 5]
			bases = [bases[n % 4], bases[4]]
		for r in refs:
			add(BASE, r, nocoq=nocoq)
		for b, r in bases:
			add(b, r, nocoq=nocoq)
	# -- (15) construction order: the base (and the reference object) built by attribute assignment in every order, partly through the constructor,
	#    (11) and from every argument type the constructor takes; against the RFC result and a base built from the text
	pool = [c['ref'] for c in cases if not c.get('qany') and len(c['ref']) < 200] + [r for r, _ in U.RFC54] + SPECIAL_REFS
	for n in range(350 * mul):
		how = rng.choice(['attrs', 'attrs', 'mixed', 'str', 'bytessub', 'strsub', 'odict', 'revdict', 'namedtuple', 'partdict', 'posargs'])
		kw = {'bhow': [how, _perm(rng), rng.randint(0, 8)]}
		if n % 2:
			kw['rperm'] = [_perm(rng), rng.randint(0, 8)]
		if n % 5 == 0:
			kw['pre'] = _pre(rng)
		add(rng.choice(BASES + OWN_BASES + ORDER_BASES), rng.choice(pool), **kw)
	# -- (15) one resolution after the other: each result is the base of the next reference; against the RFC algorithm applied step by step
	alpha = CHAIN_SEGS
	for n in range(500 * mul):
		refs = []
		for i in range(rng.randint(2, 4)):
			r = rng.choice(['', '', '', '/', '//o/', '//u:p@O:80/', 'z://o/', 'HTTPS://Z:443/']) + U.rpath(rng, 0, 3, alpha)
			if r.endswith(('/..', '/.')) and rng.random() < 0.5:
				r += '/'
			if '//' in r.replace('://', ':').lstrip('/') or r.startswith('///'):
				continue
			r += rng.choice(['', '', '?y', '?' + rng.choice(QORDER), '?k=v'])
			refs.append(r)
		if not refs:
			refs = ['g']
		refs[-1] += rng.choice(['', '#s', '#b&a', ''])
		cases.append({'k': 'chain', 'base': rng.choice(BASES + OWN_BASES[:8] + ORDER_BASES), 'refs': refs})
	# -- (12) refused operations (a reference the parser refuses, an argument of a type or shape the constructor refuses, a setter that refuses its value)
	#    between joins on one base object: the object stays what it was, the next join is the RFC's and that of an object that never saw the refusal
	for n in range(450 * mul):
		ops = []
		for _i in range(rng.randint(2, 6)):
			x = rng.random()
			if x < 0.3:
				ops.append(['badjoin', {'text': rng.choice(REFUSED_REFS)}, rng.choice(['bytes', 'str'])])
			elif x < 0.5:
				ops.append(['badjoin', dict(rng.choice(REFUSED_ARGS), ref=rng.choice(['g', '../g?y', '#s', '//o/x'])), 'arg'])
			elif x < 0.7:
				ops.append(['badset'] + rng.choice(REFUSED_SETS))
			elif x < 0.78:
				ops.append(['set', rng.choice([['path', '/x/y'], ['query_string', 'b&a'], ['fragment', ''], ['host', 'o'], ['port', 8080], ['username', 'u']])])
			else:
				ops.append(['join', rng.choice(['', '', '/', '//o/']) + U.rpath(rng, 0, 3, alpha) + rng.choice(['', '?y', '?b&a', '#s'])])
		ops.append(['join', rng.choice(['g', '../g', '?b&a', '#s', '', '/g', '//o/x?z&y'])])
		cases.append({'k': 'refuse', 'base': rng.choice(BASES + OWN_BASES[:6] + ORDER_BASES[:3]), 'ops': ops})
	for spec in REFUSED_REFS:
		cases.append({'k': 'refuse', 'base': BASE, 'ops': [['badjoin', {'text': spec}, 'bytes'], ['badjoin', {'text': spec}, 'str'], ['join', '../g?b&a#s']]})
	for spec in REFUSED_ARGS:
		cases.append({'k': 'refuse', 'base': BASE, 'ops': [['badjoin', dict(spec, ref='../g?y#s'), 'arg'], ['join', '../g?b&a#s']]})
	for spec in REFUSED_SETS:
		cases.append({'k': 'refuse', 'base': 'http://a/b/c/d?page=2&lang=de', 'ops': [['badset'] + spec, ['join', ''], ['join', 'g']]})
	# -- (13) the charset knob URI.encoding (assigned on the class URI, and as attribute of a registered subclass) with non-ASCII octets in every
	#    component of the base and of the reference: the octets of the result are those of the RFC result, its text is their decoding in that charset
	for enc in KNOB_ENCODINGS:
		for bi, b in enumerate(KNOB_BASES):
			for oi, e in enumerate(KNOB_OCT):
				for ti, tpl in enumerate(KNOB_TPLS):
					if big or (oi + ti + bi) % 4 == 0:
						cases.append({'k': 'knob', 'enc': enc, 'mode': 'class', 'base': b, 'ref': tpl.replace('%s', e)})
		for b in ('x-l1://a/b/%E4/d?k=%FC', 'x-l1://u%F6@a/%DF/'):
			for r in ('g', '../g', '.', '?z&y', '#s', '', '/g/h', '//o/x', 'g;x?b&a#s'):
				cases.append({'k': 'knob', 'enc': enc, 'mode': 'subclass', 'base': b, 'ref': r})
	return cases


def _ro(u, name, target='self'):
	"""one read-only use of u (or of a copy of u); whatever it answers or raises is not this property's business, what it leaves behind is"""
	import copy
	x = u
	if target == 'copy':
		x = type(u)(u)
	elif target == 'copycopy':
		x = copy.copy(u)
	try:
		if name == 'repr':
			repr(x)
		elif name == 'str':
			str(x)
		elif name == 'bytes':
			bytes(x)
		elif name == 'hash':
			hash(x)
		elif name == 'bool':
			bool(x)
		elif name == 'len':
			len(x)
		elif name == 'iter':
			list(iter(x))
		elif name == 'in':
			'a' in x
		elif name == 'dict':
			dict(x)
		elif name == 'sorted':
			sorted([x, u])
		elif name == 'format':
			format(x)
		elif name == 'copy':
			copy.copy(x)
		elif name == 'deepcopy':
			copy.deepcopy(x)
		elif name == 'eq':
			x == u
			u == type(u)(u)
		elif name == 'ne':
			x != u
			u != type(u)(u)
		elif name == 'eqtext':
			x == b'http://example.com/a/../b'
			u'HTTP://h/' == x
		elif name == 'netext':
			x != b'http://example.com/a/../b'
			u'HTTP://h/' != x
		elif name == 'le':
			x <= u
		elif name == 'ge':
			x >= u
		elif name == 'attrs':
			for a in ('scheme', 'username', 'password', 'host', 'hostname', 'port', 'path', 'path_segments', 'query_string', 'query', 'fragment', 'tuple', 'dict', 'PORT', 'encoding', 'slots'):
				getattr(x, a)
		elif name == 'tupleattr':
			x.tuple
		elif name == 'dictattr':
			x.dict
		elif name == 'segments':
			x.path_segments
		elif name == 'query':
			x.query
		elif name == 'hostname':
			x.hostname
		elif name == 'portattr':
			x.port
		elif name == 'composeiter':
			list(x._compose_absolute_iter())
		elif name == 'joinself':
			x.join(b'../other?a:b#c')   # join itself reads its base
		else:
			raise KeyError('harness: unknown observer %r' % (name,))
	except KeyError:
		raise
	except Exception:
		pass


def _rebuild(x, how, rng_free_text=None):
	"""the same URI through another construction path"""
	import copy
	C = U.classes()
	if isinstance(how, list):   # fifth wave: [path, order of the attributes, how many of them go through the constructor]
		import collections
		how, perm, k = how
		if how == 'attrs':
			return _attr_build(C, x.tuple, perm, 0)
		if how == 'mixed':
			return _attr_build(C, x.tuple, perm, k)
		if how == 'str':
			return C['URI'](rng_free_text.decode('utf-8'))
		if how == 'bytessub':
			return C['URI'](_helper('B')(rng_free_text))
		if how == 'strsub':
			return C['URI'](_helper('S')(rng_free_text.decode('utf-8')))
		if how == 'odict':
			return C['URI'](collections.OrderedDict(x.dict))
		if how == 'revdict':
			return C['URI'](dict(reversed(list(x.dict.items()))))
		if how == 'namedtuple':
			return C['URI'](_helper('Parts')(*x.tuple))
		if how == 'partdict':
			return C['URI'](dict((key, v) for key, v in x.dict.items() if v))
		if how == 'posargs':
			return C['URI'](None, *x.tuple)
		raise KeyError('harness: unknown construction %r' % (how,))
	if how == 'copy':
		return type(x)(x)
	if how == 'retuple':
		return C['URI'](x.tuple)
	if how == 'redict':
		return C['URI'](x.dict)
	if how == 'kwargs':
		return C['URI'](**x.dict)
	if how == 'copycopy':
		return copy.copy(x)
	if how == 'deepcopy':
		return copy.deepcopy(x)
	if how == 'setfrom':
		y = C['URI']()
		y.set(x)
		return y
	if how == 'class':
		return type(x)(rng_free_text)
	if how == 'otherclass':
		names = sorted(n for n in C if n != 'URI' and C[n] is not type(x))
		return C[names[len(rng_free_text) % len(names)]](rng_free_text)
	raise KeyError('harness: unknown construction %r' % (how,))


# ---------------------------------------------------------------- observation

def _mk(spec):
	C = U.classes()
	if isinstance(spec, str):
		return C['URI'](spec.encode('utf-8'))
	if 'text' in spec:
		return C['URI'](spec['text'].encode('utf-8'))
	return C[spec['cls']](tuple(spec['t']))


def observe(c):
	k = c['k']
	if k == 'rfc54':
		return {'t': list(U.rfc_resolve(U.parse5(U.RFC54_BASE), U.parse5(c['ref'])))}
	if k == 'resolve':
		return {'t': list(U.rfc_resolve(U.parse5(c['base']), U.parse5(c['ref'])))}
	if k == 'seq':
		try:
			return _obs_seq(c)
		except Exception as exc:
			return {'err': U.exc_name(exc), 'msg': str(exc)[:200]}
	if k in ('chain', 'refuse', 'knob'):
		try:
			return {'chain': _obs_chain, 'refuse': _obs_refuse, 'knob': _obs_knob}[k](c)
		except Exception as exc:
			return {'err': U.exc_name(exc), 'msg': str(exc)[:200]}
	try:
		base = _mk(c['base'])
		if c.get('bhow'):
			base = _rebuild(base, c['bhow'], c['base'].encode('utf-8') if isinstance(c['base'], str) else None)
		if c.get('pre'):
			base0 = U.state(base)
			for name, target in c['pre']:
				_ro(base, name, target)
		o = {'base': U.state(base)}
		if c.get('pre'):
			o['base0'] = base0
		ref = c['ref'].encode('utf-8')
		try:
			rel = U.classes()['URI'](ref)
		except Exception as exc:
			return {'err': 'ref:' + U.exc_name(exc), 'msg': str(exc)[:200]}
		o['rel'] = U.state(rel)
		j = base.join(ref)
		o['out'] = U.state(j)
		o['pub'] = U.public(j)
		o['after'] = U.state(base)   # join must not modify the base
		o['qc'] = _qcanon(c)
		o['alt'] = _alt_joins(base, c['ref'], j, c.get('pre'))
		if c.get('pre') or c.get('bhow'):
			fresh = _mk(c['base'])   # never looked at, built the plain way
			o['fresh'] = U.state(fresh.join(ref))
		if base_in_domain(c['base']):
			o['cmp'] = _cmp_result(c, o, j)
		if 'w5' in c:
			o['types'] = _type_joins(base, c)
			if c.get('al'):
				o['alias'] = _alias(base, c)
		return o
	except Exception as exc:
		return {'err': U.exc_name(exc), 'msg': str(exc)[:200]}


def _cmp_result(c, o, j):
	"""the result against a URI object built from the expected components (and from its own components), through == and != in both orders"""
	C = U.classes()
	want = expected(U.rfc_resolve(U.parse5(c['base']), U.parse5(c['ref'])), _qcanon(c))
	out = {}
	for name, t in (('want', want), ('own', list(o['pub']))):
		try:
			w = C['URI'](tuple(t))
			out[name] = [_b(lambda: j == w), _b(lambda: j != w), _b(lambda: w == j), _b(lambda: w != j)]
		except Exception as exc:   # the expected components are not accepted by the constructor (port out of range ...): nothing to compare with
			out[name] = 'n/a:%s' % type(exc).__name__
	return out


def _b(f):
	try:
		r = f()
	except TypeError:
		return 'TypeError'
	return r if isinstance(r, bool) else repr(r)


def _qcanon(c):
	"""canonical spelling of a query that carries percent-encoded octets or '+', as URI.parse stores it (the form-urlencoded
	re-encoding of the query belongs to the component property); queries without them are expected verbatim"""
	out = {}
	qs = [U.parse5(c['ref'])[3]]
	if isinstance(c['base'], str):
		qs.append(U.parse5(c['base'])[3])
	for q in qs:
		if q and ('%' in q or '+' in q or c.get('qany')):
			out[q] = U.classes()['URI'](b'http://x/?' + q.encode('utf-8')).query_string
	return out


def _refarg(way, ref):
	C = U.classes()
	if way == 'bytes':
		return (ref.encode('utf-8'),), {}, None
	if way == 'str':
		return (ref,), {}, None
	r = C['URI'](ref.encode('utf-8'))
	if way == 'obj':
		return (r,), {}, r
	if way == 'tuple':
		return (r.tuple,), {}, None
	if way == 'dict':
		return (), dict(r.dict), None
	raise ValueError(way)


def _alt_joins(base, ref, j, pre=None):
	"""the same reference handed over in every form join() accepts; the base object is reused"""
	out = {'ident': j is base}
	for way in ('str', 'obj', 'tuple', 'dict', 'bytes'):
		try:
			args, kw, robj = _refarg(way, ref)
			before = U.state(robj) if robj is not None else None
			if robj is not None and pre:
				for name, target in pre:   # the reference object is looked at before it is handed over
					_ro(robj, name, target)
				if U.state(robj) != before:
					out[way] = {'err': 'observer', 'msg': 'the read-only uses %r changed the reference object: %r became %r' % (pre, before, U.state(robj))}
					continue
			jj = base.join(*args, **kw)
			out[way] = {'out': U.state(jj), 'pub': U.public(jj), 'ident': jj is base or jj is robj, 'refsame': before is None or U.state(robj) == before}
		except Exception as exc:
			out[way] = {'err': U.exc_name(exc), 'msg': str(exc)[:200]}
	out['after'] = U.state(base)
	return out


def _obs_seq(c):
	C = U.classes()
	base = _mk(c['base'])
	steps = []
	last = None
	for op in c['ops']:
		w = op[0]
		if w == 'join':
			before = U.state(base)
			fresh = C['URI'](tuple(base.tuple))
			rel = C['URI'](op[1].encode('utf-8'))
			args, kw, robj = _refarg(op[2], op[1])
			j = base.join(*args, **kw)
			jf = fresh.join(op[1].encode('utf-8'))
			steps.append({'b': before, 'rel': U.state(rel), 'out': U.state(j), 'fout': U.state(jf), 'after': U.state(base), 'ident': j is base or j is robj,
				'refsame': robj is None or U.state(robj) == U.state(rel)})
			last = j
		elif w == 'obs':
			before = U.state(base)
			_ro(base, op[1], op[2])
			if U.state(base) != before:
				return {'observer_changed': [op, before, U.state(base)], 'steps': steps}
		elif w == 'chain':
			if last is not None:
				base = last
		elif w == 'use':
			if op[1] == 'normalize':
				base.normalize()
			elif op[1] == 'abspath':
				base.abspath()
			elif op[1] == 'compose':
				try:
					bytes(base)
				except Exception:
					pass
			else:
				bool(base == type(base)(base))
		elif w == 'set':
			if op[1] == 'tuple':
				base.tuple = tuple(op[2])
			elif op[1] == 'parse':
				base.parse(op[2].encode('ascii'))
			elif op[1] == 'path_segments':
				base.path_segments = list(op[2])
			else:
				setattr(base, op[1], op[2])
		else:
			raise ValueError(w)
	return {'steps': steps}


# ---------------------------------------------------------------- fifth wave: observation helpers

def _text_of(w):
	"""a normalised URI text from eight expected components (scheme://[user[:password]@]host[:port]path[?query]); no fragment"""
	s, user, pw, host, port, path, q = w[0], w[1], w[2], w[3], w[4], w[5], w[6]
	out = s + '://'
	if user:
		out += user + (':' + pw if pw else '') + '@'
	out += host
	if port and port != U.DEFAULT_PORTS.get(s):
		out += ':%d' % port
	out += path
	if q:
		out += '?' + q
	return out


class _StrObj(object):
	def __init__(self, text):
		self.text = text

	def __str__(self):
		return self.text

	def __bytes__(self):
		return self.text.encode('utf-8')


def _attr_build(C, t, perm, k=0):
	"""a URI with the slots t: the first k names of perm go through the constructor, the others are assigned one by one in the order of perm"""
	names = ['scheme', 'username', 'password', 'host', 'port', 'path', 'query_string', 'fragment']
	val = dict(zip(names, t))
	first = dict((n, val[n]) for n in perm[:k])
	y = C['URI'](**first) if first else C['URI']()
	for n in perm[k:]:
		setattr(y, n, val[n])
	return y


_HELPER = {}


def _helper(name):
	import collections
	if not _HELPER:
		_HELPER['B'] = type('B', (bytes,), {})
		_HELPER['S'] = type('S', (str,), {})
		_HELPER['Parts'] = collections.namedtuple('Parts', 'scheme username password host port path query_string fragment')
		_HELPER['Sub'] = type('Sub', (U.classes()['URI'],), {'__slots__': ()})
	return _HELPER[name]


def _typed_arg(C, kind, ref, perm=None, k=0, r=None):
	"""the reference `ref` handed over as an object of another type: (args, kwargs, must_be_accepted, argument object, snapshot function)"""
	import collections
	import itertools
	r = r or C['URI'](ref.encode('utf-8'))
	t = r.tuple
	raw = ref.encode('utf-8')
	none = lambda: None
	if kind == 'bytessub':
		x = _helper('B')(raw)
		return (x,), {}, True, x, lambda: bytes(x)
	if kind == 'strsub':
		x = _helper('S')(ref)
		return (x,), {}, True, x, lambda: str(x)
	if kind == 'bytearray':
		x = bytearray(raw)
		return (x,), {}, False, x, lambda: bytes(x)
	if kind == 'memoryview':
		x = memoryview(raw)
		return (x,), {}, False, x, lambda: bytes(x)
	if kind == 'strobj':
		x = _StrObj(ref)
		return (x,), {}, False, x, lambda: x.text
	if kind == 'namedtuple':
		x = _helper('Parts')(*t)
		return (x,), {}, True, x, lambda: tuple(x)
	if kind == 'list':
		x = list(t)
		return (x,), {}, False, x, lambda: list(x)
	if kind == 'iter':
		return (iter(t),), {}, False, None, none
	if kind == 'gen':
		return ((v for v in t),), {}, False, None, none
	if kind == 'map':
		return (map(lambda v: v, t),), {}, False, None, none
	if kind == 'chain':
		return (itertools.chain(t[:3], t[3:]),), {}, False, None, none
	if kind == 'odict':
		x = collections.OrderedDict(r.dict)
		return (x,), {}, True, x, lambda: list(x.items())
	if kind == 'revdict':
		x = dict(reversed(list(r.dict.items())))
		return (x,), {}, True, x, lambda: list(x.items())
	if kind == 'partdict':   # only the components the reference has; a missing key is an undefined component
		x = dict((key, v) for key, v in r.dict.items() if v)
		return ((x,), {}, True, x, lambda: list(x.items())) if x else ((), {}, True, None, none)
	if kind == 'kwpart':
		x = dict((key, v) for key, v in r.dict.items() if v)
		return (), x, True, x, lambda: list(x.items())
	if kind == 'posargs':    # join(None, scheme, username, ..., fragment)
		return (None,) + tuple(t), {}, True, None, none
	if kind == 'urisub':
		x = _helper('Sub')(r)
		return (x,), {}, True, x, lambda: U.state(x)
	if kind == 'objperm':
		x = _attr_build(C, t, perm or ['fragment', 'query_string', 'path', 'port', 'host', 'password', 'username', 'scheme'], k)
		return (x,), {}, True, x, lambda: U.state(x)
	if kind in ('int', 'float', 'set', 'object'):
		x = {'int': 5, 'float': 1.5, 'set': set(['g']), 'object': object()}[kind]
		return (x,), {}, False, None, none
	raise KeyError('harness: unknown argument type %r' % (kind,))


TYPE_KINDS = ['bytessub', 'strsub', 'bytearray', 'memoryview', 'strobj', 'namedtuple', 'list', 'iter', 'gen', 'map', 'chain', 'odict', 'revdict', 'partdict', 'kwpart', 'posargs', 'urisub', 'objperm']


def _type_joins(base, c):
	"""(11) the reference in every other argument type; a type join() does not take may be refused (TypeError), never answered differently"""
	C = U.classes()
	out = {}
	rperm = c.get('rperm') or [None, 0]
	r = C['URI'](c['ref'].encode('utf-8'))
	for kind in TYPE_KINDS[c['w5'] % 6::6]:
		try:
			args, kw, must, obj, snap = _typed_arg(C, kind, c['ref'], rperm[0], rperm[1], r)
		except Exception as exc:   # the argument object itself cannot be built (the constructor path refuses the slots of this reference)
			out[kind] = {'skip': '%s: %s' % (type(exc).__name__, str(exc)[:100])}
			continue
		before = snap()
		try:
			jj = base.join(*args, **kw)
			out[kind] = {'out': U.state(jj), 'pub': U.public(jj), 'ident': jj is base or jj is obj, 'must': must, 'argsame': snap() == before}
		except TypeError as exc:
			out[kind] = {'refused': 'TypeError', 'msg': str(exc)[:120], 'must': must, 'argsame': snap() == before}
		except Exception as exc:
			out[kind] = {'err': U.exc_name(exc), 'msg': str(exc)[:120], 'must': must}
	out['after'] = U.state(base)
	return out


def _mutate_all(j, light=False):
	"""every public way of changing a URI object (light: the plain attributes only)"""
	if light:
		for name, v in (('path', '/m/n'), ('query_string', 'm=1'), ('fragment', 'm'), ('host', 'm.example'), ('port', 81), ('username', 'm'), ('password', 'n'), ('scheme', 'ftp')):
			try:
				setattr(j, name, v)
			except Exception:
				pass
		return
	for f in (lambda: setattr(j, 'path', '/m/n'), lambda: setattr(j, 'query_string', 'm=1'), lambda: setattr(j, 'query', [('n', '2'), ('m', '1')]), lambda: setattr(j, 'fragment', 'm'), lambda: setattr(j, 'host', 'm.example'),
			lambda: setattr(j, 'port', 81), lambda: setattr(j, 'username', 'm'), lambda: setattr(j, 'password', 'n'), lambda: setattr(j, 'path_segments', ['', 'm', '']), lambda: j.normalize(), lambda: j.abspath(),
			lambda: setattr(j, 'scheme', 'ftp'), lambda: j.parse(b'ftp://m/m?m#m'), lambda: setattr(j, 'tuple', ('https', 'm', 'm', 'm', 82, '/m', 'm', 'm')), lambda: setattr(j, 'dict', {'scheme': 'http', 'host': 'mm', 'path': '/mm'}),
			lambda: j.set(b'x-y://m/')):
		try:
			f()
		except Exception:
			pass


def _alias(base, c):
	"""(10) results, bases and arguments built from one another share no state: change one in every public way, the others stay what they were"""
	C = U.classes()
	ref = c['ref'].encode('utf-8')
	out = {}
	b0 = U.state(base)
	R = C['URI'](ref)
	r0 = U.state(R)
	j = base.join(R)
	first = U.state(j)
	_mutate_all(j)
	out['mut_result'] = {'base': U.state(base) == b0, 'ref': U.state(R) == r0, 'again': U.state(base.join(R)) == first, 'again_bytes': U.state(base.join(ref)) == first}
	j = base.join(R)
	_mutate_all(R)
	out['mut_ref'] = {'base': U.state(base) == b0, 'result': U.state(j) == first, 'again_bytes': U.state(base.join(ref)) == first}
	D = dict(C['URI'](ref).dict)
	D0 = list(D.items())
	j = base.join(D)
	_mutate_all(j)
	out['mut_dict_result'] = {'dict': list(D.items()) == D0, 'base': U.state(base) == b0, 'again': U.state(base.join(D)) == first}
	# objects built from the base (and the base's own parts as arguments): changing them does not change the base
	BD = base.dict
	BD0 = list(BD.items())
	for name, mk in (('copy', lambda: type(base)(base)), ('uricopy', lambda: C['URI'](base)), ('tuple', lambda: C['URI'](base.tuple)), ('dict', lambda: C['URI'](BD)), ('kwargs', lambda: C['URI'](**BD))):
		try:
			b2 = mk()
			same = U.state(b2.join(ref)) == first
			_mutate_all(b2, name != 'copy')
			out['from_base_' + name] = {'base': U.state(base) == b0, 'dict': list(BD.items()) == BD0, 'same': same, 'again_bytes': U.state(base.join(ref)) == first}
		except Exception as exc:
			out['from_base_' + name] = {'err': U.exc_name(exc), 'msg': str(exc)[:120]}
	return out


def _obs_chain(c):
	base = _mk(c['base'])
	steps = []
	for r in c['refs']:
		before = U.state(base)
		rel = U.classes()['URI'](r.encode('utf-8'))
		j = base.join(r.encode('utf-8'))
		steps.append({'b': before, 'rel': U.state(rel), 'out': U.state(j), 'pub': U.public(j), 'after': U.state(base), 'ident': j is base})
		base = j
	return {'steps': steps}


def _bad_arg(C, spec):
	if 'text' in spec:
		return spec['text']
	if 'tuple' in spec:
		return tuple(spec['tuple'])
	if 'dict' in spec:
		return dict(spec['dict'])
	return _typed_arg(C, spec['type'], spec['ref'])[0][0]


def _apply_set(u, field, value):
	if field == 'tuple':
		u.tuple = tuple(value)
	elif field == 'parse':
		u.parse(value.encode('utf-8'))
	elif field == 'parsestr':
		u.parse(value)
	elif field == 'set':
		u.set(value)
	elif field == 'setbytes':
		u.set(value.encode('utf-8'))
	elif field == 'query':
		u.query = [tuple(p) for p in value] if isinstance(value, list) else value
	else:
		setattr(u, field, value)


def _obs_refuse(c):
	"""(12) refused operations between joins; `twin` is an object of the same construction on which no refused operation is ever made"""
	C = U.classes()
	base = _mk(c['base'])
	twin = _mk(c['base'])
	steps = []
	for op in c['ops']:
		w = op[0]
		before = U.state(base)
		if w == 'badjoin':
			arg = _bad_arg(C, op[1])
			if op[2] == 'bytes':
				arg = arg.encode('utf-8')
			st = {'op': op, 'b': before}
			try:
				jj = base.join(arg)
				st['returned'] = U.public(jj)
			except Exception as exc:
				st['raised'] = type(exc).__name__
			st['after'] = U.state(base)
			steps.append(st)
		elif w == 'badset':
			st = {'op': op, 'b': before}
			try:
				_apply_set(base, op[1], op[2])
				st['returned'] = None
			except Exception as exc:
				st['raised'] = type(exc).__name__
			st['after'] = U.state(base)
			steps.append(st)
		elif w == 'set':
			_apply_set(base, op[1][0], op[1][1])
			_apply_set(twin, op[1][0], op[1][1])
		elif w == 'join':
			ref = op[1].encode('utf-8')
			rel = C['URI'](ref)
			j = base.join(ref)
			jt = twin.join(ref)
			steps.append({'op': op, 'b': before, 'bpub': U.public(base), 'rel': U.state(rel), 'out': U.state(j), 'pub': U.public(j), 'tout': U.state(jt), 'twin': U.state(twin), 'after': U.state(base), 'ident': j is base})
		else:
			raise ValueError(w)
	return {'steps': steps}


def _unq_octets(text):
	"""percent-decoded octets of an ASCII URI text (RFC 3986 2.1)"""
	raw = text if isinstance(text, bytes) else text.encode('ascii')
	out = bytearray()
	i = 0
	hexd = b'0123456789abcdefABCDEF'
	while i < len(raw):
		if raw[i] == 0x25 and len(raw) - i >= 3 and raw[i + 1] in hexd and raw[i + 2] in hexd:
			out.append(int(raw[i + 1:i + 3], 16))
			i += 3
		else:
			out.append(raw[i])
			i += 1
	return bytes(out)


def _form_respell(q):
	"""a query of '&'-separated name[=value] tokens of unreserved characters and percent-encoded octets, spelled canonically: unreserved
	characters literally, a space as '+', every other octet as upper-case %XX (written from the form-urlencoded rules; the order of the pairs stays)"""
	def tok(t):
		out = ''
		for o in _unq_octets(t.replace('+', ' ')):
			ch = chr(o)
			if ch.isalnum() and o < 128 or ch in '-._~':
				out += ch
			elif ch == ' ':
				out += '+'
			else:
				out += '%%%02X' % o
		return out
	return '&'.join('='.join(tok(t) for t in pair.split('=', 1)) for pair in q.split('&'))


def _obs_knob(c):
	"""(13) URI.encoding assigned on the class / given by a registered subclass, restored afterwards"""
	C = U.classes()
	URI = C['URI']
	enc = c['enc']
	ref = c['ref'].encode('ascii')
	o = {}
	if c['mode'] == 'class':
		had = 'encoding' in URI.__dict__
		old = URI.__dict__.get('encoding')
		URI.encoding = enc
		try:
			base = URI(c['base'].encode('ascii'))
			o['base'] = U.state(base)
			rel = URI(ref)
			o['rel'] = U.state(rel)
			j = base.join(ref)
			o['out'] = U.state(j)
			o['pub'] = U.public(j)
			o['wire'] = bytes(j).decode('ascii')
			o['after'] = U.state(base)
			alt = {}
			for way in ('str', 'obj', 'tuple', 'dict'):
				args, kw, _robj = _refarg(way, c['ref'])
				jj = base.join(*args, **kw)
				alt[way] = {'out': U.state(jj), 'wire': bytes(jj).decode('ascii')}
			o['alt'] = alt
		finally:
			if had:
				URI.encoding = old
			else:
				del URI.encoding
		o['restored'] = URI.encoding
		return o
	sub = type('L1', (URI,), {'__slots__': (), 'SCHEME': b'x-l1', 'PORT': None, 'encoding': enc})
	try:
		base = URI(c['base'].encode('ascii'))
		o['cls'] = type(base) is sub
		o['base'] = U.state(base)
		o['rel'] = U.state(URI(ref))
		j = base.join(ref)
		o['out'] = U.state(j)
		o['pub'] = U.public(j)
		o['wire'] = bytes(j).decode('ascii')
		o['after'] = U.state(base)
		o['rcls'] = type(j).__name__
	finally:
		URI.SCHEMES.pop(b'x-l1', None)
	return o


def _oracle_w5(c, o, want):
	"""(10) (11) on a join case of the fifth wave"""
	ty = o.get('types')
	if ty:
		for kind in TYPE_KINDS[c['w5'] % 6::6]:
			a = ty[kind]
			if 'skip' in a:
				continue
			if 'err' in a:
				return 'join(%r, reference %r given as %s) raised: %s' % (c['base'], c['ref'], kind, a)
			if 'refused' in a:
				if a['must']:
					return 'join(%r, reference %r given as %s) is refused: %s' % (c['base'], c['ref'], kind, a)
			else:
				for name, g, w in zip(NAMES, a['pub'], want):
					if g != w:
						return 'join(%r, reference %r given as %s) %s: got %r, RFC 3986 5.2.2 + normalisation gives %r (result %r, expected %r)' % (c['base'], c['ref'], kind, name, g, w, a['pub'], want)
				if a['out'] != o['out']:
					return 'join(%r, reference %r given as %s) differs from the result for the reference given as bytes: %r vs %r' % (c['base'], c['ref'], kind, a['out'], o['out'])
				if a['ident']:
					return 'join(%r, reference %r given as %s) returned one of its arguments' % (c['base'], c['ref'], kind)
			if not a['argsame']:
				return 'join(%r, reference %r given as %s) modified its argument' % (c['base'], c['ref'], kind)
		if ty['after'] != o['base']:
			return 'join modified the base URI (reference %r given as objects of other types)' % (c['ref'],)
	al = o.get('alias')
	if al:
		for what, d in sorted(al.items()):
			if 'err' in d:
				return 'join(%r, %r): building an object from the base (%s) raised: %s' % (c['base'], c['ref'], what, d)
			for name, ok in sorted(d.items()):
				if ok is not True:
					return 'join(%r, %r) shared state (%s): after changing the other object in every public way, %r is no longer what it was' % (c['base'], c['ref'], what, name)
	return None


def _oracle_chain(c, o):
	if 'err' in o:
		return 'unexpected exception %s' % (o,)
	btext = c['base']
	for n, (r, st) in enumerate(zip(c['refs'], o['steps'])):
		if not base_in_domain(btext):
			return None   # the previous result is not a normalised absolute URI without fragment: out of the domain from here on
		if st['after'] != st['b'] or st['ident']:
			return 'join modified or returned the base URI (step %d of the chain %r on %r)' % (n, c['refs'], c['base'])
		want = expected(U.rfc_resolve(U.parse5(btext), U.parse5(r)))
		for name, g, w in zip(NAMES, st['pub'], want):
			if g != w:
				return 'join(%r, %r) (step %d of the chain %r on %r) %s: got %r, RFC 3986 5.2.2 + normalisation gives %r (result %r, expected %r)' % (btext, r, n, c['refs'], c['base'], name, g, w, st['pub'], want)
		if want[7]:
			return None
		btext = _text_of(want)
	return None


def _oracle_refuse(c, o):
	if 'err' in o:
		return 'unexpected exception %s' % (o,)
	for n, st in enumerate(o['steps']):
		op = st['op']
		if st['after'] != st['b']:
			return '%s changed the base URI (step %d of %r on %r): %r became %r' % ('the refused operation %r' % (op,) if 'raised' in st else 'the operation %r' % (op,), n, c['ops'], c['base'], st['b'], st['after'])
		if op[0] != 'join':
			continue
		if st['ident']:
			return 'join returned the base URI (step %d of %r on %r)' % (n, c['ops'], c['base'])
		if st['out'] != st['tout']:
			return 'join after refused operations (step %d of %r on %r) gives %r, an object of the same construction that never saw a refused operation gives %r' % (n, c['ops'], c['base'], st['out'], st['tout'])
		bp = st['bpub']
		if bp[7] or '%' in ''.join(x for x in bp if isinstance(x, str)):
			continue
		btext = _text_of(bp)
		if not base_in_domain(btext):
			continue
		want = expected(U.rfc_resolve(U.parse5(btext), U.parse5(op[1])))
		for name, g, w in zip(NAMES, st['pub'], want):
			if g != w:
				return 'join(%r, %r) after refused operations (step %d of %r on %r) %s: got %r, RFC 3986 5.2.2 + normalisation gives %r' % (btext, op[1], n, c['ops'], c['base'], name, g, w)
	return None


def _oracle_knob(c, o):
	if 'err' in o:
		return 'join raised with URI.encoding = %r (%s): %s' % (c['enc'], c['mode'], o)
	if c['mode'] == 'class' and o['restored'] != 'UTF-8':
		return 'harness: URI.encoding not restored (%r)' % (o['restored'],)
	if c['mode'] == 'subclass' and not o['cls']:
		return 'harness: the registered subclass was not picked for %r' % (c['base'],)
	if o['after'] != o['base']:
		return 'join modified the base URI'
	enc = c['enc']
	t = U.rfc_resolve(U.parse5(c['base']), U.parse5(c['ref']))
	qc = dict((q, _form_respell(q)) for q in (U.parse5(c['base'])[3], U.parse5(c['ref'])[3]) if q)
	want = expected(t, qc, enc)
	for name, g, w in zip(NAMES, o['pub'], want):
		if g != w:
			return 'join(%r, %r) with URI.encoding = %r (%s) %s: got %r, RFC 3986 5.2.2 + normalisation, octets read as %s, gives %r (result %r, expected %r)' % (c['base'], c['ref'], enc, c['mode'], name, g, enc, w, o['pub'], want)
	# the octets on the wire: those of the RFC result (percent-decoded on both sides; case, default port and slash runs normalised)
	s, a, p, q, f = t
	user, pw, host, port = _split_authority(a)
	auth = (a.rpartition('@')[0] + '@' if '@' in a else '') + host.lower() + (':%d' % port if port and port != U.DEFAULT_PORTS.get(s.lower()) else '')
	path = U.rfc_rds(U.collapse(p)) if p.startswith('/') else U.collapse(p)
	wire = s.lower() + '://' + auth + path + ('?' + qc.get(q, q) if q else '') + ('#' + f if f else '')
	if _unq_octets(o['wire']) != _unq_octets(wire):
		return 'join(%r, %r) with URI.encoding = %r (%s) composes to %r, the RFC result is %r (octets differ after percent-decoding)' % (c['base'], c['ref'], enc, c['mode'], o['wire'], wire)
	for way, a_ in sorted(o.get('alt', {}).items()):
		if a_['out'] != o['out'] or a_['wire'] != o['wire']:
			return 'join(%r, reference %r given as %s) with URI.encoding = %r differs from the result for bytes: %r vs %r' % (c['base'], c['ref'], way, enc, a_, o['out'])
	return None


def coq_case(c, o):
	k = c['k']
	if k == 'rfc54':
		return 'CResolve %s %s %s' % (U.coq_ref5(U.parse5(U.RFC54_BASE)), U.coq_ref5(U.parse5(c['ref'])), U.coq_ref5(U.parse5(c['want'])))
	if k == 'resolve':
		return 'CResolve %s %s %s' % (U.coq_ref5(U.parse5(c['base'])), U.coq_ref5(U.parse5(c['ref'])), U.coq_ref5(o['t']))
	if k == 'seq' and 'steps' in o:
		return ['CJoin %s %s %s %s' % (U.ltab([st['b']['t'][0], st['b']['t'][3], st['rel']['t'][0], st['rel']['t'][3]]), U.coq_state(st['b']), U.coq_state(st['rel']), U.coq_state(st['out']))
			for st in o['steps']]
	if k in ('chain', 'refuse') and 'steps' in o:
		return ['CJoin %s %s %s %s' % (U.ltab([st['b']['t'][0], st['b']['t'][3], st['rel']['t'][0], st['rel']['t'][3]]), U.coq_state(st['b']), U.coq_state(st['rel']), U.coq_state(st['out']))
			for st in o['steps'] if 'rel' in st]
	if 'harness_exception' in o:
		return 'CResolve (Ref5 None None [] None None) (Ref5 None None [] None None) (Ref5 None None [x00] None None)'
	if 'err' in o:
		if o['err'].startswith('ref:') and not o['err'].startswith('ref:escape'):
			return None   # the parser refuses the reference: nothing for the join model to do
		return 'CResolve (Ref5 None None [] None None) (Ref5 None None [] None None) (Ref5 None None [x00] None None)'
	if c.get('nocoq'):
		return None   # length class beyond what a case file affords: oracle only
	strings = [o['base']['t'][0], o['base']['t'][3], o['rel']['t'][0], o['rel']['t'][3]]
	return 'CJoin %s %s %s %s' % (U.ltab(strings), U.coq_state(o['base']), U.coq_state(o['rel']), U.coq_state(o['out']))


# ---------------------------------------------------------------- the property, stated on the implementation

def _split_authority(a):
	userinfo, _, hostport = a.rpartition('@')
	user, _, pw = userinfo.partition(':')
	if ':' in hostport and not hostport.endswith(']'):
		host, _, port = hostport.rpartition(':')
	else:
		host, port = hostport, ''
	return user, pw, host, (int(port) if port else None)


def expected(t, qc=None, charset='utf-8'):
	"""components of the RFC target after normalisation: case, default port, slash runs, percent-encoded octets decoded
	(an encoded slash stays data inside its segment) (written from the property text)"""
	s, a, p, q, f = t
	s = (s or '').lower()
	user, pw, host, port = _split_authority(a) if a is not None else ('', '', '', None)
	host = host.lower()
	if '%' in (a or '') + p + (f or ''):
		user, pw, f, host = unq(user, charset), unq(pw, charset), unq(f or '', charset), unq(host, charset).lower()
		p = '/'.join(unq(seg, charset).replace('/', '%2f') for seg in p.split('/'))
	if q and qc and q in qc:
		q = qc[q]
	if port is None:
		port = U.DEFAULT_PORTS.get(s)
	path = U.rfc_rds(U.collapse(p)) if p.startswith('/') else U.collapse(p)
	if host and s and path and not path.startswith('/'):
		path = '/' + path
	return [s, user, pw, host, port, path, q or '', f or '']


def base_in_domain(base):
	if not isinstance(base, str):
		return False
	s, a, p, q, f = U.parse5(base)
	if not s or not a or f is not None:
		return False
	if s != s.lower() or a != a.lower():
		return False
	user, pw, host, port = _split_authority(a)
	if not host:
		return False
	if p and (not p.startswith('/') or '//' in p or any(x in ('.', '..') for x in p.split('/'))):
		return False
	return True


NAMES = ['scheme', 'username', 'password', 'host', 'port', 'path', 'query', 'fragment']


def oracle(c, o):
	k = c['k']
	if 'harness_exception' in o:
		return 'unexpected exception %s' % (o,)
	if k == 'rfc54':
		got = U.recompose(tuple(o['t']))
		return None if got == c['want'] else 'the harness transcription of RFC 5.2.2 gives %r for the RFC example %r (RFC: %r)' % (got, c['ref'], c['want'])
	if k == 'resolve':
		return None
	if k == 'seq':
		if 'err' in o:
			return 'unexpected exception %s' % (o,)
		if 'observer_changed' in o:
			return 'the read-only use %r changed the base object: %r became %r (case %r)' % (o['observer_changed'][0], o['observer_changed'][1], o['observer_changed'][2], c)
		for n, st in enumerate(o['steps']):
			if st['after'] != st['b']:
				return 'join modified the base URI (step %d of %r on %r): %r became %r' % (n, c['ops'], c['base'], st['b'], st['after'])
			if st['out'] != st['fout']:
				return 'join on a base object that was used/modified before (join %d of %r on %r) gives %r, a fresh object built from the same components %r gives %r' % (n, c['ops'], c['base'], st['out'], st['b']['t'], st['fout'])
			if st['ident'] or not st['refsame']:
				return 'join returned or modified one of its arguments (join %d of %r on %r)' % (n, c['ops'], c['base'])
		return None
	if k == 'chain':
		return _oracle_chain(c, o)
	if k == 'refuse':
		return _oracle_refuse(c, o)
	if k == 'knob':
		return _oracle_knob(c, o)
	if not base_in_domain(c['base']):
		if str(o.get('err', '')).startswith('escape'):
			return 'unexpected exception %s' % (o,)
		return None
	if 'err' in o:
		return 'join raised: %s' % (o,)
	if 'base0' in o and o['base0'] != o['base']:
		return 'the read-only uses %r changed the base object: %r became %r' % (c['pre'], o['base0'], o['base'])
	if o['after'] != o['base']:
		return 'join modified the base URI'
	want = expected(U.rfc_resolve(U.parse5(c['base']), U.parse5(c['ref'])), o.get('qc'))
	got = o['pub']
	for name, g, w in zip(NAMES, got, want):
		if g != w:
			return 'join(%r, %r) %s: got %r, RFC 3986 5.2.2 + normalisation gives %r (result %r, expected %r)' % (c['base'], c['ref'], name, g, w, got, want)
	if o['out']['t'][4] != want[4]:
		return 'join(%r, %r) port slot: got %r, expected %r' % (c['base'], c['ref'], o['out']['t'][4], want[4])
	alt = o.get('alt')
	if alt:
		if alt['ident']:
			return 'join(%r, %r) returned the base object itself' % (c['base'], c['ref'])
		for way in ('str', 'obj', 'tuple', 'dict', 'bytes'):
			a = alt[way]
			if 'err' in a:
				return 'join(%r, reference %r given as %s) raised: %s' % (c['base'], c['ref'], way, a)
			for name, g, w in zip(NAMES, a['pub'], want):
				if g != w:
					return 'join(%r, reference %r given as %s) %s: got %r, RFC 3986 5.2.2 + normalisation gives %r (result %r, expected %r)' % (c['base'], c['ref'], way, name, g, w, a['pub'], want)
			if a['out'] != o['out']:
				return 'join(%r, reference %r given as %s) differs from the result for the reference given as bytes: %r vs %r' % (c['base'], c['ref'], way, a['out'], o['out'])
			if a['ident'] or not a['refsame']:
				return 'join(%r, reference %r given as %s) returned or modified one of its arguments' % (c['base'], c['ref'], way)
		if alt['after'] != o['base']:
			return 'join modified the base URI (reference %r given in other forms)' % (c['ref'],)
	if 'fresh' in o and o['fresh'] != o['out']:
		return 'join(%r, %r) on a base that was built through %r and looked at through %r gives %r, a fresh base gives %r' % (c['base'], c['ref'], c.get('bhow'), c.get('pre'), o['out'], o['fresh'])
	cmpr = o.get('cmp')
	if cmpr:
		for name, what in (('want', 'a URI built from the expected components %r' % (want,)), ('own', 'a URI built from its own components')):
			if isinstance(cmpr[name], list) and cmpr[name] != [True, False, True, False]:
				return 'join(%r, %r) compared with %s: [result == it, result != it, it == result, it != result] = %r' % (c['base'], c['ref'], what, cmpr[name])
	if 'w5' in c:
		return _oracle_w5(c, o, want)
	return None


def classify(c, o, fail):
	if c['k'] != 'join' or not isinstance(c['base'], str):
		return None
	rs, ra, rp, rq, rf = U.parse5(c['ref'])
	bs, ba, bp, bq, bf = U.parse5(c['base'])
	segs = rp.split('/')
	if ra is not None and _split_authority(ra)[2] == '':
		return 'D20b-empty-authority-host'
	if rs is None and ra is None and rp == '' and rq == '' and bq and ' query: ' in fail:
		return 'D20c-empty-query'
	if rq and set(rq) <= set('&=') and ' query: ' in fail:
		return 'D20e-separator-only-query'
	if rs is None and ra is None and ':' in rp and fail.startswith('join raised') and "'ref:invalid'" in fail and 'Invalid scheme' in fail:
		return 'D20f-colon-in-relative-path'
	if ' path: ' in fail:
		if rs is not None and ra is None and ('..' in segs or '.' in segs):
			return 'D20d-scheme-ref-hostless-dots'
		# an empty segment somewhere before a '..' segment (slash runs are collapsed before dot removal)
		for i, s in enumerate(segs):
			if s == '' and 0 < i < len(segs) - 1 and '..' in segs[i + 1:]:
				return 'D20a-empty-segment-before-dotdot'
	return None


def nontrivial(c, o):
	if c['k'] == 'seq':
		return ('seq', repr(c['base']), repr(c['ops']))
	if c['k'] in ('chain', 'refuse', 'knob'):
		return (c['k'], c['base'], repr(c.get('refs') or c.get('ops') or (c.get('enc'), c.get('mode'), c.get('ref'))))
	if c['k'] != 'join' or 'err' in o or 'harness_exception' in o:
		return ('r', c.get('base'), c['ref']) if c['k'] != 'join' else None
	if o['out']['t'] == o['base']['t']:
		return None
	return (repr(c['base']), c['ref'])


LEVEL_TEXT = ('Machine-checked Coq theorem over octet strings of any length: for every normalised absolute base without fragment and every reference (five components) '
	'satisfying four boolean side conditions, URI.join equals normalize applied to the literal RFC 3986 5.2.2 algorithm (with 5.2.3 merge and 5.2.4 dot removal); '
	'each side condition is shown necessary by a refutation witness (known findings D20a-d). Model tied to /repo on every run: ~15k join evaluations inside Coq, '
	'the RFC transcription checked against the RFC 5.4 examples.')
LEVEL_NOTE = ('Trusted: Coq kernel + vm_compute; T1/T2 harness; URI.parse (the reference enters the model as the slots of URI(ref)); str.lower as Section parameter; '
	'UTF-8 octet modelling of text. No axioms.')
TECHNIQUE = 'Coq proof (case analysis on the selection cascade + induction over segment lists for the "/../" trick) + vm_compute correspondence'

"""C12 -- reference resolution (URI.join) agrees with RFC 3986 section 5.2.2 after normalisation."""
from harness.coqfmt import L
from harness import uri_norm_util as U

ID = 'C12'
PROPS = 'Props/C12.v'
TABLES = ['UriNormT']
COQ_HEADER = 'From Httoop Require Import Lib.Bytes Lib.Variant Gen.UriNormT Model.UriPath Model.UriNorm Corr.C12.'
COQ_CHECK = 'check'
CORR_VO = 'Corr/C12.vo'
RULE = ('T2: URI.join evaluated by the Gallina model (vm_compute; the reference enters as the slots of URI(ref)) and by the implementation: normalised '
	'http/https/ftp/unknown-scheme bases (no path, "/", trailing slash, with query, user info, explicit port, IPv6 host) and some non-normalised ones x '
	'references: the RFC 5.4 examples, scheme-qualified, network-path, absolute-path, all relative paths of <= 3 segments (4 on three bases) over '
	'{"", ".", "..", g, h} with and without query, query-only, fragment-only, empty, random longer ones; the Coq transcription of RFC 5.2.2 against the '
	'expected results printed in RFC 3986 section 5.4 and against an independent Python transcription. Oracle: join(base, ref) compared component by component with '
	'the Python transcription of 5.2.2 (Appendix B parse) followed by case/port/slash normalisation written independently of the implementation. '
	'non-trivial = distinct (base, reference) whose result differs from the base')
EXHAUSTIVE = {'quick': True, 'thorough': True}
TRUSTED = ['harness/tables/urinorm.py (T1: URI.SCHEMES -> PORT, URI.PORT, normalize() probe)',
	'harness/props/C12.py + harness/uri_norm_util.py + coq/Corr/C12.v (T2; URI(ref) is parsed by the implementation and enters the model as its eight slots - '
	'URI.parse belongs to the component property; text compared through UTF-8 octets; str.lower passed as a table for non-ASCII strings)',
	'harness/uri_norm_util.py: Python transcription of RFC 3986 5.2.2-5.2.4 and Appendix B (cross-checked against the RFC section 5.4 examples on every run)']
ASSUMPTIONS = ['str.lower is idempotent (Section hypothesis)', 'ports are None or integers 1..65535']

BASE = U.RFC54_BASE
WITNESSES = [
	('D20a-empty-segment-before-dotdot', {'k': 'join', 'base': BASE, 'ref': 'g//..'}),
	('D20b-empty-authority-host', {'k': 'join', 'base': BASE, 'ref': '///g'}),
	('D20b-empty-authority-host', {'k': 'join', 'base': BASE, 'ref': '//'}),
	('D20c-empty-query', {'k': 'join', 'base': BASE, 'ref': '?'}),
	('D20d-scheme-ref-hostless-dots', {'k': 'join', 'base': BASE, 'ref': 'g:x/../y'}),
	('D20d-scheme-ref-hostless-dots', {'k': 'join', 'base': BASE, 'ref': 'g:/../y'}),
	('D20d-scheme-ref-hostless-dots', {'k': 'join', 'base': BASE, 'ref': 'g:.'}),
]

BASES = ['http://a/b/c/d;p?q', 'http://a', 'http://a/', 'http://a/b/', 'http://a/b?q', 'https://a:8/x/y/', 'ftp://u:p@h/a/b', 'http://h:8080/x',
	'x-y://h/p/q', 'http://[::1]/a/b/c', 'https://example.com/a.b/..c/d', 'http://a/b/c/d/e/f']
BASES4 = ['http://a/b/c/d;p?q', 'http://a', 'http://a/b/']
ODD_BASES = [  # outside the property's domain (not normalised / not absolute / with fragment): correspondence only
	{'text': 'http://a/b/c/d;p?q#frag'}, {'text': 'HTTP://A/b/../c/./d'}, {'text': '/b/c/d'}, {'text': 'b/c'}, {'text': 'http://a/b//c/d'},
	{'cls': 'URI', 't': ['HTTP', '', '', 'H', None, '/b/c', 'q', '']}, {'cls': 'HTTP', 't': ['', '', '', 'h', None, '/b/c', '', '']},
	{'cls': 'URI', 't': ['http', 'u', 'p', 'BÜCHER.de', 80, '/b/c/', '', 'f']}, {'text': 'mailto:a@b'}, {'text': ''},
]
RSEGS = ['', '.', '..', 'g', 'h']
SPECIAL_REFS = ['', '?', '#', '?y', '#s', '?y#s', '?#', 'g?', 'g#', '//o', '//o/p/../q', '//O:80/', '//o:81', '//u:p@o:81/x?y#z', '//:81/x', '//u@/x', '//', '///', '///g', '//?y',
	'//o?y', '//o#s', '//o/..', '//o/../x', '/x/./y', '/', '/..', '/../..', '/.', 'http://z/a/../b', 'HTTP://Z/a/../b', 'HTTP://A/b', 'https://z', 'https://z:443/', 'http://z:80',
	'ftp://z/x//y', 'g:h', 'g:', 'g:x/../y', 'g:x/..', 'g:../y', 'g:./y', 'g:x/./y', 'g:/x/../y', 'g:/../y', 'g://h/x/../y', 'g://h/../y', 'g://h', 'g:x/y/../z',
	'g:x/../../y', 'http:g', 'http:', 'mailto:a@b', 'g;x=1/../y', 'g;x=1/./y', 'g?y/./x', 'g?y/../x', 'g#s/./x', 'g#s/../x', 'g//..', 'g//h', 'g/..//h', '..//..', './/..', '/g//..',
	'g/', './', '../', '..', '.', '...', '.../..', '.g', 'g.', '..g', 'g..', './../g', './g/.', 'x-y://O/..', 'X-Y://O/a']


def gen_cases(rng, tier):
	big = tier == 'thorough'
	cases = []
	for ref, want in U.RFC54:
		cases.append({'k': 'rfc54', 'ref': ref, 'want': want})
	refs = list(SPECIAL_REFS) + [r for r, _ in U.RFC54]
	refs3, refs4 = [], []
	for k in range(1, 5):
		for w in U.words(RSEGS, k):
			r = '/'.join(w)
			(refs3 if k <= (4 if big else 3) else refs4).extend([r, '/' + r, r + '?y'])
	seen = set()
	for b in BASES:
		for r in refs + refs3 + (refs4 if b in BASES4 else []):
			if (b, r) not in seen:
				seen.add((b, r))
				cases.append({'k': 'join', 'base': b, 'ref': r})
	for b in ODD_BASES:
		for r in refs + (refs3 if big else refs3[::7]):
			cases.append({'k': 'join', 'base': b, 'ref': r})
	alpha = RSEGS + ['..', '.', 'g', 'i;x', 'j.k', '...']
	for _ in range(20000 if big else 2500):
		b = rng.choice(BASES)
		r = U.rpath(rng, 1, 9, alpha)
		if rng.random() < 0.3:
			r = '/' + r
		if rng.random() < 0.1:
			r = '//' + rng.choice(['o', 'O:80', 'u@o', '']) + ('/' + r if not r.startswith('/') else r)
		if rng.random() < 0.08:
			r = rng.choice(['g:', 'http:', 'HTTPS://Z', 'x-y://o']) + r
		r += rng.choice(['', '', '', '?y', '?', '#s', '?y=1&z=2#s'])
		cases.append({'k': 'join', 'base': b, 'ref': r})
	# the Coq transcription of 5.2.2 against the Python one, on bases of every shape (with/without authority, rootless, empty path)
	rb = ['http://a/b/c/d;p?q', 'http://a', 'http:', 'http:b/c', 'http:/b/c', '//a/b', '/b/c/', 'b', '', 'http://a?q', 'http://a/b/../c/./d']
	for _ in range(8000 if big else 1200):
		b = rng.choice(rb)
		r = rng.choice(['', '', '/', '//o', '//', 'g:', 'g://o/']) + U.rpath(rng, 0, 6, alpha) + rng.choice(['', '', '?y', '?', '#s', '#'])
		cases.append({'k': 'resolve', 'base': b, 'ref': r})
	for b in rb:
		for r in refs:
			cases.append({'k': 'resolve', 'base': b, 'ref': r})
	return cases


# ---------------------------------------------------------------- observation

def _mk(spec):
	C = U.classes()
	if isinstance(spec, str):
		return C['URI'](spec.encode('utf-8'))
	if 'text' in spec:
		return C['URI'](spec['text'].encode('utf-8'))
	return C[spec['cls']](tuple(spec['t']))


def observe(c):
	k = c['k']
	if k == 'rfc54':
		return {'t': list(U.rfc_resolve(U.parse5(U.RFC54_BASE), U.parse5(c['ref'])))}
	if k == 'resolve':
		return {'t': list(U.rfc_resolve(U.parse5(c['base']), U.parse5(c['ref'])))}
	try:
		base = _mk(c['base'])
		o = {'base': U.state(base)}
		ref = c['ref'].encode('utf-8')
		try:
			rel = U.classes()['URI'](ref)
		except Exception as exc:
			return {'err': 'ref:' + U.exc_name(exc), 'msg': str(exc)[:200]}
		o['rel'] = U.state(rel)
		j = base.join(ref)
		o['out'] = U.state(j)
		o['pub'] = U.public(j)
		o['after'] = U.state(base)   # join must not modify the base
		return o
	except Exception as exc:
		return {'err': U.exc_name(exc), 'msg': str(exc)[:200]}


def coq_case(c, o):
	k = c['k']
	if k == 'rfc54':
		return 'CResolve %s %s %s' % (U.coq_ref5(U.parse5(U.RFC54_BASE)), U.coq_ref5(U.parse5(c['ref'])), U.coq_ref5(U.parse5(c['want'])))
	if k == 'resolve':
		return 'CResolve %s %s %s' % (U.coq_ref5(U.parse5(c['base'])), U.coq_ref5(U.parse5(c['ref'])), U.coq_ref5(o['t']))
	if 'harness_exception' in o:
		return 'CResolve (Ref5 None None [] None None) (Ref5 None None [] None None) (Ref5 None None [x00] None None)'
	if 'err' in o:
		if o['err'].startswith('ref:') and not o['err'].startswith('ref:escape'):
			return None   # the parser refuses the reference: nothing for the join model to do
		return 'CResolve (Ref5 None None [] None None) (Ref5 None None [] None None) (Ref5 None None [x00] None None)'
	strings = [o['base']['t'][0], o['base']['t'][3], o['rel']['t'][0], o['rel']['t'][3]]
	return 'CJoin %s %s %s %s' % (U.ltab(strings), U.coq_state(o['base']), U.coq_state(o['rel']), U.coq_state(o['out']))


# ---------------------------------------------------------------- the property, stated on the implementation

def _split_authority(a):
	userinfo, _, hostport = a.rpartition('@')
	user, _, pw = userinfo.partition(':')
	if ':' in hostport and not hostport.endswith(']'):
		host, _, port = hostport.rpartition(':')
	else:
		host, port = hostport, ''
	return user, pw, host, (int(port) if port else None)


def expected(t):
	"""components of the RFC target after normalisation: case, default port, slash runs (written from the property text)"""
	s, a, p, q, f = t
	s = (s or '').lower()
	user, pw, host, port = _split_authority(a) if a is not None else ('', '', '', None)
	host = host.lower()
	if port is None:
		port = U.DEFAULT_PORTS.get(s)
	path = U.rfc_rds(U.collapse(p)) if p.startswith('/') else U.collapse(p)
	if host and s and path and not path.startswith('/'):
		path = '/' + path
	return [s, user, pw, host, port, path, q or '', f or '']


def base_in_domain(base):
	if not isinstance(base, str):
		return False
	s, a, p, q, f = U.parse5(base)
	if not s or not a or f is not None:
		return False
	if s != s.lower() or a != a.lower():
		return False
	user, pw, host, port = _split_authority(a)
	if not host:
		return False
	if p and (not p.startswith('/') or '//' in p or any(x in ('.', '..') for x in p.split('/'))):
		return False
	return True


NAMES = ['scheme', 'username', 'password', 'host', 'port', 'path', 'query', 'fragment']


def oracle(c, o):
	k = c['k']
	if 'harness_exception' in o:
		return 'unexpected exception %s' % (o,)
	if k == 'rfc54':
		got = U.recompose(tuple(o['t']))
		return None if got == c['want'] else 'the harness transcription of RFC 5.2.2 gives %r for the RFC example %r (RFC: %r)' % (got, c['ref'], c['want'])
	if k == 'resolve':
		return None
	if not base_in_domain(c['base']):
		if str(o.get('err', '')).startswith('escape'):
			return 'unexpected exception %s' % (o,)
		return None
	if 'err' in o:
		return 'join raised: %s' % (o,)
	if o['after'] != o['base']:
		return 'join modified the base URI'
	want = expected(U.rfc_resolve(U.parse5(c['base']), U.parse5(c['ref'])))
	got = o['pub']
	for name, g, w in zip(NAMES, got, want):
		if g != w:
			return 'join(%r, %r) %s: got %r, RFC 3986 5.2.2 + normalisation gives %r (result %r, expected %r)' % (c['base'], c['ref'], name, g, w, got, want)
	if o['out']['t'][4] != want[4]:
		return 'join(%r, %r) port slot: got %r, expected %r' % (c['base'], c['ref'], o['out']['t'][4], want[4])
	return None


def classify(c, o, fail):
	if c['k'] != 'join' or not isinstance(c['base'], str):
		return None
	rs, ra, rp, rq, rf = U.parse5(c['ref'])
	bs, ba, bp, bq, bf = U.parse5(c['base'])
	segs = rp.split('/')
	if ra is not None and _split_authority(ra)[2] == '':
		return 'D20b-empty-authority-host'
	if rs is None and ra is None and rp == '' and rq == '' and bq and ' query: ' in fail:
		return 'D20c-empty-query'
	if ' path: ' in fail:
		if rs is not None and ra is None and ('..' in segs or '.' in segs):
			return 'D20d-scheme-ref-hostless-dots'
		# an empty segment somewhere before a '..' segment (slash runs are collapsed before dot removal)
		for i, s in enumerate(segs):
			if s == '' and 0 < i < len(segs) - 1 and '..' in segs[i + 1:]:
				return 'D20a-empty-segment-before-dotdot'
	return None


def nontrivial(c, o):
	if c['k'] != 'join' or 'err' in o or 'harness_exception' in o:
		return ('r', c.get('base'), c['ref']) if c['k'] != 'join' else None
	if o['out']['t'] == o['base']['t']:
		return None
	return (repr(c['base']), c['ref'])


LEVEL_TEXT = ('Machine-checked Coq theorem over octet strings of any length: for every normalised absolute base without fragment and every reference (five components) '
	'satisfying four boolean side conditions, URI.join equals normalize applied to the literal RFC 3986 5.2.2 algorithm (with 5.2.3 merge and 5.2.4 dot removal); '
	'each side condition is shown necessary by a refutation witness (known findings D20a-d). Model tied to /repo on every run: ~15k join evaluations inside Coq, '
	'the RFC transcription checked against the RFC 5.4 examples.')
LEVEL_NOTE = ('Trusted: Coq kernel + vm_compute; T1/T2 harness; URI.parse (the reference enters the model as the slots of URI(ref)); str.lower as Section parameter; '
	'UTF-8 octet modelling of text. No axioms.')
TECHNIQUE = 'Coq proof (case analysis on the selection cascade + induction over segment lists for the "/../" trick) + vm_compute correspondence'

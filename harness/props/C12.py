"""C12 -- reference resolution (URI.join) agrees with RFC 3986 section 5.2.2 after normalisation."""
from harness.coqfmt import L
from harness import uri_norm_util as U

ID = 'C12'
PROPS = 'Props/C12.v'
TABLES = ['UriNormT']
COQ_HEADER = 'From Httoop Require Import Lib.Bytes Lib.Variant Gen.UriNormT Model.UriPath Model.UriNorm Corr.C12.'
COQ_CHECK = 'check'
CORR_VO = 'Corr/C12.vo'
RULE = ('T2: URI.join evaluated by the Gallina model (vm_compute; the reference enters as the slots of URI(ref)) and by the implementation: normalised '
	'http/https/ftp/unknown-scheme bases (no path, "/", trailing slash, with query, user info, explicit port, IPv6 host) and some non-normalised ones x '
	'references: the RFC 5.4 examples, scheme-qualified, network-path, absolute-path, all relative paths of <= 3 segments (4 on three bases) over '
	'{"", ".", "..", g, h} with and without query, query-only, fragment-only, empty, random longer ones; the Coq transcription of RFC 5.2.2 against the '
	'expected results printed in RFC 3986 section 5.4 and against an independent Python transcription. Oracle: join(base, ref) compared component by component with '
	'the Python transcription of 5.2.2 (Appendix B parse) followed by case/port/slash normalisation written independently of the implementation. '
	'Added input classes: decorated dot segments (".;x", "..;", ";..", "..%20", ".%2f" ... over 20 marks) in every position of every reference shape and in the base path; '
	'percent-encoded octets (reserved, unreserved, UTF-8 of NFC/NFD/compatibility/astral characters) in fragment, query, path, user info and host of fragment-only, query-only, '
	'relative, absolute-path, network-path and scheme-qualified references and of the base (the oracle decodes with its own RFC 3986 2.1 decoder; a query with "%" or "+" is '
	'expected in the spelling URI.parse gives it); every join repeated with the reference as str, URI object, tuple and keywords (same result, arguments neither returned nor '
	'modified); degenerate and re-encoded references; every scheme of URI.SCHEMES read at run time as base and reference scheme; lengths 11..65536 (> 4200 oracle-only); '
	'kind seq: one base object joined several times, modified through every public setter and replaced by its own results, against a fresh object built from the same components. '
	'Fourth-wave classes: the delimiters and reserved names of the other components (: / ? # @ ; , = & " //, scheme names, port numbers, whole URIs, urn:..., hh:mm) inside query and '
	'fragment of every reference shape (query-only, fragment-only, one-segment, ";x", ".", "..", relative, absolute-path, network-path, scheme-qualified) and of the base, inside user info, '
	'and ":" inside path segments where a scheme or an authority precedes it (a ":" in the path of a reference without scheme and authority is refused by URI.parse: finding D49 of the unchanged '
	'tree, kept out); read-only observers (repr str bytes hash bool len iter in dict sorted format copy deepcopy == != <= every public attribute) on the base and on the reference object before '
	'join, the base built through every construction path (class of the registry, tuple, dict, copy, copy.copy/deepcopy), against the RFC result and a fresh unobserved base; the result is also '
	'compared with == and != (both orders) against a URI built from the expected components. '
	'non-trivial = distinct (base, reference) whose result differs from the base')
EXHAUSTIVE = {'quick': True, 'thorough': True}
TRUSTED = ['harness/tables/urinorm.py (T1: URI.SCHEMES -> PORT, URI.PORT, normalize() probe)',
	'harness/props/C12.py + harness/uri_norm_util.py + coq/Corr/C12.v (T2; URI(ref) is parsed by the implementation and enters the model as its eight slots - '
	'URI.parse belongs to the component property; text compared through UTF-8 octets; str.lower passed as a table for non-ASCII strings)',
	'harness/uri_norm_util.py: Python transcription of RFC 3986 5.2.2-5.2.4 and Appendix B (cross-checked against the RFC section 5.4 examples on every run)']
ASSUMPTIONS = ['str.lower is idempotent (Section hypothesis)', 'ports are None or integers 1..65535']

BASE = U.RFC54_BASE
WITNESSES = [
	('D20a-empty-segment-before-dotdot', {'k': 'join', 'base': BASE, 'ref': 'g//..'}),
	('D20b-empty-authority-host', {'k': 'join', 'base': BASE, 'ref': '///g'}),
	('D20b-empty-authority-host', {'k': 'join', 'base': BASE, 'ref': '//'}),
	('D20c-empty-query', {'k': 'join', 'base': BASE, 'ref': '?'}),
	('D20d-scheme-ref-hostless-dots', {'k': 'join', 'base': BASE, 'ref': 'g:x/../y'}),
	('D20d-scheme-ref-hostless-dots', {'k': 'join', 'base': BASE, 'ref': 'g:/../y'}),
	('D20d-scheme-ref-hostless-dots', {'k': 'join', 'base': BASE, 'ref': 'g:.'}),
	('D20e-separator-only-query', {'k': 'join', 'base': BASE, 'ref': '?&', 'nocoq': True}),
	('D20f-colon-in-relative-path', {'k': 'join', 'base': BASE, 'ref': './a:b', 'nocoq': True}),
]

BASES = ['http://a/b/c/d;p?q', 'http://a', 'http://a/', 'http://a/b/', 'http://a/b?q', 'https://a:8/x/y/', 'ftp://u:p@h/a/b', 'http://h:8080/x',
	'x-y://h/p/q', 'http://[::1]/a/b/c', 'https://example.com/a.b/..c/d', 'http://a/b/c/d/e/f']
BASES4 = ['http://a/b/c/d;p?q', 'http://a', 'http://a/b/']
ODD_BASES = [  # outside the property's domain (not normalised / not absolute / with fragment): correspondence only
	{'text': 'http://a/b/c/d;p?q#frag'}, {'text': 'HTTP://A/b/../c/./d'}, {'text': '/b/c/d'}, {'text': 'b/c'}, {'text': 'http://a/b//c/d'},
	{'cls': 'URI', 't': ['HTTP', '', '', 'H', None, '/b/c', 'q', '']}, {'cls': 'HTTP', 't': ['', '', '', 'h', None, '/b/c', '', '']},
	{'cls': 'URI', 't': ['http', 'u', 'p', 'BÜCHER.de', 80, '/b/c/', '', 'f']}, {'text': 'mailto:a@b'}, {'text': ''},
]
RSEGS = ['', '.', '..', 'g', 'h']
SPECIAL_REFS = ['', '?', '#', '?y', '#s', '?y#s', '?#', 'g?', 'g#', '//o', '//o/p/../q', '//O:80/', '//o:81', '//u:p@o:81/x?y#z', '//:81/x', '//u@/x', '//', '///', '///g', '//?y',
	'//o?y', '//o#s', '//o/..', '//o/../x', '/x/./y', '/', '/..', '/../..', '/.', 'http://z/a/../b', 'HTTP://Z/a/../b', 'HTTP://A/b', 'https://z', 'https://z:443/', 'http://z:80',
	'ftp://z/x//y', 'g:h', 'g:', 'g:x/../y', 'g:x/..', 'g:../y', 'g:./y', 'g:x/./y', 'g:/x/../y', 'g:/../y', 'g://h/x/../y', 'g://h/../y', 'g://h', 'g:x/y/../z',
	'g:x/../../y', 'http:g', 'http:', 'mailto:a@b', 'g;x=1/../y', 'g;x=1/./y', 'g?y/./x', 'g?y/../x', 'g#s/./x', 'g#s/../x', 'g//..', 'g//h', 'g/..//h', '..//..', './/..', '/g//..',
	'g/', './', '../', '..', '.', '...', '.../..', '.g', 'g.', '..g', 'g..', './../g', './g/.', 'x-y://O/..', 'X-Y://O/a']


def gen_cases(rng, tier):
	big = tier == 'thorough'
	cases = []
	for ref, want in U.RFC54:
		cases.append({'k': 'rfc54', 'ref': ref, 'want': want})
	refs = list(SPECIAL_REFS) + [r for r, _ in U.RFC54]
	refs3, refs4 = [], []
	for k in range(1, 5):
		for w in U.words(RSEGS, k):
			r = '/'.join(w)
			(refs3 if k <= (4 if big else 3) else refs4).extend([r, '/' + r, r + '?y'])
	seen = set()
	for b in BASES:
		for r in refs + refs3 + (refs4 if b in BASES4 else []):
			if (b, r) not in seen:
				seen.add((b, r))
				cases.append({'k': 'join', 'base': b, 'ref': r})
	for b in ODD_BASES:
		for r in refs + (refs3 if big else refs3[::7]):
			cases.append({'k': 'join', 'base': b, 'ref': r})
	alpha = RSEGS + ['..', '.', 'g', 'i;x', 'j.k', '...']
	for _ in range(20000 if big else 2500):
		b = rng.choice(BASES)
		r = U.rpath(rng, 1, 9, alpha)
		if rng.random() < 0.3:
			r = '/' + r
		if rng.random() < 0.1:
			r = '//' + rng.choice(['o', 'O:80', 'u@o', '']) + ('/' + r if not r.startswith('/') else r)
		if rng.random() < 0.08:
			r = rng.choice(['g:', 'http:', 'HTTPS://Z', 'x-y://o']) + r
		r += rng.choice(['', '', '', '?y', '?', '#s', '?y=1&z=2#s'])
		cases.append({'k': 'join', 'base': b, 'ref': r})
	# the Coq transcription of 5.2.2 against the Python one, on bases of every shape (with/without authority, rootless, empty path)
	rb = ['http://a/b/c/d;p?q', 'http://a', 'http:', 'http:b/c', 'http:/b/c', '//a/b', '/b/c/', 'b', '', 'http://a?q', 'http://a/b/../c/./d']
	for _ in range(8000 if big else 1200):
		b = rng.choice(rb)
		r = rng.choice(['', '', '/', '//o', '//', 'g:', 'g://o/']) + U.rpath(rng, 0, 6, alpha) + rng.choice(['', '', '?y', '?', '#s', '#'])
		cases.append({'k': 'resolve', 'base': b, 'ref': r})
	for b in rb:
		for r in refs:
			cases.append({'k': 'resolve', 'base': b, 'ref': r})
	cases.extend(gen_classes(rng, tier))
	cases.extend(gen_wave4(rng, tier))
	return cases


# ---------------------------------------------------------------- input classes added after the seeded rounds
# (decorated dot segments, percent-encoded octets in every component of every reference shape, the reference given
# as bytes / str / URI / tuple / keywords, base objects reused and modified between joins, Unicode forms, lengths,
# the scheme registry of the tree, degenerate references, re-encoded references)

UNI = ['e\u0301', '\u00e9', '\u212b', '\u00c5', 'A\u030a', '\u2126', '\u03a9', '\u212a', '\u1112\u1161\u11ab', '\ud55c', '\uf900', '\u8c48', '\U0001d400', '\U00010400', '\ufb01']
MARKS = [';', ',', '=', '!', '~', '_', '-', '$', '&', "'", '(', ')', '*', '+', '@', '%20', '%3B', '%2f', '%00', '%C3%A4']
LIMITS = [11, 12, 75, 76, 255, 256, 1023, 1024, 4095, 4096]
LIMITS_BIG = [8190, 8191, 8192, 65535, 65536]
COQ_MAX = 4200
ENC = ['%20', '%23', '%3F', '%3f', '%2F', '%2f', '%25', '%C3%A4', '%c3%a4', '%7e', '%7E', '%41', '%3B', '%40', '%3A', '%26', '%3D', '%2B', '%22', '%00', '%E2%84%AB', 'e%CC%81', '%F0%9D%90%80']
DEGEN_REFS = [';', ';;', ';/..', ';/../;', '/;', '/;/', '..;', '.;', ';..', ';.', '?;', '#/', '#?', '##', '?#?', '#%23', '?%3F', '?%26', '?%3D%3D', '//o;x', '//@o', '//o:', '//u:@o', '//:@o',
	'//o:/', '//o?', '//o#', '//o/?#', "'", '"', '%', '%%', '%zz', '%2', '%25', ',', '=', '&', '!', '*', '~', '_', '-', '$', '(', ')', '+', '@', 'g,h', 'g=h/..', "g'/.", '/%', '/%zz/..', 'g/%', '?%', '#%', '#%zz', '?%zz',
	'g?/..', 'g#/..', 'g?..', 'g#..', '?..', '#..', '?.', '#.', '?/', '/?/', '/#/', '//o?/..', '//o#/..', './?', '../#', './', '././', '../..', '../../', '../../../../../../..', './././././.', '/./././.', '/../../../..',
	'g/h/../../../..', 'g/./h/./..', '%20', '%20/..', '../%20', 'g%20h', '/%20', '//o/%20', '?%20', '#%20', '+', '?+', '#+', '?a+b', '?a%2Bb', '?a=%26', '?%C3%A4=%C3%B6', '?e%CC%81', '#e%CC%81', '#%C3%A9']


COLON_PATH_REFS = ['./a:b', '/a:b', 'g/a:b', '/wiki/Special:Search', './this:that', '../x:y', 'g/./h:1', '/a:b?q#f']
SEP_ONLY_REFS = ['?&', '?&&', '?=', '?=&=', 'g?&', '/g?=', '//o/p?&', '?&#s']
# Kept apart from DEGEN_REFS: a query made only of form separators ('?&', '?&&', '?=', '?=&=') is known finding D20e of the unchanged tree.
# URI.parse re-encodes every query through the form-urlencoded codec, which turns '&', '&&', '=' into the empty query and '=&=' into '&';
# an empty query is then indistinguishable from an undefined one (known finding D20c), so join(b'http://a/b?q', b'?&') keeps '?q' (RFC: 'http://a/b?&').


def unq(text):
	"""percent-decoding written from RFC 3986 section 2.1 (a '%' not followed by two hex digits stays)"""
	raw = text.encode('utf-8')
	out = bytearray()
	i = 0
	hexd = b'0123456789abcdefABCDEF'
	while i < len(raw):
		if raw[i] == 0x25 and i + 2 < len(raw) + 0 and len(raw) - i >= 3 and raw[i + 1] in hexd and raw[i + 2] in hexd:
			out.append(int(raw[i + 1:i + 3], 16))
			i += 3
		else:
			out.append(raw[i])
			i += 1
	return bytes(out).decode('utf-8')


def _enc_some(rng, text, p=0.3):
	"""the same text with some unreserved characters (never a dot) percent-encoded, random hex case"""
	out = []
	i = 0
	while i < len(text):
		ch = text[i]
		if ch == '%':
			out.append(text[i:i + 3])
			i += 3
			continue
		if (ch.isalnum() and ch.isascii() or ch in '-_~') and rng.random() < p:
			out.append(('%%%02x' if rng.random() < 0.5 else '%%%02X') % ord(ch))
		else:
			out.append(ch)
		i += 1
	return ''.join(out)


def _decorated():
	out = []
	for d in ('.', '..'):
		for m in MARKS:
			out.extend([d + m, d + m + 'x', m + d])
	return out


def _registry():
	C = U.classes()
	return [((k.decode('ascii') if isinstance(k, bytes) else k), cls.__name__, cls.PORT) for k, cls in sorted(C['URI'].SCHEMES.items())]


def _alt_case(s):
	return ''.join(ch.upper() if i % 2 else ch.lower() for i, ch in enumerate(s))


def gen_classes(rng, tier):
	big = tier == 'thorough'
	mul = 5 if big else 1
	cases = []
	seen = set()

	def add(b, r, **kw):
		if (repr(b), r) in seen:
			return
		seen.add((repr(b), r))
		c = {'k': 'join', 'base': b, 'ref': r}
		c.update(kw)
		cases.append(c)
	# -- (5)/(C12-7) segments that only look like dot segments, in every position of every reference shape
	for seg in _decorated():
		for tpl in ('%s', '%s/g', 'g/%s', 'g/%s/h', '/p/%s/q', '/%s', '//o/p/%s/q', '//o/%s', 'z://o/p/%s', '../%s', './%s/..', '%s?y#s'):
			if tpl.startswith('%s') and seg[0] in '@':
				continue
			add(BASE, tpl % seg)
		add('http://a/b/', 'g/%s' % seg)
		add('http://a', '%s/g' % seg)
		add('http://a/b/%s/d' % seg, '../g')     # ... and in the base path
		add('http://a/b/%s/d' % seg, '.')
	# -- (C12-8) percent-encoded octets in every component of every reference shape (fragment-only, query-only, empty path, relative,
	#    absolute-path, network-path, scheme-qualified); Unicode forms as UTF-8 octets (2); bases that carry them
	encb = ['http://a/b/c/d;p?q', 'http://a/b%20c/d%2Fe/f?q%20r', 'http://u%40v:p%3aw@a/%C3%A4/e%CC%81/', 'http://a']
	for e in ENC:
		for tpl in ('#%s', '#a%sb', '?%s', '?a%sb=c', '?y#%s', '%s', 'g%sh', 'g/%s', '%s/../g', 'g;%s', '/%s', '/g/%s/', '//o/%s', '//u%s:p%s@o/x', '//o?%s', '//o#%s', 'z://o/%s#%s', 'z://u%s@o', 'g?y#%s', '/g#%s', '../g?%s#%s', '.#%s', '..?%s'):
			r = tpl.replace('%s', e)
			if e == '%00' and '?' in r:
				continue   # a control character in the query is refused by the parser (component property)
			for b in encb[:2] if not big else encb:
				add(b, r)
		add(encb[2], '#' + e)
		add(encb[2], 'g' + e)
		if e != '%00':   # a control character in the query is refused by the parser (component property)
			add(encb[3], '?' + e)
	for u in UNI:
		e = ''.join('%%%02X' % x for x in u.encode('utf-8'))
		for tpl in ('#%s', '?%s=%s', 'g/%s', '/%s/..', '//u%s@o/%s', 'z://o/%s?%s#%s', '%s'):
			add(rng.choice(encb), tpl.replace('%s', e))
	# -- (5) degenerate references
	for r in DEGEN_REFS:
		for b in (BASE, 'http://a', 'http://a/b/?q%20r'):
			add(b, r)
	# a query made only of form separators (known finding D20e): oracle-only, the join model takes the parsed slots as given
	for r in SEP_ONLY_REFS:
		for b in (BASE, 'http://a', 'http://a/b/?q%20r'):
			cases.append({'k': 'join', 'base': b, 'ref': r, 'nocoq': True})
	# a ':' in the path of a reference without scheme and authority (known finding D20f; root cause D49 of C04): oracle-only
	for r in COLON_PATH_REFS:
		for b in (BASE, 'http://a', 'http://a/b/?q%20r'):
			cases.append({'k': 'join', 'base': b, 'ref': r, 'nocoq': True})
	# -- (6) references of the existing classes, re-encoded (unreserved characters percent-encoded): same result
	alpha = RSEGS + ['..', '.', 'g', 'i;x', 'j.k', '...', 'g~h', 'k-l_m']
	for _ in range(800 * mul):
		r = U.rpath(rng, 1, 6, alpha)
		r = rng.choice(['', '', '/', '//o/', '//O:80/', 'z://u@o/', 'HTTP://Z/']) + _enc_some(rng, r + rng.choice(['', '', '?y', '?y=1&z=2', '#s', '?y#frag']))
		add(rng.choice(BASES), r)
	# -- (4) every scheme of the registry of the tree: as base scheme and as reference scheme, several letter cases, default ports
	for name, clsname, port in _registry():
		b = '%s://a/b/c/d;p?q' % name
		for r in ('g', '../g', '/g', '//o', '//o:%d/x' % port, '//o:%d' % (port + 1), '?y', '#s', '', '%s:g' % name, '%s://z/a/../b' % name.upper(), '%s://Z:%d/' % (_alt_case(name), port),
				'%s://z:%d' % (name, port + 1), '%s:' % name.title(), '%s:/x/y' % name):
			add(b, r)
			add(BASE, r)
		add({'text': '%s://A/b/c' % name.upper()}, '../g')   # out of the domain (not normalised): correspondence only
		add({'text': '%s://a:%d/b/c' % (name, port)}, '//o/x')
	# -- (3) lengths at and around limits in every position of the reference and of the base
	for n in LIMITS + LIMITS_BIG:
		nocoq = n > COQ_MAX
		refs = ['g' * n, '../' * (n // 3) + 'g', 'g/' * (n // 2), './' * (n // 2), 'g/../' * (n // 5) + 'h', '?' + 'y' * n, '#' + 's' * n, '/' + 'g' * n, '//' + 'o' * min(n, 63) + '/' + 'p' * n,
			'//' + 'u' * n + '@o', 'z' * min(n, 4096) + '://o/x', ';' * n, 'g;' + 'x' * n + '/..', '%41' * (n // 3), '#' + '%20' * (n // 3)]
		if n > 4096 and not big:
			refs = refs[:7]
		for r in refs:
			add(BASE, r, nocoq=nocoq)
		add('http://a/' + 'b/' * (n // 2), '../' * (n // 4) + 'g', nocoq=nocoq)
		add('http://a/' + 'b' * n, 'g', nocoq=nocoq)
		add('http://a/b?' + 'q' * n, '#s', nocoq=nocoq)
	# -- (1) one base object used for several joins and modified between them through every public way; a result used as the next base
	for n in range(500 * mul):
		ops = []
		for _i in range(rng.randint(2, 5)):
			r = rng.random()
			if r < 0.6:
				ref = rng.choice(['', '', '/', '//o/', 'z://o/']) + U.rpath(rng, 0, 4, alpha + ['..;x', 'g%20h', '%2f']) + rng.choice(['', '', '?y', '#s', '#a%20b', '?y%20z'])
				ops.append(['join', ref, rng.choice(['bytes', 'bytes', 'str', 'obj', 'tuple', 'dict'])])
			elif r < 0.7:
				ops.append(['chain'])   # the last result becomes the base object
			elif r < 0.8:
				ops.append(['use', rng.choice(['normalize', 'eq', 'compose', 'abspath'])])
			else:
				f = rng.choice(['scheme', 'username', 'password', 'host', 'port', 'path', 'query_string', 'fragment', 'path_segments', 'tuple', 'parse'])
				v = {'scheme': rng.choice(['http', 'https', 'ftp', 'x-y', 'HTTP']), 'username': rng.choice(['', 'u', 'e\u0301']), 'password': rng.choice(['', 'p']), 'host': rng.choice(['h', 'H', 'o.example', '[::1]']),
					'port': rng.choice([None, '', 80, 8080, '443']), 'path': rng.choice(['', '/', '/x/y', '/x/y/', '/x/../y', '/a%2fb/c']), 'query_string': rng.choice(['', 'q', 'a=b']), 'fragment': rng.choice(['', 'f', 'a b']),
					'path_segments': ['', rng.choice(['a', 'a/b', '..']), rng.choice(['', 'c'])], 'tuple': ['http', '', '', 'n', None, rng.choice(['/t/u', '/t/']), '', ''],
					'parse': rng.choice(['http://m/v/w?x', 'https://m:444/v/', 'ftp://m'])}[f]
				ops.append(['set', f, v])
		if not any(o[0] == 'join' for o in ops):
			ops.append(['join', 'g', 'bytes'])
		cases.append({'k': 'seq', 'base': rng.choice(BASES), 'ops': ops})
	return cases


# ---------------------------------------------------------------- fourth wave of input classes
# (9) metacharacters / reserved names of one component inside a neighbouring one, (7) read-only observers before join,
# (8) every construction path of the base and every comparison of the result.  Appended after everything else so that the
# random stream of the earlier generators is unchanged.
#
# Kept out (finding D49 of the unchanged tree, recorded under C04): a ':' in the PATH of a reference that has neither scheme nor
# authority ('/a:b', './a:b', 'g/a:b', 'g;x:y', '/wiki/Special:Search').  URI.parse takes the text before the first ':' of an
# authority-less URI as the scheme, finds '/' or ';' in it and raises InvalidURI, so join() raises instead of returning
# 'http://a/b/c/a:b'.  A ':' in query, fragment, user info, or in a path behind a scheme or an authority is covered below.

QMETA = ['a:b', 't=12:30', ':', '::', 'next=http://x/y', 'urn:isbn:1', 'k:v&l:w', '/', '/../x', 'a/./b', '//x', '?', 'a?b', '??', 'a?b:c', '@', 'u@h', 'u:p@h:81', ';', 'a;b', ',', 'a,b:c',
	'x=1&y=2', 'x=a:b&y=c/d', ':80', 'http:', 'http://H:80/a/../b', 'HTTP', 'https', 'uri', 'q', 'a:b:c', "':'", '!:$', '(:)', '*:', '-._~:', '::1', 'g:h', '..:', '.:.']
# spelled differently by URI.parse (form-urlencoded re-encoding of the query, the component property's business): expected in that spelling ('qany')
QMETA_RESPELLED = ['a"b', '":"', 'next=http://x/y?z=1', 'a=b=c:d', 'a[0]:1', 'a|b:c', '{a:b}', '^:`', 'a:b&&c:d', '=a:b', 'a:b=']
FMETA = ['sec:2', 'urn:isbn:1', ':', '::', 'a:b/c', '/', '/../x', 'a/./b', '//x', '?', '?q=1', 'a?b:c', '@', 'u:p@h:81', ';', ',', '=', '&', 'x=1&y=2:3', '"', 'a"b:c', '#', 'a#b', '#:', 'a:#b',
	'http://H:80/a/../b', 'HTTP:', 'https', '%3A', '%23:', 'a%3ab:c', "!$&'()*+,;=:@/?", 't=12:30', '..:', '.:.', 'g:h', '[a:b]', '{a:b}', '|:^`']
QTPLS = ['?%s', '?%s#s', 'g?%s', 'g?%s#s', ';x?%s', '.?%s', '..?%s', 'g/?%s', './g?%s', '../g?%s', 'g/h?%s', '/g?%s', '/?%s', '//o?%s', '//o/p?%s#s', '//u:p@o:81/x?%s', 'z://o/p?%s', 'z://o?%s', 'g:h?%s', 'HTTP://B:80/x?%s#s']
FTPLS = ['#%s', '?y#%s', 'g#%s', 'g?y#%s', ';x#%s', '.#%s', '..#%s', 'g/#%s', './g#%s', '../g#%s', '/g#%s', '/#%s', '//o#%s', '//o/p?y#%s', 'z://o/p#%s', 'g:h#%s', 'HTTP://B:80/x#%s']
META_BASES = [BASE, 'http://a', 'https://u:p@a:8/x/y/?k=a:b/c?d@e', 'http://a/b/?t=12:30']
PATH_META_REFS = ['g@h', 'u@h/x', '@', 'a=b&c', 'g,h', 'g"h', '"', 'a;b=c,d', "!$&'()*+,;=@", '//o/a:b', '//o/a:b/../c:d', '//o/:', '//o/..:/x', '//o/.:/x', '//o/:../x', '//o/a:b?c:d#e:f', '//o:81/a:80/b',
	'z://o/a:b', 'z://o/a:b/..', 'g:h:i', 'g:h:i?j:k', 'http://o:81/a:80/b', 'HTTP://O:80/a:b/./c', '//u:p:w@o/x', '//u%40v@o/', '//u;x=1,y@o/', '//u:p%3Aw@o', '//u@v@o/x', '//:p@o', '//u:@o:81', '//o/p@q', '//o?u@v', '//o#u@v',
	'http', 'https', 'ftp', 'HTTP/g', 'http/../g', 'http/./https', '?http', '#https', '//http', '//http:81', '//HTTP:8080/http', '//https/?http#ftp', 'http:/g', 'HTTP:/G', 'x-y:/g', 'g?y=http&z=80', '80', '80/443', '443?80#21']
COLON_BASES = ['http://a/b:c/d:e', 'http://a/:/x', 'http://a/b:c/', 'http://u:p:w@a/b;x:y/c?k:v', 'x-y://h/p:q/r']
OBSERVERS = ['repr', 'str', 'bytes', 'hash', 'bool', 'len', 'iter', 'in', 'dict', 'sorted', 'format', 'copy', 'deepcopy', 'eq', 'ne', 'eqtext', 'netext', 'le', 'ge',
	'attrs', 'tupleattr', 'dictattr', 'segments', 'query', 'hostname', 'portattr', 'composeiter', 'joinself']
BHOWS = [None, 'copy', 'retuple', 'redict', 'copycopy', 'deepcopy', 'setfrom', 'class', 'otherclass', 'kwargs']


def _pre(rng):
	return [[rng.choice(OBSERVERS), rng.choice(['self', 'self', 'copy', 'copycopy'])] for _ in range(rng.randint(1, 4))]


def gen_wave4(rng, tier):
	big = tier == 'thorough'
	mul = 5 if big else 1
	cases = []
	seen = set()

	def add(b, r, **kw):
		key = (b, r, repr(sorted(kw.items())))
		if key in seen:
			return
		seen.add(key)
		c = {'k': 'join', 'base': b, 'ref': r}
		c.update(kw)
		cases.append(c)
	# -- (9) the delimiters of the other components inside query and fragment, for every shape of reference
	for bi, b in enumerate(META_BASES):
		for qi, q in enumerate(QMETA):
			for ti, tpl in enumerate(QTPLS):
				if bi < 2 or big or (qi + ti) % 4 == bi:
					add(b, tpl % q)
		for q in QMETA_RESPELLED:
			for ti, tpl in enumerate(QTPLS):
				if bi == 0 or big or ti % 4 == bi:
					add(b, tpl % q, qany=True)
		for fi, f in enumerate(FMETA):
			for ti, tpl in enumerate(FTPLS):
				if bi < 2 or big or (fi + ti) % 4 == bi:
					add(b, tpl % f)
	#    ... in user info and path (a ':' in the path only behind a scheme or an authority, see D49 above), reserved names as data
	for r in PATH_META_REFS:
		for b in META_BASES:
			add(b, r)
		for suffix in ('?a:b', '#a:b', '?next=http://x/y#sec:2'):
			if '?' not in r and '#' not in r:
				add(BASE, r + suffix)
	#    ... and in the base: the path, query and user info of the base carry them, the reference does not
	for b in COLON_BASES + META_BASES[2:]:
		for r in ('', 'g', './g', '../g', '..', '.', '/g', '//o', '?y', '#s', 'g?y#s', '?a:b', '#a:b', ';x', 'z://o/', 'g;x=1/../y'):
			add(b, r)
	# random combinations: meta query and fragment on random relative paths
	alpha = RSEGS + ['..', '.', 'g', 'i;x', 'j.k', 'g@h', 'a=b,c']
	for _ in range(500 * mul):
		r = rng.choice(['', '', '', '/', '//o/', '//u:p:w@O:80/', 'z://o/', 'HTTP://Z/']) + U.rpath(rng, 0, 4, alpha)
		if rng.random() < 0.7:
			r += '?' + rng.choice(QMETA)
		if rng.random() < 0.6:
			r += '#' + rng.choice(FMETA)
		add(rng.choice(BASES + META_BASES + COLON_BASES), r)
	# -- (7) read-only observers on the base (and on the reference object) before join; (8) the base built through every construction path
	pool = [c['ref'] for c in cases if not c.get('qany')] + SPECIAL_REFS + DEGEN_REFS + [r for r, _ in U.RFC54]
	for n in range(700 * mul):
		kw = {}
		if n % 3 != 1:
			kw['pre'] = _pre(rng)
		if n % 3 != 0:
			kw['bhow'] = rng.choice(BHOWS[1:])
		add(rng.choice(BASES + META_BASES[2:] + COLON_BASES), rng.choice(pool), **kw)
	for how in BHOWS[1:]:
		for r in ('g', '../g', '?a:b', '#a:b', '//o/x', 'z://o/', ''):
			add(BASE, r, bhow=how)
	# observers interleaved with joins and modifications of one base object
	alpha2 = RSEGS + ['..', '.', 'g', 'i;x', 'j.k', '...', 'g~h', 'k-l_m', '..;x', 'g%20h', '%2f']
	for n in range(350 * mul):
		ops = []
		for _i in range(rng.randint(3, 7)):
			r = rng.random()
			if r < 0.4:
				ref = rng.choice(['', '', '/', '//o/', 'z://o/']) + U.rpath(rng, 0, 4, alpha2) + rng.choice(['', '', '?y', '#s', '?a:b', '#a:b', '?t=12:30#sec:2'])
				ops.append(['join', ref, rng.choice(['bytes', 'bytes', 'str', 'obj', 'tuple', 'dict'])])
			elif r < 0.85:
				ops.append(['obs'] + _pre(rng)[0])
			elif r < 0.92:
				ops.append(['chain'])
			else:
				ops.append(['set', 'path', rng.choice(['', '/', '/x/y', '/x/y/', '/a:b/c'])])
		ops.append(['join', rng.choice(['g', '../g', '?a:b', '#a:b']), rng.choice(['bytes', 'obj'])])
		cases.append({'k': 'seq', 'base': rng.choice(BASES + COLON_BASES), 'ops': ops})
	return cases


def _ro(u, name, target='self'):
	"""one read-only use of u (or of a copy of u); whatever it answers or raises is not this property's business, what it leaves behind is"""
	import copy
	x = u
	if target == 'copy':
		x = type(u)(u)
	elif target == 'copycopy':
		x = copy.copy(u)
	try:
		if name == 'repr':
			repr(x)
		elif name == 'str':
			str(x)
		elif name == 'bytes':
			bytes(x)
		elif name == 'hash':
			hash(x)
		elif name == 'bool':
			bool(x)
		elif name == 'len':
			len(x)
		elif name == 'iter':
			list(iter(x))
		elif name == 'in':
			'a' in x
		elif name == 'dict':
			dict(x)
		elif name == 'sorted':
			sorted([x, u])
		elif name == 'format':
			format(x)
		elif name == 'copy':
			copy.copy(x)
		elif name == 'deepcopy':
			copy.deepcopy(x)
		elif name == 'eq':
			x == u
			u == type(u)(u)
		elif name == 'ne':
			x != u
			u != type(u)(u)
		elif name == 'eqtext':
			x == b'http://example.com/a/../b'
			u'HTTP://h/' == x
		elif name == 'netext':
			x != b'http://example.com/a/../b'
			u'HTTP://h/' != x
		elif name == 'le':
			x <= u
		elif name == 'ge':
			x >= u
		elif name == 'attrs':
			for a in ('scheme', 'username', 'password', 'host', 'hostname', 'port', 'path', 'path_segments', 'query_string', 'query', 'fragment', 'tuple', 'dict', 'PORT', 'encoding', 'slots'):
				getattr(x, a)
		elif name == 'tupleattr':
			x.tuple
		elif name == 'dictattr':
			x.dict
		elif name == 'segments':
			x.path_segments
		elif name == 'query':
			x.query
		elif name == 'hostname':
			x.hostname
		elif name == 'portattr':
			x.port
		elif name == 'composeiter':
			list(x._compose_absolute_iter())
		elif name == 'joinself':
			x.join(b'../other?a:b#c')   # join itself reads its base
		else:
			raise KeyError('harness: unknown observer %r' % (name,))
	except KeyError:
		raise
	except Exception:
		pass


def _rebuild(x, how, rng_free_text=None):
	"""the same URI through another construction path"""
	import copy
	C = U.classes()
	if how == 'copy':
		return type(x)(x)
	if how == 'retuple':
		return C['URI'](x.tuple)
	if how == 'redict':
		return C['URI'](x.dict)
	if how == 'kwargs':
		return C['URI'](**x.dict)
	if how == 'copycopy':
		return copy.copy(x)
	if how == 'deepcopy':
		return copy.deepcopy(x)
	if how == 'setfrom':
		y = C['URI']()
		y.set(x)
		return y
	if how == 'class':
		return type(x)(rng_free_text)
	if how == 'otherclass':
		names = sorted(n for n in C if n != 'URI' and C[n] is not type(x))
		return C[names[len(rng_free_text) % len(names)]](rng_free_text)
	raise KeyError('harness: unknown construction %r' % (how,))


# ---------------------------------------------------------------- observation

def _mk(spec):
	C = U.classes()
	if isinstance(spec, str):
		return C['URI'](spec.encode('utf-8'))
	if 'text' in spec:
		return C['URI'](spec['text'].encode('utf-8'))
	return C[spec['cls']](tuple(spec['t']))


def observe(c):
	k = c['k']
	if k == 'rfc54':
		return {'t': list(U.rfc_resolve(U.parse5(U.RFC54_BASE), U.parse5(c['ref'])))}
	if k == 'resolve':
		return {'t': list(U.rfc_resolve(U.parse5(c['base']), U.parse5(c['ref'])))}
	if k == 'seq':
		try:
			return _obs_seq(c)
		except Exception as exc:
			return {'err': U.exc_name(exc), 'msg': str(exc)[:200]}
	try:
		base = _mk(c['base'])
		if c.get('bhow'):
			base = _rebuild(base, c['bhow'], c['base'].encode('utf-8') if isinstance(c['base'], str) else None)
		if c.get('pre'):
			base0 = U.state(base)
			for name, target in c['pre']:
				_ro(base, name, target)
		o = {'base': U.state(base)}
		if c.get('pre'):
			o['base0'] = base0
		ref = c['ref'].encode('utf-8')
		try:
			rel = U.classes()['URI'](ref)
		except Exception as exc:
			return {'err': 'ref:' + U.exc_name(exc), 'msg': str(exc)[:200]}
		o['rel'] = U.state(rel)
		j = base.join(ref)
		o['out'] = U.state(j)
		o['pub'] = U.public(j)
		o['after'] = U.state(base)   # join must not modify the base
		o['qc'] = _qcanon(c)
		o['alt'] = _alt_joins(base, c['ref'], j, c.get('pre'))
		if c.get('pre') or c.get('bhow'):
			fresh = _mk(c['base'])   # never looked at, built the plain way
			o['fresh'] = U.state(fresh.join(ref))
		if base_in_domain(c['base']):
			o['cmp'] = _cmp_result(c, o, j)
		return o
	except Exception as exc:
		return {'err': U.exc_name(exc), 'msg': str(exc)[:200]}


def _cmp_result(c, o, j):
	"""the result against a URI object built from the expected components (and from its own components), through == and != in both orders"""
	C = U.classes()
	want = expected(U.rfc_resolve(U.parse5(c['base']), U.parse5(c['ref'])), _qcanon(c))
	out = {}
	for name, t in (('want', want), ('own', list(o['pub']))):
		try:
			w = C['URI'](tuple(t))
			out[name] = [_b(lambda: j == w), _b(lambda: j != w), _b(lambda: w == j), _b(lambda: w != j)]
		except Exception as exc:   # the expected components are not accepted by the constructor (port out of range ...): nothing to compare with
			out[name] = 'n/a:%s' % type(exc).__name__
	return out


def _b(f):
	try:
		r = f()
	except TypeError:
		return 'TypeError'
	return r if isinstance(r, bool) else repr(r)


def _qcanon(c):
	"""canonical spelling of a query that carries percent-encoded octets or '+', as URI.parse stores it (the form-urlencoded
	re-encoding of the query belongs to the component property); queries without them are expected verbatim"""
	out = {}
	qs = [U.parse5(c['ref'])[3]]
	if isinstance(c['base'], str):
		qs.append(U.parse5(c['base'])[3])
	for q in qs:
		if q and ('%' in q or '+' in q or c.get('qany')):
			out[q] = U.classes()['URI'](b'http://x/?' + q.encode('utf-8')).query_string
	return out


def _refarg(way, ref):
	C = U.classes()
	if way == 'bytes':
		return (ref.encode('utf-8'),), {}, None
	if way == 'str':
		return (ref,), {}, None
	r = C['URI'](ref.encode('utf-8'))
	if way == 'obj':
		return (r,), {}, r
	if way == 'tuple':
		return (r.tuple,), {}, None
	if way == 'dict':
		return (), dict(r.dict), None
	raise ValueError(way)


def _alt_joins(base, ref, j, pre=None):
	"""the same reference handed over in every form join() accepts; the base object is reused"""
	out = {'ident': j is base}
	for way in ('str', 'obj', 'tuple', 'dict', 'bytes'):
		try:
			args, kw, robj = _refarg(way, ref)
			before = U.state(robj) if robj is not None else None
			if robj is not None and pre:
				for name, target in pre:   # the reference object is looked at before it is handed over
					_ro(robj, name, target)
				if U.state(robj) != before:
					out[way] = {'err': 'observer', 'msg': 'the read-only uses %r changed the reference object: %r became %r' % (pre, before, U.state(robj))}
					continue
			jj = base.join(*args, **kw)
			out[way] = {'out': U.state(jj), 'pub': U.public(jj), 'ident': jj is base or jj is robj, 'refsame': before is None or U.state(robj) == before}
		except Exception as exc:
			out[way] = {'err': U.exc_name(exc), 'msg': str(exc)[:200]}
	out['after'] = U.state(base)
	return out


def _obs_seq(c):
	C = U.classes()
	base = _mk(c['base'])
	steps = []
	last = None
	for op in c['ops']:
		w = op[0]
		if w == 'join':
			before = U.state(base)
			fresh = C['URI'](tuple(base.tuple))
			rel = C['URI'](op[1].encode('utf-8'))
			args, kw, robj = _refarg(op[2], op[1])
			j = base.join(*args, **kw)
			jf = fresh.join(op[1].encode('utf-8'))
			steps.append({'b': before, 'rel': U.state(rel), 'out': U.state(j), 'fout': U.state(jf), 'after': U.state(base), 'ident': j is base or j is robj,
				'refsame': robj is None or U.state(robj) == U.state(rel)})
			last = j
		elif w == 'obs':
			before = U.state(base)
			_ro(base, op[1], op[2])
			if U.state(base) != before:
				return {'observer_changed': [op, before, U.state(base)], 'steps': steps}
		elif w == 'chain':
			if last is not None:
				base = last
		elif w == 'use':
			if op[1] == 'normalize':
				base.normalize()
			elif op[1] == 'abspath':
				base.abspath()
			elif op[1] == 'compose':
				try:
					bytes(base)
				except Exception:
					pass
			else:
				bool(base == type(base)(base))
		elif w == 'set':
			if op[1] == 'tuple':
				base.tuple = tuple(op[2])
			elif op[1] == 'parse':
				base.parse(op[2].encode('ascii'))
			elif op[1] == 'path_segments':
				base.path_segments = list(op[2])
			else:
				setattr(base, op[1], op[2])
		else:
			raise ValueError(w)
	return {'steps': steps}


def coq_case(c, o):
	k = c['k']
	if k == 'rfc54':
		return 'CResolve %s %s %s' % (U.coq_ref5(U.parse5(U.RFC54_BASE)), U.coq_ref5(U.parse5(c['ref'])), U.coq_ref5(U.parse5(c['want'])))
	if k == 'resolve':
		return 'CResolve %s %s %s' % (U.coq_ref5(U.parse5(c['base'])), U.coq_ref5(U.parse5(c['ref'])), U.coq_ref5(o['t']))
	if k == 'seq' and 'steps' in o:
		return ['CJoin %s %s %s %s' % (U.ltab([st['b']['t'][0], st['b']['t'][3], st['rel']['t'][0], st['rel']['t'][3]]), U.coq_state(st['b']), U.coq_state(st['rel']), U.coq_state(st['out']))
			for st in o['steps']]
	if 'harness_exception' in o:
		return 'CResolve (Ref5 None None [] None None) (Ref5 None None [] None None) (Ref5 None None [x00] None None)'
	if 'err' in o:
		if o['err'].startswith('ref:') and not o['err'].startswith('ref:escape'):
			return None   # the parser refuses the reference: nothing for the join model to do
		return 'CResolve (Ref5 None None [] None None) (Ref5 None None [] None None) (Ref5 None None [x00] None None)'
	if c.get('nocoq'):
		return None   # length class beyond what a case file affords: oracle only
	strings = [o['base']['t'][0], o['base']['t'][3], o['rel']['t'][0], o['rel']['t'][3]]
	return 'CJoin %s %s %s %s' % (U.ltab(strings), U.coq_state(o['base']), U.coq_state(o['rel']), U.coq_state(o['out']))


# ---------------------------------------------------------------- the property, stated on the implementation

def _split_authority(a):
	userinfo, _, hostport = a.rpartition('@')
	user, _, pw = userinfo.partition(':')
	if ':' in hostport and not hostport.endswith(']'):
		host, _, port = hostport.rpartition(':')
	else:
		host, port = hostport, ''
	return user, pw, host, (int(port) if port else None)


def expected(t, qc=None):
	"""components of the RFC target after normalisation: case, default port, slash runs, percent-encoded octets decoded
	(an encoded slash stays data inside its segment) (written from the property text)"""
	s, a, p, q, f = t
	s = (s or '').lower()
	user, pw, host, port = _split_authority(a) if a is not None else ('', '', '', None)
	host = host.lower()
	if '%' in (a or '') + p + (f or ''):
		user, pw, f, host = unq(user), unq(pw), unq(f or ''), unq(host).lower()
		p = '/'.join(unq(seg).replace('/', '%2f') for seg in p.split('/'))
	if q and qc and q in qc:
		q = qc[q]
	if port is None:
		port = U.DEFAULT_PORTS.get(s)
	path = U.rfc_rds(U.collapse(p)) if p.startswith('/') else U.collapse(p)
	if host and s and path and not path.startswith('/'):
		path = '/' + path
	return [s, user, pw, host, port, path, q or '', f or '']


def base_in_domain(base):
	if not isinstance(base, str):
		return False
	s, a, p, q, f = U.parse5(base)
	if not s or not a or f is not None:
		return False
	if s != s.lower() or a != a.lower():
		return False
	user, pw, host, port = _split_authority(a)
	if not host:
		return False
	if p and (not p.startswith('/') or '//' in p or any(x in ('.', '..') for x in p.split('/'))):
		return False
	return True


NAMES = ['scheme', 'username', 'password', 'host', 'port', 'path', 'query', 'fragment']


def oracle(c, o):
	k = c['k']
	if 'harness_exception' in o:
		return 'unexpected exception %s' % (o,)
	if k == 'rfc54':
		got = U.recompose(tuple(o['t']))
		return None if got == c['want'] else 'the harness transcription of RFC 5.2.2 gives %r for the RFC example %r (RFC: %r)' % (got, c['ref'], c['want'])
	if k == 'resolve':
		return None
	if k == 'seq':
		if 'err' in o:
			return 'unexpected exception %s' % (o,)
		if 'observer_changed' in o:
			return 'the read-only use %r changed the base object: %r became %r (case %r)' % (o['observer_changed'][0], o['observer_changed'][1], o['observer_changed'][2], c)
		for n, st in enumerate(o['steps']):
			if st['after'] != st['b']:
				return 'join modified the base URI (step %d of %r on %r): %r became %r' % (n, c['ops'], c['base'], st['b'], st['after'])
			if st['out'] != st['fout']:
				return 'join on a base object that was used/modified before (join %d of %r on %r) gives %r, a fresh object built from the same components %r gives %r' % (n, c['ops'], c['base'], st['out'], st['b']['t'], st['fout'])
			if st['ident'] or not st['refsame']:
				return 'join returned or modified one of its arguments (join %d of %r on %r)' % (n, c['ops'], c['base'])
		return None
	if not base_in_domain(c['base']):
		if str(o.get('err', '')).startswith('escape'):
			return 'unexpected exception %s' % (o,)
		return None
	if 'err' in o:
		return 'join raised: %s' % (o,)
	if 'base0' in o and o['base0'] != o['base']:
		return 'the read-only uses %r changed the base object: %r became %r' % (c['pre'], o['base0'], o['base'])
	if o['after'] != o['base']:
		return 'join modified the base URI'
	want = expected(U.rfc_resolve(U.parse5(c['base']), U.parse5(c['ref'])), o.get('qc'))
	got = o['pub']
	for name, g, w in zip(NAMES, got, want):
		if g != w:
			return 'join(%r, %r) %s: got %r, RFC 3986 5.2.2 + normalisation gives %r (result %r, expected %r)' % (c['base'], c['ref'], name, g, w, got, want)
	if o['out']['t'][4] != want[4]:
		return 'join(%r, %r) port slot: got %r, expected %r' % (c['base'], c['ref'], o['out']['t'][4], want[4])
	alt = o.get('alt')
	if alt:
		if alt['ident']:
			return 'join(%r, %r) returned the base object itself' % (c['base'], c['ref'])
		for way in ('str', 'obj', 'tuple', 'dict', 'bytes'):
			a = alt[way]
			if 'err' in a:
				return 'join(%r, reference %r given as %s) raised: %s' % (c['base'], c['ref'], way, a)
			for name, g, w in zip(NAMES, a['pub'], want):
				if g != w:
					return 'join(%r, reference %r given as %s) %s: got %r, RFC 3986 5.2.2 + normalisation gives %r (result %r, expected %r)' % (c['base'], c['ref'], way, name, g, w, a['pub'], want)
			if a['out'] != o['out']:
				return 'join(%r, reference %r given as %s) differs from the result for the reference given as bytes: %r vs %r' % (c['base'], c['ref'], way, a['out'], o['out'])
			if a['ident'] or not a['refsame']:
				return 'join(%r, reference %r given as %s) returned or modified one of its arguments' % (c['base'], c['ref'], way)
		if alt['after'] != o['base']:
			return 'join modified the base URI (reference %r given in other forms)' % (c['ref'],)
	if 'fresh' in o and o['fresh'] != o['out']:
		return 'join(%r, %r) on a base that was built through %r and looked at through %r gives %r, a fresh base gives %r' % (c['base'], c['ref'], c.get('bhow'), c.get('pre'), o['out'], o['fresh'])
	cmpr = o.get('cmp')
	if cmpr:
		for name, what in (('want', 'a URI built from the expected components %r' % (want,)), ('own', 'a URI built from its own components')):
			if isinstance(cmpr[name], list) and cmpr[name] != [True, False, True, False]:
				return 'join(%r, %r) compared with %s: [result == it, result != it, it == result, it != result] = %r' % (c['base'], c['ref'], what, cmpr[name])
	return None


def classify(c, o, fail):
	if c['k'] != 'join' or not isinstance(c['base'], str):
		return None
	rs, ra, rp, rq, rf = U.parse5(c['ref'])
	bs, ba, bp, bq, bf = U.parse5(c['base'])
	segs = rp.split('/')
	if ra is not None and _split_authority(ra)[2] == '':
		return 'D20b-empty-authority-host'
	if rs is None and ra is None and rp == '' and rq == '' and bq and ' query: ' in fail:
		return 'D20c-empty-query'
	if rq and set(rq) <= set('&=') and ' query: ' in fail:
		return 'D20e-separator-only-query'
	if rs is None and ra is None and ':' in rp and fail.startswith('join raised') and "'ref:invalid'" in fail and 'Invalid scheme' in fail:
		return 'D20f-colon-in-relative-path'
	if ' path: ' in fail:
		if rs is not None and ra is None and ('..' in segs or '.' in segs):
			return 'D20d-scheme-ref-hostless-dots'
		# an empty segment somewhere before a '..' segment (slash runs are collapsed before dot removal)
		for i, s in enumerate(segs):
			if s == '' and 0 < i < len(segs) - 1 and '..' in segs[i + 1:]:
				return 'D20a-empty-segment-before-dotdot'
	return None


def nontrivial(c, o):
	if c['k'] == 'seq':
		return ('seq', repr(c['base']), repr(c['ops']))
	if c['k'] != 'join' or 'err' in o or 'harness_exception' in o:
		return ('r', c.get('base'), c['ref']) if c['k'] != 'join' else None
	if o['out']['t'] == o['base']['t']:
		return None
	return (repr(c['base']), c['ref'])


LEVEL_TEXT = ('Machine-checked Coq theorem over octet strings of any length: for every normalised absolute base without fragment and every reference (five components) '
	'satisfying four boolean side conditions, URI.join equals normalize applied to the literal RFC 3986 5.2.2 algorithm (with 5.2.3 merge and 5.2.4 dot removal); '
	'each side condition is shown necessary by a refutation witness (known findings D20a-d). Model tied to /repo on every run: ~15k join evaluations inside Coq, '
	'the RFC transcription checked against the RFC 5.4 examples.')
LEVEL_NOTE = ('Trusted: Coq kernel + vm_compute; T1/T2 harness; URI.parse (the reference enters the model as the slots of URI(ref)); str.lower as Section parameter; '
	'UTF-8 octet modelling of text. No axioms.')
TECHNIQUE = 'Coq proof (case analysis on the selection cascade + induction over segment lists for the "/../" trick) + vm_compute correspondence'

"""C03 -- hostile input is contained: parse() only ever raises HTTP status errors; bounded work."""
import sys
import time

from harness import parser_rec, streams
from harness.props import _parser_common as pc

ID = 'C03'
PROPS = 'Props/C03.v'
TABLES = pc.TABLES
COQ_HEADER = pc.COQ_HEADER
COQ_CHECK = pc.COQ_CHECK
CORR_VO = pc.CORR_VO
RULE = ('mutation-heavy streams (grammar-aware: invalid percent escapes, RFC 2047 look-alikes, control and 8-bit octets in every position, unknown / '
	'unimplemented codings, corrupt compressed bodies, absurd lengths and chunk counts) fed whole, per octet and with random cuts to both state machines; '
	'oracle: the exception type of every parse() call is a StatusException; bounded work: many-chunk streams (up to 20000 chunks in one buffer) must not '
	'exhaust the interpreter stack and parse time per octet must not grow with the input. non-trivial = distinct stream that raises or delivers')
EXHAUSTIVE = {'quick': False, 'thorough': False}
TRUSTED = pc.TRUSTED_COMMON + ['interpreter stack depth and wall time are runtime behaviour the Gallina model cannot exhibit: measured on the implementation (kinds manychunks / scaling)']
ASSUMPTIONS = ['the escape-freedom theorem is conditional on the callees (start line/URI, header elements, decompress, RFC 2047, Trailer) raising only Invalid*/StatusException; that hypothesis is validated on every run, not proved']
WITNESSES = []

HOSTILE_HDRS = [b'Host: a:' + b'1' * 4301, b'Host: a:65536', b'Host: a:0', b'Content-Length: ' + b'0' * 4301, b'Host: =?x', b'Host: =?utf-8?q?a?=', b'Host: a\nb', b'Host: \x00', b'Host: [::1', b'Host: [v1.x]', b'Host: a:99999', b'Host: .', b'Host: a..b', b'Host: xn--', b'Host: \xe4.example',
	b'Content-Encoding: br', b'Content-Encoding: identity', b'Content-Encoding: compress', b'Content-Encoding: exi', b'Content-Encoding: gzip, deflate', b'Content-Encoding: =?utf-8?b?Z3ppcA==?=',
	b'Content-Type: =?x?=', b'Content-Type: a/b; charset="', b'Content-Type: ;', b'Content-Type: text/plain; q=1; q=2', b'Content-Type: a/b; x*=utf-8\'\'%ff', b'Content-Type: a/b; x*=bogus\'\'a', b'Content-Type: a/b; x*0=a; x*2=b',
	b'Transfer-Encoding: =?utf-8?q?chunked?=', b'Transfer-Encoding: chunked\x00', b'Content-Length: 99999999999999999999999', b'Content-Length: ' + b'9' * 5000, b'Content-Length: \xb2', b'Content-Length: =?utf-8?b?2aM=?=',
	b'Trailer: =?x?=', b'Trailer: a b', b'Trailer: \xff', b'Trailer: "', b'Trailer: Foo;q="', b'Connection: Upgrade, HTTP2-Settings\r\nUpgrade: h2c\r\nHTTP2-Settings: =?x', b'Upgrade: =?utf-8?q?h2c?=',
	b'Foo: =?utf-8?b?////?=', b'Foo: =?utf-8?b?!?=', b'Foo: =?utf-8?q?=?=', b'Foo: =?ascii?q?=ff?=', b'Foo: =?utf-16?b?AA?=', b'Foo: =?x-unknown?q?a?=']
HOSTILE_TARGETS = [b'http://a:' + b'1' * 4301 + b'/', b'a:' + b'7' * 4400, b'/%FF', b'/%c0%ae', b'/?a=%ff', b'/%', b'/%2', b'/a%00b', b'//', b'///a', b'http://', b'http://[', b'http://[::1', b'http://a:b/', b'http://a:99999/', b'http://\xff/', b'.example:80', b'http://.x/',
	b'http://xn--/', b'/\xff', b'/?\x00', b'/?a=%00', b'/#', b'?', b'#', b'http:', b'http:/', b'ht!tp://a/', b'/' + b'a/' * 200, b'/' + b'../' * 50, b'*x', b'a:b:c', b'[::1]:80', b'http://a@b@c/', b'http://u:p@h/', b'\\', b'/\\..\\']


def hostile_stream(rng, kind):
	le = b'\r\n'
	if kind == 'server':
		line = b'%s %s HTTP/%s' % (rng.choice(streams.METHODS + [b'', b'G\x00T', b'\xff']), rng.choice(HOSTILE_TARGETS + streams.TARGETS), rng.choice([b'1.1', b'1.0', b'1.1', b'9.9', b'1.', b'x', b'1.1.1', b'01.01', b'1.' + b'1' * 4301, b'1' * 4301 + b'.1']))
	else:
		line = b'HTTP/%s %s' % (rng.choice([b'1.1', b'1.0', b'x', b'2']), rng.choice(streams.STATUS + [b'', b'abc', b'2000 X', b'-1 X', b'200\x00']))
	hs = [rng.choice(HOSTILE_HDRS if rng.random() < .6 else streams.HDRS) for _ in range(rng.randint(0, 4))]
	if kind == 'server' and rng.random() < .6 and not any(h.lower().startswith(b'host') for h in hs):
		hs.insert(0, b'Host: h.example')
	body = b''
	low = b''.join(hs).lower()
	if b'transfer-encoding: chunked' in low or b'transfer-encoding: =?' in low:
		body = streams.chunked_body(rng, None, [rng.choice([b'Foo: bar', b'=?: x', b'Foo: =?x'])] if rng.random() < .4 else [])
		if rng.random() < .3:
			body = streams.mutate(rng, body)
	elif b'content-encoding' in low:
		import gzip
		import zlib
		payload = rng.choice([b'', b'abc', b'\xff\xfe', streams.rbytes(rng, 0, 20)])
		body = rng.choice([gzip.compress(payload), zlib.compress(payload), b'garbage', gzip.compress(payload)[:-3], b''])
		hs.append(b'Content-Length: %d' % len(body))
	else:
		body = rng.choice([b'', b'abc'])
	s = line + le + b''.join(h + le for h in hs) + le + body
	if rng.random() < .3:
		s = streams.mutate(rng, s)
	return s


PCT_ALPHA = b'-+ _\t019afAFxXgG%.'


def systematic(rng, tier):
	"""token-level enumeration: every two-octet tail after '%' in every URI position and in an RFC 5987 parameter;
	content codings x declared charsets with VALID coded bodies; line-end variants of chunked bodies cut everywhere"""
	import gzip
	import zlib
	out = []
	tails = [bytes([a, b]) for a in PCT_ALPHA for b in PCT_ALPHA] + [bytes([a]) for a in PCT_ALPHA] + [b'']
	if tier != 'thorough':
		tails = [t for i, t in enumerate(tails) if i % 3 == rng.randrange(3) or t[:1] in b'-+ _']
	for t in tails:
		if b' ' in t or b'\t' in t:
			where = [b'GET /x HTTP/1.1\r\nHost: h\r\nContent-Type: a/b; n*=utf-8\'\'%%%s\r\n\r\n' % t]
		else:
			where = [b'GET /a%%%s HTTP/1.1\r\nHost: h\r\n\r\n' % t, b'GET /?q=%%%s HTTP/1.1\r\nHost: h\r\n\r\n' % t, b'GET http://h%%%s/ HTTP/1.1\r\nHost: h\r\n\r\n' % t,
				b'GET http://u%%%s@h/ HTTP/1.1\r\nHost: h\r\n\r\n' % t, b'GET /#%%%s HTTP/1.1\r\nHost: h\r\n\r\n' % t, b'GET /x HTTP/1.1\r\nHost: h\r\nContent-Disposition: a; n*=utf-8\'\'%%%s\r\n\r\n' % t]
		for s in where:
			out.append({'k': 'hostile', 'kind': 'server', 's': s.hex(), 'cuts': [[]]})
	for coding, comp in ((b'gzip', lambda d: gzip.compress(d, mtime=0)), (b'deflate', zlib.compress), (b'GZIP', lambda d: gzip.compress(d, mtime=0)), (b'x-gzip', lambda d: gzip.compress(d, mtime=0))):
		for ct in (None, b'text/plain; charset=foo', b'text/plain; charset=utf-16', b'text/plain; charset=cp500', b'text/plain; charset=ascii', b'application/json', b'text/plain; charset="', b'x'):
			for payload in (b'', b'abc', b'\xff\xfe', b'a' * 5000):
				body = comp(payload)
				for kind, head in (('server', b'POST / HTTP/1.1\r\nHost: h\r\n'), ('client', b'HTTP/1.1 200 OK\r\n')):
					s = head + b'Content-Encoding: ' + coding + b'\r\n' + (b'Content-Type: ' + ct + b'\r\n' if ct else b'') + b'Content-Length: %d\r\n\r\n' % len(body) + body
					out.append({'k': 'hostile', 'kind': kind, 's': s.hex(), 'cuts': [[]]})
	# format-string metacharacters at every place whose octets end up inside an error message (messages are built with % and passed on
	# through several exception layers: an input '%' must never be interpreted a second time)
	toks = [b'%', b'%s', b'%d', b'%r', b'%(a)s', b'%41', b'%%', b'%c', b'%*d', b'{}', b'{0}', b'{a}', b'%s%s%s', b'\\', b'%\xff']
	for t in toks:
		tmpl = [
			('server', b'G<T / HTTP/1.1\r\nHost: h\r\n\r\n'.replace(b'<', t)),
			('server', b'GET / HTTP/1.@\r\nHost: h\r\n\r\n'.replace(b'@', t)),
			('server', b'GET / @ HTTP/1.1\r\nHost: h\r\n\r\n'.replace(b'@', t)),
			('server', b'GET /a b@ HTTP/1.1 x\r\nHost: h\r\n\r\n'.replace(b'@', t)),
			('server', b'GET http://h@:x/ HTTP/1.1\r\nHost: h\r\n\r\n'.replace(b'@', t)),
			('server', b'GET / HTTP/1.1\r\nHost: h\r\nBad@Line\r\n\r\n'.replace(b'@', t)),
			('server', b'GET / HTTP/1.1\r\nHost: h\r\nBad @: v\r\n\r\n'.replace(b'@', t)),
			('server', b'GET / HTTP/1.1\r\nHost: a@b c\r\n\r\n'.replace(b'@', t)),
			('server', b'GET / HTTP/1.1\r\nHost: =?utf-8?q?=FF@?=\r\n\r\n'.replace(b'@', t)),
			('server', b'GET / HTTP/1.1\r\nHost: =?utf-8?b?/w@?=\r\n\r\n'.replace(b'@', t)),
			('server', b'POST / HTTP/1.1\r\nHost: h\r\nContent-Length: 1@\r\n\r\nab'.replace(b'@', t)),
			('server', b'POST / HTTP/1.1\r\nHost: h\r\nContent-Length: =?utf-8?q?=FF@?=\r\n\r\nab'.replace(b'@', t)),
			('server', b'POST / HTTP/1.1\r\nHost: h\r\nTransfer-Encoding: x@\r\n\r\nab'.replace(b'@', t)),
			('server', b'POST / HTTP/1.1\r\nHost: h\r\nTransfer-Encoding: =?utf-8?q?=FF@?=\r\n\r\nab'.replace(b'@', t)),
			('server', b'POST / HTTP/1.1\r\nHost: h\r\nContent-Encoding: x@\r\nContent-Length: 2\r\n\r\nab'.replace(b'@', t)),
			('server', b'POST / HTTP/1.1\r\nHost: h\r\nContent-Type: a@\r\nContent-Length: 2\r\n\r\nab'.replace(b'@', t)),
			('server', b'POST / HTTP/1.1\r\nHost: h\r\nContent-Type: =?utf-8?q?=FF@?=\r\nContent-Length: 2\r\n\r\nab'.replace(b'@', t)),
			('server', b'POST / HTTP/1.1\r\nHost: h\r\nContent-Type: a/b; n*=utf-8\'\'%ff@\r\nContent-Length: 2\r\n\r\nab'.replace(b'@', t)),
			('server', b'POST / HTTP/1.1\r\nHost: h\r\nConnection: =?utf-8?q?=FF@?=\r\nContent-Length: 2\r\n\r\nab'.replace(b'@', t)),
			('server', b'POST / HTTP/1.1\r\nHost: h\r\nTransfer-Encoding: chunked\r\n\r\nz@\r\nab\r\n0\r\n\r\n'.replace(b'@', t)),
			('server', b'POST / HTTP/1.1\r\nHost: h\r\nTransfer-Encoding: chunked\r\n\r\n2\r\nab@\r\n0\r\n\r\n'.replace(b'@', t)),
			('server', b'POST / HTTP/1.1\r\nHost: h\r\nTransfer-Encoding: chunked\r\n\r\n2\r\nab\r\n0\r\nBad@Trailer\r\n\r\n'.replace(b'@', t)),
			('server', b'POST / HTTP/1.1\r\nHost: h\r\nTransfer-Encoding: chunked\r\nTrailer: =?utf-8?q?=FF@?=\r\n\r\n2\r\nab\r\n0\r\nX: y\r\n\r\n'.replace(b'@', t)),
			('server', b'POST / HTTP/1.1\r\nHost: h\r\nTransfer-Encoding: chunked\r\nTrailer: X\r\n\r\n2\r\nab\r\n0\r\nY@: untold\r\n\r\n'.replace(b'@', t)),
			('client', b'HTTP/1.@ 200 OK\r\n\r\n'.replace(b'@', t)),
			('client', b'HTTP/1.1 2@0 OK\r\n\r\n'.replace(b'@', t)),
			('client', b'HTTP/1.1 200 O\x01@K\r\n\r\n'.replace(b'@', t)),
			('client', b'HTTP/1.1 200 OK\r\nContent-Length: =?utf-8?q?=FF@?=\r\n\r\n'.replace(b'@', t)),
			('client', b'HTTP/1.1 200 OK\r\nTransfer-Encoding: =?x?q?@?=\r\n\r\n'.replace(b'@', t)),
			('client', b'HTTP/1.1 200 OK\r\nBad@Line\r\n\r\n'.replace(b'@', t)),
		]
		for kind, st in tmpl:
			out.append({'k': 'hostile', 'kind': kind, 's': st.hex(), 'cuts': [[]]})
	# every name in every registry the code consults, used as a content / transfer coding: charsets and codec aliases below, here the
	# media-type codec registry (a coding that names a registered media-type codec must be refused, not run) and the coding tables
	from httoop import codecs as _codecs
	from httoop.header import messaging as _messaging
	regnames = set(k for k in getattr(_codecs, 'CODECS', {}) if isinstance(k, str))
	for attr in dir(_messaging):
		tbl = getattr(getattr(_messaging, attr), 'CODECS', None)
		if isinstance(tbl, dict):
			regnames |= set(k for k in tbl if isinstance(k, str))
	regnames |= {'application/json', 'application/x-www-form-urlencoded', 'multipart/form-data', 'text/plain', 'message/http', 'application/gzip', 'application/zlib', 'zstd', 'x-compress'}
	bodies = [b'{}', b'x', b'', b'a=b', b'--x\r\n\r\n--x--\r\n', b'\x1f\x8b', b'\xff']
	for name in sorted(regnames):
		for variant in (name, name.upper(), name.title()):
			nm = variant.encode('latin-1', 'replace')
			for body in bodies:
				for fld in (b'Content-Encoding', b'Transfer-Encoding'):
					for kind, head in (('server', b'POST / HTTP/1.1\r\nHost: h\r\n'), ('client', b'HTTP/1.1 200 OK\r\n')):
						st = head + fld + b': ' + nm + b'\r\nContent-Length: %d\r\n\r\n' % len(body) + body
						out.append({'k': 'hostile', 'kind': kind, 's': st.hex(), 'cuts': [[]]})
	# degenerate values (empty, blanks only, separators only, unbalanced quotes) in every field the parser or its hooks read
	degenerate = [b'', b' ', b'\t', b',', b', ,', b',,', b';', b';;', b'=', b'"', b'""', b'",', b' , ;= ', b',chunked', b'chunked,', b'chunked;', b';q=1', b'*', b'/', b':', b'@', b'[]', b'[', b'\\']
	read_fields = [b'Transfer-Encoding', b'Content-Length', b'Content-Encoding', b'Content-Type', b'Host', b'Connection', b'Upgrade', b'HTTP2-Settings', b'Trailer', b'Expect', b'TE', b'Accept', b'Cookie', b'Range']
	for fld in read_fields:
		for v in degenerate:
			for kind, head, tail in (('server', b'POST / HTTP/1.1\r\n' + (b'' if fld == b'Host' else b'Host: h\r\n'), b'\r\nab'), ('client', b'HTTP/1.1 200 OK\r\n', b'\r\nab')):
				st = head + fld + b':' + v + b'\r\n' + tail
				out.append({'k': 'hostile', 'kind': kind, 's': st.hex(), 'cuts': [[]]})
				if fld == b'Trailer':
					st = head + b'Transfer-Encoding: chunked\r\nTrailer:' + v + b'\r\n\r\n1\r\na\r\n0\r\nX: y\r\n\r\n'
					out.append({'k': 'hostile', 'kind': kind, 's': st.hex(), 'cuts': [[]]})
	# the complete h2c upgrade request (all conditions of the upgrade check true) with hostile values in each of its fields
	h2vals = [b'Zm9v', b'', b'\xff\xfe', b'=?utf-8?q?=C3=A4?=', b'=?utf-8?b?w6Q=?=', b'%', b'====', b'Zm9', b'Zm9v\x01', b'a b', b'"Zm9v"', b'Zm9v, Zm9v', b'\xe4']
	for v in h2vals:
		for st in (b'GET / HTTP/1.1\r\nHost: h\r\nConnection: Upgrade, HTTP2-Settings\r\nUpgrade: h2c\r\nHTTP2-Settings: ' + v + b'\r\n\r\n',
				b'GET / HTTP/1.1\r\nHost: h\r\nConnection: Upgrade, HTTP2-Settings\r\nUpgrade: ' + v + b'\r\nHTTP2-Settings: Zm9v\r\n\r\n',
				b'GET / HTTP/1.1\r\nHost: h\r\nConnection: Upgrade, ' + v + b'\r\nUpgrade: h2c\r\nHTTP2-Settings: Zm9v\r\n\r\n'):
			out.append({'k': 'hostile', 'kind': 'server', 's': st.hex(), 'cuts': [[]]})
	# small inputs whose cost could be super-linear or proportional to a NUMBER they contain instead of their length: a run of one
	# character followed by a character that makes the match fail (regular expressions that backtrack), and huge numerals in every
	# numeric position (section numbers, lengths, sizes, versions, ports, quality values)
	for k_ in (26, 30, 34, 40, 64, 200, 4000):
		for ch in (b'a', b'.', b'-', b'a.', b' ', b'1', b'%41', b'\\', b'"', b'(', b',', b';', b'='):
			run_ = (ch * k_)[:k_ if len(ch) == 1 else k_ * len(ch)]
			for bad in (b'(', b'\x01', b'!', b'\xff', b' x', b''):
				v = run_ + bad
				for st in (b'GET / HTTP/1.1\r\nHost: ' + v + b'\r\n\r\n',
						b'GET /' + v + b' HTTP/1.1\r\nHost: h\r\n\r\n',
						b'GET http://' + v + b'/ HTTP/1.1\r\nHost: h\r\n\r\n',
						b'POST / HTTP/1.1\r\nHost: h\r\nContent-Type: a/b; p=' + v + b'\r\nContent-Length: 0\r\n\r\n',
						b'POST / HTTP/1.1\r\nHost: h\r\nContent-Type: ' + v + b'\r\nContent-Length: 0\r\n\r\n',
						b'POST / HTTP/1.1\r\nHost: h\r\nTransfer-Encoding: ' + v + b'\r\n\r\n',
						b'POST / HTTP/1.1\r\nHost: h\r\nTransfer-Encoding: chunked\r\nTrailer: ' + v + b'\r\n\r\n0\r\n\r\n'):
					if k_ > 64 and ch not in (b'a', b'.', b'a.'):
						continue
					if tier != 'thorough' and rng.random() < .5 and k_ not in (34, 40):
						continue
					out.append({'k': 'hostile', 'kind': 'server', 's': st.hex(), 'cuts': [[]]})
	big = [b'7000000000', b'99999999999999999999', b'18446744073709551616', b'1' + b'0' * 400, b'1' * 4301, b'9' * 5000, b'0x7fffffffffffffff', b'1e9', b'4294967296', b'-7000000000']
	for n_ in big:
		for st in (b'POST / HTTP/1.1\r\nHost: h\r\nContent-Type: a/b; title*' + n_ + b'=x\r\nContent-Length: 0\r\n\r\n',
				b'POST / HTTP/1.1\r\nHost: h\r\nContent-Type: a/b; title*0=x; title*' + n_ + b'=y\r\nContent-Length: 0\r\n\r\n',
				b'POST / HTTP/1.1\r\nHost: h\r\nContent-Disposition: a; filename*' + n_ + b"*=utf-8''x\r\nContent-Length: 0\r\n\r\n",
				b'POST / HTTP/1.1\r\nHost: h\r\nContent-Length: ' + n_ + b'\r\n\r\nab',
				b'POST / HTTP/1.1\r\nHost: h\r\nTransfer-Encoding: chunked\r\n\r\n' + n_ + b'\r\nab\r\n0\r\n\r\n',
				b'GET / HTTP/' + n_ + b'.' + n_ + b'\r\nHost: h\r\n\r\n',
				b'GET / HTTP/1.1\r\nHost: h:' + n_ + b'\r\n\r\n',
				b'GET http://h:' + n_ + b'/ HTTP/1.1\r\nHost: h\r\n\r\n',
				b'GET http://' + n_ + b'/ HTTP/1.1\r\nHost: h\r\n\r\n',
				b'GET http://1.2.3.' + n_ + b'/ HTTP/1.1\r\nHost: h\r\n\r\n',
				b'CONNECT ' + n_ + b':80 HTTP/1.1\r\nHost: ' + n_ + b':80\r\n\r\n',
				b'GET / HTTP/1.1\r\nHost: ' + n_ + b'\r\n\r\n',
				b'GET / HTTP/1.1\r\nHost: h\r\nAccept: a/b;q=' + n_ + b'\r\nRange: bytes=0-' + n_ + b'\r\n\r\n'):
			out.append({'k': 'hostile', 'kind': 'server', 's': st.hex(), 'cuts': [[]]})
		out.append({'k': 'hostile', 'kind': 'client', 's': (b'HTTP/1.1 ' + n_ + b' OK\r\nContent-Length: ' + n_ + b'\r\n\r\n').hex(), 'cuts': [[]]})
	# every charset name the code may accept (KNOWN_ENCODINGS as the tree has it now), every codec name Python knows
	# (text or not: uu, hex, rot13, zlib ... are codecs that bytes.decode() refuses with LookupError), as the charset
	# of an encoded word in a field the parser reads and of an RFC 5987 extended parameter
	import encodings.aliases
	from httoop import util as _util
	names = sorted(set(getattr(_util, 'KNOWN_ENCODINGS', ())) | set(encodings.aliases.aliases.values()) | {'utf-8-sig', 'idna', 'punycode', 'unicode_escape', 'raw_unicode_escape', 'undefined', 'mbcs', 'oem', 'x', '',
		'a\x00b', '\x00', 'utf-8\x00', 'utf\x008', 'x' * 300, '\xfc', ' utf-8', 'utf-8 ', 'utf 8', 'utf-8\t', '\x7f', 'u\x1ft', '%', '*', "'", '"', '=', '?', '??', 'utf-8?', '/', '\\', '.', '..', '-', '_'})
	for name in names:
		nm = name.encode('latin-1')
		for c, payload in ((b'q', b'abc=FF=00'), (b'b', b'YWJj/w==')):
			word = b'=?' + nm + b'?' + c + b'?' + payload + b'?='
			out.append({'k': 'hostile', 'kind': 'server', 's': (b'POST / HTTP/1.1\r\nHost: h\r\nTransfer-Encoding: ' + word + b'\r\n\r\n').hex(), 'cuts': [[]]})
			out.append({'k': 'hostile', 'kind': 'client', 's': (b'HTTP/1.1 200 OK\r\nContent-Length: ' + word + b'\r\n\r\n').hex(), 'cuts': [[]]})
		out.append({'k': 'hostile', 'kind': 'server', 's': (b'POST / HTTP/1.1\r\nHost: h\r\nContent-Type: a/b; n*=' + nm + b"''a%ff%00\r\n\r\n").hex(), 'cuts': [[]]})
		out.append({'k': 'hostile', 'kind': 'server', 's': (b'POST / HTTP/1.1\r\nHost: =?' + nm + b'?q?h?=\r\n\r\n').hex(), 'cuts': [[]]})
	for le in (b'\n', b'\r', b'\r\r\n', b'\n\r', b'\r\n'):
		for kind, head in (('server', b'POST / HTTP/1.1\r\nHost: h\r\nTransfer-Encoding: chunked\r\n\r\n'), ('client', b'HTTP/1.1 200 OK\r\nTransfer-Encoding: chunked\r\n\r\n')):
			for body in (b'5;e=1' + le + b'hello' + le + b'0' + le + le, b'5\r\nhello\r\n0' + le + b'A: b' + le + le, b'5' + le + b'hello\r\n0\r\n\r\n'):
				s = head + body
				out.append({'k': 'hostile', 'kind': kind, 's': s.hex(), 'cuts': [[], list(range(1, len(s)))] + [[p] for p in range(len(head) - 2, len(s))]})
	return out


def depth_probes(tier):
	"""inputs whose nesting / repetition count is large: no construct may cost interpreter stack per repetition"""
	ns = [1500, 6000] if tier == 'quick' else [1500, 6000, 30000]
	out = []
	for n in ns:
		for kind, line, host in (('server', b'GET / HTTP/1.1\r\n', b'Host: h\r\n'), ('client', b'HTTP/1.1 200 OK\r\n', b'')):
			out.append((kind, 'leading-crlf', b'\r\n' * n + line + host + b'\r\n'))
			out.append((kind, 'leading-lf', b'\n' * n + line + host + b'\r\n'))
			out.append((kind, 'header-lines', line + host + b''.join(b'X-%d: v\r\n' % i for i in range(n)) + b'\r\n'))
			out.append((kind, 'same-header', line + host + b'X: v\r\n' * n + b'\r\n'))
			out.append((kind, 'continuations', line + host + b'X: v\r\n' + b' c\r\n' * n + b'\r\n'))
			out.append((kind, 'commas', line + host + b'Accept: ' + b'a/b,' * n + b'c/d\r\n\r\n'))
			out.append((kind, 'params', line + host + b'Content-Type: a/b' + b';p=1' * n + b'\r\n\r\n'))
			out.append((kind, 'quotes', line + host + b'Content-Type: a/b; p=' + b'"' * n + b'\r\n\r\n'))
			out.append((kind, 'encoded-words', line + host + b'X: ' + b'=?utf-8?q?a?= ' * n + b'\r\n\r\n'))
			out.append((kind, 'trailers', line + host + b'Transfer-Encoding: chunked\r\nTrailer: ' + b','.join(b'T%d' % i for i in range(n)) + b'\r\n\r\n0\r\n' + b''.join(b'T%d: v\r\n' % i for i in range(n)) + b'\r\n'))
			out.append((kind, 'chunk-ext', line + host + b'Transfer-Encoding: chunked\r\n\r\n1' + b';e=1' * n + b'\r\na\r\n0\r\n\r\n'))
			out.append((kind, 'pipeline', (line + host + b'Content-Length: 0\r\n\r\n') * n))
		out.append(('server', 'segments', b'GET /' + b'a/' * n + b' HTTP/1.1\r\nHost: h\r\n\r\n'))
		out.append(('server', 'dotdots', b'GET /' + b'../' * n + b' HTTP/1.1\r\nHost: h\r\n\r\n'))
		out.append(('server', 'enc-dotdots', b'GET /' + b'%2e%2e/' * n + b' HTTP/1.1\r\nHost: h\r\n\r\n'))
		out.append(('server', 'slashes', b'GET ' + b'/' * n + b' HTTP/1.1\r\nHost: h\r\n\r\n'))
		out.append(('server', 'query-pairs', b'GET /?' + b'a=b&' * n + b' HTTP/1.1\r\nHost: h\r\n\r\n'))
		out.append(('server', 'spaces', b'GET' + b' ' * n + b'/ HTTP/1.1\r\nHost: h\r\n\r\n'))
		out.append(('server', 'host-labels', b'GET / HTTP/1.1\r\nHost: ' + b'a.' * n + b'b\r\n\r\n'))
		out.append(('server', 'userinfo', b'GET http://' + b'u:p@' * n + b'h/ HTTP/1.1\r\nHost: h\r\n\r\n'))
	return out


def _gen_cases(rng, tier):
	cases = systematic(rng, tier)
	for kind, label, s in depth_probes(tier):
		cases.append({'k': 'depth', 'kind': kind, 'label': label, 'n': len(s), 's': s.hex()})
	n = 6000 if tier == 'thorough' else 500
	for i in range(n):
		kind = 'server' if rng.random() < .6 else 'client'
		s = hostile_stream(rng, kind) if rng.random() < .7 else streams.gen_stream(rng, kind, mutate_p=.9)
		if len(s) > 6000:
			s = s[:6000]
		cuts = [[], sorted(set(rng.randrange(1, max(2, len(s))) for _ in range(rng.randint(1, 5))))]
		if len(s) <= 400:
			cuts.append(list(range(1, len(s))))
		cases.append({'k': 'hostile', 'kind': kind, 's': s.hex(), 'cuts': cuts})
	for nchunks in ([300, 1200, 5000] if tier == 'quick' else [300, 1200, 5000, 20000]):
		for kind in ('server', 'client'):
			cases.append({'k': 'manychunks', 'kind': kind, 'n': nchunks})
	for kind in ('server', 'client'):
		cases.append({'k': 'scaling', 'kind': kind})
	return cases


def _chunk_stream(kind, n):
	head = b'POST / HTTP/1.1\r\nHost: x\r\nTransfer-Encoding: chunked\r\n\r\n' if kind == 'server' else b'HTTP/1.1 200 OK\r\nTransfer-Encoding: chunked\r\n\r\n'
	return head + b'1\r\na\r\n' * n + b'0\r\n\r\n'


def gen_cases(rng, tier):
	cases = _gen_cases(rng, tier)
	# one in five client-side cases is read by a client machine whose request is a CONNECT (its successful responses lose their framing fields)
	for c in cases:
		if c.get('kind') == 'client' and c.get('k') == 'hostile' and rng.random() < .2:   # (the other kinds expect a delivery)
			c['kind'] = 'client-connect'
	return cases


LIMIT_S = 12.0   # no parse() of the small inputs generated here may take longer (the slowest clean-tree case takes well under a second)


class _Timeout(BaseException):   # BaseException: an "except Exception" of the library or of the recorder cannot swallow it
	pass


def _with_limit(fn, secs=LIMIT_S):
	import signal

	def handler(sig, frm):
		raise _Timeout()
	old = signal.signal(signal.SIGALRM, handler)
	signal.setitimer(signal.ITIMER_REAL, secs)
	t0 = time.perf_counter()
	try:
		return fn(), None
	except _Timeout:
		return None, time.perf_counter() - t0
	finally:
		signal.setitimer(signal.ITIMER_REAL, 0)
		signal.signal(signal.SIGALRM, old)


def observe(c):
	if c['k'] == 'hostile':
		o, late = _with_limit(lambda: pc.observe_stream(c['kind'], bytes.fromhex(c['s']), c['cuts']))
		if late is not None:
			return {'runs': [], 'timeout': round(late, 1)}
		return o
	if c['k'] == 'depth':
		t0 = time.perf_counter()
		o = parser_rec.run(c['kind'], [bytes.fromhex(c['s'])], record=False)
		last = o['calls'][-1]
		return {'result': last.get('err', 'ok:%d' % len(last.get('msgs', []))), 'msg': last.get('msg', ''), 'secs': round(time.perf_counter() - t0, 2)}
	if c['k'] == 'manychunks':
		s = _chunk_stream(c['kind'], c['n'])
		o = parser_rec.run(c['kind'], [s], record=c['n'] <= 300)
		last = o['calls'][-1]
		return {'runs': [dict(o, cuts=[])] if c['n'] <= 300 else [], 'result': last.get('err', 'ok:%d:%d' % (len(last.get('msgs', [])), len(bytes.fromhex(last['msgs'][0]['body'])) if last.get('msgs') else -1)), 's': s.hex() if c['n'] <= 300 else None}
	if c['k'] == 'scaling':
		# time per octet for a long Content-Length body and a long header block fed in 512-octet pieces must not grow with size
		res = {}
		for label, mk in (('body', lambda n: (b'POST / HTTP/1.1\r\nHost: x\r\nContent-Length: %d\r\n\r\n' % n if c['kind'] == 'server' else b'HTTP/1.1 200 OK\r\nContent-Length: %d\r\n\r\n' % n) + b'a' * n),
				('chunks', lambda n: _chunk_stream(c['kind'], n // 6))):
			per = []
			for n in (8192, 131072):
				s = mk(n)
				best = None
				for _ in range(3):
					sm = parser_rec.new_machine(c['kind'])
					t0 = time.perf_counter()
					try:
						for i in range(0, len(s), 4096):
							sm.parse(s[i:i + 4096])
					except Exception as exc:
						res[label + '_exc'] = type(exc).__name__
						break
					dt = time.perf_counter() - t0
					best = dt if best is None else min(best, dt)
				per.append((best or 0) / len(s))
			res[label] = per
		return res
	raise ValueError(c['k'])


def coq_case(c, o):
	if c['k'] == 'hostile':
		return pc.coq_parse_cases(c, o)
	if c['k'] == 'manychunks' and o['runs']:
		return [parser_rec.coq_parse_case(c['kind'], [bytes.fromhex(o['s'])], o['runs'][0])]
	return None


def _escapes(o):
	out = []
	for r in o.get('runs', []):
		for call in r['calls']:
			if isinstance(call.get('err'), str):
				out.append((call['err'], call.get('msg', '')))
	return out


def oracle(c, o):
	if 'harness_exception' in o:
		return 'harness exception: %s' % o['harness_exception']
	if o.get('timeout'):
		return 'parse() of a %d-octet input did not return within %.0f s (the work of one call must be bounded by the size of the input): %r' % (len(c.get('s', '')) // 2, LIMIT_S, bytes.fromhex(c.get('s', ''))[:120])
	if c['k'] == 'hostile':
		esc = _escapes(o)
		if esc:
			return '%s escaped from parse(): %s' % (esc[0][0].split(':', 1)[1], esc[0][1])
	if c['k'] == 'depth':
		r = o['result']
		if isinstance(r, str) and r.startswith('escape'):
			return '%s for %s repeated (stream of %d octets in one buffer): %s' % (r.split(':', 1)[1], c['label'], c['n'], o.get('msg', ''))
		if o['secs'] > 20:
			return 'parsing %s (%d octets) took %.1f s' % (c['label'], c['n'], o['secs'])
	if c['k'] == 'manychunks':
		r = o['result']
		if isinstance(r, str) and r.startswith('escape'):
			return '%s for %d one-octet chunks in one buffer (work must not depend on the number of chunks)' % (r.split(':', 1)[1], c['n'])
		if r != 'ok:1:%d' % c['n']:
			return 'many-chunk stream not delivered intact: %r' % (r,)
	if c['k'] == 'scaling':
		for label in ('body', 'chunks'):
			if label + '_exc' in o:
				continue  # reported by manychunks
			small, big = o[label]
			if small > 0 and big > 20 * small + 2e-6:
				return 'parse time per octet grows with input size for %s: %.3g -> %.3g s/octet' % (label, small, big)
	return None


def classify(c, o, fail):
	return None  # no known finding is recorded for C03: every escape is a violation


def nontrivial(c, o):
	if c['k'] != 'hostile':
		return (c['k'], c['kind'], c.get('n'), c.get('label'))
	d, e, left = pc.summary(o['runs'][0])
	return c['s'] if (d or e is not None) else None


LEVEL_TEXT = ('Coq theorem on the parser model: for all callees that raise only Invalid*/HTTP-status outcomes and all fragmentations, no call of the model ends in '
	'Escape, and the number of loop turns / chunk turns of one parse() call is bounded by the buffer length (iterative chunk loop); the hypothesis on the callees, '
	'the interpreter stack and time are validated on the implementation on every run (hostile streams, up to 5000/20000 chunks in one buffer, time per octet).')
LEVEL_NOTE = 'Partial: containment structure proved on the model; callee exception sets, interpreter stack depth and wall time are runtime behaviour measured, not proved.'
TECHNIQUE = 'Coq proof of escape-freedom and fuel bounds on the Gallina parser model + in-Coq correspondence + direct exception-type oracle on hostile streams'

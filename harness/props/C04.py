"""C04 -- a composed message parses back to the same message through the library's own opposite-side state machine."""
import hashlib

from harness import composer_rec as cr
from harness import parser_rec
from harness.coqfmt import B, L, N, X

ID = 'C04'
COVERAGE_NOTE = 'the fragmentation / shared-machine feeds run in forked worker processes which are not measured; the numbers below cover the compose, whole-wire parse and table recording done in the harness process'
PROPS = 'Props/C04.v'
TABLES = ['HeadersT', 'ParserT', 'StartLineT', 'ComposerT']
# a case of the correspondence is either the round trip of Corr/C04.v (composer model, then the parser model on the MODEL's octets in one call) or a
# run of the parser model of Corr/Parser.v on the real composer's octets cut into several calls / several messages on one machine
COQ_HEADER = ('From Coq Require Import ZArith.\nFrom Httoop Require Import Model.Composer Model.Parser Corr.C05 Corr.Parser Corr.C04.\n'
	'Inductive xcase := XR (c : Corr.C04.case) | XP (c : Corr.Parser.case).\n'
	'Definition xcheck (c : xcase) : bool := match c with XR c => Corr.C04.check c | XP c => Corr.Parser.check c end.')
COQ_CHECK = 'xcheck'
CORR_VO = 'Corr/C04.vo'
RULE = ('T2: generated API-level messages (method tokens, Unicode path segments and query pairs, statuses with and without reason, versions 1.0/1.1, Latin-1 header '
	'values, bodies as bytes/bytearray/text/list/tuple/generator/BytesIO/real temp file, sizes 0 .. 3 blocks, chunked on/off, coding none/gzip/deflate) are prepared and '
	'composed by the real composer and parsed in one call by the real opposite state machine (server for requests, client for responses). Inside Coq (vm_compute) the composer '
	'model must produce the same octets and the parser model, fed the MODEL\'s octets with the callee tables recorded from the real parse (T3), must make the same delivery. '
	'Oracle (independent of both models): exactly one message, nothing left over, same method / path segments / query pairs / version / status / reason, every caller-set header '
	'field that the composer does not manage, body equal to the content supplied. The same single delivery is required of every other way the octets can reach the opposite '
	'machine: (a) fed octet by octet and with every two-call cut (wires over 700 octets: every cut within 3 octets of a CR or LF plus the first 200, the last 40 and a stride sample of the other positions, and '
	'one many-call run with single octets around every CR / LF); (b) on ONE machine after a chunked and after a Content-Length message composed by the same composer, '
	'twice in a row, between messages of the other framing, pipelined in one call and octet by octet: each message delivered exactly as when parsed alone on a fresh machine. '
	'A share of these runs (octet by octet: wires up to 200 octets, one in 4; chunked / case / Content-Length on one machine: wires up to 1200 octets, one in 3) is also replayed '
	'by the parser model inside Coq on the real octets (CParse of Corr/Parser.v). '
	'Input classes on top of the random messages (class_cases; same oracle, same Coq correspondence up to 20 kB of wire): (1) objects with a history - every parameter overwritten, '
	'the message object used for another message before, the content object or the Body shared with a message composed before, content filled in after the assignment, every alternative '
	'public setter, prepare / compose / framing changes repeated on one composer (the LAST composition is parsed; expected: what a fresh object with the final data gives); '
	'(2) text that Unicode normalisation, case mapping or IDNA / stringprep would change, and astral characters, in path segments, query names and values, text header values, text bodies '
	'and text pieces of iterables, also in other body charsets; (3) lengths 11/12, 75/76, 255/256, 1023/1024, 4095/4096, 8190..8192 (bodies, one chunk, segment, field value: also 65535/65536) '
	'in every position that has a length, and as many fields / segments / pairs / pieces; (4) every status, reason phrase, method, header field name, content coding, media type, charset and URI '
	'scheme of the tables of the tree under test (read at run time) in several letter cases; (5) degenerate values (empty, blanks, separators, doubled separators, unbalanced quotes) in every position; '
	'(6) every cleanly delivered wire is also fed re-encoded by an independent RFC 7230 writer: chunked again at other boundaries with other chunk-size spellings and chunk extensions, the other framing, '
	'field names in other letter cases, field lines in another order, other optional white space, folded values - same delivery (fields compared as a set). '
	'Also generated systematically: a message object reused after a use with a content coding (finding D59, repaired; the model follows the tree through the T1 probe D59_VARIANT), '
	'reason phrases with SP / HTAB at an edge or of blanks only (known finding D48b), query pairs with an empty name (known finding D60). '
	'Fifth-wave classes (composer_rec._build5, case key w5; same oracle, plus: the argument objects of the application are what they were): (10) one Headers / dict / URI / Body / Protocol / list '
	'object given to two messages, the other one changed, prepared and composed before or after; (11) every argument of the public entry points in every Python type it accepts; (12) operations the API '
	'refuses with an exception, attempted on the complete message, and a first composition that raises; (13) the charset of a text body through every knob x 22 charsets, URI.encoding assigned on the class; '
	'(14) unsorted / reverse-sorted / duplicate query pairs, segments and list members, members added with headers.append, and repeated field lines of one name separated by other fields as one more '
	're-encoding; (15) all orders of {start line, fields, content, coding} and all subsets of constructor arguments; (16) contents SEARCHED so that each octet of the Adler-32 / CRC-32 / ISIZE of a '
	'stream is HT LF VT FF CR SP or NUL, contents with such octets at their edges, 160 cheap multi-piece coded contents; (17) 2^k - 1, 2^k, 2^k + 1 for k = 9 .. 16 in every position that has a length. '
	'Cases marked light (mass inputs of (16) / (17)): fed whole, octet by octet / around every line end and on a used machine, without two-call cuts and re-encodings, one in four through Coq. '
	'Left out of the new classes, each named in notes/reports/C04.md: see excluded() (coding names not in lower case, control characters in the target, CONNECT); '
	'memoryview / StringIO as content (one-shot iterators that are neither generators nor list iterators: finding D64, repaired, now generated); refusals that leave the object changed (headers = <invalid>, uri = <invalid port>). '
	'non-trivial = distinct (kind, outcome, source type, framing, coding, size class, version) classes')
EXHAUSTIVE = {'quick': False, 'thorough': False}
TRUSTED = [
	'harness/tables/composer.py, headers.py, parser.py, startline.py (T1)',
	'harness/composer_rec.py and harness/parser_rec.py (T2/T3: public API only; frozen clock; recording wrappers for the coders, Element.split, start-line parser, header hooks, Body.decompress, RFC 2047 decoding, Trailer parsing)',
	'the fragmented and sequential feeds of the oracle run in forked worker processes (harness/props/C04.py: Pending / _feeds; results looked at when coq_case is called); the case files define the two-constructor '
	'wrapper xcase / xcheck that dispatches to Corr.C04.check and Corr.Parser.check',
	'the re-encoded feeds are written by harness/props/C04.py: reencodings from what the independent reader read_http1 of harness/composer_rec.py makes of the composed octets (oracle only)',
	'callees of both models are parameters of the theorems: content coders and decoders (zlib/gzip), URI composition and parsing of the request target (C10), header-semantics hooks of on_headers_complete, RFC 2047 decoding',
]
ASSUMPTIONS = [
	'decomp (comp x) = Some x for the content coders, applied to the octets the composer emits (per piece on the pinned tree, once for the whole content after repair D42)',
	'the request target and the start line are handled by the start-line callee of the parser model (instantiated in T2 from the recorded table; the start-line round trip itself is C18/C10)',
	'caller-set header names are non-empty tokens, values are stripped and free of CR/LF; HTTP/1.1 requests carry a host',
]

_B = {'t': 'bytes', 'items': ['68656c6c6f']}
W_D12 = {'k': 'resp', 'version': [1, 1], 'status': 200, 'reason': None, 'rmethod': 'GET', 'hdrs': [], 'body': {'t': 'bytes', 'items': ['ff']}, 'coding': 'gzip', 'chunked': False}
W_D42 = {'k': 'resp', 'version': [1, 1], 'status': 200, 'reason': None, 'rmethod': 'GET', 'hdrs': [], 'body': {'t': 'list', 'items': ['6162', '6364']}, 'coding': 'deflate', 'chunked': False}
W_D47 = {'k': 'resp', 'version': [1, 0], 'status': 200, 'reason': None, 'rmethod': 'GET', 'hdrs': [], 'body': _B, 'coding': None, 'chunked': True}
W_D48 = {'k': 'resp', 'version': [1, 1], 'status': 299, 'reason': None, 'rmethod': 'GET', 'hdrs': [], 'body': _B, 'coding': None, 'chunked': False}
W_D49 = {'k': 'req', 'version': [1, 1], 'method': 'GET', 'segs': ['', 'a:b'], 'query': None, 'host': 'example.com', 'hdrs': [], 'body': {'t': 'bytes', 'items': []}, 'coding': None, 'chunked': False}
W_D50 = {'k': 'resp', 'version': [1, 1], 'status': 200, 'reason': None, 'rmethod': 'HEAD', 'hdrs': [], 'body': _B, 'coding': None, 'chunked': False}
W_D43 = {'k': 'req', 'version': [1, 1], 'method': 'POST', 'segs': ['', 'a'], 'query': None, 'host': 'example.com', 'hdrs': [], 'body': _B, 'coding': 'gzip', 'chunked': False}
W_D51 = {'k': 'req', 'version': [1, 1], 'method': 'TRACE', 'segs': ['', 'a'], 'query': None, 'host': 'example.com', 'hdrs': [], 'body': _B, 'coding': None, 'chunked': False}
W_D48B = {'k': 'resp', 'version': [1, 1], 'status': 299, 'reason': ' b', 'rmethod': 'GET', 'hdrs': [], 'body': _B, 'coding': None, 'chunked': False}
W_D48B2 = {'k': 'resp', 'version': [1, 1], 'status': 200, 'reason': ' ', 'rmethod': 'GET', 'hdrs': [], 'body': _B, 'coding': None, 'chunked': False}
W_D60 = {'k': 'req', 'version': [1, 1], 'method': 'GET', 'segs': ['', 'a'], 'query': [['', 'v']], 'host': 'example.com', 'hdrs': [], 'body': {'t': 'bytes', 'items': []}, 'coding': None, 'chunked': False}
W_D60B = {'k': 'req', 'version': [1, 1], 'method': 'GET', 'segs': ['', 'a'], 'query': [['a', 'b'], ['', '']], 'host': 'example.com', 'hdrs': [], 'body': {'t': 'bytes', 'items': []}, 'coding': None, 'chunked': False}
WITNESSES = [('D12-coded-body-non-ascii', W_D12), ('D42-deflate-per-piece', W_D42), ('D47-chunked-on-http10', W_D47), ('D48-empty-reason-phrase', W_D48),
	('D49-colon-in-request-path', W_D49), ('D50-client-ignores-bodiless', W_D50), ('D43-request-coding-content-length', W_D43), ('D51-trace-request-body', W_D51),
	('D48b-reason-edge-blanks', W_D48B), ('D48b-reason-edge-blanks', W_D48B2), ('D60-empty-query-name', W_D60), ('D60-empty-query-name', W_D60B)]

METHODS = ['GET', 'HEAD', 'POST', 'PUT', 'DELETE', 'OPTIONS', 'PATCH', 'SEARCH', 'M-SEARCH', 'X', 'get', 'A.B_C', 'CONNECT2', 'TRACE']
SEG_ALPHABET = ['a', 'b c', 'ä', 'x.y', '%41', 'a;b', 'ü€', '\U0001f600', 'a=b&c', '~', 'A+B', "it's", '@', '..x', 'a/b', '?', '#']
STATUS_POOL = [200, 200, 200, 201, 202, 203, 206, 226, 300, 301, 302, 400, 401, 403, 404, 405, 410, 413, 416, 418, 500, 501, 503, 505, 100, 101, 204, 205, 304, 299, 451, 599]
HDR_POOL = [
	('X-Custom', ['a', 'b c', 'ä', 'a,b', '1', 'x=?y', 'é à']), ('Accept', ['text/html', '*/*;q=0.5']), ('ETag', ['"abc"', 'W/"x"']),
	('Last-Modified', ['Sun, 06 Nov 1994 08:49:37 GMT']), ('Cookie', ['a=b', 'a=b; c=d']), ('Set-Cookie', ['a=b', 'a=b, c=d']),
	('WWW-Authenticate', ['Basic realm="x"']), ('Server', ['srv/1.0']), ('Content-Language', ['de', 'en, de']), ('Allow', ['GET']), ('Vary', ['*']),
	('Content-Type', ['application/octet-stream', 'text/html; charset=ISO8859-1']), ('User-Agent', ['ua/2']), ('Expires', ['0']),
	('Location', ['/x']), ('X-Forwarded-Host', ['f.example']), ('Content-MD5', ['Q2hlY2s=']), ('Zzz', ['last']), ('Aaa', ['first']),
	('Accept-Ranges', ['none']), ('Content-Range', ['bytes 0-1/2']), ('Connection', ['close']), ('Referer', ['http://r.example/p?q']), ('X-Empty', ['']),
]


def rdata(rng, n, ascii_only=False):
	r = rng.random()
	if ascii_only or r < 0.3:
		return bytes(rng.choice(b'abc \r\n0;:xyz') for _ in range(n))
	if r < 0.75:
		return bytes(rng.randrange(256) for _ in range(n))
	return bytes([rng.randrange(256)]) * n


def rbody(rng, tier, ascii_only):
	t = rng.choice(['bytes', 'bytearray', 'text', 'list', 'tuple', 'gen', 'bytesio', 'file'])
	r = rng.random()
	blk = 4096
	if r < 0.12:
		size = 0
	elif r < 0.8:
		size = rng.randint(1, 60)
	else:
		size = rng.choice([blk - 1, blk, blk + 1, 2 * blk + 7, 3 * blk]) if rng.random() < (0.7 if tier == 'thorough' else 0.3) else rng.randint(61, 400)
	b = {'t': t}
	if t in ('list', 'tuple', 'gen'):
		if size == 0:
			items = [b''] * rng.randint(0, 2)
		else:
			cuts = sorted(rng.randint(0, size) for _ in range(rng.randint(0, 3)))
			data = rdata(rng, size, ascii_only)
			items = [data[a:c] for a, c in zip([0] + cuts, cuts + [size])]
		b['items'] = [i.hex() for i in items]
		b['strs'] = [False] * len(items)
	elif t == 'text':
		alphabet = 'abc xyz\r\n' if ascii_only else 'abc äö€\r\n\U0001f600'
		b['items'] = [''.join(rng.choice(alphabet) for _ in range(min(size, 1500))).encode('utf-8').hex()]
	else:
		b['items'] = [rdata(rng, size, ascii_only).hex()]
		if t in ('bytesio', 'file'):
			b['pos'] = rng.choice([0, 0, size, rng.randint(0, size)])
	return b


def rhdrs(rng, kind):
	out, seen = [], set()
	for _ in range(rng.choice([0, 1, 1, 2, 3, 5])):
		name, vals = rng.choice(HDR_POOL)
		if name in seen or (kind == 'req' and name in ('Accept-Ranges', 'Set-Cookie', 'WWW-Authenticate')):
			continue
		seen.add(name)
		if rng.random() < 0.3:
			name = rng.choice([name.lower(), name.upper()])
		out.append([name, rng.choice(vals).encode('latin-1').hex()])
	return out


def rmessage(rng, tier):
	kind = 'resp' if rng.random() < 0.5 else 'req'
	coding = rng.choice([None, None, None, 'gzip', 'deflate'])
	c = {'k': kind, 'version': rng.choice([[1, 1], [1, 1], [1, 1], [1, 0]]), 'hdrs': rhdrs(rng, kind),
		'body': rbody(rng, tier, ascii_only=(coding is not None and rng.random() < 0.85)), 'coding': coding, 'chunked': rng.random() < 0.45}
	if kind == 'req':
		c['method'] = rng.choice(METHODS)
		segs = [rng.choice(SEG_ALPHABET) for _ in range(rng.randint(1, 3))]
		if rng.random() < 0.1:
			segs.append('')
		if rng.random() < 0.03:
			segs[0] = 'a:b'
		c['segs'] = [''] + segs
		c['query'] = rng.choice([None, None, [['k', 'v']], [['ü', '€ &'], ['a', '']], [['a b', 'c=d'], ['x', 'ä/?#']],
			[['matrix', 'x=1;y=2']], [['a;b', 'c'], ['d', ';']], [['q', 'a+b c%41'], ['%', '+']], [['\U0001f600', "it's, (ok)!*~"]], [['p', '/../.'], ['@', ':']]])
		c['host'] = rng.choice(['example.com', 'example.com', 'sub.example.org', '127.0.0.1']) if (c['version'] == [1, 1] or rng.random() < 0.7) else None
		if c['host'] and rng.random() < 0.2:
			c['port'] = rng.choice([80, 8080])
		if coding and rng.random() < 0.8:
			c['chunked'] = True
	else:
		c['status'] = rng.choice(STATUS_POOL)
		c['reason'] = rng.choice([None, None, None, 'Custom Reason', 'x', 'It works!'])
		c['rmethod'] = rng.choice(['GET', 'GET', 'GET', 'GET', 'POST', 'HEAD', 'TRACE'])
	return c


def gen_cases(rng, tier):
	cases = [primer_case(k, ch) for k in ('req', 'resp') for ch in (True, False)]   # the messages sent before / after every case on one machine
	big = tier == 'thorough'
	# every source type x framing x coding x kind, small ASCII body
	for t in ('bytes', 'bytearray', 'text', 'list', 'tuple', 'gen', 'bytesio', 'file'):
		for ch in (False, True):
			for coding in (None, 'gzip', 'deflate'):
				for kind in ('req', 'resp'):
					items = [b'ab'.hex(), b''.hex(), b'cde'.hex()] if t in ('list', 'tuple', 'gen') else [b'abcde'.hex()]
					c = {'k': kind, 'version': [1, 1], 'hdrs': [['X-A', b'v'.hex()]], 'body': {'t': t, 'items': items, 'pos': 2}, 'coding': coding, 'chunked': ch}
					if kind == 'req':
						c.update(method='POST', segs=['', 'p'], query=[['q', '1']], host='example.com')
					else:
						c.update(status=200, reason=None, rmethod='GET')
					cases.append(c)
	# every status, with and without an explicit reason
	for code in (range(100, 600) if big else sorted(set(STATUS_POOL))):
		for reason in (None, 'R'):
			cases.append({'k': 'resp', 'version': [1, 1], 'status': code, 'reason': reason, 'rmethod': 'GET', 'hdrs': [],
				'body': {'t': 'bytes', 'items': [b'hello'.hex()]}, 'coding': None, 'chunked': False})
	# every method of the pool, with a body
	for m in METHODS:
		for ch in (False, True):
			cases.append({'k': 'req', 'version': [1, 1], 'method': m, 'segs': ['', 'r'], 'query': None, 'host': 'example.com', 'hdrs': [],
				'body': {'t': 'bytes', 'items': [b'data'.hex()]}, 'coding': None, 'chunked': ch})
	# every single octet as a one-octet body, plain and coded
	for o in range(256):
		cases.append({'k': 'resp', 'version': [1, 1], 'status': 200, 'reason': None, 'rmethod': 'GET', 'hdrs': [], 'body': {'t': 'bytes', 'items': ['%02x' % o]},
			'coding': None if o % 2 else 'gzip', 'chunked': bool(o % 3 == 0)})
	# Latin-1 header values whose octets happen to be well-formed UTF-8, separators, and every query metacharacter
	for raw in (b'\xc3\xa9', b'price: \xc2\xa35', b'\xe2\x82\xac', b'\xf0\x9f\x98\x80', b'caf\xe9', b'a;b,c="d"', b'\xff\xfe'):
		for kind in ('req', 'resp'):
			c = {'k': kind, 'version': [1, 1], 'hdrs': [['X-Latin', raw.hex()], ['X-Other', b'plain'.hex()]], 'body': {'t': 'bytes', 'items': [b'x'.hex()]}, 'coding': None, 'chunked': False}
			if kind == 'req':
				c.update(method='POST', segs=['', 'p'], query=[['matrix', 'x=1;y=2'], ['a;b', '+ %']], host='example.com')
			else:
				c.update(status=200, reason=None, rmethod='GET')
			cases.append(c)
	for _ in range(20000 if big else 1100):
		cases.append(rmessage(rng, tier))
	cases.extend(c for c in class_cases(rng, tier) if not excluded(c))
	return cases


# ---------------------------------------------------------------- input classes (each: a generator of cases; oracle as for every other case)
# (1) statefulness   (2) Unicode normalisation forms and look-alikes   (3) lengths at and around limits   (4) every name of every table the
# code consults, read from the tree at run time, in several letter cases   (5) degenerate values   (6: re-encodings, see observe_extra)
# text that Unicode normalisation (NFC / NFD / NFKC / NFKD), case folding or an IDNA / stringprep mapping would change, and astral characters
UNI = [
	'cafe\u0301', '\xe9', 'e\u0301', '\u212b', '\xc5', 'A\u030a', '\u2126', '\u03a9', '\u212a', '\u1112\u1161\u11ab', '\ud55c', '\uf900', '\u8c48',
	'\ufa0e', '\U0002f800', 'q\u0307\u0323', 'q\u0323\u0307', '\u2000', '\ufb01', '\xb5', '\u03bc', '\u0130', '\u0131', '\xdf', '\u1e9e', '\u01c6',
	'\u2460', 'x\xb2', '\u1e9b\u0323', '\u0344', '\u0958', '\U0001d400', '\U0001f1e9\U0001f1ea', '\U0001f468\u200d\U0001f469', '\u202eabc', '\ufeffx',
	'\uff21', '\u3000', 'a\xad', 'a\u200b',
]
LENS = [11, 12, 75, 76, 255, 256, 1023, 1024, 4095, 4096, 8190, 8191, 8192]
LENS_BIG = [65535, 65536]
DEG = ['', ' ', '\t', ',', ',,', ';', ';;', '=', '&', '&&', '"', '""', '"a', 'a"', '\\', '\\"', ':', '()', '(', 'a,,b', ', a', 'a ,', 'a=', '=a', "'", '<>', '@', '[]', '{}', '?', '/', '//',
	'%', '%%', '%zz', '%2', '%41', '+', 'a  b', 'a\tb', '#', '*', '|', '^', '`', '~', '!', '$', '.x', '...']
ROUTES = [('overwrite', {}), ('reuse', {}), ('reuse', {'chunked': True}), ('shared', {}), ('shared', {'chunked': True}), ('sharedbody', {}), ('sharedbody', {'chunked': True}), ('alt', {})]
SMALL = {
	'bytes': ['abä'.encode('utf-8').hex()], 'bytearray': [b'\xff\x00ab'.hex()], 'text': ['täxt é €'.encode('utf-8').hex()],
	'list': [b'ab'.hex(), 'éä'.encode('utf-8').hex(), b''.hex(), b'cd'.hex()], 'tuple': ['€'.encode('utf-8').hex(), b'\xe2\x82\xac!'.hex()],
	'gen': ['ä'.encode('utf-8').hex(), b'\xf6'.hex(), '\U0001f600'.encode('utf-8').hex()], 'bytesio': [b'bytes\r\nio'.hex()], 'file': [b'file \x00 content'.hex()],
}
SMALL_STRS = {'list': [False, True, False, True], 'tuple': [True, False], 'gen': [True, False, True]}


def _small(t, pos=0):
	b = {'t': t, 'items': list(SMALL[t])}
	if t in SMALL_STRS:
		b['strs'] = list(SMALL_STRS[t])
	if t in ('bytesio', 'file'):
		b['pos'] = pos
	return b


def _bytes(data):
	return {'t': 'bytes', 'items': [data.hex()]}


def _req(**kw):
	c = {'k': 'req', 'version': [1, 1], 'method': 'POST', 'segs': ['', 'p'], 'query': None, 'host': 'example.com', 'hdrs': [], 'body': _bytes(b'content'), 'coding': None, 'chunked': False}
	c.update(kw)
	return c


def _resp(**kw):
	c = {'k': 'resp', 'version': [1, 1], 'status': 200, 'reason': None, 'rmethod': 'GET', 'hdrs': [], 'body': _bytes(b'content'), 'coding': None, 'chunked': False}
	c.update(kw)
	return c


def _msg(kind, **kw):
	return _req(**kw) if kind == 'req' else _resp(**kw)


def _cases3(name):
	out = []
	for v in (name, name.lower(), name.upper(), name.title(), name[:1].lower() + name[1:].upper()):
		if v not in out:
			out.append(v)
	return out


_REG = {}


def registries():
	"""the tables the code consults, read from the tree under test at run time"""
	if _REG:
		return _REG
	import os
	import re
	import httoop
	from httoop.codecs import CODECS
	from httoop.header.element import HEADER
	from httoop.header.messaging import ContentEncoding
	from httoop.messages.method import Method
	from httoop.status import REASONS, STATUSES
	from httoop.util import KNOWN_ENCODINGS
	root = os.path.dirname(httoop.__file__)
	methods = list(Method.safe_methods) + list(Method.idempotent_methods)
	for rel in ('server/__init__.py', 'client/__init__.py', 'semantic/request.py', 'semantic/response.py', 'messages/request.py', 'parser.py'):
		try:
			with open(os.path.join(root, rel)) as fd:
				for line in fd:
					if 'method' in line:
						methods.extend(re.findall(r"""u?['"]([A-Z][A-Z-]{2,19})['"]""", line))
		except IOError:
			pass
	_REG.update(
		statuses=sorted(set(int(k) for k in list(REASONS) + list(STATUSES) if 100 <= int(k) < 600)),
		reasons=dict((int(k), v[0]) for k, v in REASONS.items()),
		removed=dict((int(k), sorted(h.lower() for h in v.header_to_remove)) for k, v in STATUSES.items() if getattr(v, 'header_to_remove', None)),
		methods=sorted(set(str(m) for m in methods)),
		headers=sorted((str(k), bool(getattr(v, 'is_request_header', False)), bool(getattr(v, 'is_response_header', False)), bool(getattr(v, 'list_element', False)), str(getattr(v, '__name__', k)))
			for k, v in dict.items(HEADER)),
		codings=sorted((str(k), isinstance(v, str)) for k, v in ContentEncoding.CODECS.items()),
		mimetypes=sorted(str(k) for k in CODECS),
		charsets=sorted(KNOWN_ENCODINGS),
	)
	return _REG


# sample values that the header-semantics hooks of the receiving machine (and the composer's prepare) understand; every other registered name gets 'v1'
HEADER_SAMPLE = {'upgrade': 'websocket', 'http2-settings': 'AAMAAABkAAQAAP__', 'trailer': 'X-Checksum', 'expect': '100-continue', 'te': 'trailers', 'range': 'bytes=0-1',
	'content-encoding': None, 'content-length': None, 'transfer-encoding': None, 'connection': None, 'host': None, 'date': None, 'content-range': None,
	'set-cookie': 'a=b', 'www-authenticate': 'Basic realm="x"', 'proxy-authenticate': 'Basic realm="x"'}


def class_stateful(rng, tier):
	out = []
	types = ('bytes', 'bytearray', 'text', 'list', 'tuple', 'gen', 'bytesio', 'file')
	P = ['p', 1790000000]
	full = tier == 'thorough'

	def sequences(ch):
		return [('twice', [['ch', ch], P, ['c'], P, ['c']]), ('compose-twice', [['ch', ch], P, ['c'], ['c']]), ('prepare-twice', [['ch', ch], P, P, ['c']]),
			('framing-changed', [['ch', not ch], P, ['ch', ch], P, ['c']]), ('framing-changed-after-compose', [['ch', not ch], P, ['c'], ['ch', ch], P, ['c']]),
			('framing-set-twice', [['ch', ch], ['ch', not ch], ['ch', ch], P, ['c']])]
	for kind in ('req', 'resp'):
		for ti, t in enumerate(types):
			def base(ch):
				d = dict(hdrs=[['X-A', b'v'.hex()], ['ETag', b'"e"'.hex()]], thdrs=[['X-T', 'caf\xe9 €']], body=_small(t, 3), chunked=ch)
				if kind == 'req':
					d.update(method='PATCH', segs=['', 'p q', '\xe4'], query=[['q', '1 2']], port=8080)
				else:
					d.update(status=203, reason='Custom  Reason')
				return d
			# the object has a history (quick: the framing alternates over the combinations; thorough: both framings for every combination)
			for ri, (how, first) in enumerate(ROUTES):
				if how in ('shared', 'sharedbody') and t == 'gen':
					continue   # a generator can be consumed once: not shareable by its nature
				for ch in ((False, True) if full else (bool((ri + ti) % 2),)):
					out.append(_msg(kind, route={'how': how, 'first': dict(first), 'alt': len(out)}, **base(ch)))
			# the composer is used more than once: the last composition is what is sent
			for si in range(6):
				for ch in ((False, True) if full else (bool((si + ti) % 2),)):
					name, ops = sequences(ch)[si]
					out.append(_msg(kind, ops=ops, how=name, **base(ch)))
		# ... with a content coding (at the first use and / or at the final use)
		for ci, coding in enumerate(('gzip', 'deflate')):
			for ri, (how, first) in enumerate(ROUTES):
				b = {'t': 'list', 'items': [b'abc'.hex(), b'def'.hex()]} if (ri + ci) % 2 else {'t': 'bytesio', 'items': [b'abcdef'.hex()]}
				out.append(_msg(kind, route={'how': how, 'first': dict(first), 'alt': len(out)}, coding=coding, chunked=True, body=b))
				out.append(_msg(kind, route={'how': how, 'first': dict(first, coding=coding), 'alt': len(out)}, body=b))
			for ops in ([['ch', True], P, ['c'], P, ['c']], [['ch', True], P, ['c'], ['c']]):
				out.append(_msg(kind, ops=ops, coding=coding, chunked=True, body=_bytes(b'abcdef')))
	# the content object is filled after it was handed over
	for kind in ('req', 'resp'):
		for t in ('list', 'bytesio'):
			for ch in (False, True):
				for alt in (0, 1):
					out.append(_msg(kind, route={'how': 'grown', 'alt': alt}, chunked=ch, body=dict(_small('list'), t=t, pos=2)))
	# every combination of the alternative setters on a plain message
	for alt in range(12):
		out.append(_req(route={'how': 'alt', 'alt': alt}, method='put', segs=['', 'a b', 'c/d', ''], query=[['k', 'v w'], ['x', '']], hdrs=[['X-A', b'1'.hex()], ['Accept-Language', b'de'.hex()]],
			body=_small('list'), version=[1, alt % 2]))
		out.append(_resp(route={'how': 'alt', 'alt': alt}, status=[299, 404, 200, 503][alt % 4], reason=['Custom', 'not found', 'OK\t.', 'a  b'][alt % 4], hdrs=[['X-A', b'1'.hex()], ['Vary', b'*'.hex()]],
			body=_small('tuple'), version=[1, alt % 2], chunked=bool(alt % 3 == 0 and alt % 2)))
	return out


def class_unicode(rng, tier):
	out = []
	for i, u in enumerate(UNI):
		out.append(_req(segs=['', u, 'x' + u + 'y'], method='PUT', version=[1, i % 2]))
		out.append(_req(query=[[u, 'v'], ['n', u], [u + '2', u + u]], segs=['', 'q']))
		out.append(_msg('req' if i % 2 else 'resp', thdrs=[['X-Text', u], ['X-Text2', 'a ' + u + ' b']]))
		# as a text body, and as text pieces of an iterable (Content-Length counts octets of the body charset)
		if i % 2:
			out.append(_resp(body={'t': 'text', 'items': [(u + ' text ' + u).encode('utf-8').hex()]}, chunked=bool(i % 4 == 1)))
		else:
			out.append(_msg('resp' if i % 4 else 'req', body={'t': ['list', 'tuple', 'gen'][(i // 2) % 3], 'items': [b'<'.hex(), u.encode('utf-8').hex(), b'|'.hex(), (u + u).encode('utf-8').hex()], 'strs': [False, True, False, True]}))
		try:
			raw = u.encode('latin-1')
		except UnicodeEncodeError:
			continue
		out.append(_msg('req' if i % 2 else 'resp', hdrs=[['X-Raw', raw.hex()], ['X-Raw-Utf8', u.encode('utf-8').hex()]]))
	return out


def _fill(n, i):
	"""n characters, not all the same, no separators"""
	return ''.join('abcdefghij'[(i + j) % 10] for j in range(n))


def class_lengths(rng, tier):
	out = []
	for i, n in enumerate(LENS + LENS_BIG):
		big = n in LENS_BIG
		data = bytes((j * 7 + i) % 256 for j in range(n))
		out.append(_resp(body=_bytes(data)))
		out.append(_req(body=_bytes(data), chunked=True))
		if big and tier != 'thorough':
			# the other positions at 64 kB: path segment and header value only (cost of the cuts)
			out.append(_req(segs=['', _fill(n, i)]))
			out.append(_resp(hdrs=[['X-Long', _fill(n, i).encode().hex()]]))
			continue
		# one piece of exactly n octets (one chunk: the digits of the chunk size change at 16, 256, 4096, 65536) between two others
		out.append(_resp(body={'t': 'list', 'items': [b'ab'.hex(), data.hex(), b'c'.hex()], 'strs': [False] * 3}, chunked=True))
		# n CHARACTERS of text that are more than n octets, alone and as a piece of a list
		text = ('ä' + _fill(n - 2, i) + '€')
		out.append(_req(body={'t': 'text', 'items': [text.encode('utf-8').hex()]}))
		out.append(_resp(body={'t': 'tuple', 'items': [text.encode('utf-8').hex(), b'!'.hex()], 'strs': [True, False]}))
		out.append(_req(segs=['', _fill(n, i), 'z']))
		out.append(_req(segs=['', 's'], query=[['k', _fill(n, i)]]))
		out.append(_req(segs=['', 's'], query=[[_fill(n, i), 'v']], method='GET'))
		out.append(_msg('resp' if i % 2 else 'req', hdrs=[['X-Long', _fill(n, i).encode().hex()]]))
		out.append(_msg('req' if i % 2 else 'resp', thdrs=[['X-Long-Text', _fill(n - 1, i) + '€']]))
		out.append(_resp(status=200, reason='R' + _fill(n - 2, i).replace('e', ' ') + 'r'))
		if n <= 1024:
			out.append(_msg('req' if i % 2 else 'resp', hdrs=[['X-' + _fill(n - 2, i).title(), b'v'.hex()]]))
		if n <= 256 or tier == 'thorough' and n <= 1024:
			# n of them: fields, path segments, query pairs, pieces of an iterable
			out.append(_msg('resp' if i % 2 else 'req', hdrs=[['X-N%d' % j, (b'%d' % j).hex()] for j in range(n)]))
			out.append(_req(segs=[''] + [_fill(1 + j % 3, j) for j in range(n)]))
			out.append(_req(segs=['', 's'], query=[[_fill(1 + j % 3, j), str(j)] for j in range(n)]))
			out.append(_resp(body={'t': 'list', 'items': [bytes([97 + j % 26]).hex() for j in range(n)], 'strs': [bool(j % 2) for j in range(n)]}, chunked=bool(i % 2)))
	for n in (1, 2, 19, 20):
		out.append(_req(method=_fill(n, 0).upper()))
		out.append(_req(method=('M-' + _fill(n, 3))[:n], chunked=True))
	return out


def class_registries(rng, tier):
	reg = registries()
	full = tier == 'thorough'
	out = []
	for i, code in enumerate(reg['statuses']):
		if code not in STATUS_POOL or full:
			out.append(_resp(status=code, body=_bytes(b'hello')))
		std = reg['reasons'].get(code)
		if std:
			# the registered phrase in another letter case, and the phrase registered for ANOTHER status
			other = reg['reasons'].get(reg['statuses'][(i + 7) % len(reg['statuses'])]) or 'Other'
			for j, r in enumerate((std.upper(), std.lower(), other)):
				if full or j == i % 3:
					out.append(_resp(status=code, reason=r, body=_bytes(b'hello'), version=[1, (i // 3) % 2]))
	for i, m in enumerate(reg['methods']):
		for j, v in enumerate(_cases3(m)):
			out.append(_req(method=v, chunked=bool((i + j) % 2), body=_bytes(b'data'), segs=['', 'r'], query=[['a', 'b']]))
	for i, (name, is_req, is_resp, is_list, canonical) in enumerate(reg['headers']):
		value = HEADER_SAMPLE.get(name.lower(), 'v1')
		if value is None:
			continue   # written by the composer itself (framing, Date, Host, Connection): not the caller's
		kinds = [k for k, ok in (('req', is_req), ('resp', is_resp)) if ok] or ['req', 'resp']
		spellings = _cases3(canonical)
		for j, v in enumerate(spellings):
			if full or j in (i % len(spellings), (i + 2) % len(spellings)):
				out.append(_msg(kinds[(i + j) % len(kinds)], hdrs=[[v, value.encode().hex()]], chunked=bool((i + j) % 3 == 0)))
	for name, implemented in reg['codings']:
		if not implemented:
			continue   # NotImplementedError in the table: the library says so itself
		for j, v in enumerate(_cases3(name)):
			for kind in ('req', 'resp'):
				if full or j < 3:
					out.append(_msg(kind, coding=v, chunked=True, body={'t': 'list', 'items': [b'abc'.hex(), b'def'.hex()], 'strs': [False, True]}))
	for i, mt in enumerate(reg['mimetypes']):
		for j, v in enumerate((mt, mt.upper())):
			out.append(_msg('req' if (i + j) % 2 else 'resp', hdrs=[['Content-Type', (v.replace('*', 'x') + ('; boundary=b' if v.lower().startswith('multipart/') else '')).encode().hex()]],
				body=_bytes(b'{"a": [1, 2]} <a>b</a> a=b&c=d --b--\r\n')))
	for i, cs in enumerate(reg['charsets']):
		if full or i % 6 == 0:
			out.append(_msg('resp' if i % 4 else 'req', hdrs=[['Content-Type', ('text/plain; charset=%s' % (cs.upper() if i % 12 else cs)).encode().hex()]], body=_bytes(b'caf\xe9 \xe2\x82\xac \xff\xfe\x00a')))
	for scheme in ('http', 'https', 'HTTP', 'Https'):
		out.append(_req(scheme=scheme, host='Example.COM', port=8443))
		out.append(_req(scheme=scheme))
	return out


def class_degenerate(rng, tier):
	out = []
	typed = ['ETag', 'Accept-Language', 'Cache-Control', 'Via', 'Warning', 'Referer', 'Location', 'Cookie', 'Authorization', 'If-Match', 'Content-Disposition', 'Vary', 'Pragma', 'Age', 'From', 'Forwarded']
	for i, d in enumerate(DEG):
		kind = 'req' if i % 2 else 'resp'
		raw = d.encode('latin-1').hex()
		out.append(_msg(kind, hdrs=[['X-Custom', raw], [typed[i % len(typed)], raw]]))
		out.append(_msg('resp' if i % 2 else 'req', thdrs=[['X-Text', d], ['X-Text2', d + '€' + d]]))
		out.append(_req(segs=['', d, 'z'] if i % 2 else ['', 'a', d], method='PUT'))
		out.append(_req(segs=['', 'q'], query=[[d or 'e', d], [d or 'e', ''], ['a', 'x' + d], [d + 'x', 'b'], [d or 'e', d]], version=[1, i % 2]))
		out.append(_resp(status=[200, 404, 299, 500][i % 4], reason='a' + d + 'b'))
		out.append(_resp(status=[404, 299, 500, 200][i % 4], reason=[d, d + 'b', 'a' + d][i % 3], version=[1, i % 2]))
	for m in ('$', '%', '&', "'", '*', '+', '-', '.', '^', '_', '0', '1-', '--', '..', 'A', 'z', '$-_.', 'a.b-c_d'):
		out.append(_req(method=m, body=_bytes(b'x'), chunked=bool(len(out) % 2)))
	for t, items, strs in (('list', [], []), ('list', [''], [False]), ('list', ['', ''], [True, False]), ('tuple', [], []), ('gen', [], []), ('gen', [''], [True]), ('text', [''], None),
		('list', ['', '\xe4', ''], [False, True, True]), ('tuple', ['\xe4'], [True]), ('gen', ['', 'x'], [True, True]), ('list', ['0\r\n\r\n', '\r\n'], [True, False])):
		for kind in ('req', 'resp'):
			for ch in (False, True):
				b = {'t': t, 'items': [x.encode('utf-8').hex() for x in items]}
				if strs is not None:
					b['strs'] = strs
				out.append(_msg(kind, body=b, chunked=ch))
	out.append(_req(segs=['', ''], method='PUT'))
	out.append(_req(segs=['', 'a', ''], query=[], method='PUT'))
	out.append(_req(segs=['*'], method='OPTIONS', body=_bytes(b'')))
	return out


def class_text_pieces(rng, tier):
	"""iterables whose pieces are TEXT: counted in octets of the body charset, not in characters"""
	out = []
	for t in ('list', 'tuple', 'gen'):
		for kind in ('req', 'resp'):
			for ch, coding in ((False, None), (True, None), (True, 'gzip')):
				for items, strs in (([b'ab', '\xe4\xf6'.encode('utf-8'), b'cd'], [True, True, True]), (['€'.encode('utf-8'), b'\xe2\x82\xac', b'!'], [True, False, False]),
					(['Gr\xfc\xdfe, 世界! €'.encode('utf-8')], [True]), (['\U0001f600'.encode('utf-8'), b'', '\xe9'.encode('utf-8')], [True, True, True])):
					out.append(_msg(kind, body={'t': t, 'items': [x.hex() for x in items], 'strs': strs}, chunked=ch, coding=coding))
	return out


BODY_CHARSETS = ['ISO8859-1', 'utf-16', 'UTF-16LE', 'utf-32', 'cp1252', 'iso8859-15', 'utf-7', 'ascii']


def class_body_charset(rng, tier):
	"""text content goes out in the charset of the body's media type (Body.encoding), and Content-Length counts ITS octets"""
	out = []
	for i, cs in enumerate(BODY_CHARSETS):
		text = 'abc' if cs == 'ascii' else 'Gr\xfc\xdfe \xe9\xe0 x'
		for j, t in enumerate(('text', 'list', 'tuple', 'gen')):
			items = [text] if t == 'text' else ['<', text, '|', text[:4]]
			b = {'t': t, 'items': [x.encode('utf-8').hex() for x in items], 'charset': cs}
			if t != 'text':
				b['strs'] = [False, True, False, True]
			out.append(_msg('req' if (i + j) % 2 else 'resp', body=b, chunked=bool((i + j) % 3 == 0)))
	return out


def class_reuse_coded(rng, tier):
	"""finding D59 (repaired): the SAME message object is used twice and the first use had a content coding (ComposedResponse.prepare puts it on the Body
	object).  The second use - new headers as a whole, new content of every source type, either framing, no coding / the other coding / the same coding -
	must be what a fresh object gives: coded exactly when it says so"""
	out = []
	types = ('bytes', 'bytearray', 'text', 'list', 'tuple', 'gen', 'bytesio', 'file')
	full = tier == 'thorough'
	for kind in ('resp', 'req'):
		for fi, fc in enumerate(('gzip', 'deflate')):
			for ti, t in enumerate(types):
				for ch in (False, True):
					for ki, coding in enumerate((None, 'deflate' if fc == 'gzip' else 'gzip', fc)):
						if not full and coding is not None and (ti + ki + fi + ch) % 2:
							continue
						d = dict(route={'how': 'reuse', 'first': {'coding': fc, 'chunked': bool((ti + ki) % 2)}, 'alt': len(out)}, body=_small(t, ti % 3),
							chunked=ch or (kind == 'req' and coding is not None), coding=coding, hdrs=[['X-A', b'second'.hex()]])
						if kind == 'resp':
							d.update(status=[200, 404, 203][(ti + fi) % 3], reason=[None, 'Again'][ki % 2], rmethod=['GET', 'POST'][ch])
						out.append(_msg(kind, **d))
	# the shortest form: everything else at its default
	for fc in ('gzip', 'deflate'):
		for ch in (False, True):
			out.append(_resp(route={'how': 'reuse', 'first': {'coding': fc}, 'alt': 0}, body=_bytes(b'second'), chunked=ch))
			# ... and an empty second content
			out.append(_resp(route={'how': 'reuse', 'first': {'coding': fc}, 'alt': 0}, body=_bytes(b''), chunked=ch))
	return out


EDGE_BLANKS = [' ', '\t', '  ', ' \t', '\t ', '   ']


def class_reason_edges(rng, tier):
	"""known finding D48b: reason phrases (RFC 7230 3.1.2: *( HTAB / SP / VCHAR / obs-text )) that begin or end with SP / HTAB, and phrases of blanks only"""
	out = []
	for bi, bl in enumerate(EDGE_BLANKS):
		for ci, core in enumerate(('b', 'Not Found', 'a \t b', 'OK', '(x)')):
			for ei, reason in enumerate((bl + core, core + bl, bl + core + bl)):
				for si, status in enumerate((299, 200, 404, 500)):
					if tier == 'thorough' or (bi + ci + ei + si) % 2 == 0:
						out.append(_resp(status=status, reason=reason, chunked=bool((bi + ci + ei) % 3 == 0), body=_bytes(b'hello')))
		for status in (299, 200, 404):
			out.append(_resp(status=status, reason=bl, body=_bytes(b'hello')))
	out.append(_resp(status=200, reason=' OK', version=[1, 0]))
	out.append(_resp(status=299, reason='b ', route={'how': 'alt', 'alt': 1}))
	out.append(_resp(status=299, reason=' ', route={'how': 'alt', 'alt': 3}))
	return out


def class_empty_query_name(rng, tier):
	"""known finding D60: query pairs whose NAME is empty, alone, first, in the middle, last, twice; every kind of value"""
	out = []
	vals = ['v', '', 'a b', '=', '&', '\xe4', '%41', '+', 'a=b', ' ', '\u20ac']
	for i, v in enumerate(vals):
		for j, q in enumerate(([['', v]], [['', v], ['a', 'b']], [['a', 'b'], ['', v]], [['a', 'b'], ['', v], ['c', '']], [['', v], ['', v]], [['', v], ['', 'w' + v]], [['a', ''], ['', v]])):
			out.append(_req(segs=['', 'q'], query=q, method=['GET', 'POST', 'PUT'][(i + j) % 3], version=[1, (i + j) % 2], chunked=bool((i + j) % 4 == 3)))
	return out


# ---------------------------------------------------------------- fifth wave: (10) aliasing  (11) argument types  (12) refused operations  (13) configuration knobs
# (14) order  (15) order of the API calls  (16) value-dependent rare branches  (17) lengths at multiples of 2^k.  The messages are built by composer_rec._build5
# (case key 'w5'); the expectation is, as everywhere, the data of the case (what a fresh message built the plain way gives), plus: the argument objects of the
# application are what they were (observation 'args').
W5_HDRS = [['X-Api-Key', b'secret'.hex()], ['Accept-Language', b'de, en;q=0.5'.hex()], ['X-Zeta', b'caf\xe9 z'.hex()]]
W5_TYPES = ('bytes', 'text', 'list', 'tuple', 'gen', 'bytesio', 'file', 'bytearray')


def _w5(kind, i=0, **kw):
	"""a message with something in every part; i varies the parts"""
	w5 = kw.pop('w5', {})
	d = dict(hdrs=[list(h) for h in W5_HDRS], body=_small(W5_TYPES[i % 8], i % 3), chunked=bool(i % 2))
	if kind == 'req':
		d.update(method=['POST', 'PUT', 'PATCH', 'DELETE'][i % 4], segs=['', 'upload', 'f %d' % i], query=[['k', 'v w'], ['n', str(i)]], port=[None, 8080][i % 2])
	else:
		d.update(status=[200, 404, 203, 500][i % 4], reason=[None, 'Custom Reason'][(i // 2) % 2], rmethod=['GET', 'POST'][(i // 4) % 2])
	d.update(kw)
	if d.get('coding') and kind == 'req':
		d['chunked'] = True   # (a coded request body with Content-Length framing is known finding D43)
	return _msg(kind, w5=w5, **d)


def class_alias(rng, tier):
	"""(10) two messages built from the same argument object: the other message is changed, prepared and composed; this one must be what a fresh message gives, and the
	argument object must be what it was"""
	out = []
	firsts = [{'chunked': False}, {'chunked': True}, {'chunked': True, 'coding': 'gzip'}]
	n = 0
	for kind in ('req', 'resp'):
		for how in ('hdrs', 'hdrs-later'):
			for fi, form in enumerate(('Headers', 'Headers', 'Headers', 'dict', 'odict', 'chainmap')):
				for vi in range(3):
					# this message: with content under Content-Length / chunked framing, and without content (nothing may be left of the other message's framing)
					first = firsts[(fi + vi) % 3] if form != 'Headers' else firsts[fi % 3]
					kw = [dict(chunked=False), dict(chunked=True), dict(body=_bytes(b''), chunked=False)][vi]
					if vi == 2 and kind == 'req':
						kw.update(method='GET')
					n += 1
					out.append(_w5(kind, n, w5={'alias': {'how': how, 'first': first}, 'types': {'hdrs': form}, 'ctor': ['P', 'S', 'H', 'B'] if n % 2 else ['H']}, **kw))
		for fi, first in enumerate(firsts):
			for vi in range(2):
				n += 1
				out.append(_w5(kind, n, w5={'alias': {'how': 'parts', 'first': first}, 'ctor': ['H', 'B'] if vi else []}, chunked=bool(vi)))
		for ti, t in enumerate(('bytes', 'text', 'list', 'tuple', 'bytesio', 'file')):
			for fi in range(2):
				n += 1
				out.append(_w5(kind, n, w5={'alias': {'how': 'body', 'first': dict(firsts[1], coding=[None, 'gzip', 'deflate'][(ti + fi) % 3])}, 'ctor': ['B'] if fi else ['P', 'S', 'H', 'B']},
					body=_small(t, 0), chunked=bool((ti + fi) % 2)))
		for fi, form in enumerate(('Protocol', 'list', 'Protocol', 'list')):
			n += 1
			out.append(_w5(kind, n, w5={'alias': {'how': 'proto', 'first': firsts[fi % 2]}, 'types': {'proto': form}}, version=[1, fi // 2], chunked=bool(fi % 2) and fi >= 2))
		for fi in range(4):
			n += 1
			out.append(_w5(kind, n, w5={'alias': {'how': 'lists', 'first': firsts[fi % 2]}}, body=_small('list', 0), chunked=bool(fi // 2)))
	for fi, form in enumerate(('URI', 'dict', 'URI', 'dict')):
		for vi in range(2):
			n += 1
			out.append(_w5('req', n, w5={'alias': {'how': 'uri', 'first': firsts[(fi + vi) % 3]}, 'types': {'uri': form}, 'ctor': ['S'] if vi else ['P', 'S', 'H', 'B']},
				segs=['', 'shared target', 'x'], query=[['a', '1'], ['b', 'two 2']] if fi < 2 else None))
	return out


# No longer kept out of (11): one-shot iterators that are neither a generator nor a list iterator - iter(tuple), map(), filter(), itertools.chain(), reversed(),
# itertools.islice(), an object with __next__ - lost their content when prepare() computed the length (finding D64, found here, repaired in /repo 73ea79c, `fixed:`
# entry in known_findings.d/C04.json): they now supply request and response bodies with the expectation of a generator (source kind gen, model SGen).
# Still kept out (observations on the tree as found, notes/reports/C04.md): memoryview content (iterates as integers) and io.StringIO / io.BufferedReader content
# (fileno() raises) are refused at prepare() with TypeError / UnsupportedOperation: nothing wrong is sent.  Field values given as int / bool become that many NUL octets.
BODY_VIAS = [('gen', 'iterlist'), ('gen', 'genfunc'), ('gen', 'zipgen'), ('gen', 'nested'), ('gen', 'itertuple'), ('gen', 'map'), ('gen', 'chain'), ('gen', 'filter'), ('gen', 'reversed'), ('gen', 'islice'), ('gen', 'iterclass'), ('list', 'deque'), ('list', 'reiter'), ('list', 'dictkeys'), ('list', 'dict'), ('list', 'listsub')]


def class_types(rng, tier):
	"""(11) every argument of the public entry points in every Python type it accepts; expected: what the plain form (bytes, list of pairs) gives, in the order given"""
	out = []
	n = 0
	full = tier == 'thorough'
	hd = [['X-B', b'1'.hex()], ['X-A', b'two'.hex()], ['Accept-Language', b'de, en;q=0.5'.hex()], ['X-C', b'caf\xe9'.hex()]]
	for form in ('dict', 'odict', 'list', 'tuple', 'iter', 'gen', 'Headers', 'map', 'chainmap', 'items', 'mappingproxy', 'lol', 'chain', 'deque'):
		for kind in ('req', 'resp'):
			n += 1
			out.append(_w5(kind, n, w5={'ctor': ['H', 'B'] if n % 2 else ['P', 'S', 'H', 'B'], 'types': {'hdrs': form}}, hdrs=hd))
	for form in ('dict', 'odict', 'Headers', 'chainmap', 'mappingproxy'):
		for hset in ('set', 'update'):
			n += 1
			out.append(_w5('req' if n % 2 else 'resp', n, w5={'types': {'hdrs': form, 'hset': hset}, 'order': ['H', 'P', 'S', 'B', 'C']}, hdrs=hd))
	for form in ('str', 'bytes', 'bytearray', 'memoryview', 'obj'):
		for kind in ('req', 'resp'):
			n += 1
			out.append(_w5(kind, n, w5={'types': {'hval': form, 'hdrs': ['dict', None][n % 2]}, 'ctor': ['H'] if n % 2 else []}, hdrs=hd, happend=[['X-B', b'2'.hex()], ['Vary' if kind == 'resp' else 'Accept', b'x-a'.hex()]]))
	for mi, meth in enumerate(('str', 'bytes')):
		for ci in range(2):
			n += 1
			out.append(_w5('req', n, w5={'types': {'method': meth, 'uri': 'str'}, 'ctor': ['S'] if ci else []}, method=['PUT', 'M-SEARCH'][ci]))
	for form in ('str', 'bytes', 'URI', 'tuple', 'dict'):
		for ci in range(2):
			for qi, q in enumerate(([['a', '1'], ['b', 'two 2'], ['a', '\xe4']], None)):
				n += 1
				out.append(_w5('req', n, w5={'types': {'uri': form}, 'ctor': ['S'] if ci else []}, segs=['', 'p q', '\xe4€', 'x.y'], query=q, port=[None, 8080][qi]))
	for fi, form in enumerate(('tuple', 'list', 'str', 'bytes', 'Protocol')):
		for ci in range(2):
			for kind in ('req', 'resp'):
				if full or (fi + ci + (kind == 'req')) % 2:
					n += 1
					out.append(_w5(kind, n, w5={'types': {'proto': form}, 'ctor': ['P'] if ci else []}, version=[1, (fi + ci) % 2], chunked=False))
	dup = [['b', '2'], ['a', '1'], ['b', '1'], ['c', '\xe4 €'], ['a', '1']]
	uniq = [['z', '26'], ['y', ''], ['a', '\xe4 €'], ['m', 'a=b&c']]
	for form in ('list', 'tuple', 'iter', 'gen', 'map', 'lol', 'chain', 'deque'):
		n += 1
		out.append(_w5('req', n, w5={'types': {'query': form}}, query=dup))
	for form in ('dict', 'odict', 'items', 'list', 'gen'):
		n += 1
		out.append(_w5('req', n, w5={'types': {'query': form}}, query=uniq))
	for form in ('list', 'tuple', 'iter', 'gen', 'map', 'deque'):
		for si, segs in enumerate((['', 'b c', '\xe4', 'a/b', 'b c'], ['', 'z', 'y', 'a', ''])):
			n += 1
			out.append(_w5('req', n, w5={'types': {'segs': form}}, segs=segs))
	for form in ('int', 'Status', 'float'):
		for ci in range(2):
			if form == 'float' and not ci:
				continue   # (only the constructor takes a float)
			n += 1
			out.append(_w5('resp', n, w5={'types': {'status': form}, 'ctor': ['S'] if ci and form != 'Status' else []}, status=[404, 200, 503][n % 3], reason=None))
	for form in ('tuple', 'tuplebytes', 'strline', 'bytesline', 'Status'):
		n += 1
		out.append(_w5('resp', n, w5={'types': {'status': form}}, status=[404, 299, 200][n % 3], reason='Nope, not here'))
	# the content as every kind of iterable the Body accepts
	for vi, (t, via) in enumerate(BODY_VIAS):
		for kind in ('req', 'resp'):
			for ch in (False, True):
				n += 1
				coding = [None, 'gzip', None, 'deflate'][(vi + ch + (kind == 'req')) % 4] if ch else None
				items = [b'first '.hex(), b'second\r\n'.hex(), b'third'.hex()]
				out.append(_w5(kind, n, w5={'ctor': ['B'] if n % 3 == 0 else []}, body={'t': t, 'via': via, 'items': items, 'strs': [False, False, False]}, chunked=ch, coding=coding))
			n += 1
			out.append(_w5(kind, n, body={'t': t, 'via': via, 'items': ['Gr\xfc\xdfe '.encode('utf-8').hex(), b'\xe2\x82\xac'.hex(), '€!'.encode('utf-8').hex()], 'strs': [True, False, True]}, chunked=bool(vi % 2)))
	return out


def class_refused(rng, tier):
	"""(12) an operation that the API refuses with an exception leaves the message as it was: the application goes on with the message and sends it"""
	out = []
	n = 0
	for kind in ('req', 'resp'):
		names = sorted(cr.refusals(kind == 'req'))
		for name in names:
			n += 1
			out.append(_w5(kind, n, w5={'refuse': [name], 'ctor': ['P', 'S', 'H', 'B'] if n % 3 == 0 else []}, coding=[None, None, 'gzip', None, 'deflate'][n % 5]))
		for ch in (False, True):
			n += 1
			out.append(_w5(kind, n, w5={'refuse': names}, chunked=ch))
			out.append(_w5(kind, n + 1, w5={'refuse': names[::-1]}, chunked=ch, coding='gzip' if ch else None))
			for ff in ('piece', 'source'):
				n += 1
				out.append(_w5(kind, n, w5={'failfirst': ff}, chunked=ch))
				out.append(_w5(kind, n + 3, w5={'failfirst': ff, 'refuse': names[n % len(names):][:3]}, chunked=ch, coding='deflate' if ch else None))
	return out


# (13) charsets of a text body: (label of the charset, text that it can encode)
KNOB_MAIN = [('UTF-16', 'Gr\xfc\xdfe € \U0001f600'), ('ISO8859-1', 'caf\xe9 \xff \xa0x'), ('cp1252', '€ œ caf\xe9 “q”'), ('koi8-r', 'Привет, мир')]
KNOB_MORE = [('utf-16-le', 'h\xe9 €'), ('utf-16-be', 'h\xe9 €'), ('utf-32', '\U0001f600 x'), ('iso8859-15', '€ caf\xe9'), ('cp1251', 'Привет'), ('shift_jis', '日本語 テキスト'),
	('gb2312', '中文'), ('euc-kr', '한국어'), ('big5', '中文'), ('utf-8-sig', 'bom \xe9'), ('cp437', '\xe9 \xf1 ░'), ('mac-roman', '\xe9 \xfc †'), ('iso8859-2', 'ł\xf3dź'),
	('iso8859-5', 'Привет'), ('iso8859-7', 'αβγ'), ('koi8-u', 'їє привіт'), ('utf-7', 'a+b €'), ('cp866', 'Привет ░')]
KNOBS = ('encoding', 'mimetype', 'mimetype-bytes', 'bodyctor')
URI_CHARSETS = [('ISO8859-1', 'caf\xe9'), ('cp1252', '€ x'), ('koi8-r', 'привет'), ('iso8859-15', '€\xe9'), ('cp1251', 'мир')]


def class_knobs(rng, tier):
	"""(13) the charset of a text body selected through every knob there is (Body.encoding, Body.mimetype as text / octets, Body(content, mimetype=...) as content or as
	constructor argument) with text outside ASCII: the text goes out in that charset, Content-Length counts its octets; and URI.encoding assigned on the class"""
	out = []
	n = 0

	def body(t, cs, text):
		if t == 'text':
			return {'t': 'text', 'items': [text.encode('utf-8').hex()], 'charset': cs}
		return {'t': t, 'items': [x.encode('utf-8').hex() for x in ('<', text, '|', text[:3])], 'strs': [False, True, False, True], 'charset': cs}
	for ci, (cs, text) in enumerate(KNOB_MAIN):
		for ki, knob in enumerate(KNOBS):
			for ti, t in enumerate(('text', 'list', 'tuple', 'gen')):
				if tier != 'thorough' and (ci + ki + ti) % 2:
					continue
				n += 1
				out.append(_w5('req' if n % 2 else 'resp', n, w5={'knob': knob, 'ctor': ['B'] if knob == 'bodyctor' and n % 3 == 0 else []}, body=body(t, cs, text), chunked=bool((n // 2) % 2)))
	for ci, (cs, text) in enumerate(KNOB_MORE):
		for j in range(2):
			n += 1
			out.append(_w5('req' if (ci + j) % 2 else 'resp', n, w5={'knob': KNOBS[(ci + 2 * j) % 4]}, body=body(('text', 'list', 'gen', 'tuple')[(ci + j) % 4], cs, text), chunked=bool(ci % 2)))
	for ci, (cs, text) in enumerate(URI_CHARSETS):
		for j in range(2):
			out.append(_req(uri_encoding=cs, light=True, segs=['', text, 'z ' + text] if j else ['', 'p', text], query=[[text, 'v'], ['k', text + ' ' + text]], method=['PUT', 'POST'][j], chunked=bool(j)))
	return out


LIST_FIELDS = {'req': ['Accept-Language', 'Accept', 'Accept-Charset', 'Cache-Control', 'Via', 'X-List', 'TE-X', 'If-None-Match-X'], 'resp': ['Vary', 'Content-Language', 'Cache-Control', 'Via', 'X-List', 'Allow-X', 'Warning-X']}
MEMBER_ORDERS = [['b', 'a', 'c'], ['z', 'y', 'x', 'a'], ['a', 'b', 'a'], ['de', 'en', 'de', 'fr'], ['m2', 'm10', 'm1'], ['B', 'a', 'C', 'b']]


def class_order(rng, tier):
	"""(14) the order of query pairs, path segments and list members (unsorted, reverse-sorted, duplicates) is the order the caller gave, through every input type;
	members added with headers.append come after the ones that are there"""
	out = []
	n = 0
	queries = [[['b', '2'], ['a', '1'], ['b', '1']], [['z', '1'], ['y', '2'], ['x', '3'], ['a', '4']], [['a', '1'], ['a', '1'], ['a', '1']], [['k', 'z'], ['k', 'a'], ['k', 'm'], ['k', 'a']],
		[['10', 'x'], ['9', 'x'], ['1', 'x'], ['2', 'x']], [['B', '1'], ['a', '2'], ['C', '3'], ['b', '4']], [['\xe4', '1'], ['z', '2'], ['a', '3'], ['\xe4', '0']], [['a', ''], ['b', ''], ['a', '']]]
	for qi, q in enumerate(queries):
		for form in (('list', 'gen'), ('tuple', 'map'), ('iter', 'lol'), ('chain', 'deque'))[qi % 4]:
			n += 1
			out.append(_w5('req', n, w5={'types': {'query': form}}, query=q, segs=[['', 'b', 'a', 'b'], ['', 'z', 'y', 'x', 'a'], ['', 'a', 'a', 'a'], ['', '10', '9', '1']][qi % 4]))
	for qi, q in enumerate(([['z', '1'], ['y', '2'], ['a', '3']], [['b', 'x'], ['C', 'y'], ['a', 'z'], ['B', 'w']])):
		for form in ('dict', 'odict', 'items'):
			n += 1
			out.append(_w5('req', n, w5={'types': {'query': form, 'hdrs': form if form != 'items' else 'dict'}, 'ctor': ['H']}, query=q, hdrs=[['X-' + k.upper() + str(i), v.encode().hex()] for i, (k, v) in enumerate(q)]))
	for kind in ('req', 'resp'):
		for fi, name in enumerate(LIST_FIELDS[kind]):
			members = MEMBER_ORDERS[(fi + (kind == 'req')) % len(MEMBER_ORDERS)]
			n += 1
			# all members in one value; and the first in the value, the others appended one by one (with other fields set in between)
			out.append(_w5(kind, n, hdrs=[['X-First', b'1'.hex()], [name, ', '.join(members).encode().hex()], ['X-Last', b'2'.hex()]], chunked=bool(fi % 2)))
			out.append(_w5(kind, n + 1, w5={'types': {'hval': ['bytes', 'str'][fi % 2]}}, hdrs=[[name, members[0].encode().hex()], ['X-Between', b'1'.hex()]], happend=[[name, x.encode().hex()] for x in members[1:]], chunked=bool(fi % 2)))
	return out


def class_calls(rng, tier):
	"""(15) the same operations in every order the API allows: protocol, start line, header fields, content, content coding - through constructor arguments or attribute
	assignment - with and without a content coding (coding selected before / after the content is assigned; fields before / after the content)"""
	import itertools
	out = []
	n = 0
	for perm in itertools.permutations(['S', 'H', 'B', 'C']):
		for kind in ('req', 'resp'):
			for coding in ('gzip', 'deflate'):
				n += 1
				order = (['P'] + list(perm)) if n % 3 else (list(perm) + ['P'])
				out.append(_w5(kind, n, w5={'order': order}, coding=coding, chunked=True, body_coding=bool(kind == 'resp' and n % 4 == 0), version=[1, 1]))
		n += 1
		out.append(_w5('req' if n % 2 else 'resp', n, w5={'order': list(perm[:2]) + ['P'] + list(perm[2:])}, version=[1, n % 2], chunked=bool(n % 4 == 1)))
	steps = ['P', 'S', 'H', 'B']
	for k in range(16):
		ctor = [s for i, s in enumerate(steps) if k >> i & 1]
		for kind in ('req', 'resp'):
			n += 1
			rest = [s for s in ['C'] + steps[::-1] if s not in ctor] if n % 2 else [s for s in steps + ['C'] if s not in ctor]
			coding = [None, 'gzip', 'deflate'][n % 3]
			out.append(_w5(kind, n, w5={'ctor': ctor, 'order': rest, 'types': {'uri': 'str'} if 'S' in ctor else {}}, coding=coding, chunked=bool(coding) or bool(k % 2), reason=None))
	return out


WS_OCTETS = [0x09, 0x0a, 0x0b, 0x0c, 0x0d, 0x20, 0x00]
EDGE_OCTETS = [0x09, 0x0a, 0x0b, 0x0c, 0x0d, 0x1c, 0x1d, 0x1e, 0x1f, 0x20, 0x85, 0xa0, 0x00, 0x3d, 0xff]   # white space of bytes.strip / str.strip (Latin-1), NUL, '=', 0xff


def _search(pred, stem, start=0):
	"""the first octet string 'stem NNN ...' for which pred holds (cheap: a checksum per candidate)"""
	for k in range(start, start + 400000):
		piece = stem + b' %d: ' % k + bytes((k * 37 + j * 11) % 95 + 32 for j in range(20 + k % 17)) + b'\n'
		if pred(piece):
			return piece
		piece = bytes((k * 31 + j * 7 + len(stem)) % 95 + 32 for j in range(1 + k % 131))   # (short pieces: the upper half of an Adler-32 is small)
		if pred(piece):
			return piece
	raise ValueError('no such piece')


def class_values(rng, tier):
	"""(16) contents chosen by the VALUE of what the coder makes of them: the Adler-32 of a zlib stream / the CRC-32 and the length field of a gzip member has a white
	space octet (HT LF VT FF CR SP) or NUL in each of its positions - in the first, a middle and the last piece of a body that goes out as several streams; contents
	that begin / end with such octets; and some hundred cheap multi-piece contents (fed whole and octet by octet only)"""
	import zlib
	out = []
	n = 0
	forms = ('list2', 'list3-last', 'list3-mid', 'gen', 'tuple-first', 'bytesio', 'file')

	def shaped(form, piece, i):
		a, b = b'header line\n', b'--\n' + bytes((i * 7 + j) % 251 for j in range(30))
		if form == 'list2':
			return {'t': 'list', 'items': [a.hex(), piece.hex()], 'strs': [False, False]}
		if form == 'list3-last':
			return {'t': 'list', 'items': [a.hex(), b.hex(), piece.hex()], 'strs': [False] * 3}
		if form == 'list3-mid':
			return {'t': 'list', 'items': [a.hex(), piece.hex(), b.hex()], 'strs': [False] * 3}
		if form == 'gen':
			return {'t': 'gen', 'items': [b.hex(), piece.hex()], 'strs': [False, False]}
		if form == 'tuple-first':
			return {'t': 'tuple', 'items': [piece.hex(), a.hex()], 'strs': [False, False]}
		return None
	for coding, check in (('deflate', zlib.adler32), ('gzip', zlib.crc32)):
		for wi, w in enumerate(WS_OCTETS):
			for pos in range(4):
				n += 1
				form = forms[n % len(forms)]
				pred = lambda piece, w=w, pos=pos: (check(piece) >> (8 * pos)) & 0xff == w
				if form in ('bytesio', 'file'):
					# a file is read in blocks of 4096 octets, each one coded by itself: the LAST block is the piece
					fill = bytes((n * 13 + j * 7) % 256 for j in range(4096 * (1 + n % 2)))
					b = {'t': form, 'items': [(fill + _search(pred, b'tail %d' % n)).hex()], 'pos': 0}
				else:
					b = shaped(form, _search(pred, b'record %d' % n), n)
				out.append(_w5('req' if n % 2 else 'resp', n, coding=coding, chunked=True, body=b, body_coding=bool(n % 3 == 0)))
	# the length field of a gzip member (ISIZE, little endian): pieces of 9 .. 13, 32 octets, and lengths whose second octet is white space
	for n2 in (9, 10, 11, 12, 13, 32, 0x0900, 0x0a00 + 10, 0x0d00, 0x2000, 0x2020):
		n += 1
		piece = bytes((n2 + j * 5) % 256 for j in range(n2))
		out.append(_w5('req' if n % 2 else 'resp', n, coding='gzip', chunked=True, body={'t': 'list', 'items': [b'ab'.hex(), piece.hex()] if n % 3 else [piece.hex(), b'ab'.hex(), piece.hex()], 'strs': [False] * (2 if n % 3 else 3)}))
	# contents whose first / last octet is white space for some reading (octets or Latin-1 text), NUL, '=' or 0xff
	for oi, o in enumerate(EDGE_OCTETS):
		for ci, coding in enumerate((None, 'gzip', 'deflate')):
			n += 1
			e = bytes([o])
			items = [[e + b'content' + e], [e, b'content', e], [e + e, b'content' + e + e]][(oi + ci) % 3]
			t = ('bytes', 'list', 'gen', 'tuple', 'bytesio', 'file')[(oi + ci) % 6] if len(items) > 1 or (oi + ci) % 2 else 'bytes'
			if t in ('bytes', 'bytesio', 'file'):
				items = [b''.join(items)]
			b = {'t': t, 'items': [x.hex() for x in items]}
			if t in ('list', 'gen', 'tuple'):
				b['strs'] = [False] * len(items)
			out.append(_w5('req' if (oi + ci) % 2 else 'resp', n, coding=coding, chunked=bool(coding) or bool(oi % 2), body=b, light=True))
	# many cheap multi-piece contents with a coding
	for i in range(400 if tier == 'thorough' else 80):
		for coding in ('deflate', 'gzip'):
			n += 1
			text = b'record %03d: ' % i + bytes((i * 37 + j * 11) % 95 + 32 for j in range(40 + i)) + b'\n'
			items = [[b'header line\n', text], [text, b'--\n', text[::-1]], [text, text], [text[:7], text[7:], b'\n', text]][i % 4]
			out.append(_w5('req' if (i + (coding == 'gzip')) % 2 else 'resp', n, coding=coding, chunked=True, light=True,
				body={'t': ('list', 'gen', 'tuple')[i % 3], 'items': [x.hex() for x in items], 'strs': [False] * len(items)}))
	return out


POW2 = [2 ** k + d for k in range(9, 17) for d in (-1, 0, 1)]


def class_bounds(rng, tier):
	"""(17) lengths that are an exact multiple of 2^k (k = 9 .. 16) and one more / one less, in every position that carries a length (the lengths of (3) are not repeated)"""
	out = []
	have = set(LENS + LENS_BIG)
	n = 0
	for i, ln in enumerate(POW2 + [3 * 4096 - 1, 3 * 4096, 3 * 4096 + 1, 5 * 4096]):
		data = bytes((j * 11 + i) % 256 for j in range(ln))
		big = ln > 20000
		if ln not in have:
			n += 1
			out.append(_resp(body=_bytes(data), light=big and tier != 'thorough'))
			if i % 2 == 0 or tier == 'thorough':
				out.append(_req(body=_bytes(data), chunked=True, light=big and tier != 'thorough'))
			out.append(_resp(body={'t': 'list', 'items': [b'ab'.hex(), data.hex(), b'c'.hex()], 'strs': [False] * 3}, chunked=True, light=big))
		# a file / BytesIO is read in blocks of 4096: several chunks, and with a coding several streams
		if ln >= 4095 and (not big or tier == 'thorough' or ln % 4096 == 0):
			n += 1
			t = ('bytesio', 'file')[n % 2]
			out.append(_msg('req' if n % 2 else 'resp', body={'t': t, 'items': [data.hex()], 'pos': 0}, chunked=True, coding=[None, 'deflate', 'gzip'][n % 3], light=big))
			out.append(_msg('resp' if n % 2 else 'req', body={'t': ('file', 'bytesio')[n % 2], 'items': [data.hex()], 'pos': 0}, chunked=True, coding=['deflate', 'gzip', None][n % 3], light=True))
		if ln in have or ln > 17000:
			continue
		if i % 2 == 0 or tier == 'thorough':
			out.append(_req(segs=['', _fill(ln, i), 'z'], light=ln > 5000))
			out.append(_msg('resp' if i % 4 else 'req', hdrs=[['X-Long', _fill(ln, i).encode().hex()]], light=ln > 5000))
		if i % 2 == 1 or tier == 'thorough':
			out.append(_req(segs=['', 's'], query=[['k', _fill(ln, i)]], light=ln > 5000))
			out.append(_msg('req' if i % 4 == 1 else 'resp', body={'t': 'text', 'items': [('\xe4' + _fill(ln - 2, i) + '€').encode('utf-8').hex()]}, chunked=bool(i % 4 == 1), light=ln > 5000))
	return out


def rmessage2(rng, tier):
	"""random messages over the pools of the classes above"""
	c = rmessage(rng, tier)
	pool = UNI + DEG
	if c['k'] == 'req':
		if rng.random() < 0.6:
			c['segs'] = [''] + [rng.choice(pool) or 'e' for _ in range(rng.randint(1, 3))]
		if rng.random() < 0.5:
			c['query'] = [[rng.choice(pool), rng.choice(pool)] for _ in range(rng.randint(1, 3))]
	else:
		if rng.random() < 0.5:
			c['reason'] = rng.choice(['a', 'Not', 'x-1', '(a)']) + rng.choice(['  ', '\t', ' \t ', ' ', ', ', '"']) + rng.choice(['b', 'Found', '"q"', '\\'])
	if rng.random() < 0.5:
		c['thdrs'] = [['X-Text-%d' % j, rng.choice(pool) + rng.choice(['', ' ', 'x']) + rng.choice(pool)] for j in range(rng.randint(1, 2))]
	b = c['body']
	if b['t'] in ('list', 'tuple', 'gen') and rng.random() < 0.7:
		items = [rng.choice(pool + ['abc', '\r\n', '0\r\n\r\n']) for _ in range(rng.randint(1, 4))]
		b['items'] = [x.encode('utf-8').hex() for x in items]
		b['strs'] = [rng.random() < 0.7 for _ in items]
	if rng.random() < 0.35:
		how, first = rng.choice(ROUTES)
		if not (how in ('shared', 'sharedbody') and b['t'] == 'gen'):
			c['route'] = {'how': how, 'first': dict(first), 'alt': rng.randrange(12)}
	elif rng.random() < 0.2:
		ch = bool(c.get('chunked'))
		P = ['p', 1790000000]
		c['ops'] = rng.choice([[['ch', ch], P, ['c'], P, ['c']], [['ch', ch], P, ['c'], ['c']], [['ch', not ch], P, ['ch', ch], P, ['c']], [['ch', not ch], P, ['c'], ['ch', ch], P, ['c']]])
	return c


def class_cases(rng, tier):
	out = []
	for f in (class_text_pieces, class_body_charset, class_stateful, class_reuse_coded, class_unicode, class_lengths, class_registries, class_degenerate,
		class_reason_edges, class_empty_query_name, class_alias, class_types, class_refused, class_knobs, class_order, class_calls, class_values, class_bounds):
		for c in f(rng, tier):
			c['cls'] = f.__name__[6:]
			out.append(c)
	for _ in range(3000 if tier == 'thorough' else 100):
		c = rmessage2(rng, tier)
		c['cls'] = 'random'
		out.append(c)
	return out


def excluded(c):
	"""input classes kept out of the NEW generators (the clean tree does not deliver them; each is named in notes/reports/C04.md)"""
	# (No longer left out: a Response object reused after a use with a Content-Encoding - finding D59, repaired, corpus/C04/D59-*.json, class_reuse_coded;
	# reason phrases with blanks at an edge - known finding D48b, class_reason_edges; query pairs with an empty name - known finding D60, class_empty_query_name.)
	# The names of the content codings are looked up as they are written: 'GZIP' / 'Gzip' / 'Deflate' (RFC 7231 3.1.2.1: case-insensitive) make
	# ComposedResponse.prepare raise InvalidHeader (Unknown Content-Encoding) and the server machine answer 501 to the request.  The property quantifies over
	# the codings gzip / deflate; the library REFUSES the other spellings (nothing wrong is sent): outside the statement, reported in notes/reports/C04.md
	if c.get('coding') and c['coding'] != c['coding'].lower():
		return True
	# known findings of other properties (D1: an octet below 0x10 is percent-encoded with one digit; D21: C0 controls in a query): no control characters in the target
	if c['k'] == 'req' and any(ord(ch) < 0x20 or ord(ch) == 0x7f for t in list(c['segs']) + [x for p in (c.get('query') or []) for x in p] for ch in t):
		return True
	# API preconditions rather than defects: a CONNECT request has an authority as its target, no path and query (ComposedRequest cannot send one: its
	# relative_uri() takes the host away and Request.compose then refuses the target); URI.scheme selects the URI class by the lower-case name only
	if c['k'] == 'req' and (c['method'] == 'CONNECT' or c.get('scheme', 'http') != c.get('scheme', 'http').lower()):
		return True
	return False


def _ops(c):
	if c.get('ops'):
		return c['ops']   # statefulness cases: several prepares / composes / framing changes on one object; the LAST composition is what is parsed
	return ([['ch', True]] if c.get('chunked') else []) + [['p', 1790000000], ['c']]


# ---------------------------------------------------------------- how the composed octets reach the opposite machine
# (a) one composed message, every way of cutting it into parse() calls must give the delivery of the single call;
# (b) several composed messages one after the other on ONE opposite-side machine: each delivered exactly as when parsed alone.
PER_OCTET_MAX = 2500    # wires up to this length are also fed octet by octet ...
TWO_CUT_ALL_MAX = 700   # ... and up to this length with every two-call cut
NEAR = 3                # longer wires: every cut position within NEAR octets of a CR or LF, plus a stride sample of the rest
BLOCK = 509             # long wires, one run of many calls: single octets near every CR / LF, blocks of at most BLOCK octets elsewhere


def _near_line_ends(data):
	near = set()
	for i, b in enumerate(data):
		if b in (13, 10):
			near.update(range(max(1, i - NEAR), min(len(data) - 1, i + 1 + NEAR) + 1))
	return near


def two_call_cuts(data):
	n = len(data)
	if n <= TWO_CUT_ALL_MAX:
		return list(range(1, n))
	# every position within NEAR of a CR or LF (all of head, chunk framing and trailer; in a body full of CR / LF octets nearly every position),
	# the first 200 and the last 40 positions, and about a hundred evenly spread over the rest
	return sorted(_near_line_ends(data) | set(range(1, 200)) | set(range(n - 40, n)) | set(range(1, n, n // 97)))


def multi_cuts(data):
	"""cut positions of the one many-call run: every octet on its own for a short wire; for a long one every octet within NEAR of a CR or LF on its own"""
	n = len(data)
	if n <= PER_OCTET_MAX:
		return list(range(1, n))
	near = _near_line_ends(data)
	cuts, last = [], 0
	for i in range(1, n):
		if i in near or (i - 1) in near or i - last >= BLOCK:
			cuts.append(i)
			last = i
	return cuts


def _frags(data, cuts):
	return [data[a:b] for a, b in zip([0] + list(cuts), list(cuts) + [len(data)])]


def delivery(run):
	"""what a run delivered, whatever the cutting: the messages in order, the first error, and the idle flag / leftover octets at the end"""
	msgs, err = [], None
	for call in run['calls']:
		if 'err' in call:
			err = call['err']
			break
		msgs.extend(call['msgs'])
	fin = run.get('final')
	return {'msgs': msgs, 'err': err, 'started': fin['started'] if fin else None, 'left': fin['buf'] if fin and not fin['started'] else None}


def unordered(d):
	"""a delivery with the fields of every message in sorted order (the same message sent with its field lines in another order, or with the other framing)"""
	d = dict(d)
	d['msgs'] = [dict(m, hdrs=sorted(m['hdrs'])) for m in d['msgs']]
	return d


def _short(d):
	return {'n_msgs': len(d['msgs']), 'err': d['err'], 'started': d['started'], 'left': d['left'] if d['left'] is None else len(d['left']) // 2,
		'bodies': [len(m['body']) // 2 for m in d['msgs']], 'lines': [bytes.fromhex(m['line'] or '').decode('latin-1') for m in d['msgs']],
		'fields': [hashlib.sha1(repr(sorted(map(tuple, m['hdrs']))).encode()).hexdigest()[:8] for m in d['msgs']]}


_PRIMERS = {}
PRIMER_BODY = {'t': 'list', 'items': [b'primer '.hex(), b'\r\n0\r\n\r\n'.hex(), b'data'.hex()], 'strs': [False, False, False]}


def primer_case(k, chunked):
	c = {'k': k, 'version': [1, 1], 'hdrs': [['X-Primer', b'p'.hex()]], 'body': PRIMER_BODY, 'coding': None, 'chunked': chunked}
	if k == 'req':
		c.update(method='PUT', segs=['', 'primer'], query=None, host='primer.example')
	else:
		c.update(status=203, reason=None, rmethod='GET')
	return c


def primer(k, chunked):
	"""a composed message of the same side as the case, sent before / after it on the same connection: (octets, delivery when parsed alone);
	the four primers are cases of their own (gen_cases), so what they deliver alone is judged by the oracle like any other case"""
	key = (k, chunked)
	if key not in _PRIMERS:
		c = primer_case(k, chunked)
		c['ops'] = _ops(c)
		c['trailer'] = []
		o = cr.run_ops(c)
		data = bytes.fromhex(o['ops'][-1]['out'])
		_PRIMERS[key] = (data, delivery(parser_rec.run('server' if k == 'req' else 'client', [data])))
	return _PRIMERS[key]


def _feeds(args):
	"""worker: each feed on a fresh machine.  `multi`: (position, label, octets, cut positions, expected delivery); `two`: (octets, cut positions,
	expected delivery), one two-call run per position.  Returns the feeds that did not deliver what is expected (the first few) and their number"""
	kind, multi, two = args
	dev, n = [], 0

	def one(idx, label, data, cuts, exp, norm=False):
		run = parser_rec.run(kind, _frags(data, cuts))
		got = delivery(run)
		if norm:
			got = unordered(got)
		if got != exp:
			if len(dev) < 4:
				dev.append({'how': label(), 'idx': idx, 'calls': len(run['calls']), 'want': _short(exp), 'got': _short(got)})
			return 1
		return 0
	for idx, label, data, cuts, exp, *norm in multi:
		n += one(idx, lambda: label, data, cuts, exp, bool(norm and norm[0]))
	if two:
		data, cuts, exp = two
		for cut in cuts:
			n += one(100 + cut, lambda: 'fed in two calls, cut after octet %d of %d (... %r | %r ...)' % (cut, len(data), data[max(0, cut - 6):cut], data[cut:cut + 6]),
				data, [cut], exp)
	return dev, n


_POOL = []
PART = 160              # two-call cuts per task of the worker pool
MAX_OUTSTANDING = 400   # cases whose feeds are still running or queued, before this process waits for the oldest
WORKER_TIMEOUT = 900


def _pool():
	"""the feeds are independent runs on fresh machines: done by worker processes (forked once, before any thread exists);
	VERIF_JOBS=1 or a platform without fork: everything in this process"""
	if not _POOL:
		_POOL.append(None)
		try:
			import multiprocessing
			import os
			n = min(int(os.environ.get('VERIF_JOBS', '16')), os.cpu_count() or 1)
			if n > 1:
				_POOL[0] = multiprocessing.get_context('fork').Pool(n)
		except Exception:
			_POOL[0] = None
	return _POOL[0]


_OUTSTANDING = []


class Pending(object):
	"""the feeds of one case, running in the worker processes while this process composes the next cases; result() waits for them"""

	def __init__(self, kind, multi, data, cuts, want):
		multi = [(i,) + tuple(f) for i, f in enumerate(multi)]
		tasks = [(kind, multi, None)] + [(kind, [], (data, cuts[i:i + PART], want)) for i in range(0, len(cuts), PART)]
		pool = _pool()
		self.done = None
		if pool is None:
			self.handles = []
			self.collect([_feeds(t) for t in tasks])
		else:
			self.handles = [pool.apply_async(_feeds, (t,)) for t in tasks]
			_OUTSTANDING.append(self)
			while len(_OUTSTANDING) > MAX_OUTSTANDING:
				_OUTSTANDING.pop(0).result()

	def collect(self, results):
		dev, n = [], 0
		for d, k in results:
			dev = dev + d
			n += k
		dev.sort(key=lambda d: d['idx'])
		self.done = (dev[:4], n, None)

	def result(self):
		if self.done is None:
			try:
				self.collect([h.get(WORKER_TIMEOUT) for h in self.handles])
			except Exception as exc:
				self.done = (None, 0, '%s: %s' % (type(exc).__name__, str(exc)[:200]))
			self.handles = []
		return self.done


def extra(o):
	"""the observation of the fragmented and sequential feeds, waited for when first looked at (coq_case is called for every case before any
	observation is written anywhere)"""
	x = o.get('extra')
	if x is not None and isinstance(x.get('deviations'), Pending):
		x['deviations'], x['n_deviations'], err = x['deviations'].result()
		if err:
			x['error'] = err
	return x


def framed(data):
	"""does the head of the composed message carry a Content-Length or Transfer-Encoding field?"""
	head = data.split(b'\r\n\r\n')[0].lower()
	return b'\r\ncontent-length:' in head or b'\r\ntransfer-encoding:' in head


def _chunks(payload, sizes, style):
	out, pos, k = [], 0, 0
	while pos < len(payload):
		n = max(1, sizes[k % len(sizes)])
		piece = payload[pos:pos + n]
		size = (b'%X' if style % 2 else b'%x') % len(piece)
		if style % 3 == 1:
			size = b'000' + size
		ext = [b'', b';ext=1', b';q="a;b"', b';x'][(style + k) % 4] if style >= 2 else b''
		out.append(size + ext + b'\r\n' + piece + b'\r\n')
		pos += n
		k += 1
	return b''.join(out) + (b'0' if style % 2 else b'000') + b'\r\n'


def reencodings(c, data):
	"""(6) the same message as another RFC 7230 sender could have put it on the wire: (label, octets).  Read with the independent reader of
	harness/composer_rec.py (not with the library); only messages whose framing that reader and the library's machine agree on are re-encoded
	(the caller checks that the composed octets were delivered cleanly)"""
	is_req = c['k'] == 'req'
	try:
		r = cr.read_http1(data, is_req, False)
	except cr.Malformed:
		return []
	start, fields, payload = r['start'], r['fields'], r['payload']
	if any(b'\r' in v or b'\n' in v for _, v in fields):
		return []

	def wire(fields, body, sep=b': ', tail=b''):
		return start + b'\r\n' + b''.join(n + sep + v + tail + b'\r\n' for n, v in fields) + b'\r\n' + body
	body = data[len(wire(fields, b'')):] if data.startswith(wire(fields, b'')) else None
	if body is None:
		return []   # the composer did not write 'Name: value' lines: nothing to compare with
	out = []
	framing = [(n, v) for n, v in fields if n.lower() in (b'content-length', b'transfer-encoding')]
	others = [(n, v) for n, v in fields if n.lower() not in (b'content-length', b'transfer-encoding')]
	# field names in other letter cases, field lines in another order (lines of the same name keep their order), optional white space
	out.append(('field names in lower case', wire([(n.lower(), v) for n, v in fields], body)))
	out.append(('field names in upper case', wire([(n.upper(), v) for n, v in fields], body)))
	out.append(('field lines sorted backwards by name', wire(sorted(fields, key=lambda f: f[0].lower(), reverse=True), body)))
	out.append(('framing fields first', wire(framing + others, body)))
	# (14) field lines of one name that are NOT adjacent: the last line of every repeated name goes to the end of the section, and a list value of an
	# unregistered (X-...) field is sent as one line per member, the first where the field was and the others at the end (RFC 7230 3.2.2: same combined value)
	lines, tail = [], []
	for i, (n, v) in enumerate(fields):
		ln = n.lower()
		members = v.split(b', ')
		if ln.startswith(b'x-') and len(members) > 1 and b'"' not in v and all(x.strip(b' \t') == x and x for x in members) and not any(f[0].lower() == ln for f in fields[:i] + fields[i + 1:]):
			lines.append((n, members[0]))
			tail.extend((n, x) for x in members[1:])
		elif any(f[0].lower() == ln for f in fields[:i]) and not any(f[0].lower() == ln for f in fields[i + 1:]) and ln not in (b'content-length', b'transfer-encoding', b'host'):
			tail.append((n, v))
		else:
			lines.append((n, v))
	if tail and any(t[0].lower() != lines[-1][0].lower() for t in tail):
		out.append(('repeated field lines of one name separated by the other fields', wire(lines + tail, body)))
	out.append(('no white space after the colon', wire(fields, body, sep=b':')))
	out.append(('tabs and blanks around the field values', wire(fields, body, sep=b': \t ', tail=b' \t')))
	# a long value folded at one of its blanks (obs-fold; the continuation keeps a blank of its own, so that 'replace the fold by SP' and
	# 'drop the first octet of the continuation line' - what Headers.parse does - agree)
	folded = [(n, v.replace(b' ', b'\r\n  ', 1)) if (b' ' in v.strip(b' ') and n.lower() not in (b'content-length', b'transfer-encoding', b'host')) else (n, v) for n, v in fields]
	if folded != fields:
		out.append(('values folded at their first blank', wire(folded, body)))
	version11 = start.endswith(b'HTTP/1.1') if is_req else start.startswith(b'HTTP/1.1')
	coded = any(n.lower() == b'content-encoding' for n, _ in fields)   # the delivered Content-Length of a coded body depends on the framing: same framing only
	if r['framing'] == 'chunked' and not r['trailer']:
		for style, sizes in enumerate(([1], [2, 3, 5, 8, 13, 21, 34, 55, 89, 144, 233, 377, 610], [len(payload) or 1], [16, 15, 17, 255, 256, 4095, 4096])):
			if (payload or style == 0) and not (style == 0 and len(payload) > 3000):
				out.append(('chunked again in pieces of %s octets, chunk-size style %d' % (sizes[:4], style), wire(fields, _chunks(payload, sizes, style) + b'\r\n')))
		if not coded:
			out.append(('Content-Length instead of chunked', wire(others + [(b'Content-Length', b'%d' % len(payload))], payload)))
	elif r['framing'] == 'length' and version11 and not coded:
		out.append(('chunked instead of Content-Length', wire([(b'Transfer-Encoding', b'chunked')] + others, _chunks(payload, [7, 1, 4096], 0) + b'\r\n')))
	return out


COQ_WIRE_MAX = 20000   # longer wires: oracle only
COQ_W5_WIRE_MAX, COQ_TERM_MAX = 13000, 150000   # cases of the fifth-wave classes: measured - one literal of 16 kB overflows the stack of coqc 8.16 (12.5 kB does not), terms of 141 000 characters pass
W5_CLASSES = ('alias', 'types', 'refused', 'knobs', 'order', 'calls', 'values', 'bounds')
COQ_CLASS_MAX, COQ_CLASS_SHARE = 5000, 4   # cases of the input classes (key 'cls'): wires above this length go through Coq one in so many (cost of the literals)
COQ_PER_OCTET_MAX, COQ_PER_OCTET_SHARE = 200, 4   # wires up to this length, one in so many: the octet-by-octet run is also replayed by the parser model inside Coq
COQ_SEQ_MAX, COQ_SEQ_SHARE = 1200, 3             # ... and the run of three messages (chunked, the case's, Content-Length) on one machine


def observe_extra(c, kind, data, alone):
	"""(a) and (b) on the real opposite machine; the observation keeps the counts and the first feeds that did NOT deliver what the single call delivered"""
	want = delivery(alone)
	x = {}
	feeds = []
	# (a) fragmentations of the one message
	mc = multi_cuts(data)
	if mc:
		feeds.append(('fed in %d calls (%s)' % (len(mc) + 1, 'octet by octet' if len(mc) == len(data) - 1 else 'octet by octet around every CR / LF, blocks elsewhere'), data, mc, want))
	light = bool(c.get('light'))   # cheap mass inputs (class (16)/(17)): whole, octet by octet / around line ends, and on a used machine; no two-call cuts, no re-encodings
	tc = [] if light else two_call_cuts(data)
	x['two_call_cuts'] = len(tc)
	x['many_call_run'] = len(mc) + 1
	# (b) several messages on one machine
	pch, dch = primer(c['k'], True)
	pcl, dcl = primer(c['k'], False)

	def seq(label, parts, ds, per_octet=False):
		"""the messages `parts` (each with its delivery when parsed alone, `ds`), one call per element of `parts` (or per octet);
		expected: all the messages in order, as long as every one is complete and error-free"""
		exp = {'msgs': [], 'err': None, 'started': False, 'left': ''}
		for d in ds:
			exp['msgs'] = exp['msgs'] + d['msgs']
			if d['err'] is not None or d['started'] or d['left']:
				exp.update(err=d['err'], started=d['started'], left=d['left'])
				break
		octets = b''.join(parts)
		cuts, pos = [], 0
		for part in parts[:-1]:
			pos += len(part)
			cuts.append(pos)
		feeds.append((label, octets, list(range(1, len(octets))) if per_octet else cuts, exp))
	clean = want['err'] is None and not want['started'] and not want['left']
	seq('after a chunked message on the same machine', [pch, data], [dch, want])
	seq('after a Content-Length message on the same machine', [pcl, data], [dcl, want])
	seq('after both kinds of message, all octets in one call', [pcl + pch + data], [dcl, dch, want])
	if clean and light:
		seq('twice in a row on the same machine', [data, data], [want, want])
	elif clean:
		seq('twice in a row on the same machine', [data, data], [want, want])
		seq('between messages of the other framing', [pch, data, pcl, data, pch], [dch, want, dcl, want, dch])
		# octets that follow, in the same call, a request without Content-Length and without chunked framing are taken for a body without
		# length (411: finding D13 of C01/C02, the buffer peek): such a message is followed by others only in later calls
		if kind == 'client' or framed(data):
			seq('twice in a row and then a Content-Length and a chunked message, all octets in one call', [data + data + pcl + pch], [want, want, dcl, dch])
		else:
			seq('twice in a row and then a Content-Length and a chunked message, three calls', [data, data, pcl + pch], [want, want, dcl, dch])
		if len(data) * 2 + len(pch) + len(pcl) <= PER_OCTET_MAX:
			seq('four messages on one machine, octet by octet', [pch, data, pcl, data], [dch, want, dcl, want], per_octet=True)
		# (c) the same message as another sender could have written it (other chunk boundaries, chunk-size spellings and extensions, the
		# other framing, field names in other letter cases, field lines in another order, optional white space, folded values)
		uw = unordered(want)
		variants = [] if light else reencodings(c, data)
		turn = int(hashlib.sha1(data).hexdigest()[:6], 16)
		for vi, (label, octets) in enumerate(variants):
			feeds.append(('re-encoded: ' + label, octets, [], uw, True))
			if len(octets) <= 1000 and vi == turn % len(variants):   # one of them (another one for every wire) also octet by octet
				feeds.append(('re-encoded: ' + label + ', octet by octet', octets, list(range(1, len(octets))), uw, True))
	x['feeds'] = len(feeds) + len(tc)
	x['deviations'] = Pending(kind, feeds, data, tc, want)
	# the runs that also go through the parser model inside Coq, with the callee tables of that very run; a fixed share of the wires (the
	# feeds above see every wire): cost of the Coq literals
	pick = int(hashlib.sha1(data).hexdigest()[:6], 16)
	if len(data) <= COQ_SEQ_MAX and pick % COQ_SEQ_SHARE == 0:
		frags = [pch, data, pcl] if clean else [pch, data]
		x['seq'] = parser_rec.run(kind, frags)
		x['seq']['frags'] = [f.hex() for f in frags]
	if len(data) <= COQ_PER_OCTET_MAX and (pick // 64) % COQ_PER_OCTET_SHARE == 0:
		frags = [data[i:i + 1] for i in range(len(data))]
		x['per_octet'] = parser_rec.run(kind, frags)
		x['per_octet']['frags'] = [f.hex() for f in frags]
	return x


class UriEncoding(object):
	"""(13) the configuration knob URI.encoding, assigned on the class (as an application with another URI charset does), for the duration of one observation"""

	def __init__(self, charset):
		self.charset = charset

	def __enter__(self):
		import httoop.uri.uri as mod
		self.cls = mod.URI
		self.old = mod.URI.__dict__.get('encoding')
		if self.charset:
			mod.URI.encoding = self.charset

	def __exit__(self, *a):
		if self.charset:
			self.cls.encoding = self.old


def observe(c):
	case = dict(c)
	case['ops'] = _ops(c)
	case.setdefault('trailer', [])
	primer(c['k'], True), primer(c['k'], False)   # composed (and their composer tables recorded and dropped) before the case's own parse is recorded
	with UriEncoding(c.get('uri_encoding')):
		o = cr.run_ops(case)
		steps = o['ops']
		if steps and 'out' in steps[-1]:
			data = bytes.fromhex(steps[-1]['out'])
			kind = 'server' if c['k'] == 'req' else 'client'
			o['parse'] = parser_rec.run(kind, [data])
			if c.get('uri_encoding'):
				# the feeds run in worker processes forked before the class attribute was assigned: this process only (whole and octet by octet)
				per = delivery(parser_rec.run(kind, [data[i:i + 1] for i in range(len(data))], record=False))
				dev = [] if per == delivery(o['parse']) else [{'how': 'fed octet by octet', 'idx': 0, 'calls': len(data), 'want': _short(delivery(o['parse'])), 'got': _short(per)}]
				o['extra'] = {'deviations': dev, 'n_deviations': len(dev), 'feeds': 1}
			else:
				o['extra'] = observe_extra(c, kind, data, o['parse'])
	return o


def coq_case(c, o):
	extra(o)
	if 'harness_exception' in o or 'parse' not in o:
		return None
	n = len(o['ops'][-1]['out']) // 2
	if c.get('uri_encoding') or (c['body'].get('via') and c['body']['t'] == 'list' and c['body']['via'] != 'listsub'):
		return None   # oracle only: the models know URI.encoding = UTF-8 and the content sources bytes / list / tuple / generator / BytesIO / file
	if c.get('light') and int(hashlib.sha1(o['ops'][-1]['out'].encode()).hexdigest()[:6], 16) % COQ_CLASS_SHARE:
		return None   # the mass inputs of classes (16) / (17): one in four through Coq
	if n > COQ_WIRE_MAX or (c.get('cls') in W5_CLASSES and max(n, len(cr.body_content(c['body']))) > COQ_W5_WIRE_MAX):
		return None   # oracle only: a literal of this size overflows the stack of vm_compute (the 64 kB cases of the length class)
	if c.get('cls') and n > COQ_CLASS_MAX and int(hashlib.sha1(o['ops'][-1]['out'].encode()).hexdigest()[:6], 16) % COQ_CLASS_SHARE:
		return None
	case = dict(c)
	case['ops'] = _ops(c)
	case.setdefault('trailer', [])
	ops, _ = cr.coq_ops(case, o)
	p = o['parse']
	calls = []
	for call in p['calls']:
		if 'err' in call:
			e = call['err']
			calls.append('(Corr.Parser.CoErr %s)' % ('(EHttp %s)' % N(e) if isinstance(e, int) else 'EEscape'))
		else:
			calls.append('(Corr.Parser.CoMsgs %s)' % L([parser_rec.coq_msg(m) for m in call['msgs']], 'msg'))
	final = '(@None (bytes * bool))'
	if 'final' in p:
		final = '(Some (%s, %s))' % (X(bytes.fromhex(p['final']['buf'])), B(p['final']['started']))
	out = ['XR (CRound %s (%s %s) %s %s %s %s %s)' % (cr.coq_tables(o), 'MReq' if c['k'] == 'req' else 'MResp', cr.coq_message(case, o), ops,
		X(bytes.fromhex(o['ops'][-1]['out'])), parser_rec.coq_tables(p['tables']), L(calls, 'Corr.Parser.callobs'), final)]
	if c.get('cls') in W5_CLASSES and len(out[0]) > COQ_TERM_MAX:
		return None   # oracle only: incompressible file contents with a coding - the wire, the delivered body and the coder table (every block, plain and coded) in one term overflow the stack of coqc
	# the parser model on the real octets: octet by octet, and several messages on one machine (short wires; the oracle does this for every wire)
	for key in ('per_octet', 'seq'):
		run = o.get('extra', {}).get(key)
		if run is not None:
			out.append('XP (%s)' % parser_rec.coq_parse_case('server' if c['k'] == 'req' else 'client', [bytes.fromhex(f) for f in run['frags']], run))
	return out


# ---------------------------------------------------------------- the property, stated on the implementation
MANAGED = {'content-length', 'transfer-encoding', 'connection', 'date', 'host', 'user-agent', 'accept', 'content-type', 'accept-ranges', 'allow', 'content-range'}
# ... of which the composer only fills in a default when the caller set nothing (setdefault / 'not in'): a caller-set value is the caller's
DEFAULTED = {'user-agent', 'accept', 'content-type', 'accept-ranges', 'allow'}
REMOVED_304 = {'allow', 'content-encoding', 'content-language', 'content-length', 'content-md5', 'content-range', 'content-type', 'expires', 'location'}


def dropped(c):
	if c['k'] == 'req':
		return c['method'] in ('GET', 'HEAD', 'SEARCH')
	s = c['status']
	return s < 200 or s in (204, 205, 304) or c.get('rmethod') == 'HEAD'


def oracle(c, o):
	if 'harness_exception' in o:
		return 'harness exception: %s' % o['harness_exception']
	steps = o['ops']
	if not steps or 'out' not in steps[-1]:
		return 'preparing or composing raised %s: %s' % (steps[-1].get('raised'), steps[-1].get('msg')) if steps else 'nothing composed'
	p = o['parse']
	calls = p['calls']
	if 'err' in calls[0]:
		return 'the opposite state machine refuses the composed message: %s' % (calls[0]['err'],)
	msgs = calls[0]['msgs']
	if len(msgs) != 1:
		return 'the opposite state machine delivers %d messages for one composed message (parser still waiting: %s)' % (len(msgs), p.get('final', {}).get('started'))
	if p['final']['buf'] or p['final']['started']:
		return 'octets are left over after the delivered message'
	m = msgs[0]
	content = cr.body_content(c['body'])
	want = b'' if dropped(c) else content
	if bytes.fromhex(m['body']) != want:
		return 'delivered body (%d octets) differs from the content supplied (%d octets)' % (len(m['body']) // 2, len(want))
	if m['protocol'] != list(c['version']):
		return 'version %r became %r' % (c['version'], m['protocol'])
	if c['k'] == 'req':
		if m['method'] != c['method']:
			return 'method %r became %r' % (c['method'], m['method'])
		segs = [s.replace('%2f', '/') for s in m['uri']['path'].split('/')]
		if segs != c['segs']:
			return 'path segments %r became %r' % (c['segs'], segs)
		from httoop import URI
		with UriEncoding(c.get('uri_encoding')):
			u = URI()
			u.query_string = m['uri']['query_string']
			q = [list(x) for x in u.query]
		if q != (c['query'] or []):
			return 'query pairs %r became %r' % (c['query'], q)
	else:
		if m['status'] != c['status']:
			return 'status %r became %r' % (c['status'], m['status'])
		if m['reason'] != bytes.fromhex(o['init']['reason']).decode('ascii'):
			return 'reason %r became %r' % (bytes.fromhex(o['init']['reason']), m['reason'])
		if c.get('reason') is not None and m['reason'] != c['reason']:
			return 'reason %r became %r' % (c['reason'], m['reason'])
	got = dict((bytes.fromhex(k).lower(), bytes.fromhex(v)) for k, v in m['hdrs'])
	if c['k'] == 'req' and c.get('host') and 'host' not in [n.lower() for n, _ in c.get('hdrs', [])]:
		# the host of the URI the caller set is what the composer announces (and nothing an earlier use of the object left behind)
		if (got.get(b'host') or b'').lower() != c['host'].lower().encode('ascii'):
			return 'host %r became %r' % (c['host'], got.get(b'host'))
	# fields the library removes by design: the table of the status classes, read from the tree (304), and the constant of the first version of this check
	removed = set(registries()['removed'].get(c.get('status'), ())) | (REMOVED_304 if c.get('status') == 304 else set())
	appended = set(n_.lower() for n_, _ in c.get('happend', []))
	for name, value in c.get('hdrs', []):
		ln = name.lower()
		if (ln in MANAGED and ln not in DEFAULTED) or ln in appended:   # (fields that got more members through headers.append: see below)
			continue
		if c['k'] == 'resp' and ln in removed:
			continue
		if c['k'] == 'req' and c['method'] == 'TRACE' and ln in ('cookie', 'www-authenticate'):
			continue
		if c['k'] == 'resp' and c.get('rmethod') == 'TRACE' and ln == 'set-cookie':
			continue
		if got.get(ln.encode('ascii')) != bytes.fromhex(value).strip(b' \t'):   # white space around a field value is not part of it (RFC 7230 3.2.4)
			return 'header field %s: %r became %r' % (name, bytes.fromhex(value), got.get(ln.encode('ascii')))
		# ... and the same value as text: what the application reads with headers[name] (Latin-1 text in, Latin-1 text out;
		# values that look like RFC 2047 encoded words are known finding D16 of C08 and skipped)
		raw = bytes.fromhex(value)
		if b'=?' not in raw:
			from httoop import Headers
			h = Headers()
			h[name] = raw
			try:
				text = h[name]
			except Exception as exc:
				return 'header field %s: value %r cannot be read as text: %s' % (name, raw, type(exc).__name__)
			if text != raw.decode('ISO8859-1'):
				return 'header field %s: the text %r set by the caller is read back as %r' % (name, raw.decode('ISO8859-1'), text)
	# fields the caller set as TEXT (Latin-1 goes out as it is, anything else as an RFC 2047 encoded word): what the application reads from the
	# delivered message with headers[name] is the caller's text, code point for code point
	for name, text in c.get('thdrs', []):
		ln = name.lower()
		if (ln in MANAGED and ln not in DEFAULTED) or (c['k'] == 'resp' and ln in removed):
			continue
		if '=?' in text and not text.strip(' \t').startswith('=?'):
			try:
				text.encode('latin-1')
				continue   # Latin-1 text that contains what looks like an encoded word is sent raw: known finding D16 of C08
			except UnicodeEncodeError:
				pass
		raw = got.get(ln.encode('ascii'))
		if raw is None:
			return 'header field %s: the text %r set by the caller is not delivered' % (name, text)
		from httoop import Headers
		h = Headers()
		h[name] = raw
		try:
			back = h[name]
		except Exception as exc:
			return 'header field %s: delivered value %r of the text %r cannot be read: %s' % (name, raw, text, type(exc).__name__)
		try:
			text.encode('latin-1')
			expect = text.strip(' \t')   # sent as it is: white space around a field value is not part of it
		except UnicodeEncodeError:
			expect = text   # sent as one encoded word: all of it
		if back != expect:
			return 'header field %s: the text %r set by the caller is read back as %r' % (name, text, back)
	# (14) members added to a field with headers.append: RFC 7230 3.2.2 - the combined value is the list of all members, in the order they were added
	added = {}
	for name, value in c.get('happend', []):
		added.setdefault(name.lower(), []).append(bytes.fromhex(value))
	for ln, more in added.items():
		if (ln in MANAGED and ln not in DEFAULTED) or (c['k'] == 'resp' and ln in removed):
			continue
		members = [x.strip(b' \t') for n_, v_ in c.get('hdrs', []) if n_.lower() == ln for x in bytes.fromhex(v_).split(b',')] + more
		back = [x.strip(b' \t') for x in (got.get(ln.encode('ascii')) or b'').split(b',')]
		if back != members:
			return 'header field %s: the members %r (set, then appended one by one) are delivered as %r' % (ln, members, got.get(ln.encode('ascii')))
	# (10) the argument objects of the application (a Headers object, a dict, a list, a URI, a Protocol) are what they were when they were handed over
	for what, before, after in o.get('args', []):
		if before != after:
			return 'the argument object %s was changed by building / preparing / composing a message from it: %s became %s' % (what, before[:300], after[:300])
	# the same single delivery however the octets are cut into calls, and whatever the machine has parsed before
	x = extra(o)
	if x is None or x['deviations'] is None:
		return 'the fragmented and sequential feeds were not observed: %s' % ((x or {}).get('error'),)
	if x['deviations']:
		d = x['deviations'][0]
		return 'delivery depends on the feed: %s: %r instead of %r (%d of %d feeds differ)' % (d['how'], d['got'], d['want'], x['n_deviations'], x['feeds'])
	return None


def classify(c, o, fail):
	if fail.startswith('delivery depends on the feed') or fail.startswith('the fragmented and sequential feeds'):
		return None   # the single call delivered the message as required: no known finding is about how the octets are cut or what came before
	content = cr.body_content(c['body'])
	coding = c.get('coding')
	chunked = bool(c.get('chunked')) or (c['k'] == 'resp' and coding in ('gzip', 'deflate'))
	if c['k'] == 'req' and c['method'] == 'TRACE' and content and 'refuses' in fail:
		return 'D51-trace-request-body'
	if c['k'] == 'req' and any(':' in s for s in c['segs']) and 'refuses' in fail:
		return 'D49-colon-in-request-path'
	if c['k'] == 'resp' and not c.get('reason') and o.get('init', {}).get('reason') == '' and 'refuses' in fail:   # no reason phrase, or the empty one set explicitly
		return 'D48-empty-reason-phrase'
	reason = c.get('reason') or ''
	if c['k'] == 'resp' and reason != reason.strip(' \t'):
		# blanks at an edge of the phrase: blanks only -> refused like the empty phrase; otherwise delivered without them (and nothing else differs)
		core = reason.strip(' \t')
		if (core == '' and 'refuses the composed message: 400' in fail) or (core != '' and fail.startswith('reason ') and fail.endswith(' became %r' % (core,))):
			return 'D48b-reason-edge-blanks'
	query = c.get('query') or []
	if c['k'] == 'req' and any(p[0] == '' for p in query):
		# exactly what FormURLEncoded.encode / decode make of it: no '=' is written for an empty name, so the value is read as a name; an empty field is skipped
		lost = [[p[0], p[1]] if p[0] else [p[1], ''] for p in query if p[0] or p[1]]
		if fail == 'query pairs %r became %r' % (c['query'], lost):
			return 'D60-empty-query-name'
	if c['version'] == [1, 0] and chunked:
		return 'D47-chunked-on-http10'
	if c['k'] == 'resp' and (c['status'] < 200 or c['status'] in (204, 304) or c.get('rmethod') == 'HEAD'):
		return 'D50-client-ignores-bodiless'
	if c['k'] == 'req' and coding in ('gzip', 'deflate') and not c.get('chunked'):
		return 'D43-request-coding-content-length'
	return None


def nontrivial(c, o):
	extra(o)
	if 'parse' not in o:
		return ('no-output', c['k'])
	calls = o['parse']['calls']
	outcome = calls[0].get('err', len(calls[0].get('msgs', [])))
	return (c['k'], outcome, c['body']['t'], bool(c.get('chunked')), c.get('coding'), min(len(cr.body_content(c['body'])) // 4096, 3), tuple(c['version']),
		c.get('status'), c.get('method'), len(c.get('hdrs', [])), c.get('cls'), (c.get('route') or {}).get('how'), c.get('how'))


LEVEL_TEXT = ('Machine-checked Coq theorems on the composition of two executable Gallina models (composer, parser state machine): for every message of the composer model with '
	'Content-Length or chunked framing, every header collection of token names and CR/LF-free values, every body source and every content coder with decomp(comp x) = x, '
	'the parser model fed the composed octets - in one call or under ANY fragmentation, on the reference machine and on the machine as implemented (no hypothesis about the run: nothing '
	'follows a composed message, so the 411 peek cannot fire, and its start line holds no LF) - delivers exactly one message with the same start line, the caller-set fields and the content; the per-piece coding of the pinned '
	'tree is stated as it is (multi-piece bodies need a multi-member decoder: true of gzip, false of deflate - finding D42). Both models are tied to /repo on every run '
	'(tables regenerated, ~2000 compose->parse round trips replayed inside Coq with recorded callee tables).')
LEVEL_NOTE = ('Trusted: Coq kernel + vm_compute; T1/T2/T3 harness; zlib/gzip, URI composition/parsing and header-semantics hooks are parameters with stated hypotheses. '
	'Known findings D43, D47-D51, D48b, D60 delimit the domain; the response round trip is indexed by the variant of finding D59 (as found: the Body carries a codec only if '
	'Content-Encoding is present - refuted without it by C04_stale_coding_refuted; repaired: any codec state left by an earlier use). No axioms (Print Assumptions: closed).')
TECHNIQUE = 'Coq proof on composed Gallina models (composer o parser) + vm_compute correspondence of both against the implementation'

"""C04 -- a composed message parses back to the same message through the library's own opposite-side state machine."""
from harness import composer_rec as cr
from harness import parser_rec
from harness.coqfmt import B, L, N, X

ID = 'C04'
PROPS = 'Props/C04.v'
TABLES = ['HeadersT', 'ParserT', 'StartLineT', 'ComposerT']
COQ_HEADER = 'From Coq Require Import ZArith.\nFrom Httoop Require Import Model.Composer Model.Parser Corr.C05 Corr.Parser Corr.C04.'
COQ_CHECK = 'check'
CORR_VO = 'Corr/C04.vo'
RULE = ('T2: generated API-level messages (method tokens, Unicode path segments and query pairs, statuses with and without reason, versions 1.0/1.1, Latin-1 header '
	'values, bodies as bytes/bytearray/text/list/tuple/generator/BytesIO/real temp file, sizes 0 .. 3 blocks, chunked on/off, coding none/gzip/deflate) are prepared and '
	'composed by the real composer and parsed in one call by the real opposite state machine (server for requests, client for responses). Inside Coq (vm_compute) the composer '
	'model must produce the same octets and the parser model, fed the MODEL\'s octets with the callee tables recorded from the real parse (T3), must make the same delivery. '
	'Oracle (independent of both models): exactly one message, nothing left over, same method / path segments / query pairs / version / status / reason, every caller-set header '
	'field that the composer does not manage, body equal to the content supplied. non-trivial = distinct (kind, outcome, source type, framing, coding, size class, version) classes')
EXHAUSTIVE = {'quick': False, 'thorough': False}
TRUSTED = [
	'harness/tables/composer.py, headers.py, parser.py, startline.py (T1)',
	'harness/composer_rec.py and harness/parser_rec.py (T2/T3: public API only; frozen clock; recording wrappers for the coders, Element.split, start-line parser, header hooks, Body.decompress, RFC 2047 decoding, Trailer parsing)',
	'callees of both models are parameters of the theorems: content coders and decoders (zlib/gzip), URI composition and parsing of the request target (C10), header-semantics hooks of on_headers_complete, RFC 2047 decoding',
]
ASSUMPTIONS = [
	'decomp (comp x) = Some x for the content coders, applied to the octets the composer emits (per piece on the pinned tree, once for the whole content after repair D42)',
	'the request target and the start line are handled by the start-line callee of the parser model (instantiated in T2 from the recorded table; the start-line round trip itself is C18/C10)',
	'caller-set header names are non-empty tokens, values are stripped and free of CR/LF; HTTP/1.1 requests carry a host',
]

_B = {'t': 'bytes', 'items': ['68656c6c6f']}
W_D12 = {'k': 'resp', 'version': [1, 1], 'status': 200, 'reason': None, 'rmethod': 'GET', 'hdrs': [], 'body': {'t': 'bytes', 'items': ['ff']}, 'coding': 'gzip', 'chunked': False}
W_D42 = {'k': 'resp', 'version': [1, 1], 'status': 200, 'reason': None, 'rmethod': 'GET', 'hdrs': [], 'body': {'t': 'list', 'items': ['6162', '6364']}, 'coding': 'deflate', 'chunked': False}
W_D47 = {'k': 'resp', 'version': [1, 0], 'status': 200, 'reason': None, 'rmethod': 'GET', 'hdrs': [], 'body': _B, 'coding': None, 'chunked': True}
W_D48 = {'k': 'resp', 'version': [1, 1], 'status': 299, 'reason': None, 'rmethod': 'GET', 'hdrs': [], 'body': _B, 'coding': None, 'chunked': False}
W_D49 = {'k': 'req', 'version': [1, 1], 'method': 'GET', 'segs': ['', 'a:b'], 'query': None, 'host': 'example.com', 'hdrs': [], 'body': {'t': 'bytes', 'items': []}, 'coding': None, 'chunked': False}
W_D50 = {'k': 'resp', 'version': [1, 1], 'status': 200, 'reason': None, 'rmethod': 'HEAD', 'hdrs': [], 'body': _B, 'coding': None, 'chunked': False}
W_D43 = {'k': 'req', 'version': [1, 1], 'method': 'POST', 'segs': ['', 'a'], 'query': None, 'host': 'example.com', 'hdrs': [], 'body': _B, 'coding': 'gzip', 'chunked': False}
W_D51 = {'k': 'req', 'version': [1, 1], 'method': 'TRACE', 'segs': ['', 'a'], 'query': None, 'host': 'example.com', 'hdrs': [], 'body': _B, 'coding': None, 'chunked': False}
WITNESSES = [('D12-coded-body-non-ascii', W_D12), ('D42-deflate-per-piece', W_D42), ('D47-chunked-on-http10', W_D47), ('D48-empty-reason-phrase', W_D48),
	('D49-colon-in-request-path', W_D49), ('D50-client-ignores-bodiless', W_D50), ('D43-request-coding-content-length', W_D43), ('D51-trace-request-body', W_D51)]

METHODS = ['GET', 'HEAD', 'POST', 'PUT', 'DELETE', 'OPTIONS', 'PATCH', 'SEARCH', 'M-SEARCH', 'X', 'get', 'A.B_C', 'CONNECT2', 'TRACE']
SEG_ALPHABET = ['a', 'b c', 'ä', 'x.y', '%41', 'a;b', 'ü€', '\U0001f600', 'a=b&c', '~', 'A+B', "it's", '@', '..x', 'a/b', '?', '#']
STATUS_POOL = [200, 200, 200, 201, 202, 203, 206, 226, 300, 301, 302, 400, 401, 403, 404, 405, 410, 413, 416, 418, 500, 501, 503, 505, 100, 101, 204, 205, 304, 299, 451, 599]
HDR_POOL = [
	('X-Custom', ['a', 'b c', 'ä', 'a,b', '1', 'x=?y', 'é à']), ('Accept', ['text/html', '*/*;q=0.5']), ('ETag', ['"abc"', 'W/"x"']),
	('Last-Modified', ['Sun, 06 Nov 1994 08:49:37 GMT']), ('Cookie', ['a=b', 'a=b; c=d']), ('Set-Cookie', ['a=b', 'a=b, c=d']),
	('WWW-Authenticate', ['Basic realm="x"']), ('Server', ['srv/1.0']), ('Content-Language', ['de', 'en, de']), ('Allow', ['GET']), ('Vary', ['*']),
	('Content-Type', ['application/octet-stream', 'text/html; charset=ISO8859-1']), ('User-Agent', ['ua/2']), ('Expires', ['0']),
	('Location', ['/x']), ('X-Forwarded-Host', ['f.example']), ('Content-MD5', ['Q2hlY2s=']), ('Zzz', ['last']), ('Aaa', ['first']),
	('Accept-Ranges', ['none']), ('Content-Range', ['bytes 0-1/2']), ('Connection', ['close']), ('Referer', ['http://r.example/p?q']), ('X-Empty', ['']),
]


def rdata(rng, n, ascii_only=False):
	r = rng.random()
	if ascii_only or r < 0.3:
		return bytes(rng.choice(b'abc \r\n0;:xyz') for _ in range(n))
	if r < 0.75:
		return bytes(rng.randrange(256) for _ in range(n))
	return bytes([rng.randrange(256)]) * n


def rbody(rng, tier, ascii_only):
	t = rng.choice(['bytes', 'bytearray', 'text', 'list', 'tuple', 'gen', 'bytesio', 'file'])
	r = rng.random()
	blk = 4096
	if r < 0.12:
		size = 0
	elif r < 0.8:
		size = rng.randint(1, 60)
	else:
		size = rng.choice([blk - 1, blk, blk + 1, 2 * blk + 7, 3 * blk]) if rng.random() < (0.7 if tier == 'thorough' else 0.3) else rng.randint(61, 400)
	b = {'t': t}
	if t in ('list', 'tuple', 'gen'):
		if size == 0:
			items = [b''] * rng.randint(0, 2)
		else:
			cuts = sorted(rng.randint(0, size) for _ in range(rng.randint(0, 3)))
			data = rdata(rng, size, ascii_only)
			items = [data[a:c] for a, c in zip([0] + cuts, cuts + [size])]
		b['items'] = [i.hex() for i in items]
		b['strs'] = [False] * len(items)
	elif t == 'text':
		alphabet = 'abc xyz\r\n' if ascii_only else 'abc äö€\r\n\U0001f600'
		b['items'] = [''.join(rng.choice(alphabet) for _ in range(min(size, 1500))).encode('utf-8').hex()]
	else:
		b['items'] = [rdata(rng, size, ascii_only).hex()]
		if t in ('bytesio', 'file'):
			b['pos'] = rng.choice([0, 0, size, rng.randint(0, size)])
	return b


def rhdrs(rng, kind):
	out, seen = [], set()
	for _ in range(rng.choice([0, 1, 1, 2, 3, 5])):
		name, vals = rng.choice(HDR_POOL)
		if name in seen or (kind == 'req' and name in ('Accept-Ranges', 'Set-Cookie', 'WWW-Authenticate')):
			continue
		seen.add(name)
		if rng.random() < 0.3:
			name = rng.choice([name.lower(), name.upper()])
		out.append([name, rng.choice(vals).encode('latin-1').hex()])
	return out


def rmessage(rng, tier):
	kind = 'resp' if rng.random() < 0.5 else 'req'
	coding = rng.choice([None, None, None, 'gzip', 'deflate'])
	c = {'k': kind, 'version': rng.choice([[1, 1], [1, 1], [1, 1], [1, 0]]), 'hdrs': rhdrs(rng, kind),
		'body': rbody(rng, tier, ascii_only=(coding is not None and rng.random() < 0.85)), 'coding': coding, 'chunked': rng.random() < 0.45}
	if kind == 'req':
		c['method'] = rng.choice(METHODS)
		segs = [rng.choice(SEG_ALPHABET) for _ in range(rng.randint(1, 3))]
		if rng.random() < 0.1:
			segs.append('')
		if rng.random() < 0.03:
			segs[0] = 'a:b'
		c['segs'] = [''] + segs
		c['query'] = rng.choice([None, None, [['k', 'v']], [['ü', '€ &'], ['a', '']], [['a b', 'c=d'], ['x', 'ä/?#']],
			[['matrix', 'x=1;y=2']], [['a;b', 'c'], ['d', ';']], [['q', 'a+b c%41'], ['%', '+']], [['\U0001f600', "it's, (ok)!*~"]], [['p', '/../.'], ['@', ':']]])
		c['host'] = rng.choice(['example.com', 'example.com', 'sub.example.org', '127.0.0.1']) if (c['version'] == [1, 1] or rng.random() < 0.7) else None
		if c['host'] and rng.random() < 0.2:
			c['port'] = rng.choice([80, 8080])
		if coding and rng.random() < 0.8:
			c['chunked'] = True
	else:
		c['status'] = rng.choice(STATUS_POOL)
		c['reason'] = rng.choice([None, None, None, 'Custom Reason', 'x', 'It works!'])
		c['rmethod'] = rng.choice(['GET', 'GET', 'GET', 'GET', 'POST', 'HEAD', 'TRACE'])
	return c


def gen_cases(rng, tier):
	cases = []
	big = tier == 'thorough'
	# every source type x framing x coding x kind, small ASCII body
	for t in ('bytes', 'bytearray', 'text', 'list', 'tuple', 'gen', 'bytesio', 'file'):
		for ch in (False, True):
			for coding in (None, 'gzip', 'deflate'):
				for kind in ('req', 'resp'):
					items = [b'ab'.hex(), b''.hex(), b'cde'.hex()] if t in ('list', 'tuple', 'gen') else [b'abcde'.hex()]
					c = {'k': kind, 'version': [1, 1], 'hdrs': [['X-A', b'v'.hex()]], 'body': {'t': t, 'items': items, 'pos': 2}, 'coding': coding, 'chunked': ch}
					if kind == 'req':
						c.update(method='POST', segs=['', 'p'], query=[['q', '1']], host='example.com')
					else:
						c.update(status=200, reason=None, rmethod='GET')
					cases.append(c)
	# every status, with and without an explicit reason
	for code in (range(100, 600) if big else sorted(set(STATUS_POOL))):
		for reason in (None, 'R'):
			cases.append({'k': 'resp', 'version': [1, 1], 'status': code, 'reason': reason, 'rmethod': 'GET', 'hdrs': [],
				'body': {'t': 'bytes', 'items': [b'hello'.hex()]}, 'coding': None, 'chunked': False})
	# every method of the pool, with a body
	for m in METHODS:
		for ch in (False, True):
			cases.append({'k': 'req', 'version': [1, 1], 'method': m, 'segs': ['', 'r'], 'query': None, 'host': 'example.com', 'hdrs': [],
				'body': {'t': 'bytes', 'items': [b'data'.hex()]}, 'coding': None, 'chunked': ch})
	# every single octet as a one-octet body, plain and coded
	for o in range(256):
		cases.append({'k': 'resp', 'version': [1, 1], 'status': 200, 'reason': None, 'rmethod': 'GET', 'hdrs': [], 'body': {'t': 'bytes', 'items': ['%02x' % o]},
			'coding': None if o % 2 else 'gzip', 'chunked': bool(o % 3 == 0)})
	# Latin-1 header values whose octets happen to be well-formed UTF-8, separators, and every query metacharacter
	for raw in (b'\xc3\xa9', b'price: \xc2\xa35', b'\xe2\x82\xac', b'\xf0\x9f\x98\x80', b'caf\xe9', b'a;b,c="d"', b'\xff\xfe'):
		for kind in ('req', 'resp'):
			c = {'k': kind, 'version': [1, 1], 'hdrs': [['X-Latin', raw.hex()], ['X-Other', b'plain'.hex()]], 'body': {'t': 'bytes', 'items': [b'x'.hex()]}, 'coding': None, 'chunked': False}
			if kind == 'req':
				c.update(method='POST', segs=['', 'p'], query=[['matrix', 'x=1;y=2'], ['a;b', '+ %']], host='example.com')
			else:
				c.update(status=200, reason=None, rmethod='GET')
			cases.append(c)
	for _ in range(20000 if big else 1100):
		cases.append(rmessage(rng, tier))
	return cases


def _ops(c):
	return ([['ch', True]] if c.get('chunked') else []) + [['p', 1790000000], ['c']]


def observe(c):
	case = dict(c)
	case['ops'] = _ops(c)
	case.setdefault('trailer', [])
	o = cr.run_ops(case)
	steps = o['ops']
	if steps and 'out' in steps[-1]:
		data = bytes.fromhex(steps[-1]['out'])
		kind = 'server' if c['k'] == 'req' else 'client'
		o['parse'] = parser_rec.run(kind, [data])
	return o


def coq_case(c, o):
	if 'harness_exception' in o or 'parse' not in o:
		return None
	case = dict(c)
	case['ops'] = _ops(c)
	case.setdefault('trailer', [])
	ops, _ = cr.coq_ops(case, o)
	p = o['parse']
	calls = []
	for call in p['calls']:
		if 'err' in call:
			e = call['err']
			calls.append('(Corr.Parser.CoErr %s)' % ('(EHttp %s)' % N(e) if isinstance(e, int) else 'EEscape'))
		else:
			calls.append('(Corr.Parser.CoMsgs %s)' % L([parser_rec.coq_msg(m) for m in call['msgs']], 'msg'))
	final = '(@None (bytes * bool))'
	if 'final' in p:
		final = '(Some (%s, %s))' % (X(bytes.fromhex(p['final']['buf'])), B(p['final']['started']))
	return 'CRound %s (%s %s) %s %s %s %s %s' % (cr.coq_tables(o), 'MReq' if c['k'] == 'req' else 'MResp', cr.coq_message(case, o), ops,
		X(bytes.fromhex(o['ops'][-1]['out'])), parser_rec.coq_tables(p['tables']), L(calls, 'Corr.Parser.callobs'), final)


# ---------------------------------------------------------------- the property, stated on the implementation
MANAGED = {'content-length', 'transfer-encoding', 'connection', 'date', 'host', 'user-agent', 'accept', 'content-type', 'accept-ranges', 'allow', 'content-range'}
REMOVED_304 = {'allow', 'content-encoding', 'content-language', 'content-length', 'content-md5', 'content-range', 'content-type', 'expires', 'location'}


def dropped(c):
	if c['k'] == 'req':
		return c['method'] in ('GET', 'HEAD', 'SEARCH')
	s = c['status']
	return s < 200 or s in (204, 205, 304) or c.get('rmethod') == 'HEAD'


def oracle(c, o):
	if 'harness_exception' in o:
		return 'harness exception: %s' % o['harness_exception']
	steps = o['ops']
	if not steps or 'out' not in steps[-1]:
		return 'preparing or composing raised %s: %s' % (steps[-1].get('raised'), steps[-1].get('msg')) if steps else 'nothing composed'
	p = o['parse']
	calls = p['calls']
	if 'err' in calls[0]:
		return 'the opposite state machine refuses the composed message: %s' % (calls[0]['err'],)
	msgs = calls[0]['msgs']
	if len(msgs) != 1:
		return 'the opposite state machine delivers %d messages for one composed message (parser still waiting: %s)' % (len(msgs), p.get('final', {}).get('started'))
	if p['final']['buf'] or p['final']['started']:
		return 'octets are left over after the delivered message'
	m = msgs[0]
	content = cr.body_content(c['body'])
	want = b'' if dropped(c) else content
	if bytes.fromhex(m['body']) != want:
		return 'delivered body (%d octets) differs from the content supplied (%d octets)' % (len(m['body']) // 2, len(want))
	if m['protocol'] != list(c['version']):
		return 'version %r became %r' % (c['version'], m['protocol'])
	if c['k'] == 'req':
		if m['method'] != c['method']:
			return 'method %r became %r' % (c['method'], m['method'])
		segs = [s.replace('%2f', '/') for s in m['uri']['path'].split('/')]
		if segs != c['segs']:
			return 'path segments %r became %r' % (c['segs'], segs)
		from httoop import URI
		u = URI()
		u.query_string = m['uri']['query_string']
		q = [list(x) for x in u.query]
		if q != (c['query'] or []):
			return 'query pairs %r became %r' % (c['query'], q)
	else:
		if m['status'] != c['status']:
			return 'status %r became %r' % (c['status'], m['status'])
		if m['reason'] != bytes.fromhex(o['init']['reason']).decode('ascii'):
			return 'reason %r became %r' % (bytes.fromhex(o['init']['reason']), m['reason'])
	got = dict((bytes.fromhex(k).lower(), bytes.fromhex(v)) for k, v in m['hdrs'])
	for name, value in c.get('hdrs', []):
		ln = name.lower()
		if ln in MANAGED:
			continue
		if c['k'] == 'resp' and c['status'] == 304 and ln in REMOVED_304:
			continue
		if c['k'] == 'req' and c['method'] == 'TRACE' and ln in ('cookie', 'www-authenticate'):
			continue
		if c['k'] == 'resp' and c.get('rmethod') == 'TRACE' and ln == 'set-cookie':
			continue
		if got.get(ln.encode('ascii')) != bytes.fromhex(value):
			return 'header field %s: %r became %r' % (name, bytes.fromhex(value), got.get(ln.encode('ascii')))
		# ... and the same value as text: what the application reads with headers[name] (Latin-1 text in, Latin-1 text out;
		# values that look like RFC 2047 encoded words are known finding D16 of C08 and skipped)
		raw = bytes.fromhex(value)
		if b'=?' not in raw:
			from httoop import Headers
			h = Headers()
			h[name] = raw
			try:
				text = h[name]
			except Exception as exc:
				return 'header field %s: value %r cannot be read as text: %s' % (name, raw, type(exc).__name__)
			if text != raw.decode('ISO8859-1'):
				return 'header field %s: the text %r set by the caller is read back as %r' % (name, raw.decode('ISO8859-1'), text)
	return None


def classify(c, o, fail):
	content = cr.body_content(c['body'])
	coding = c.get('coding')
	chunked = bool(c.get('chunked')) or (c['k'] == 'resp' and coding in ('gzip', 'deflate'))
	if c['k'] == 'req' and c['method'] == 'TRACE' and content and 'refuses' in fail:
		return 'D51-trace-request-body'
	if c['k'] == 'req' and any(':' in s for s in c['segs']) and 'refuses' in fail:
		return 'D49-colon-in-request-path'
	if c['k'] == 'resp' and c.get('reason') is None and o.get('init', {}).get('reason') == '' and 'refuses' in fail:
		return 'D48-empty-reason-phrase'
	if c['version'] == [1, 0] and chunked:
		return 'D47-chunked-on-http10'
	if c['k'] == 'resp' and (c['status'] < 200 or c['status'] in (204, 304) or c.get('rmethod') == 'HEAD'):
		return 'D50-client-ignores-bodiless'
	if c['k'] == 'req' and coding in ('gzip', 'deflate') and not c.get('chunked'):
		return 'D43-request-coding-content-length'
	return None


def nontrivial(c, o):
	if 'parse' not in o:
		return ('no-output', c['k'])
	calls = o['parse']['calls']
	outcome = calls[0].get('err', len(calls[0].get('msgs', [])))
	return (c['k'], outcome, c['body']['t'], bool(c.get('chunked')), c.get('coding'), min(len(cr.body_content(c['body'])) // 4096, 3), tuple(c['version']),
		c.get('status'), c.get('method'), len(c.get('hdrs', [])))


LEVEL_TEXT = ('Machine-checked Coq theorems on the composition of two executable Gallina models (composer, parser state machine): for every message of the composer model with '
	'Content-Length or chunked framing, every header collection of token names and CR/LF-free values, every body source and every content coder with decomp(comp x) = x, '
	'the parser model fed the composed octets delivers exactly one message with the same start line, the caller-set fields and the content; the per-piece coding of the pinned '
	'tree is stated as it is (multi-piece bodies need a multi-member decoder: true of gzip, false of deflate - finding D42). Both models are tied to /repo on every run '
	'(tables regenerated, ~2000 compose->parse round trips replayed inside Coq with recorded callee tables).')
LEVEL_NOTE = ('Trusted: Coq kernel + vm_compute; T1/T2/T3 harness; zlib/gzip, URI composition/parsing and header-semantics hooks are parameters with stated hypotheses. '
	'Known findings D43, D47-D51 delimit the domain. No axioms (Print Assumptions: closed).')
TECHNIQUE = 'Coq proof on composed Gallina models (composer o parser) + vm_compute correspondence of both against the implementation'

"""C04 -- a composed message parses back to the same message through the library's own opposite-side state machine."""
import hashlib

from harness import composer_rec as cr
from harness import parser_rec
from harness.coqfmt import B, L, N, X

ID = 'C04'
COVERAGE_NOTE = 'the fragmentation / shared-machine feeds run in forked worker processes which are not measured; the numbers below cover the compose, whole-wire parse and table recording done in the harness process'
PROPS = 'Props/C04.v'
TABLES = ['HeadersT', 'ParserT', 'StartLineT', 'ComposerT']
# a case of the correspondence is either the round trip of Corr/C04.v (composer model, then the parser model on the MODEL's octets in one call) or a
# run of the parser model of Corr/Parser.v on the real composer's octets cut into several calls / several messages on one machine
COQ_HEADER = ('From Coq Require Import ZArith.\nFrom Httoop Require Import Model.Composer Model.Parser Corr.C05 Corr.Parser Corr.C04.\n'
	'Inductive xcase := XR (c : Corr.C04.case) | XP (c : Corr.Parser.case).\n'
	'Definition xcheck (c : xcase) : bool := match c with XR c => Corr.C04.check c | XP c => Corr.Parser.check c end.')
COQ_CHECK = 'xcheck'
CORR_VO = 'Corr/C04.vo'
RULE = ('T2: generated API-level messages (method tokens, Unicode path segments and query pairs, statuses with and without reason, versions 1.0/1.1, Latin-1 header '
	'values, bodies as bytes/bytearray/text/list/tuple/generator/BytesIO/real temp file, sizes 0 .. 3 blocks, chunked on/off, coding none/gzip/deflate) are prepared and '
	'composed by the real composer and parsed in one call by the real opposite state machine (server for requests, client for responses). Inside Coq (vm_compute) the composer '
	'model must produce the same octets and the parser model, fed the MODEL\'s octets with the callee tables recorded from the real parse (T3), must make the same delivery. '
	'Oracle (independent of both models): exactly one message, nothing left over, same method / path segments / query pairs / version / status / reason, every caller-set header '
	'field that the composer does not manage, body equal to the content supplied. The same single delivery is required of every other way the octets can reach the opposite '
	'machine: (a) fed octet by octet and with every two-call cut (wires over 700 octets: every cut within 3 octets of a CR or LF plus the first 200, the last 40 and a stride sample of the other positions, and '
	'one many-call run with single octets around every CR / LF); (b) on ONE machine after a chunked and after a Content-Length message composed by the same composer, '
	'twice in a row, between messages of the other framing, pipelined in one call and octet by octet: each message delivered exactly as when parsed alone on a fresh machine. '
	'A share of these runs (octet by octet: wires up to 200 octets, one in 4; chunked / case / Content-Length on one machine: wires up to 1200 octets, one in 3) is also replayed '
	'by the parser model inside Coq on the real octets (CParse of Corr/Parser.v). '
	'non-trivial = distinct (kind, outcome, source type, framing, coding, size class, version) classes')
EXHAUSTIVE = {'quick': False, 'thorough': False}
TRUSTED = [
	'harness/tables/composer.py, headers.py, parser.py, startline.py (T1)',
	'harness/composer_rec.py and harness/parser_rec.py (T2/T3: public API only; frozen clock; recording wrappers for the coders, Element.split, start-line parser, header hooks, Body.decompress, RFC 2047 decoding, Trailer parsing)',
	'the fragmented and sequential feeds of the oracle run in forked worker processes (harness/props/C04.py: Pending / _feeds; results looked at when coq_case is called); the case files define the two-constructor '
	'wrapper xcase / xcheck that dispatches to Corr.C04.check and Corr.Parser.check',
	'callees of both models are parameters of the theorems: content coders and decoders (zlib/gzip), URI composition and parsing of the request target (C10), header-semantics hooks of on_headers_complete, RFC 2047 decoding',
]
ASSUMPTIONS = [
	'decomp (comp x) = Some x for the content coders, applied to the octets the composer emits (per piece on the pinned tree, once for the whole content after repair D42)',
	'the request target and the start line are handled by the start-line callee of the parser model (instantiated in T2 from the recorded table; the start-line round trip itself is C18/C10)',
	'caller-set header names are non-empty tokens, values are stripped and free of CR/LF; HTTP/1.1 requests carry a host',
]

_B = {'t': 'bytes', 'items': ['68656c6c6f']}
W_D12 = {'k': 'resp', 'version': [1, 1], 'status': 200, 'reason': None, 'rmethod': 'GET', 'hdrs': [], 'body': {'t': 'bytes', 'items': ['ff']}, 'coding': 'gzip', 'chunked': False}
W_D42 = {'k': 'resp', 'version': [1, 1], 'status': 200, 'reason': None, 'rmethod': 'GET', 'hdrs': [], 'body': {'t': 'list', 'items': ['6162', '6364']}, 'coding': 'deflate', 'chunked': False}
W_D47 = {'k': 'resp', 'version': [1, 0], 'status': 200, 'reason': None, 'rmethod': 'GET', 'hdrs': [], 'body': _B, 'coding': None, 'chunked': True}
W_D48 = {'k': 'resp', 'version': [1, 1], 'status': 299, 'reason': None, 'rmethod': 'GET', 'hdrs': [], 'body': _B, 'coding': None, 'chunked': False}
W_D49 = {'k': 'req', 'version': [1, 1], 'method': 'GET', 'segs': ['', 'a:b'], 'query': None, 'host': 'example.com', 'hdrs': [], 'body': {'t': 'bytes', 'items': []}, 'coding': None, 'chunked': False}
W_D50 = {'k': 'resp', 'version': [1, 1], 'status': 200, 'reason': None, 'rmethod': 'HEAD', 'hdrs': [], 'body': _B, 'coding': None, 'chunked': False}
W_D43 = {'k': 'req', 'version': [1, 1], 'method': 'POST', 'segs': ['', 'a'], 'query': None, 'host': 'example.com', 'hdrs': [], 'body': _B, 'coding': 'gzip', 'chunked': False}
W_D51 = {'k': 'req', 'version': [1, 1], 'method': 'TRACE', 'segs': ['', 'a'], 'query': None, 'host': 'example.com', 'hdrs': [], 'body': _B, 'coding': None, 'chunked': False}
WITNESSES = [('D12-coded-body-non-ascii', W_D12), ('D42-deflate-per-piece', W_D42), ('D47-chunked-on-http10', W_D47), ('D48-empty-reason-phrase', W_D48),
	('D49-colon-in-request-path', W_D49), ('D50-client-ignores-bodiless', W_D50), ('D43-request-coding-content-length', W_D43), ('D51-trace-request-body', W_D51)]

METHODS = ['GET', 'HEAD', 'POST', 'PUT', 'DELETE', 'OPTIONS', 'PATCH', 'SEARCH', 'M-SEARCH', 'X', 'get', 'A.B_C', 'CONNECT2', 'TRACE']
SEG_ALPHABET = ['a', 'b c', 'ä', 'x.y', '%41', 'a;b', 'ü€', '\U0001f600', 'a=b&c', '~', 'A+B', "it's", '@', '..x', 'a/b', '?', '#']
STATUS_POOL = [200, 200, 200, 201, 202, 203, 206, 226, 300, 301, 302, 400, 401, 403, 404, 405, 410, 413, 416, 418, 500, 501, 503, 505, 100, 101, 204, 205, 304, 299, 451, 599]
HDR_POOL = [
	('X-Custom', ['a', 'b c', 'ä', 'a,b', '1', 'x=?y', 'é à']), ('Accept', ['text/html', '*/*;q=0.5']), ('ETag', ['"abc"', 'W/"x"']),
	('Last-Modified', ['Sun, 06 Nov 1994 08:49:37 GMT']), ('Cookie', ['a=b', 'a=b; c=d']), ('Set-Cookie', ['a=b', 'a=b, c=d']),
	('WWW-Authenticate', ['Basic realm="x"']), ('Server', ['srv/1.0']), ('Content-Language', ['de', 'en, de']), ('Allow', ['GET']), ('Vary', ['*']),
	('Content-Type', ['application/octet-stream', 'text/html; charset=ISO8859-1']), ('User-Agent', ['ua/2']), ('Expires', ['0']),
	('Location', ['/x']), ('X-Forwarded-Host', ['f.example']), ('Content-MD5', ['Q2hlY2s=']), ('Zzz', ['last']), ('Aaa', ['first']),
	('Accept-Ranges', ['none']), ('Content-Range', ['bytes 0-1/2']), ('Connection', ['close']), ('Referer', ['http://r.example/p?q']), ('X-Empty', ['']),
]


def rdata(rng, n, ascii_only=False):
	r = rng.random()
	if ascii_only or r < 0.3:
		return bytes(rng.choice(b'abc \r\n0;:xyz') for _ in range(n))
	if r < 0.75:
		return bytes(rng.randrange(256) for _ in range(n))
	return bytes([rng.randrange(256)]) * n


def rbody(rng, tier, ascii_only):
	t = rng.choice(['bytes', 'bytearray', 'text', 'list', 'tuple', 'gen', 'bytesio', 'file'])
	r = rng.random()
	blk = 4096
	if r < 0.12:
		size = 0
	elif r < 0.8:
		size = rng.randint(1, 60)
	else:
		size = rng.choice([blk - 1, blk, blk + 1, 2 * blk + 7, 3 * blk]) if rng.random() < (0.7 if tier == 'thorough' else 0.3) else rng.randint(61, 400)
	b = {'t': t}
	if t in ('list', 'tuple', 'gen'):
		if size == 0:
			items = [b''] * rng.randint(0, 2)
		else:
			cuts = sorted(rng.randint(0, size) for _ in range(rng.randint(0, 3)))
			data = rdata(rng, size, ascii_only)
			items = [data[a:c] for a, c in zip([0] + cuts, cuts + [size])]
		b['items'] = [i.hex() for i in items]
		b['strs'] = [False] * len(items)
	elif t == 'text':
		alphabet = 'abc xyz\r\n' if ascii_only else 'abc äö€\r\n\U0001f600'
		b['items'] = [''.join(rng.choice(alphabet) for _ in range(min(size, 1500))).encode('utf-8').hex()]
	else:
		b['items'] = [rdata(rng, size, ascii_only).hex()]
		if t in ('bytesio', 'file'):
			b['pos'] = rng.choice([0, 0, size, rng.randint(0, size)])
	return b


def rhdrs(rng, kind):
	out, seen = [], set()
	for _ in range(rng.choice([0, 1, 1, 2, 3, 5])):
		name, vals = rng.choice(HDR_POOL)
		if name in seen or (kind == 'req' and name in ('Accept-Ranges', 'Set-Cookie', 'WWW-Authenticate')):
			continue
		seen.add(name)
		if rng.random() < 0.3:
			name = rng.choice([name.lower(), name.upper()])
		out.append([name, rng.choice(vals).encode('latin-1').hex()])
	return out


def rmessage(rng, tier):
	kind = 'resp' if rng.random() < 0.5 else 'req'
	coding = rng.choice([None, None, None, 'gzip', 'deflate'])
	c = {'k': kind, 'version': rng.choice([[1, 1], [1, 1], [1, 1], [1, 0]]), 'hdrs': rhdrs(rng, kind),
		'body': rbody(rng, tier, ascii_only=(coding is not None and rng.random() < 0.85)), 'coding': coding, 'chunked': rng.random() < 0.45}
	if kind == 'req':
		c['method'] = rng.choice(METHODS)
		segs = [rng.choice(SEG_ALPHABET) for _ in range(rng.randint(1, 3))]
		if rng.random() < 0.1:
			segs.append('')
		if rng.random() < 0.03:
			segs[0] = 'a:b'
		c['segs'] = [''] + segs
		c['query'] = rng.choice([None, None, [['k', 'v']], [['ü', '€ &'], ['a', '']], [['a b', 'c=d'], ['x', 'ä/?#']],
			[['matrix', 'x=1;y=2']], [['a;b', 'c'], ['d', ';']], [['q', 'a+b c%41'], ['%', '+']], [['\U0001f600', "it's, (ok)!*~"]], [['p', '/../.'], ['@', ':']]])
		c['host'] = rng.choice(['example.com', 'example.com', 'sub.example.org', '127.0.0.1']) if (c['version'] == [1, 1] or rng.random() < 0.7) else None
		if c['host'] and rng.random() < 0.2:
			c['port'] = rng.choice([80, 8080])
		if coding and rng.random() < 0.8:
			c['chunked'] = True
	else:
		c['status'] = rng.choice(STATUS_POOL)
		c['reason'] = rng.choice([None, None, None, 'Custom Reason', 'x', 'It works!'])
		c['rmethod'] = rng.choice(['GET', 'GET', 'GET', 'GET', 'POST', 'HEAD', 'TRACE'])
	return c


def gen_cases(rng, tier):
	cases = [primer_case(k, ch) for k in ('req', 'resp') for ch in (True, False)]   # the messages sent before / after every case on one machine
	big = tier == 'thorough'
	# every source type x framing x coding x kind, small ASCII body
	for t in ('bytes', 'bytearray', 'text', 'list', 'tuple', 'gen', 'bytesio', 'file'):
		for ch in (False, True):
			for coding in (None, 'gzip', 'deflate'):
				for kind in ('req', 'resp'):
					items = [b'ab'.hex(), b''.hex(), b'cde'.hex()] if t in ('list', 'tuple', 'gen') else [b'abcde'.hex()]
					c = {'k': kind, 'version': [1, 1], 'hdrs': [['X-A', b'v'.hex()]], 'body': {'t': t, 'items': items, 'pos': 2}, 'coding': coding, 'chunked': ch}
					if kind == 'req':
						c.update(method='POST', segs=['', 'p'], query=[['q', '1']], host='example.com')
					else:
						c.update(status=200, reason=None, rmethod='GET')
					cases.append(c)
	# every status, with and without an explicit reason
	for code in (range(100, 600) if big else sorted(set(STATUS_POOL))):
		for reason in (None, 'R'):
			cases.append({'k': 'resp', 'version': [1, 1], 'status': code, 'reason': reason, 'rmethod': 'GET', 'hdrs': [],
				'body': {'t': 'bytes', 'items': [b'hello'.hex()]}, 'coding': None, 'chunked': False})
	# every method of the pool, with a body
	for m in METHODS:
		for ch in (False, True):
			cases.append({'k': 'req', 'version': [1, 1], 'method': m, 'segs': ['', 'r'], 'query': None, 'host': 'example.com', 'hdrs': [],
				'body': {'t': 'bytes', 'items': [b'data'.hex()]}, 'coding': None, 'chunked': ch})
	# every single octet as a one-octet body, plain and coded
	for o in range(256):
		cases.append({'k': 'resp', 'version': [1, 1], 'status': 200, 'reason': None, 'rmethod': 'GET', 'hdrs': [], 'body': {'t': 'bytes', 'items': ['%02x' % o]},
			'coding': None if o % 2 else 'gzip', 'chunked': bool(o % 3 == 0)})
	# Latin-1 header values whose octets happen to be well-formed UTF-8, separators, and every query metacharacter
	for raw in (b'\xc3\xa9', b'price: \xc2\xa35', b'\xe2\x82\xac', b'\xf0\x9f\x98\x80', b'caf\xe9', b'a;b,c="d"', b'\xff\xfe'):
		for kind in ('req', 'resp'):
			c = {'k': kind, 'version': [1, 1], 'hdrs': [['X-Latin', raw.hex()], ['X-Other', b'plain'.hex()]], 'body': {'t': 'bytes', 'items': [b'x'.hex()]}, 'coding': None, 'chunked': False}
			if kind == 'req':
				c.update(method='POST', segs=['', 'p'], query=[['matrix', 'x=1;y=2'], ['a;b', '+ %']], host='example.com')
			else:
				c.update(status=200, reason=None, rmethod='GET')
			cases.append(c)
	for _ in range(20000 if big else 1100):
		cases.append(rmessage(rng, tier))
	return cases


def _ops(c):
	return ([['ch', True]] if c.get('chunked') else []) + [['p', 1790000000], ['c']]


# ---------------------------------------------------------------- how the composed octets reach the opposite machine
# (a) one composed message, every way of cutting it into parse() calls must give the delivery of the single call;
# (b) several composed messages one after the other on ONE opposite-side machine: each delivered exactly as when parsed alone.
PER_OCTET_MAX = 2500    # wires up to this length are also fed octet by octet ...
TWO_CUT_ALL_MAX = 700   # ... and up to this length with every two-call cut
NEAR = 3                # longer wires: every cut position within NEAR octets of a CR or LF, plus a stride sample of the rest
BLOCK = 509             # long wires, one run of many calls: single octets near every CR / LF, blocks of at most BLOCK octets elsewhere


def _near_line_ends(data):
	near = set()
	for i, b in enumerate(data):
		if b in (13, 10):
			near.update(range(max(1, i - NEAR), min(len(data) - 1, i + 1 + NEAR) + 1))
	return near


def two_call_cuts(data):
	n = len(data)
	if n <= TWO_CUT_ALL_MAX:
		return list(range(1, n))
	# every position within NEAR of a CR or LF (all of head, chunk framing and trailer; in a body full of CR / LF octets nearly every position),
	# the first 200 and the last 40 positions, and about a hundred evenly spread over the rest
	return sorted(_near_line_ends(data) | set(range(1, 200)) | set(range(n - 40, n)) | set(range(1, n, n // 97)))


def multi_cuts(data):
	"""cut positions of the one many-call run: every octet on its own for a short wire; for a long one every octet within NEAR of a CR or LF on its own"""
	n = len(data)
	if n <= PER_OCTET_MAX:
		return list(range(1, n))
	near = _near_line_ends(data)
	cuts, last = [], 0
	for i in range(1, n):
		if i in near or (i - 1) in near or i - last >= BLOCK:
			cuts.append(i)
			last = i
	return cuts


def _frags(data, cuts):
	return [data[a:b] for a, b in zip([0] + list(cuts), list(cuts) + [len(data)])]


def delivery(run):
	"""what a run delivered, whatever the cutting: the messages in order, the first error, and the idle flag / leftover octets at the end"""
	msgs, err = [], None
	for call in run['calls']:
		if 'err' in call:
			err = call['err']
			break
		msgs.extend(call['msgs'])
	fin = run.get('final')
	return {'msgs': msgs, 'err': err, 'started': fin['started'] if fin else None, 'left': fin['buf'] if fin and not fin['started'] else None}


def _short(d):
	return {'n_msgs': len(d['msgs']), 'err': d['err'], 'started': d['started'], 'left': d['left'] if d['left'] is None else len(d['left']) // 2,
		'bodies': [len(m['body']) // 2 for m in d['msgs']], 'lines': [bytes.fromhex(m['line'] or '').decode('latin-1') for m in d['msgs']]}


_PRIMERS = {}
PRIMER_BODY = {'t': 'list', 'items': [b'primer '.hex(), b'\r\n0\r\n\r\n'.hex(), b'data'.hex()], 'strs': [False, False, False]}


def primer_case(k, chunked):
	c = {'k': k, 'version': [1, 1], 'hdrs': [['X-Primer', b'p'.hex()]], 'body': PRIMER_BODY, 'coding': None, 'chunked': chunked}
	if k == 'req':
		c.update(method='PUT', segs=['', 'primer'], query=None, host='primer.example')
	else:
		c.update(status=203, reason=None, rmethod='GET')
	return c


def primer(k, chunked):
	"""a composed message of the same side as the case, sent before / after it on the same connection: (octets, delivery when parsed alone);
	the four primers are cases of their own (gen_cases), so what they deliver alone is judged by the oracle like any other case"""
	key = (k, chunked)
	if key not in _PRIMERS:
		c = primer_case(k, chunked)
		c['ops'] = _ops(c)
		c['trailer'] = []
		o = cr.run_ops(c)
		data = bytes.fromhex(o['ops'][-1]['out'])
		_PRIMERS[key] = (data, delivery(parser_rec.run('server' if k == 'req' else 'client', [data])))
	return _PRIMERS[key]


def _feeds(args):
	"""worker: each feed on a fresh machine.  `multi`: (position, label, octets, cut positions, expected delivery); `two`: (octets, cut positions,
	expected delivery), one two-call run per position.  Returns the feeds that did not deliver what is expected (the first few) and their number"""
	kind, multi, two = args
	dev, n = [], 0

	def one(idx, label, data, cuts, exp):
		run = parser_rec.run(kind, _frags(data, cuts))
		got = delivery(run)
		if got != exp:
			if len(dev) < 4:
				dev.append({'how': label(), 'idx': idx, 'calls': len(run['calls']), 'want': _short(exp), 'got': _short(got)})
			return 1
		return 0
	for idx, label, data, cuts, exp in multi:
		n += one(idx, lambda: label, data, cuts, exp)
	if two:
		data, cuts, exp = two
		for cut in cuts:
			n += one(100 + cut, lambda: 'fed in two calls, cut after octet %d of %d (... %r | %r ...)' % (cut, len(data), data[max(0, cut - 6):cut], data[cut:cut + 6]),
				data, [cut], exp)
	return dev, n


_POOL = []
PART = 160              # two-call cuts per task of the worker pool
MAX_OUTSTANDING = 400   # cases whose feeds are still running or queued, before this process waits for the oldest
WORKER_TIMEOUT = 900


def _pool():
	"""the feeds are independent runs on fresh machines: done by worker processes (forked once, before any thread exists);
	VERIF_JOBS=1 or a platform without fork: everything in this process"""
	if not _POOL:
		_POOL.append(None)
		try:
			import multiprocessing
			import os
			n = min(int(os.environ.get('VERIF_JOBS', '16')), os.cpu_count() or 1)
			if n > 1:
				_POOL[0] = multiprocessing.get_context('fork').Pool(n)
		except Exception:
			_POOL[0] = None
	return _POOL[0]


_OUTSTANDING = []


class Pending(object):
	"""the feeds of one case, running in the worker processes while this process composes the next cases; result() waits for them"""

	def __init__(self, kind, multi, data, cuts, want):
		multi = [(i,) + tuple(f) for i, f in enumerate(multi)]
		tasks = [(kind, multi, None)] + [(kind, [], (data, cuts[i:i + PART], want)) for i in range(0, len(cuts), PART)]
		pool = _pool()
		self.done = None
		if pool is None:
			self.handles = []
			self.collect([_feeds(t) for t in tasks])
		else:
			self.handles = [pool.apply_async(_feeds, (t,)) for t in tasks]
			_OUTSTANDING.append(self)
			while len(_OUTSTANDING) > MAX_OUTSTANDING:
				_OUTSTANDING.pop(0).result()

	def collect(self, results):
		dev, n = [], 0
		for d, k in results:
			dev = dev + d
			n += k
		dev.sort(key=lambda d: d['idx'])
		self.done = (dev[:4], n, None)

	def result(self):
		if self.done is None:
			try:
				self.collect([h.get(WORKER_TIMEOUT) for h in self.handles])
			except Exception as exc:
				self.done = (None, 0, '%s: %s' % (type(exc).__name__, str(exc)[:200]))
			self.handles = []
		return self.done


def extra(o):
	"""the observation of the fragmented and sequential feeds, waited for when first looked at (coq_case is called for every case before any
	observation is written anywhere)"""
	x = o.get('extra')
	if x is not None and isinstance(x.get('deviations'), Pending):
		x['deviations'], x['n_deviations'], err = x['deviations'].result()
		if err:
			x['error'] = err
	return x


def framed(data):
	"""does the head of the composed message carry a Content-Length or Transfer-Encoding field?"""
	head = data.split(b'\r\n\r\n')[0].lower()
	return b'\r\ncontent-length:' in head or b'\r\ntransfer-encoding:' in head


COQ_PER_OCTET_MAX, COQ_PER_OCTET_SHARE = 200, 4   # wires up to this length, one in so many: the octet-by-octet run is also replayed by the parser model inside Coq
COQ_SEQ_MAX, COQ_SEQ_SHARE = 1200, 3             # ... and the run of three messages (chunked, the case's, Content-Length) on one machine


def observe_extra(c, kind, data, alone):
	"""(a) and (b) on the real opposite machine; the observation keeps the counts and the first feeds that did NOT deliver what the single call delivered"""
	want = delivery(alone)
	x = {}
	feeds = []
	# (a) fragmentations of the one message
	mc = multi_cuts(data)
	if mc:
		feeds.append(('fed in %d calls (%s)' % (len(mc) + 1, 'octet by octet' if len(mc) == len(data) - 1 else 'octet by octet around every CR / LF, blocks elsewhere'), data, mc, want))
	tc = two_call_cuts(data)
	x['two_call_cuts'] = len(tc)
	x['many_call_run'] = len(mc) + 1
	# (b) several messages on one machine
	pch, dch = primer(c['k'], True)
	pcl, dcl = primer(c['k'], False)

	def seq(label, parts, ds, per_octet=False):
		"""the messages `parts` (each with its delivery when parsed alone, `ds`), one call per element of `parts` (or per octet);
		expected: all the messages in order, as long as every one is complete and error-free"""
		exp = {'msgs': [], 'err': None, 'started': False, 'left': ''}
		for d in ds:
			exp['msgs'] = exp['msgs'] + d['msgs']
			if d['err'] is not None or d['started'] or d['left']:
				exp.update(err=d['err'], started=d['started'], left=d['left'])
				break
		octets = b''.join(parts)
		cuts, pos = [], 0
		for part in parts[:-1]:
			pos += len(part)
			cuts.append(pos)
		feeds.append((label, octets, list(range(1, len(octets))) if per_octet else cuts, exp))
	clean = want['err'] is None and not want['started'] and not want['left']
	seq('after a chunked message on the same machine', [pch, data], [dch, want])
	seq('after a Content-Length message on the same machine', [pcl, data], [dcl, want])
	seq('after both kinds of message, all octets in one call', [pcl + pch + data], [dcl, dch, want])
	if clean:
		seq('twice in a row on the same machine', [data, data], [want, want])
		seq('between messages of the other framing', [pch, data, pcl, data, pch], [dch, want, dcl, want, dch])
		# octets that follow, in the same call, a request without Content-Length and without chunked framing are taken for a body without
		# length (411: finding D13 of C01/C02, the buffer peek): such a message is followed by others only in later calls
		if kind == 'client' or framed(data):
			seq('twice in a row and then a Content-Length and a chunked message, all octets in one call', [data + data + pcl + pch], [want, want, dcl, dch])
		else:
			seq('twice in a row and then a Content-Length and a chunked message, three calls', [data, data, pcl + pch], [want, want, dcl, dch])
		if len(data) * 2 + len(pch) + len(pcl) <= PER_OCTET_MAX:
			seq('four messages on one machine, octet by octet', [pch, data, pcl, data], [dch, want, dcl, want], per_octet=True)
	x['feeds'] = len(feeds) + len(tc)
	x['deviations'] = Pending(kind, feeds, data, tc, want)
	# the runs that also go through the parser model inside Coq, with the callee tables of that very run; a fixed share of the wires (the
	# feeds above see every wire): cost of the Coq literals
	pick = int(hashlib.sha1(data).hexdigest()[:6], 16)
	if len(data) <= COQ_SEQ_MAX and pick % COQ_SEQ_SHARE == 0:
		frags = [pch, data, pcl] if clean else [pch, data]
		x['seq'] = parser_rec.run(kind, frags)
		x['seq']['frags'] = [f.hex() for f in frags]
	if len(data) <= COQ_PER_OCTET_MAX and (pick // 64) % COQ_PER_OCTET_SHARE == 0:
		frags = [data[i:i + 1] for i in range(len(data))]
		x['per_octet'] = parser_rec.run(kind, frags)
		x['per_octet']['frags'] = [f.hex() for f in frags]
	return x


def observe(c):
	case = dict(c)
	case['ops'] = _ops(c)
	case.setdefault('trailer', [])
	o = cr.run_ops(case)
	steps = o['ops']
	if steps and 'out' in steps[-1]:
		data = bytes.fromhex(steps[-1]['out'])
		kind = 'server' if c['k'] == 'req' else 'client'
		primer(c['k'], True), primer(c['k'], False)   # composed (and their composer tables recorded and dropped) before the case's own parse is recorded
		o['parse'] = parser_rec.run(kind, [data])
		o['extra'] = observe_extra(c, kind, data, o['parse'])
	return o


def coq_case(c, o):
	extra(o)
	if 'harness_exception' in o or 'parse' not in o:
		return None
	case = dict(c)
	case['ops'] = _ops(c)
	case.setdefault('trailer', [])
	ops, _ = cr.coq_ops(case, o)
	p = o['parse']
	calls = []
	for call in p['calls']:
		if 'err' in call:
			e = call['err']
			calls.append('(Corr.Parser.CoErr %s)' % ('(EHttp %s)' % N(e) if isinstance(e, int) else 'EEscape'))
		else:
			calls.append('(Corr.Parser.CoMsgs %s)' % L([parser_rec.coq_msg(m) for m in call['msgs']], 'msg'))
	final = '(@None (bytes * bool))'
	if 'final' in p:
		final = '(Some (%s, %s))' % (X(bytes.fromhex(p['final']['buf'])), B(p['final']['started']))
	out = ['XR (CRound %s (%s %s) %s %s %s %s %s)' % (cr.coq_tables(o), 'MReq' if c['k'] == 'req' else 'MResp', cr.coq_message(case, o), ops,
		X(bytes.fromhex(o['ops'][-1]['out'])), parser_rec.coq_tables(p['tables']), L(calls, 'Corr.Parser.callobs'), final)]
	# the parser model on the real octets: octet by octet, and several messages on one machine (short wires; the oracle does this for every wire)
	for key in ('per_octet', 'seq'):
		run = o.get('extra', {}).get(key)
		if run is not None:
			out.append('XP (%s)' % parser_rec.coq_parse_case('server' if c['k'] == 'req' else 'client', [bytes.fromhex(f) for f in run['frags']], run))
	return out


# ---------------------------------------------------------------- the property, stated on the implementation
MANAGED = {'content-length', 'transfer-encoding', 'connection', 'date', 'host', 'user-agent', 'accept', 'content-type', 'accept-ranges', 'allow', 'content-range'}
REMOVED_304 = {'allow', 'content-encoding', 'content-language', 'content-length', 'content-md5', 'content-range', 'content-type', 'expires', 'location'}


def dropped(c):
	if c['k'] == 'req':
		return c['method'] in ('GET', 'HEAD', 'SEARCH')
	s = c['status']
	return s < 200 or s in (204, 205, 304) or c.get('rmethod') == 'HEAD'


def oracle(c, o):
	if 'harness_exception' in o:
		return 'harness exception: %s' % o['harness_exception']
	steps = o['ops']
	if not steps or 'out' not in steps[-1]:
		return 'preparing or composing raised %s: %s' % (steps[-1].get('raised'), steps[-1].get('msg')) if steps else 'nothing composed'
	p = o['parse']
	calls = p['calls']
	if 'err' in calls[0]:
		return 'the opposite state machine refuses the composed message: %s' % (calls[0]['err'],)
	msgs = calls[0]['msgs']
	if len(msgs) != 1:
		return 'the opposite state machine delivers %d messages for one composed message (parser still waiting: %s)' % (len(msgs), p.get('final', {}).get('started'))
	if p['final']['buf'] or p['final']['started']:
		return 'octets are left over after the delivered message'
	m = msgs[0]
	content = cr.body_content(c['body'])
	want = b'' if dropped(c) else content
	if bytes.fromhex(m['body']) != want:
		return 'delivered body (%d octets) differs from the content supplied (%d octets)' % (len(m['body']) // 2, len(want))
	if m['protocol'] != list(c['version']):
		return 'version %r became %r' % (c['version'], m['protocol'])
	if c['k'] == 'req':
		if m['method'] != c['method']:
			return 'method %r became %r' % (c['method'], m['method'])
		segs = [s.replace('%2f', '/') for s in m['uri']['path'].split('/')]
		if segs != c['segs']:
			return 'path segments %r became %r' % (c['segs'], segs)
		from httoop import URI
		u = URI()
		u.query_string = m['uri']['query_string']
		q = [list(x) for x in u.query]
		if q != (c['query'] or []):
			return 'query pairs %r became %r' % (c['query'], q)
	else:
		if m['status'] != c['status']:
			return 'status %r became %r' % (c['status'], m['status'])
		if m['reason'] != bytes.fromhex(o['init']['reason']).decode('ascii'):
			return 'reason %r became %r' % (bytes.fromhex(o['init']['reason']), m['reason'])
	got = dict((bytes.fromhex(k).lower(), bytes.fromhex(v)) for k, v in m['hdrs'])
	for name, value in c.get('hdrs', []):
		ln = name.lower()
		if ln in MANAGED:
			continue
		if c['k'] == 'resp' and c['status'] == 304 and ln in REMOVED_304:
			continue
		if c['k'] == 'req' and c['method'] == 'TRACE' and ln in ('cookie', 'www-authenticate'):
			continue
		if c['k'] == 'resp' and c.get('rmethod') == 'TRACE' and ln == 'set-cookie':
			continue
		if got.get(ln.encode('ascii')) != bytes.fromhex(value):
			return 'header field %s: %r became %r' % (name, bytes.fromhex(value), got.get(ln.encode('ascii')))
		# ... and the same value as text: what the application reads with headers[name] (Latin-1 text in, Latin-1 text out;
		# values that look like RFC 2047 encoded words are known finding D16 of C08 and skipped)
		raw = bytes.fromhex(value)
		if b'=?' not in raw:
			from httoop import Headers
			h = Headers()
			h[name] = raw
			try:
				text = h[name]
			except Exception as exc:
				return 'header field %s: value %r cannot be read as text: %s' % (name, raw, type(exc).__name__)
			if text != raw.decode('ISO8859-1'):
				return 'header field %s: the text %r set by the caller is read back as %r' % (name, raw.decode('ISO8859-1'), text)
	# the same single delivery however the octets are cut into calls, and whatever the machine has parsed before
	x = extra(o)
	if x is None or x['deviations'] is None:
		return 'the fragmented and sequential feeds were not observed: %s' % ((x or {}).get('error'),)
	if x['deviations']:
		d = x['deviations'][0]
		return 'delivery depends on the feed: %s: %r instead of %r (%d of %d feeds differ)' % (d['how'], d['got'], d['want'], x['n_deviations'], x['feeds'])
	return None


def classify(c, o, fail):
	if fail.startswith('delivery depends on the feed') or fail.startswith('the fragmented and sequential feeds'):
		return None   # the single call delivered the message as required: no known finding is about how the octets are cut or what came before
	content = cr.body_content(c['body'])
	coding = c.get('coding')
	chunked = bool(c.get('chunked')) or (c['k'] == 'resp' and coding in ('gzip', 'deflate'))
	if c['k'] == 'req' and c['method'] == 'TRACE' and content and 'refuses' in fail:
		return 'D51-trace-request-body'
	if c['k'] == 'req' and any(':' in s for s in c['segs']) and 'refuses' in fail:
		return 'D49-colon-in-request-path'
	if c['k'] == 'resp' and c.get('reason') is None and o.get('init', {}).get('reason') == '' and 'refuses' in fail:
		return 'D48-empty-reason-phrase'
	if c['version'] == [1, 0] and chunked:
		return 'D47-chunked-on-http10'
	if c['k'] == 'resp' and (c['status'] < 200 or c['status'] in (204, 304) or c.get('rmethod') == 'HEAD'):
		return 'D50-client-ignores-bodiless'
	if c['k'] == 'req' and coding in ('gzip', 'deflate') and not c.get('chunked'):
		return 'D43-request-coding-content-length'
	return None


def nontrivial(c, o):
	extra(o)
	if 'parse' not in o:
		return ('no-output', c['k'])
	calls = o['parse']['calls']
	outcome = calls[0].get('err', len(calls[0].get('msgs', [])))
	return (c['k'], outcome, c['body']['t'], bool(c.get('chunked')), c.get('coding'), min(len(cr.body_content(c['body'])) // 4096, 3), tuple(c['version']),
		c.get('status'), c.get('method'), len(c.get('hdrs', [])))


LEVEL_TEXT = ('Machine-checked Coq theorems on the composition of two executable Gallina models (composer, parser state machine): for every message of the composer model with '
	'Content-Length or chunked framing, every header collection of token names and CR/LF-free values, every body source and every content coder with decomp(comp x) = x, '
	'the parser model fed the composed octets delivers exactly one message with the same start line, the caller-set fields and the content; the per-piece coding of the pinned '
	'tree is stated as it is (multi-piece bodies need a multi-member decoder: true of gzip, false of deflate - finding D42). Both models are tied to /repo on every run '
	'(tables regenerated, ~2000 compose->parse round trips replayed inside Coq with recorded callee tables).')
LEVEL_NOTE = ('Trusted: Coq kernel + vm_compute; T1/T2/T3 harness; zlib/gzip, URI composition/parsing and header-semantics hooks are parameters with stated hypotheses. '
	'Known findings D43, D47-D51 delimit the domain. No axioms (Print Assumptions: closed).')
TECHNIQUE = 'Coq proof on composed Gallina models (composer o parser) + vm_compute correspondence of both against the implementation'
